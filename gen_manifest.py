#!/usr/bin/env python3
"""Regenerates MANIFEST.json from checks.json (one entry per claimed property)
and properties.jsonl (everything not claimed goes to not_applicable).
Usage: python3 gen_manifest.py"""
import json, os, sys
here = os.path.dirname(os.path.abspath(__file__))
props = [json.loads(l) for l in open(os.path.join(here, 'properties.jsonl')) if l.strip()]
claims = json.load(open(os.path.join(here, 'checks.json')))
checks = []
na = []
for p in props:
    pid = p['id']
    c = claims.get(pid)
    if not c or c.get('not_applicable'):
        na.append({'property_id': pid, 'reason': (c or {}).get('not_applicable', 'analyser not built yet (see DESIGN.md section 8)')})
        continue
    checks.append({
        'property_id': pid,
        'quick_cmd': './run.sh %s quick' % pid,
        'thorough_cmd': './run.sh %s thorough' % pid,
        'evidence_file': '/verif/evidence/%s.json' % pid,
        'replay_cmd_template': 'cat {path}',
        'engine': 'webpcheck',
        'level_claimed': {'category': 'other', 'text': c['text'], 'design_ref': c.get('design_ref', 'DESIGN.md section 4 ' + pid)},
        'level_note': c['note'],
        'technique': c['technique'],
    })
m = {
    'version': 1,
    'setup_cmd': './setup.sh',
    'hooks': {'guard': 'verif', 'enable': 'none: the analyser reads the unmodified source, no hooks or instrumentation exist',
              'baseline_off_cmd': 'cd /repo && GOFLAGS=-mod=mod GOPROXY=off go test -vet=off -count=1 ./...',
              'source_commits': [], 'add_only': True},
    'engines': [{'name': 'webpcheck', 'path': '/verif/tool', 'serves_properties': [c['property_id'] for c in checks],
                 'kind_free_text': 'repository-specific static analyser (go/packages + go/types + go/ssa + VTA call graph, golang.org/x/tools v0.29.0); never executes webp code'}],
    'checks': checks,
    'not_applicable': na,
    'notes': 'Technique family: static analysis only. Every check decides named structural clauses (necessary conditions) of its property from the source of /repo and says in its evidence what it does not cover. Known defects: known_findings.txt.',
}
json.dump(m, open(os.path.join(here, 'MANIFEST.json'), 'w'), indent=1)
print('checks:', [c['property_id'] for c in checks])
print('not_applicable:', [n['property_id'] for n in na])
