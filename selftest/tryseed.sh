#!/bin/sh
# usage: tryseed.sh <prop> <patch.diff> : applies the patch to a scratch worktree of /repo HEAD and runs the quick check on it
cd "$(dirname "$0")/.." || exit 2
export GOFLAGS=-mod=mod GOPROXY=off GOWORK=off
TMP=$(mktemp -d "${TMPDIR:-/tmp}/webp-try.XXXXXX")
trap 'git -C /repo worktree remove --force "$TMP/wt" >/dev/null 2>&1; rm -rf "$TMP"' EXIT
git -C /repo worktree add --detach "$TMP/wt" HEAD >/dev/null 2>&1 || exit 2
git -C "$TMP/wt" apply "$2" || { echo "PATCH DOES NOT APPLY"; exit 3; }
(cd "$TMP/wt" && go build ./...) || { echo "DOES NOT BUILD"; exit 3; }
VERIF_EVIDENCE_DIR="$TMP/ev" ${WC:-bin/webpcheck} -prop "$1" -tier "${3:-quick}" -repo "$TMP/wt" -verif "$(pwd)" 2>&1 | grep -v '^VIOLATION' | cut -c1-500
