#!/bin/sh
# Both-way self-test of the analysers. For every selftest/patches/<prop>/<name>.diff:
# apply it to a scratch worktree of /repo (outside /repo and /verif), run the property's
# quick check against the scratch tree, and require (a) exit 1 and (b) every "# expect:" substring
# of the patch header in the report. Evidence of these runs goes to a temp dir, never to /verif/evidence.
# usage: selftest.sh [prop ...]
cd "$(dirname "$0")/.." || exit 2
VERIF=$(pwd)
export GOFLAGS=-mod=mod GOPROXY=off GOWORK=off
[ -x bin/webpcheck ] || ./setup.sh >/dev/null || exit 2
TMP=$(mktemp -d "${TMPDIR:-/tmp}/webp-selftest.XXXXXX")
trap 'git -C /repo worktree remove --force "$TMP/wt" >/dev/null 2>&1; rm -rf "$TMP"' EXIT
git -C /repo worktree add --detach "$TMP/wt" HEAD >/dev/null 2>&1 || { echo "cannot create worktree"; exit 2; }
props="$*"; [ -z "$props" ] && props=$(ls selftest/patches)
fail=0; n=0
for prop in $props; do
  for pf in selftest/patches/$prop/${PATTERN:-*}.diff; do
    [ -f "$pf" ] || continue
    n=$((n+1))
    git -C "$TMP/wt" checkout -q -- . && git -C "$TMP/wt" clean -fdq
    if ! git -C "$TMP/wt" apply "$VERIF/$pf" 2>"$TMP/err"; then echo "FAIL $pf: patch does not apply: $(head -1 "$TMP/err")"; fail=1; continue; fi
    if ! (cd "$TMP/wt" && go build ./... 2>"$TMP/err"); then echo "FAIL $pf: mutated tree does not build: $(head -3 "$TMP/err")"; fail=1; continue; fi
    VERIF_EVIDENCE_DIR="$TMP/ev" ${WC:-bin/webpcheck} -prop "$prop" -tier quick -repo "$TMP/wt" -verif "$VERIF" >"$TMP/out" 2>&1
    rc=$?
    ok=1
    if grep -q '^# expect-clean' "$pf"; then
      [ $rc -eq 0 ] || { ok=0; why="exit $rc, expected 0 (behaviour-preserving edit must not raise an alarm)"; }
    else
      [ $rc -eq 1 ] || { ok=0; why="exit $rc, expected 1"; }
    fi
    grep '^# expect:' "$pf" | sed 's/^# expect: *//' >"$TMP/exp"
    while IFS= read -r e; do
      grep -qF -- "$e" "$TMP/out" || { ok=0; why="report lacks: $e"; }
    done <"$TMP/exp"
    if [ $ok -eq 1 ]; then echo "ok   $pf"; else echo "FAIL $pf: $why"; grep -v '^VIOLATION' "$TMP/out" | tail -3 | cut -c1-300; fail=1; fi
  done
done
echo "selftest: $n patches, fail=$fail"
exit $fail
