#!/usr/bin/env python3
"""mkpatch.py <prop> <name> <file> <expect-substring>...  (reads OLD and NEW text from stdin separated by a line '=====')
Creates selftest/patches/<prop>/<name>.diff by replacing OLD with NEW (exactly once) in <file> of a scratch worktree of /repo."""
import subprocess, sys, os, tempfile, shutil
prop, name, path = sys.argv[1:4]
expects = sys.argv[4:]
pairs = []
for chunk in sys.stdin.read().split('\n#####\n'):
    o, n = chunk.split('\n=====\n') if '\n=====\n' in chunk else (chunk.rstrip('\n').rsplit('\n=====',1)[0], '')
    pairs.append((o.strip('\n'), n.rstrip('\n').lstrip('\n')))
tmp = tempfile.mkdtemp(prefix='webp-mk.')
wt = os.path.join(tmp, 'wt')
subprocess.check_call(['git', '-C', '/repo', 'worktree', 'add', '--detach', wt, 'HEAD'], stdout=subprocess.DEVNULL, stderr=subprocess.DEVNULL)
try:
    p = os.path.join(wt, path)
    s = open(p).read()
    for old, new in pairs:
        if s.count(old) != 1:
            sys.exit('OLD occurs %d times in %s: %r' % (s.count(old), path, old[:60]))
        s = s.replace(old, new)
    open(p, 'w').write(s)
    diff = subprocess.check_output(['git', '-C', wt, 'diff'], text=True)
    d = os.path.join('/verif/selftest/patches', prop)
    os.makedirs(d, exist_ok=True)
    with open(os.path.join(d, name + '.diff'), 'w') as f:
        for e in expects:
            if e == 'CLEAN':
                f.write('# expect-clean\n')
            else:
                f.write('# expect: %s\n' % e)
        f.write(diff)
    print('wrote', os.path.join(d, name + '.diff'))
finally:
    subprocess.call(['git', '-C', '/repo', 'worktree', 'remove', '--force', wt], stdout=subprocess.DEVNULL, stderr=subprocess.DEVNULL)
    shutil.rmtree(tmp, ignore_errors=True)
