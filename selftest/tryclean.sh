#!/bin/sh
# usage: tryclean.sh <patch.diff> [ids...] : applies a behaviour-preserving patch to a scratch worktree of /repo HEAD
# and runs every quick check on it; each reported violation is a false alarm of the machinery.
cd "$(dirname "$0")/.." || exit 2
export GOFLAGS=-mod=mod GOPROXY=off GOWORK=off
P="$1"; shift
IDS="${*:-C01 C02 C03 C04 C05 C06 C07 C08 C09 C10 C11 C12 C13 C14 C15 C16 C17 C18 C19 C20}"
TMP=$(mktemp -d "${TMPDIR:-/tmp}/webp-clean.XXXXXX")
trap 'git -C /repo worktree remove --force "$TMP/wt" >/dev/null 2>&1; rm -rf "$TMP"' EXIT
git -C /repo worktree add --detach "$TMP/wt" HEAD >/dev/null 2>&1 || exit 2
git -C "$TMP/wt" apply "$P" || { echo "PATCH DOES NOT APPLY"; exit 3; }
(cd "$TMP/wt" && go build ./...) || { echo "DOES NOT BUILD"; exit 3; }
rc=0
for id in $IDS; do
	out=$(VERIF_EVIDENCE_DIR="$TMP/ev" ${WC:-bin/webpcheck} -prop "$id" -tier quick -repo "$TMP/wt" -verif "$(pwd)" 2>&1)
	if [ $? -ne 0 ]; then
		rc=1
		echo "== FALSE ALARM $id on $P"
		echo "$out" | grep -v '^VIOLATION' | cut -c1-600 | head -20
	fi
done
[ $rc -eq 0 ] && echo "clean: $P"
exit $rc
