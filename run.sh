#!/bin/sh
# usage: run.sh <property-id> [quick|thorough] [extra webpcheck flags]
# Rebuilds nothing from /repo ahead of time: the analyser loads and type-checks
# /repo's current working tree on every run.
cd "$(dirname "$0")" || exit 2
export GOFLAGS=-mod=mod GOPROXY=off GOWORK=off
unset GOTOOLCHAIN GOSUMDB GOOS GOARCH
prop="$1"; tier="${2:-${VERIF_TIER:-quick}}"
[ $# -ge 2 ] && shift 2 || shift 1
if [ ! -x bin/webpcheck ] || [ -n "$(find tool -name '*.go' -newer bin/webpcheck 2>/dev/null | head -1)" ]; then
  ./setup.sh >/dev/null || { echo "setup failed"; exit 2; }
fi
exec bin/webpcheck -prop "$prop" -tier "$tier" -repo "${VERIF_REPO:-/repo}" -verif "$(pwd)" "$@"
