#!/bin/sh
# builds the analyser from files on disk only (offline)
cd "$(dirname "$0")/tool" || exit 2
export GOFLAGS=-mod=mod GOPROXY=off GOWORK=off
unset GOTOOLCHAIN GOSUMDB GOOS GOARCH
mkdir -p ../bin ../evidence
go build -o ../bin/webpcheck . || exit 2
echo "built bin/webpcheck"
