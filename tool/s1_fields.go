package main

// S1: object-relative field summaries. For a pointer value `this` to a struct,
// a forward must-write dataflow over SSA computes which locations of *this are
// read before being (fully) written ("upward-exposed reads", UE) and which are
// must-written at the success returns. Locations:
//   "f"     field f as a whole (scalar, pointer, slice header, or whole struct/array)
//   "f.g"   sub-field g of struct-typed field f
//   "f[]"   the elements of slice/array field f (contents)
// Interprocedural by memoised summaries per (function, parameter).

import (
	"go/token"
	"go/types"
	"sort"
	"strings"

	"golang.org/x/tools/go/ssa"
)

type locSet map[string]bool

func (a locSet) clone() locSet {
	r := make(locSet, len(a))
	for k := range a {
		r[k] = true
	}
	return r
}
func locInter(a, b locSet) locSet {
	if a["⊤"] {
		return b.clone()
	}
	if b["⊤"] {
		return a.clone()
	}
	r := locSet{}
	for k := range a {
		if b[k] {
			r[k] = true
		}
	}
	return r
}
func locEq(a, b locSet) bool {
	if len(a) != len(b) {
		return false
	}
	for k := range a {
		if !b[k] {
			return false
		}
	}
	return true
}
func (a locSet) sorted() []string {
	var r []string
	for k := range a {
		r = append(r, k)
	}
	sort.Strings(r)
	return r
}

type ueSite struct {
	pos  token.Pos
	via  string // function in which the exposing read occurs
	note string
}

type s1sum struct {
	ue      map[string]ueSite // location -> first exposing read
	mw      locSet            // must-written at every success return
	mayW    locSet            // may-written anywhere (any partial or full store)
	retThis bool
	mwRet   locSet // must-written on returns that return this
	escapes []string
}

type s1key struct {
	fn    *ssa.Function
	param int // index into fn.Params; -1-k = FreeVars[k]
	cons  bool
}

type s1 struct {
	p      *Program
	sums   map[s1key]*s1sum
	inprog map[s1key]bool
	// slice parameter summaries
	prov          map[s1key]*s1sum
	recursed      map[s1key]bool
	dependsOnProv map[s1key]bool
	ssums         map[s1key]*sliceSum
	sinprog       map[s1key]bool
	// benign header reads: UE reads of a slice header used only for cap()/reslice-store-back/nil test
	constOnly bool
	partial   []partialFill // raster fills of tracked buffers that skip elements on some path
}

func (s *s1) Partial() []partialFill { return s.partial }

func newS1(p *Program) *s1 {
	return &s1{p: p, sums: map[s1key]*s1sum{}, inprog: map[s1key]bool{}, prov: map[s1key]*s1sum{}, recursed: map[s1key]bool{}, dependsOnProv: map[s1key]bool{}, ssums: map[s1key]*sliceSum{}, sinprog: map[s1key]bool{}}
}

// structOf returns the struct type pointed to by t (pointer to (named) struct), or nil.
func structOf(t types.Type) *types.Struct {
	p, ok := t.Underlying().(*types.Pointer)
	if !ok {
		return nil
	}
	s, _ := p.Elem().Underlying().(*types.Struct)
	return s
}

// run is one intraprocedural analysis instance.
type s1run struct {
	s        *s1
	fn       *ssa.Function
	this     map[ssa.Value]bool   // values equal to the object pointer
	thisInit map[ssa.Value]locSet // W to install when the defining instruction executes
	st       *types.Struct
	cons     bool // count only constant/fresh stores as writes (release functions)
	ue       map[string]ueSite
	mayW     locSet
	loopExit map[*ssa.BasicBlock]map[*ssa.BasicBlock]locSet // header -> exit succ -> full-range writes
	probe    map[ssa.Instruction]locSet
	escapes  []string
	roots    map[ssa.Value]string // extra tracked slice values (A2b): value -> pseudo location
	rootAddr map[addrKeyT]string  // addresses a root value is stored into: loads from them alias the root
	rootEsc  map[string]string    // pseudo location -> where it was stored into other memory unwritten
	assume   map[ssa.Value]bool   // boolean specialisation: edges contradicting these values are dead
}

// edgeDead: under the run's assumptions the edge p -> b is never taken.
func (r *s1run) edgeDead(p, b *ssa.BasicBlock) bool {
	if len(r.assume) == 0 || len(p.Succs) != 2 {
		return false
	}
	iff, ok := p.Instrs[len(p.Instrs)-1].(*ssa.If)
	if !ok {
		return false
	}
	cond := iff.Cond
	neg := false
	for {
		if u, ok := cond.(*ssa.UnOp); ok && u.Op == token.NOT {
			cond = u.X
			neg = !neg
			continue
		}
		break
	}
	v, ok := r.assume[cond]
	if !ok {
		return false
	}
	if neg {
		v = !v
	}
	// v true: only Succs[0] is taken
	if v {
		return b == p.Succs[1] && p.Succs[0] != p.Succs[1]
	}
	return b == p.Succs[0] && p.Succs[0] != p.Succs[1]
}

// splitCandidates: boolean values tested (possibly negated) in at least two blocks and defined
// outside every loop (so that they have one value per call).
func splitCandidates(fn *ssa.Function) []ssa.Value {
	count := map[ssa.Value]int{}
	for _, b := range fn.Blocks {
		iff, ok := b.Instrs[len(b.Instrs)-1].(*ssa.If)
		if !ok {
			continue
		}
		cond := iff.Cond
		for {
			if u, ok := cond.(*ssa.UnOp); ok && u.Op == token.NOT {
				cond = u.X
				continue
			}
			break
		}
		count[cond]++
	}
	inLoop := map[*ssa.BasicBlock]bool{}
	for _, b := range fn.Blocks {
		if li := loopOf(b); li != nil {
			for bb := range li.body {
				inLoop[bb] = true
			}
		}
	}
	var out []ssa.Value
	for v, n := range count {
		if n < 2 {
			continue
		}
		switch x := v.(type) {
		case *ssa.Parameter:
			out = append(out, v)
		case ssa.Instruction:
			if !inLoop[x.Block()] {
				out = append(out, v)
			}
		}
	}
	sort.Slice(out, func(i, j int) bool { return out[i].Name() < out[j].Name() })
	if len(out) > 4 {
		out = out[:4]
	}
	return out
}

// vpath resolves a value to a location path relative to this.
// kind: 0 = not related, 1 = address of location (path), 2 = address inside elements of path,
// 3 = slice/array-pointer value whose elements are path's elements, 4 = the object pointer itself
func (r *s1run) vpath(v ssa.Value, depth int) (path []string, kind int) {
	if depth > 12 {
		return nil, 0
	}
	if r.this[v] {
		return nil, 4
	}
	if name, ok := r.roots[v]; ok {
		return []string{name}, 3
	}
	if r.rootAddr != nil {
		if ld, ok := v.(*ssa.UnOp); ok && ld.Op == token.MUL {
			if k, ok := addrKey(ld); ok {
				if name, ok := r.rootAddr[k]; ok {
					return []string{name}, 3
				}
			}
		}
	}
	switch x := v.(type) {
	case *ssa.FieldAddr:
		bp, k := r.vpath(x.X, depth+1)
		switch k {
		case 4, 1:
			st := structOf(x.X.Type())
			if st == nil {
				return nil, 0
			}
			return append(append([]string{}, bp...), st.Field(x.Field).Name()), 1
		case 2:
			return bp, 2
		}
	case *ssa.IndexAddr:
		bp, k := r.vpath(x.X, depth+1)
		switch k {
		case 1: // address of array field
			return bp, 2
		case 2, 3:
			return bp, 2
		}
	case *ssa.UnOp:
		if x.Op == token.MUL {
			if a, ok := x.X.(*ssa.Alloc); ok {
				// local variable cell: every store puts a value with the same path
				var p0 []string
				k0 := -1
				for _, u := range *a.Referrers() {
					st, ok := u.(*ssa.Store)
					if !ok || st.Addr != ssa.Value(a) {
						continue
					}
					bp, k := r.vpath(st.Val, depth+1)
					if k0 == -1 {
						p0, k0 = bp, k
					} else if k != k0 || strings.Join(bp, ".") != strings.Join(p0, ".") {
						return nil, 0
					}
				}
				if k0 == 3 || k0 == 2 {
					return p0, k0
				}
				return nil, 0
			}
			bp, k := r.vpath(x.X, depth+1)
			if k == 1 {
				switch x.Type().Underlying().(type) {
				case *types.Slice:
					return bp, 3
				}
			}
			if k == 2 {
				// loading a slice stored inside elements: still within path's elements
				if _, ok := x.Type().Underlying().(*types.Slice); ok {
					return bp, 3
				}
			}
		}
	case *ssa.Slice:
		bp, k := r.vpath(x.X, depth+1)
		switch k {
		case 1: // slicing an array field through its address
			return bp, 3
		case 2, 3:
			return bp, 3
		}
	case *ssa.Phi:
		var p0 []string
		k0 := -1
		for _, e := range x.Edges {
			if e == v {
				continue
			}
			if c, ok := e.(*ssa.Const); ok && c.IsNil() {
				continue
			}
			if r.roots != nil {
				if _, ok := e.(*ssa.MakeSlice); ok {
					continue
				}
			}
			bp, k := r.vpath(e, depth+1)
			if k0 == -1 {
				p0, k0 = bp, k
			} else if k != k0 || strings.Join(bp, ".") != strings.Join(p0, ".") {
				return nil, 0
			}
		}
		if k0 > 0 && k0 != 4 {
			return p0, k0
		}
	case *ssa.ChangeType:
		return r.vpath(x.X, depth+1)
	case *ssa.Convert:
		return r.vpath(x.X, depth+1)
	}
	return nil, 0
}

// loc collapses a path to a tracked location (depth <= 2). exact=false if collapsed.
func locOf(path []string) (string, bool) {
	switch len(path) {
	case 0:
		return "", false
	case 1:
		return path[0], true
	case 2:
		return path[0] + "." + path[1], true
	default:
		return path[0] + "." + path[1], false
	}
}

func (r *s1run) fieldType(name string) types.Type {
	for i := 0; i < r.st.NumFields(); i++ {
		if r.st.Field(i).Name() == name {
			return r.st.Field(i).Type()
		}
	}
	return nil
}

// written reports whether loc is covered by W.
// nestedFieldType: type of the location a.b.c (struct fields only).
func (r *s1run) nestedFieldType(loc string) types.Type {
	parts := strings.Split(loc, ".")
	t := r.fieldType(parts[0])
	for _, pn := range parts[1:] {
		if t == nil {
			return nil
		}
		st, ok := t.Underlying().(*types.Struct)
		if !ok {
			return nil
		}
		var nt types.Type
		for j := 0; j < st.NumFields(); j++ {
			if st.Field(j).Name() == pn {
				nt = st.Field(j).Type()
			}
		}
		t = nt
	}
	return t
}

func (r *s1run) written(w locSet, loc string) bool {
	if w[loc] || w["⊤"] {
		return true
	}
	if strings.HasSuffix(loc, "[]") {
		base := strings.TrimSuffix(loc, "[]")
		// an array field written as a whole covers its elements
		if i := strings.Index(base, "."); i < 0 {
			if t := r.fieldType(base); t != nil {
				if _, isArr := t.Underlying().(*types.Array); isArr && w[base] {
					return true
				}
			}
		} else if w[base[:i]] {
			// sub-field elements: covered when the parent struct field was written as a whole with a fresh value
			return w[base[:i]+"[]fresh"]
		}
		return false
	}
	// a whole array (sub-)field read as a value (range over the array, comparison with a literal):
	// covered when every element was written
	if t := r.nestedFieldType(loc); t != nil {
		if _, isArr := t.Underlying().(*types.Array); isArr && w[loc+"[]"] {
			return true
		}
	}
	if i := strings.Index(loc, "."); i >= 0 {
		return w[loc[:i]]
	}
	// whole struct field: all sub-fields written individually
	if t := r.fieldType(loc); t != nil {
		if st, ok := t.Underlying().(*types.Struct); ok && st.NumFields() > 0 {
			for j := 0; j < st.NumFields(); j++ {
				if !w[loc+"."+st.Field(j).Name()] {
					return false
				}
			}
			return true
		}
	}
	return false
}

func (r *s1run) read(w locSet, loc string, pos token.Pos, note string) {
	if loc == "" {
		return
	}
	if r.written(w, loc) {
		return
	}
	if _, ok := r.ue[loc]; !ok {
		r.ue[loc] = ueSite{pos, FnName(r.fn), note}
	}
}

// readAllUnder: reading a whole struct field reads its sub-locations.
func (r *s1run) readWhole(w locSet, path []string, pos token.Pos, note string) {
	loc, _ := locOf(path)
	if len(path) == 1 {
		if t := r.fieldType(loc); t != nil {
			if st, ok := t.Underlying().(*types.Struct); ok && st.NumFields() > 0 && !w[loc] {
				for j := 0; j < st.NumFields(); j++ {
					r.read(w, loc+"."+st.Field(j).Name(), pos, note)
				}
				return
			}
		}
	}
	r.read(w, loc, pos, note)
}

func isFreshValue(v ssa.Value) bool {
	switch x := v.(type) {
	case *ssa.Const:
		return true
	case *ssa.MakeSlice, *ssa.MakeMap, *ssa.MakeChan:
		return true
	case *ssa.Alloc:
		return true
	case *ssa.UnOp:
		// load of a fresh local composite (zero value struct literal): Alloc + Load
		if x.Op == token.MUL {
			if a, ok := x.X.(*ssa.Alloc); ok {
				// only stores of constants into the alloc
				for _, ref := range *a.Referrers() {
					switch s := ref.(type) {
					case *ssa.Store:
						if s.Addr == a {
							if !isFreshValue(s.Val) {
								return false
							}
						}
					case *ssa.UnOp, *ssa.DebugRef:
					case *ssa.FieldAddr, *ssa.IndexAddr:
						return false
					default:
						return false
					}
				}
				return true
			}
		}
	case *ssa.Slice:
		return isFreshValue(x.X)
	case *ssa.Call:
		// new object from a constructor-like builtin
		if b, ok := x.Call.Value.(*ssa.Builtin); ok && (b.Name() == "new" || b.Name() == "make") {
			return true
		}
		// a zeroed buffer from a reuse-or-allocate helper
		if _, ok := reuseHelper(x.Call.StaticCallee()); ok {
			return true
		}
	}
	return false
}

// isConstLike: value does not depend on the object's previous life (constants only).
func isConstLike(v ssa.Value) bool {
	switch x := v.(type) {
	case *ssa.Const:
		return true
	case *ssa.UnOp:
		if x.Op == token.MUL {
			return isFreshValue(v)
		}
	case *ssa.MakeSlice, *ssa.Alloc:
		return true
	}
	return false
}

func (r *s1run) store(w locSet, st *ssa.Store) {
	path, k := r.vpath(st.Addr, 0)
	switch k {
	case 1:
		loc, exact := locOf(path)
		r.mayW[loc] = true
		if !exact {
			return // deeper than tracked: partial
		}
		if r.cons && !isConstLike(st.Val) {
			// release function: a reslice of itself to constant bounds is a header reset
			if sl, ok := st.Val.(*ssa.Slice); ok {
				if vp, vk := r.vpath(sl.X, 0); vk == 3 && strings.Join(vp, ".") == strings.Join(path, ".") && constOrNil(sl.Low) && constOrNil(sl.High) {
					w[loc] = true
				}
			}
			return
		}
		w[loc] = true
		// contents
		if isFreshValue(st.Val) {
			w[loc+"[]"] = true
			if len(path) == 1 {
				w[loc+"[]fresh"] = true
			}
		} else if vp, vk := r.vpath(st.Val, 0); vk == 3 {
			src, _ := locOf(vp)
			if src != loc {
				if r.written(w, src+"[]") {
					w[loc+"[]"] = true
				} else {
					delete(w, loc+"[]")
				}
			}
			// reslice of itself: contents unchanged
		} else if vk == 0 {
			switch st.Val.Type().Underlying().(type) {
			case *types.Slice, *types.Pointer, *types.Map:
				// memory not owned by the pooled object (argument, fresh allocation elsewhere)
				w[loc+"[]"] = true
			}
		}
	case 4:
		// *this = T{...}: every field is overwritten
		if len(path) == 0 && r.st != nil {
			fresh := isFreshValue(st.Val)
			for i := 0; i < r.st.NumFields(); i++ {
				f := r.st.Field(i).Name()
				r.mayW[f] = true
				if fresh {
					w[f] = true
					w[f+"[]"] = true
				}
			}
		}
	case 2:
		loc, _ := locOf(path)
		r.mayW[loc+"[]"] = true
	case 0:
		// a pooled location's address or slice value escaping into other memory
		if vp, vk := r.vpath(st.Val, 0); vk == 3 || vk == 2 || vk == 1 {
			if a, ok := st.Addr.(*ssa.Alloc); ok && (vk == 3 || vk == 2) {
				if _, ak := r.vpath(&ssa.UnOp{Op: token.MUL, X: a}, 0); ak == vk {
					return
				}
			}
			loc, _ := locOf(vp)
			if vk == 1 {
				r.readWhole(w, vp, st.Pos(), "address stored elsewhere")
			}
			if r.roots != nil {
				if k, ok := addrKey(&ssa.UnOp{Op: token.MUL, X: st.Addr}); ok && r.rootAddr != nil {
					if _, isAlias := r.rootAddr[k]; isAlias {
						return
					}
				}
			}
			if r.roots != nil && !r.written(w, loc+"[]") {
				if r.rootEsc == nil {
					r.rootEsc = map[string]string{}
				}
				if _, ok := r.rootEsc[loc]; !ok {
					r.rootEsc[loc] = describeAddr(st.Addr)
				}
				return
			}
			r.read(w, loc+"[]", st.Pos(), "slice stored elsewhere")
		} else if vk == 4 {
			if a, ok := st.Addr.(*ssa.Alloc); ok && r.cellHoldsThis(a) {
				return
			}
			r.escapes = append(r.escapes, r.s.p.Pos(st.Pos())+" in "+FnName(r.fn))
		}
	}
}

func deadValue(v ssa.Value) bool {
	refs := v.Referrers()
	if refs == nil {
		return false
	}
	for _, u := range *refs {
		if _, ok := u.(*ssa.DebugRef); !ok {
			return false
		}
	}
	return true
}

func constOrNil(v ssa.Value) bool {
	if v == nil {
		return true
	}
	_, ok := v.(*ssa.Const)
	return ok
}

// headerReadBenign: the loaded slice header is used only for cap(), nil tests, and
// reslices that are stored back to the same field / cleared / measured.
func (r *s1run) headerReadBenign(ld *ssa.UnOp, path []string) bool {
	refs := ld.Referrers()
	if refs == nil {
		return false
	}
	for _, u := range *refs {
		switch x := u.(type) {
		case *ssa.DebugRef:
		case *ssa.Call:
			if pi, isReuse := reuseHelper(x.Call.StaticCallee()); isReuse {
				if pi < len(x.Call.Args) && x.Call.Args[pi] == ssa.Value(ld) {
					continue
				}
				return false
			}
			b, ok := x.Call.Value.(*ssa.Builtin)
			if !ok || (b.Name() != "cap" && b.Name() != "clear") {
				return false
			}
		case *ssa.BinOp:
			if x.Op != token.EQL && x.Op != token.NEQ {
				return false
			}
			other := x.X
			if other == ssa.Value(ld) {
				other = x.Y
			}
			if c, ok := other.(*ssa.Const); !ok || !c.IsNil() {
				return false
			}
		case *ssa.Slice:
			srefs := x.Referrers()
			if srefs == nil {
				return false
			}
			for _, su := range *srefs {
				switch y := su.(type) {
				case *ssa.DebugRef:
				case *ssa.Store:
					p2, k2 := r.vpath(y.Addr, 0)
					if k2 != 1 || strings.Join(p2, ".") != strings.Join(path, ".") || y.Val != ssa.Value(x) {
						return false
					}
				case *ssa.Call:
					b, ok := y.Call.Value.(*ssa.Builtin)
					if !ok || (b.Name() != "clear" && b.Name() != "len" && b.Name() != "cap") {
						return false
					}
				default:
					return false
				}
			}
		default:
			return false
		}
	}
	return true
}

func (r *s1run) step(w locSet, ins ssa.Instruction) {
	if v, ok := ins.(ssa.Value); ok {
		if init, ok := r.thisInit[v]; ok {
			for k := range w {
				delete(w, k)
			}
			for k := range init {
				w[k] = true
			}
		}
	}
	if r.probe != nil {
		if _, ok := r.probe[ins]; ok {
			r.probe[ins] = w.clone()
		}
	}
	switch x := ins.(type) {
	case *ssa.MakeSlice:
		if r.roots != nil {
			for _, u := range *x.Referrers() {
				if phi, ok := u.(*ssa.Phi); ok {
					if p, k := r.vpath(phi, 0); k == 3 {
						loc, _ := locOf(p)
						w[loc+"[]"] = true
					}
				}
				if st, ok := u.(*ssa.Store); ok && st.Val == ssa.Value(x) && r.rootAddr != nil {
					if k, ok := addrKey(&ssa.UnOp{Op: token.MUL, X: st.Addr}); ok {
						if name, ok := r.rootAddr[k]; ok {
							w[name+"[]"] = true
						}
					}
				}
			}
		}
	case *ssa.Store:
		r.store(w, x)
	case *ssa.UnOp:
		if x.Op != token.MUL {
			return
		}
		if deadValue(x) {
			return
		}
		path, k := r.vpath(x.X, 0)
		switch k {
		case 1:
			if _, isSlice := x.Type().Underlying().(*types.Slice); isSlice && r.headerReadBenign(x, path) {
				return
			}
			r.readWhole(w, path, x.Pos(), "load")
		case 2:
			loc, _ := locOf(path)
			r.read(w, loc+"[]", x.Pos(), "element load")
		}
	case *ssa.Call:
		r.call(w, x.Common(), x.Pos(), x, false)
	case *ssa.Defer:
		r.call(w, x.Common(), x.Pos(), nil, true)
	case *ssa.Go:
		r.call(w, x.Common(), x.Pos(), nil, true)
	case *ssa.MakeClosure:
		fn := x.Fn.(*ssa.Function)
		for i, b := range x.Bindings {
			r.bindArg(w, fn, -1-i, b, x.Pos(), true)
			// a captured local variable that holds a slice of a tracked location: the closure reads the
			// location's elements through it unless its body only writes them
			if al, ok := b.(*ssa.Alloc); ok {
				if pt, ok := al.Type().Underlying().(*types.Pointer); ok {
					if _, isSl := pt.Elem().Underlying().(*types.Slice); isSl {
						for _, ref := range *al.Referrers() {
							st, ok := ref.(*ssa.Store)
							if !ok || st.Addr != ssa.Value(al) {
								continue
							}
							if path, k := r.vpath(st.Val, 0); k == 3 {
								loc, _ := locOf(path)
								ss := r.s.sliceSummary(fn, -1-i)
								if ss.reads {
									r.read(w, loc+"[]", x.Pos(), "slice captured by closure "+FnName(fn))
								}
								r.mayW[loc+"[]"] = true
							}
						}
					}
				}
			}
		}
	case *ssa.Return:
	case *ssa.Range, *ssa.Lookup:
	}
}

// bindArg applies the callee's summary for one argument. readsOnly: the callee
// may run later or not at all (closure creation, go, defer): no must-writes.
func (r *s1run) bindArg(w locSet, callee *ssa.Function, param int, arg ssa.Value, pos token.Pos, readsOnly bool) (mw locSet) {
	path, k := r.vpath(arg, 0)
	switch k {
	case 4, 1:
		if k == 1 && structOf(arg.Type()) == nil {
			// pointer to a non-struct location (array, scalar): treat as slice-like
			if _, ok := arg.Type().Underlying().(*types.Pointer); ok {
				loc, _ := locOf(path)
				ss := r.s.sliceSummary(callee, param)
				if ss.reads {
					r.read(w, loc, pos, "pointer passed to "+FnName(callee))
					r.read(w, loc+"[]", pos, "pointer passed to "+FnName(callee))
				}
				r.mayW[loc] = true
				if ss.writesAll && !readsOnly && !r.cons {
					return locSet{loc: true, loc + "[]": true}
				}
			}
			return nil
		}
		if callee == nil || callee.Blocks == nil {
			if k == 4 {
				r.read(w, "*", pos, "object passed to external function")
			} else {
				r.readWhole(w, path, pos, "address passed to external function")
			}
			return nil
		}
		if len(path) >= 2 {
			// sub-sub-object: not tracked precisely
			r.readWhole(w, path, pos, "nested address passed to "+FnName(callee))
			return nil
		}
		sum := r.s.summary(callee, param, r.cons)
		prefix := ""
		if k == 1 {
			prefix = path[0] + "."
		}
		tr := func(l string) string {
			if l == "*" {
				if prefix == "" {
					return "*"
				}
				return path[0]
			}
			if prefix == "" {
				return l
			}
			// depth collapse: "g" -> "f.g"; "g.h" -> "f.g"; "g[]" -> "f.g[]"; "g.h[]" -> "f.g"
			if strings.HasSuffix(l, "[]") && !strings.Contains(l, ".") {
				return prefix + l
			}
			base := l
			if i := strings.IndexAny(base, ".["); i >= 0 {
				base = base[:i]
			}
			return prefix + base
		}
		var locs []string
		for l := range sum.ue {
			locs = append(locs, l)
		}
		sort.Strings(locs)
		for _, l := range locs {
			site := sum.ue[l]
			tl := tr(l)
			if !r.written(w, tl) {
				if _, ok := r.ue[tl]; !ok {
					r.ue[tl] = ueSite{site.pos, site.via, "via call at " + r.s.p.Pos(pos)}
				}
			}
		}
		for l := range sum.mayW {
			r.mayW[tr(l)] = true
		}
		for _, e := range sum.escapes {
			r.escapes = append(r.escapes, e)
		}
		if readsOnly {
			return nil
		}
		mw = locSet{}
		for l := range sum.mw {
			if l == "⊤" {
				continue
			}
			if prefix == "" {
				mw[l] = true
			} else if !strings.ContainsAny(l, ".[") {
				mw[prefix+l] = true
			} else if strings.HasSuffix(l, "[]") && !strings.Contains(l, ".") {
				mw[prefix+l] = true
			}
		}
		return mw
	case 2:
		loc, _ := locOf(path)
		// pointer into elements passed on
		if callee != nil && callee.Blocks != nil {
			ss := r.s.sliceSummary(callee, param)
			if !ss.reads {
				r.mayW[loc+"[]"] = true
				return nil
			}
		}
		r.read(w, loc+"[]", pos, "element address passed to "+FnName(callee))
		r.mayW[loc+"[]"] = true
	case 3:
		loc, _ := locOf(path)
		if callee == nil || callee.Blocks == nil {
			r.read(w, loc+"[]", pos, "slice passed to external function")
			r.mayW[loc+"[]"] = true
			return nil
		}
		if pi, isReuse := reuseHelper(callee); isReuse && pi == param {
			r.mayW[loc+"[]"] = true
			return nil
		}
		ss := r.s.sliceSummary(callee, param)
		if ss.reads {
			r.read(w, loc+"[]", pos, "slice passed to "+FnName(callee))
		}
		r.mayW[loc+"[]"] = true
		if ss.writesAll && !readsOnly && !r.cons {
			return locSet{loc + "[]": true}
		}
	}
	return nil
}

func (r *s1run) call(w locSet, c *ssa.CallCommon, pos token.Pos, self *ssa.Call, readsOnly bool) {
	if b, ok := c.Value.(*ssa.Builtin); ok {
		switch b.Name() {
		case "clear":
			if path, k := r.vpath(c.Args[0], 0); k == 3 {
				loc, _ := locOf(path)
				r.mayW[loc+"[]"] = true
				if !readsOnly {
					w[loc+"[]"] = true
				}
			}
		case "copy":
			if path, k := r.vpath(c.Args[1], 0); k == 3 {
				loc, _ := locOf(path)
				r.read(w, loc+"[]", pos, "copy source")
			}
			if path, k := r.vpath(c.Args[0], 0); k == 3 {
				loc, _ := locOf(path)
				r.mayW[loc+"[]"] = true
				if !readsOnly && copyCoversDst(c.Args[0], c.Args[1]) {
					w[loc+"[]"] = true
				}
			}
		case "append":
			for _, a := range c.Args {
				if path, k := r.vpath(a, 0); k == 3 {
					loc, _ := locOf(path)
					r.read(w, loc+"[]", pos, "append operand")
				}
			}
		}
		return
	}
	// sync.Pool.Put(this): not a use
	if callee := c.StaticCallee(); callee != nil && callee.Pkg != nil && callee.Pkg.Pkg.Path() == "sync" {
		return
	}
	// sync/atomic typed values: Store is a full write of the location, everything else reads it
	if callee := c.StaticCallee(); callee != nil && callee.Pkg != nil && callee.Pkg.Pkg.Path() == "sync/atomic" && len(c.Args) > 0 {
		if path, k := r.vpath(c.Args[0], 0); k == 1 {
			loc, exact := locOf(path)
			if callee.Name() == "Store" && exact {
				r.mayW[loc] = true
				if !readsOnly && (!r.cons || isConstLike(c.Args[len(c.Args)-1])) {
					w[loc] = true
				}
			} else {
				r.readWhole(w, path, pos, "atomic "+callee.Name())
			}
			return
		}
	}
	var callees []*ssa.Function
	if sc := c.StaticCallee(); sc != nil {
		callees = []*ssa.Function{sc}
	} else if self != nil || true {
		// dynamic call: closure value or interface method
		if mc, ok := c.Value.(*ssa.MakeClosure); ok {
			callees = []*ssa.Function{mc.Fn.(*ssa.Function)}
		} else {
			callees = r.s.dynCallees(r.fn, c)
		}
	}
	args := c.Args
	off := 0
	if c.IsInvoke() {
		// receiver is c.Value (interface): params[0] of callee
		args = append([]ssa.Value{c.Value}, c.Args...)
	}
	_ = off
	relevant := false
	for _, a := range args {
		if _, k := r.vpath(a, 0); k != 0 {
			relevant = true
		}
	}
	// a closure value called directly carries its bindings
	if !relevant {
		return
	}
	if len(callees) == 0 {
		for _, a := range args {
			r.bindArg(w, nil, 0, a, pos, true)
		}
		return
	}
	var allMW locSet
	for ci, callee := range callees {
		mw := locSet{}
		for i, a := range args {
			if i >= len(callee.Params) {
				break
			}
			if m := r.bindArg(w, callee, i, a, pos, readsOnly); m != nil {
				for l := range m {
					mw[l] = true
				}
			}
		}
		if ci == 0 {
			allMW = mw
		} else {
			allMW = locInter(allMW, mw)
		}
	}
	if !readsOnly {
		for l := range allMW {
			w[l] = true
			if strings.HasSuffix(l, "[]") {
				continue
			}
		}
	}
}

func (s *s1) dynCallees(fn *ssa.Function, c *ssa.CallCommon) []*ssa.Function {
	cg := s.p.CallGraph()
	n := cg.Nodes[fn]
	if n == nil {
		return nil
	}
	var out []*ssa.Function
	for _, e := range n.Out {
		if e.Site != nil && e.Site.Common() == c {
			out = append(out, e.Callee.Func)
		}
	}
	return out
}

// successReturn: the last result is not a non-nil error.
func successReturn(ret *ssa.Return) bool {
	if len(ret.Results) == 0 {
		return true
	}
	last := ret.Results[len(ret.Results)-1]
	if !types.Identical(last.Type(), types.Universe.Lookup("error").Type()) {
		return true
	}
	c, ok := last.(*ssa.Const)
	return ok && c.IsNil()
}

// fullRangeLoops recognises `for i := range X { X[i] = v }` / `for i := 0; i < len(X); i++`
// loops over a location of this and returns header -> exit successor -> locations
// whose elements are all written when the loop exits.
func (r *s1run) fullRangeLoops() map[*ssa.BasicBlock]map[*ssa.BasicBlock]locSet {
	out := map[*ssa.BasicBlock]map[*ssa.BasicBlock]locSet{}
	for _, b := range r.fn.Blocks {
		if len(b.Instrs) == 0 {
			continue
		}
		ifi, ok := b.Instrs[len(b.Instrs)-1].(*ssa.If)
		if !ok {
			continue
		}
		cmp, ok := ifi.Cond.(*ssa.BinOp)
		if !ok || cmp.Op != token.LSS {
			continue
		}
		// two loop shapes: (a) i = phi[0, i+1]; i < n   (b) rangeindex: k = phi[-1, k+1]; i = k+1; i < n
		var idx ssa.Value
		var latch *ssa.BasicBlock
		if phi, ok := cmp.X.(*ssa.Phi); ok && phi.Block() == b && len(phi.Edges) == 2 {
			zero := false
			var inc *ssa.BinOp
			for _, e := range phi.Edges {
				if c, ok := e.(*ssa.Const); ok && c.Value != nil && c.Int64() == 0 {
					zero = true
				} else if bo, ok := e.(*ssa.BinOp); ok && bo.Op == token.ADD && bo.X == ssa.Value(phi) {
					if c, ok := bo.Y.(*ssa.Const); ok && c.Value != nil && c.Int64() == 1 {
						inc = bo
					}
				}
			}
			if zero && inc != nil {
				idx = phi
				latch = inc.Block()
			}
		} else if inc, ok := cmp.X.(*ssa.BinOp); ok && inc.Op == token.ADD && inc.Block() == b {
			if phi, ok := inc.X.(*ssa.Phi); ok && phi.Block() == b && len(phi.Edges) == 2 {
				if c, ok := inc.Y.(*ssa.Const); ok && c.Value != nil && c.Int64() == 1 {
					minus1, back := false, false
					for i, e := range phi.Edges {
						if c, ok := e.(*ssa.Const); ok && c.Value != nil && c.Int64() == -1 {
							minus1 = true
						} else if e == ssa.Value(inc) {
							back = true
							latch = b.Preds[i]
						}
					}
					if minus1 && back {
						idx = inc
					}
				}
			}
		}
		if idx == nil || latch == nil {
			continue
		}
		// bound: len(X) of a this-location, or the constant length of an array field
		var boundPath []string
		boundConst := int64(-1)
		switch bv := cmp.Y.(type) {
		case *ssa.Call:
			if bi, ok := bv.Call.Value.(*ssa.Builtin); ok && bi.Name() == "len" {
				if p, k := r.vpath(bv.Call.Args[0], 0); k == 3 || k == 1 {
					boundPath = p
				}
			}
		case *ssa.Const:
			if bv.Value != nil {
				boundConst = bv.Int64()
			}
		}
		if boundPath == nil && boundConst < 0 {
			continue
		}
		body, exit := b.Succs[0], b.Succs[1]
		// stores X[i] = v in blocks that dominate the latch (or are the latch) and are dominated by body
		for _, bb := range r.fn.Blocks {
			if !body.Dominates(bb) || !(bb == latch || bb.Dominates(latch)) {
				continue
			}
			for _, in := range bb.Instrs {
				st, ok := in.(*ssa.Store)
				if !ok {
					continue
				}
				ia, ok := st.Addr.(*ssa.IndexAddr)
				if !ok || ia.Index != idx {
					continue
				}
				p, k := r.vpath(ia.X, 0)
				if k != 1 && k != 3 {
					continue
				}
				if boundPath != nil {
					if strings.Join(p, ".") != strings.Join(boundPath, ".") {
						continue
					}
				} else {
					// constant bound must equal the array length
					loc, _ := locOf(p)
					t := r.fieldType(loc)
					if t == nil {
						continue
					}
					arr, ok := t.Underlying().(*types.Array)
					if !ok || arr.Len() != boundConst {
						continue
					}
				}
				if r.cons && !isConstLike(st.Val) {
					continue
				}
				loc, exact := locOf(p)
				if !exact {
					continue
				}
				if out[b] == nil {
					out[b] = map[*ssa.BasicBlock]locSet{}
				}
				if out[b][exit] == nil {
					out[b][exit] = locSet{}
				}
				out[b][exit][loc+"[]"] = true
			}
		}
	}
	r.rasterLoops(out)
	return out
}

// countedLoop recognises "for i := 0; i < N; i++" (and the rangeindex form) at header b.
func countedLoop(b *ssa.BasicBlock) (idx, bound ssa.Value, latch *ssa.BasicBlock, ok bool) {
	if len(b.Instrs) == 0 {
		return
	}
	ifi, isIf := b.Instrs[len(b.Instrs)-1].(*ssa.If)
	if !isIf {
		return
	}
	cmp, isCmp := ifi.Cond.(*ssa.BinOp)
	if !isCmp || cmp.Op != token.LSS {
		return
	}
	if phi, isPhi := cmp.X.(*ssa.Phi); isPhi && phi.Block() == b && len(phi.Edges) == 2 {
		zero := false
		var inc *ssa.BinOp
		for _, e := range phi.Edges {
			if c, isC := e.(*ssa.Const); isC && c.Value != nil && c.Int64() == 0 {
				zero = true
			} else if bo, isB := e.(*ssa.BinOp); isB && bo.Op == token.ADD && bo.X == ssa.Value(phi) {
				if c, isC := bo.Y.(*ssa.Const); isC && c.Value != nil && c.Int64() == 1 {
					inc = bo
				}
			}
		}
		if zero && inc != nil {
			return phi, cmp.Y, inc.Block(), true
		}
	}
	return
}

// rasterLoops recognises the two-dimensional fill
//
//	for y := 0; y < H; y++ { for x := 0; x < W; x++ { X[y*W+x] = v } }
//
// where the store is on every path of the inner body and every assignment of X in the function gives
// it the length W*H (reslice to W*H, or make of W*H): all elements of X are written when the outer
// loop exits.
func (r *s1run) rasterLoops(out map[*ssa.BasicBlock]map[*ssa.BasicBlock]locSet) {
	for _, bo := range r.fn.Blocks {
		yIdx, hB, yLatch, ok := countedLoop(bo)
		if !ok {
			continue
		}
		oBody, oExit := bo.Succs[0], bo.Succs[1]
		for _, bi := range r.fn.Blocks {
			if bi == bo || !oBody.Dominates(bi) || !(bi == yLatch || bi.Dominates(yLatch)) {
				continue
			}
			xIdx, wB, xLatch, ok := countedLoop(bi)
			if !ok {
				continue
			}
			iBody := bi.Succs[0]
			// a raster store into a tracked (pooled) buffer that some path of the inner body skips:
			// the skipped elements keep what the buffer held before
			for _, bb := range r.fn.Blocks {
				if !iBody.Dominates(bb) || bb == xLatch || bb.Dominates(xLatch) || !reachesBlock(bb, xLatch) {
					continue
				}
				for _, in := range bb.Instrs {
					st, ok := in.(*ssa.Store)
					if !ok {
						continue
					}
					ia, ok := st.Addr.(*ssa.IndexAddr)
					if !ok || !rasterIndex(ia.Index, yIdx, xIdx, wB) {
						continue
					}
					if p, k := r.vpath(ia.X, 0); k == 1 || k == 3 {
						loc, _ := locOf(p)
						// unless another store of the same raster cell is made on the other paths
						if !r.rasterStoredOnAllPaths(iBody, xLatch, ia.X, yIdx, xIdx, wB) {
							r.s.partial = append(r.s.partial, partialFill{FnName(r.fn), loc, st.Pos()})
						}
					}
				}
			}
			for _, bb := range r.fn.Blocks {
				if !iBody.Dominates(bb) || !(bb == xLatch || bb.Dominates(xLatch)) {
					continue
				}
				for _, in := range bb.Instrs {
					st, ok := in.(*ssa.Store)
					if !ok {
						continue
					}
					ia, ok := st.Addr.(*ssa.IndexAddr)
					if !ok || !rasterIndex(ia.Index, yIdx, xIdx, wB) {
						continue
					}
					p, k := r.vpath(ia.X, 0)
					if k != 1 && k != 3 {
						continue
					}
					loc, exact := locOf(p)
					if !exact || !r.lengthIsProduct(p, wB, hB) {
						continue
					}
					if r.cons && !isConstLike(st.Val) {
						continue
					}
					if out[bo] == nil {
						out[bo] = map[*ssa.BasicBlock]locSet{}
					}
					if out[bo][oExit] == nil {
						out[bo][oExit] = locSet{}
					}
					out[bo][oExit][loc+"[]"] = true
				}
			}
		}
	}
}

// rasterIndex: idx is y*W + x (in either order of the operands).
func rasterIndex(idx, y, x, w ssa.Value) bool {
	add, ok := idx.(*ssa.BinOp)
	if !ok || add.Op != token.ADD {
		return false
	}
	isMul := func(v ssa.Value) bool {
		m, ok := v.(*ssa.BinOp)
		return ok && m.Op == token.MUL && ((m.X == y && m.Y == w) || (m.X == w && m.Y == y))
	}
	return (isMul(add.X) && add.Y == x) || (isMul(add.Y) && add.X == x)
}

// lengthIsProduct: every store to the location in this function gives it the length w*h.
func (r *s1run) lengthIsProduct(path []string, w, h ssa.Value) bool {
	isProd := func(v ssa.Value) bool {
		m, ok := v.(*ssa.BinOp)
		return ok && m.Op == token.MUL && ((m.X == w && m.Y == h) || (m.X == h && m.Y == w))
	}
	n := 0
	for _, b := range r.fn.Blocks {
		for _, in := range b.Instrs {
			st, ok := in.(*ssa.Store)
			if !ok {
				continue
			}
			p, k := r.vpath(st.Addr, 0)
			if k != 1 || strings.Join(p, ".") != strings.Join(path, ".") {
				continue
			}
			n++
			switch v := st.Val.(type) {
			case *ssa.Slice:
				if v.High == nil || !isProd(v.High) {
					return false
				}
			case *ssa.MakeSlice:
				if !isProd(v.Len) {
					return false
				}
			default:
				return false
			}
		}
	}
	return n > 0
}

func (r *s1run) run(entryW locSet) (mw locSet, retThis bool, mwRet locSet) {
	r.loopExit = r.fullRangeLoops()
	outs := map[*ssa.BasicBlock]locSet{}
	var exitW, exitThis locSet
	for iter := 0; iter < 100; iter++ {
		changed := false
		exitW, exitThis = nil, nil
		retThis = false
		r.ue = map[string]ueSite{}
		r.rootEsc = nil
		for _, b := range r.fn.Blocks {
			var w locSet
			if b == r.fn.Blocks[0] {
				w = entryW.clone()
			} else {
				first := true
				for _, p := range b.Preds {
					o, ok := outs[p]
					if !ok {
						continue
					}
					if r.edgeDead(p, b) {
						continue
					}
					o2 := o
					if le := r.loopExit[p]; le != nil && le[b] != nil {
						o2 = o.clone()
						for l := range le[b] {
							o2[l] = true
						}
					}
					if first {
						w = o2.clone()
						first = false
					} else {
						w = locInter(w, o2)
					}
				}
				if first {
					continue // not reached yet
				}
			}
			for _, ins := range b.Instrs {
				r.step(w, ins)
			}
			if o, ok := outs[b]; !ok || !locEq(o, w) {
				outs[b] = w
				changed = true
			}
			if len(b.Instrs) > 0 && r.rootAddr != nil {
				if _, ok := b.Instrs[len(b.Instrs)-1].(*ssa.Return); ok {
					for k, name := range r.rootAddr {
						if !r.written(w, name+"[]") {
							if r.rootEsc == nil {
								r.rootEsc = map[string]string{}
							}
							r.rootEsc[name] = describeKey(k)
						}
					}
				}
			}
			if len(b.Instrs) > 0 {
				if ret, ok := b.Instrs[len(b.Instrs)-1].(*ssa.Return); ok && successReturn(ret) {
					if exitW == nil {
						exitW = w.clone()
					} else {
						exitW = locInter(exitW, w)
					}
					for _, res := range ret.Results {
						if r.this[res] {
							retThis = true
							if exitThis == nil {
								exitThis = w.clone()
							} else {
								exitThis = locInter(exitThis, w)
							}
						}
					}
				}
			}
		}
		if !changed {
			break
		}
	}
	if exitW == nil {
		exitW = locSet{}
	}
	return exitW, retThis, exitThis
}

func (s *s1) newRun(fn *ssa.Function, st *types.Struct, cons bool) *s1run {
	return &s1run{s: s, fn: fn, this: map[ssa.Value]bool{}, thisInit: map[ssa.Value]locSet{}, st: st, cons: cons,
		ue: map[string]ueSite{}, mayW: locSet{}}
}

// closeThis adds phis/ChangeTypes of this-values to the this set.
func (r *s1run) closeThis() {
	for changed := true; changed; {
		changed = false
		for _, b := range r.fn.Blocks {
			for _, in := range b.Instrs {
				switch x := in.(type) {
				case *ssa.Phi:
					if r.this[x] {
						continue
					}
					// any edge: the other edges are fresh objects of the same type, for which
					// every location counts as written (entry state ⊤ on their paths)
					all := true
					any := false
					for _, e := range x.Edges {
						if r.this[e] {
							any = true
						}
					}
					if all && any {
						r.this[x] = true
						changed = true
					}
				case *ssa.ChangeType:
					if r.this[x.X] && !r.this[x] {
						r.this[x] = true
						changed = true
					}
				case *ssa.UnOp:
					// load of a local variable cell that only ever holds the object (or nil)
					if x.Op != token.MUL || r.this[x] {
						continue
					}
					if a, ok := x.X.(*ssa.Alloc); ok && r.cellHoldsThis(a) {
						r.this[x] = true
						changed = true
					}
				}
			}
		}
	}
}

// cellHoldsThis: every store into the local cell a stores the object pointer or nil, and at least one stores the object.
func (r *s1run) cellHoldsThis(a *ssa.Alloc) bool {
	any := false
	for _, u := range *a.Referrers() {
		if st, ok := u.(*ssa.Store); ok && st.Addr == ssa.Value(a) {
			if r.this[st.Val] {
				any = true
			} else if c, ok := st.Val.(*ssa.Const); ok && c.IsNil() {
			} else {
				return false
			}
		}
	}
	return any
}

func (s *s1) summary(fn *ssa.Function, param int, cons bool) *s1sum {
	k := s1key{fn, param, cons}
	if sm, ok := s.sums[k]; ok {
		return sm
	}
	var pv ssa.Value
	if param >= 0 {
		if param >= len(fn.Params) {
			return &s1sum{ue: map[string]ueSite{"*": {fn.Pos(), FnName(fn), "variadic"}}, mw: locSet{}, mayW: locSet{}}
		}
		pv = fn.Params[param]
	} else {
		pv = fn.FreeVars[-1-param]
	}
	st := structOf(pv.Type())
	if s.inprog[k] && st != nil {
		// recursion: use the provisional summary of the enclosing computation (optimistic start, iterated to a fixpoint)
		s.recursed[k] = true
		if pr := s.prov[k]; pr != nil {
			return pr
		}
		return &s1sum{ue: map[string]ueSite{}, mw: locSet{"⊤": true}, mayW: locSet{}}
	}
	if s.inprog[k] || fn.Blocks == nil || st == nil {
		// recursion / external / free variable holding **T: conservative
		if st == nil && param < 0 {
			// free variable is the address of a local holding the pointer: find loads
			if pp, ok := pv.Type().Underlying().(*types.Pointer); ok {
				if st2 := structOf(pp.Elem()); st2 != nil && !s.inprog[k] && fn.Blocks != nil {
					s.inprog[k] = true
					r := s.newRun(fn, st2, cons)
					for _, ref := range *pv.Referrers() {
						if ld, ok := ref.(*ssa.UnOp); ok && ld.Op == token.MUL {
							r.this[ld] = true
						}
					}
					r.closeThis()
					mw, _, _ := r.run(locSet{})
					delete(s.inprog, k)
					sm := &s1sum{ue: r.ue, mw: mw, mayW: r.mayW, escapes: r.escapes}
					s.sums[k] = sm
					return sm
				}
			}
		}
		return &s1sum{ue: map[string]ueSite{"*": {fn.Pos(), FnName(fn), "recursive or external"}}, mw: locSet{}, mayW: locSet{"*": true}}
	}
	s.inprog[k] = true
	var sm *s1sum
	for iter := 0; iter < 4; iter++ {
		s.recursed[k] = false
		r := s.newRun(fn, st, cons)
		r.this[pv] = true
		r.closeThis()
		mw, retThis, mwRet := r.run(locSet{})
		nsm := &s1sum{ue: r.ue, mw: mw, mayW: r.mayW, retThis: retThis, mwRet: mwRet, escapes: r.escapes}
		// boolean specialisation: a location read before written only on a path that contradicts
		// itself (if !b {fill} ... if b {use}) is not exposed; analyse the function once per value of a
		// boolean that is tested in several places and keep the union of the exposed reads
		if len(nsm.ue) > 0 {
			for _, cand := range splitCandidates(fn) {
				var parts []*s1sum
				for _, val := range []bool{true, false} {
					r2 := s.newRun(fn, st, cons)
					r2.this[pv] = true
					r2.closeThis()
					r2.assume = map[ssa.Value]bool{cand: val}
					mw2, rt2, mr2 := r2.run(locSet{})
					parts = append(parts, &s1sum{ue: r2.ue, mw: mw2, mayW: r2.mayW, retThis: rt2, mwRet: mr2, escapes: r2.escapes})
				}
				ue := map[string]ueSite{}
				for _, pt := range parts {
					for l, site := range pt.ue {
						if _, ok := ue[l]; !ok {
							ue[l] = site
						}
					}
				}
				better := len(ue) < len(nsm.ue)
				for l := range ue {
					if _, ok := nsm.ue[l]; !ok {
						better = false
					}
				}
				if better {
					mwc := locInter(parts[0].mw, parts[1].mw)
					nsm = &s1sum{ue: ue, mw: mwc, mayW: nsm.mayW, retThis: nsm.retThis, mwRet: nsm.mwRet, escapes: nsm.escapes}
				}
			}
		}
		stable := sm != nil && len(sm.ue) == len(nsm.ue) && locEq(sm.mw, nsm.mw)
		sm = nsm
		s.prov[k] = sm
		if !s.recursed[k] || stable {
			break
		}
		// summaries computed while k was provisional may depend on it: drop them
		for k2 := range s.sums {
			if s.dependsOnProv[k2] {
				delete(s.sums, k2)
				delete(s.dependsOnProv, k2)
			}
		}
	}
	delete(s.inprog, k)
	delete(s.prov, k)
	s.sums[k] = sm
	if len(s.inprog) > 0 {
		s.dependsOnProv[k] = true
	}
	return sm
}

// ---- slice parameter summaries ----

type sliceSum struct {
	reads     bool // may read elements (before a full overwrite)
	writesAll bool // every element is written on every return path
}

func (s *s1) sliceSummary(fn *ssa.Function, param int) *sliceSum {
	k := s1key{fn, param, false}
	if ss, ok := s.ssums[k]; ok {
		return ss
	}
	if fn == nil || fn.Blocks == nil || s.sinprog[k] {
		return &sliceSum{reads: true}
	}
	var pv ssa.Value
	if param >= 0 {
		if param >= len(fn.Params) {
			return &sliceSum{reads: true}
		}
		pv = fn.Params[param]
	} else {
		pv = fn.FreeVars[-1-param]
	}
	s.sinprog[k] = true
	defer delete(s.sinprog, k)
	ss := &sliceSum{}
	// derived values: reslices, element addresses
	derived := map[ssa.Value]bool{pv: true}
	for changed := true; changed; {
		changed = false
		for _, b := range fn.Blocks {
			for _, in := range b.Instrs {
				v, ok := in.(ssa.Value)
				if !ok || derived[v] {
					continue
				}
				switch x := in.(type) {
				case *ssa.Slice:
					if derived[x.X] {
						derived[v] = true
						changed = true
					}
				case *ssa.IndexAddr:
					if derived[x.X] {
						derived[v] = true
						changed = true
					}
				case *ssa.FieldAddr:
					if derived[x.X] {
						derived[v] = true
						changed = true
					}
				case *ssa.Phi:
					for _, e := range x.Edges {
						if derived[e] {
							derived[v] = true
							changed = true
							break
						}
					}
				case *ssa.ChangeType:
					if derived[x.X] {
						derived[v] = true
						changed = true
					}
				case *ssa.UnOp:
					// the captured variable itself (a cell holding the slice): its load is the slice
					if x.Op == token.MUL && x.X == pv && param < 0 {
						if pt, isPtr := pv.Type().Underlying().(*types.Pointer); isPtr {
							if _, isSl := pt.Elem().Underlying().(*types.Slice); isSl {
								derived[v] = true
								changed = true
								continue
							}
						}
					}
					// *ptrToArray
					if x.Op == token.MUL && derived[x.X] {
						if _, isPtr := x.X.Type().Underlying().(*types.Pointer); isPtr {
							if _, isIdx := x.X.(*ssa.IndexAddr); !isIdx {
								if _, isFA := x.X.(*ssa.FieldAddr); !isFA {
									ss.reads = true
								}
							}
						}
					}
				}
			}
		}
	}
	for _, b := range fn.Blocks {
		for _, in := range b.Instrs {
			switch x := in.(type) {
			case *ssa.UnOp:
				if x.Op == token.MUL && derived[x.X] {
					ss.reads = true
				}
			case *ssa.Store:
				if derived[x.Val] {
					ss.reads = true // escapes
				}
			case *ssa.MakeClosure:
				for i, bnd := range x.Bindings {
					if derived[bnd] {
						if s.sliceSummary(x.Fn.(*ssa.Function), -1-i).reads {
							ss.reads = true
						}
					}
				}
			case *ssa.Return:
				for _, res := range x.Results {
					if derived[res] {
						ss.reads = true
					}
				}
			case ssa.CallInstruction:
				c := x.Common()
				if bi, ok := c.Value.(*ssa.Builtin); ok {
					switch bi.Name() {
					case "copy":
						if derived[c.Args[1]] {
							ss.reads = true
						}
					case "append":
						for _, a := range c.Args {
							if derived[a] {
								ss.reads = true
							}
						}
					}
					continue
				}
				callee := c.StaticCallee()
				args := c.Args
				for i, a := range args {
					if !derived[a] {
						continue
					}
					if callee == nil || callee.Blocks == nil {
						ss.reads = true
					} else if s.sliceSummary(callee, i).reads {
						ss.reads = true
					}
				}
				if c.IsInvoke() && derived[c.Value] {
					ss.reads = true
				}
			case *ssa.MakeInterface:
				if derived[x.X] {
					ss.reads = true
				}
			}
		}
	}
	s.ssums[k] = ss
	return ss
}

func describeAddr(a ssa.Value) string {
	switch x := a.(type) {
	case *ssa.FieldAddr:
		if st := structOf(x.X.Type()); st != nil {
			return shortType(x.X.Type().Underlying().(*types.Pointer).Elem()) + "." + st.Field(x.Field).Name()
		}
	case *ssa.Alloc:
		return "local cell"
	case *ssa.Global:
		return "global " + x.Name()
	case *ssa.IndexAddr:
		return describeAddr(x.X) + "[i]"
	}
	return "memory"
}

// copyCoversDst: dst is X[:len(src)] (or a load of a location such a value was stored to), so
// copy(dst, src) overwrites every element of dst.
func copyCoversDst(dst, src ssa.Value) bool {
	var sl *ssa.Slice
	switch x := dst.(type) {
	case *ssa.Slice:
		sl = x
	case *ssa.UnOp:
		// load of a field that was just assigned X[:len(src)] in the same block
		if x.Op == token.MUL {
			k, ok := addrKey(x)
			if !ok {
				return false
			}
			for _, in := range x.Block().Instrs {
				if in == ssa.Instruction(x) {
					break
				}
				if st, ok := in.(*ssa.Store); ok {
					if k2, ok := addrKey(&ssa.UnOp{Op: token.MUL, X: st.Addr}); ok && k2 == k {
						sl, _ = st.Val.(*ssa.Slice)
					}
				}
			}
		}
	}
	if sl == nil || sl.High == nil {
		return false
	}
	if sl.Low != nil && !isZeroConst(sl.Low) {
		return false
	}
	call, ok := sl.High.(*ssa.Call)
	if !ok {
		return false
	}
	if bi, ok := call.Call.Value.(*ssa.Builtin); !ok || bi.Name() != "len" {
		return false
	}
	return call.Call.Args[0] == src
}

// reuseHelper recognises "reuse the backing array or allocate" helpers:
//
//	func f(buf []T, n ...) []T { if cap(buf) >= n { buf = buf[:n]; clear(buf); return buf }; return make([]T, n) }
//
// The slice parameter is used only for cap/len, nil tests and reslices; every returned value is a fresh
// make or a reslice of the parameter that was cleared over its whole length before the return. The result
// then does not depend on what the buffer held: a caller's `x.f = f(x.f, n)` is a full write of x.f.
var reuseHelperMemo = map[*ssa.Function]int{}

func reuseHelper(fn *ssa.Function) (param int, ok bool) {
	if fn == nil || fn.Blocks == nil {
		return 0, false
	}
	if v, seen := reuseHelperMemo[fn]; seen {
		return v, v >= 0
	}
	reuseHelperMemo[fn] = -1
	if fn.Signature.Results().Len() != 1 {
		return 0, false
	}
	if _, isSl := fn.Signature.Results().At(0).Type().Underlying().(*types.Slice); !isSl {
		return 0, false
	}
	for pi, par := range fn.Params {
		if _, isSl := par.Type().Underlying().(*types.Slice); !isSl {
			continue
		}
		// values derived from the parameter by reslicing (and phis of them)
		derived := map[ssa.Value]bool{par: true}
		cleared := map[ssa.Value]bool{}
		okUses := true
		for changed := true; changed && okUses; {
			changed = false
			for v := range derived {
				refs := v.Referrers()
				if refs == nil {
					continue
				}
				for _, u := range *refs {
					switch x := u.(type) {
					case *ssa.DebugRef, *ssa.Return:
					case *ssa.Slice:
						if x.X != v {
							okUses = false
						} else if !derived[x] {
							derived[x] = true
							changed = true
						}
					case *ssa.Phi:
						if !derived[x] {
							derived[x] = true
							changed = true
						}
					case *ssa.BinOp:
						if x.Op != token.EQL && x.Op != token.NEQ {
							okUses = false
						}
					case *ssa.Call:
						b, isB := x.Call.Value.(*ssa.Builtin)
						if !isB {
							okUses = false
							break
						}
						switch b.Name() {
						case "cap", "len":
						case "clear":
							cleared[v] = true
						default:
							okUses = false
						}
					default:
						okUses = false
					}
				}
			}
		}
		if !okUses {
			continue
		}
		good := true
		nret := 0
		for _, b := range fn.Blocks {
			ret, isRet := b.Instrs[len(b.Instrs)-1].(*ssa.Return)
			if !isRet {
				continue
			}
			nret++
			var check func(v ssa.Value, depth int) bool
			check = func(v ssa.Value, depth int) bool {
				if depth > 4 {
					return false
				}
				switch x := v.(type) {
				case *ssa.MakeSlice:
					return true
				case *ssa.Const:
					return x.IsNil()
				case *ssa.Phi:
					for _, e := range x.Edges {
						if !check(e, depth+1) {
							return false
						}
					}
					return true
				}
				return derived[v] && cleared[v]
			}
			if !check(ret.Results[0], 0) {
				good = false
			}
		}
		if good && nret > 0 {
			reuseHelperMemo[fn] = pi
			return pi, true
		}
	}
	return 0, false
}

type partialFill struct {
	fn, loc string
	pos     token.Pos
}

func reachesBlock(a, b *ssa.BasicBlock) bool {
	seen := map[*ssa.BasicBlock]bool{}
	st := []*ssa.BasicBlock{a}
	for len(st) > 0 {
		x := st[len(st)-1]
		st = st[:len(st)-1]
		if x == b {
			return true
		}
		if seen[x] {
			continue
		}
		seen[x] = true
		st = append(st, x.Succs...)
	}
	return false
}

// rasterStoredOnAllPaths: every path from the inner body to the latch passes a store to base[y*W+x]
// (if/else arms that each store the cell).
func (r *s1run) rasterStoredOnAllPaths(body, latch *ssa.BasicBlock, base, y, x, w ssa.Value) bool {
	stores := map[*ssa.BasicBlock]bool{}
	for _, b := range r.fn.Blocks {
		for _, in := range b.Instrs {
			if st, ok := in.(*ssa.Store); ok {
				if ia, ok := st.Addr.(*ssa.IndexAddr); ok && ia.X == base && rasterIndex(ia.Index, y, x, w) {
					stores[b] = true
				}
			}
		}
	}
	// search for a path body -> latch avoiding store blocks
	seen := map[*ssa.BasicBlock]bool{}
	st := []*ssa.BasicBlock{body}
	for len(st) > 0 {
		b := st[len(st)-1]
		st = st[:len(st)-1]
		if seen[b] || stores[b] {
			continue
		}
		seen[b] = true
		if b == latch {
			return false
		}
		for _, n := range b.Succs {
			if body.Dominates(n) {
				st = append(st, n)
			}
		}
	}
	return true
}
