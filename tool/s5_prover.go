package main

// S5: linear-fact prover over SSA. Goals `e >= 0` over atoms (SSA integer values,
// len(slice values), fields of struct values) are decided by Fourier-Motzkin
// refutation from facts collected on dominating branch edges, dominating
// index/slice operations, type ranges, callee postconditions (Houdini templates,
// success paths) and inductive lower bounds of loop phis. 64-bit int assumed.

import (
	"go/constant"
	"go/token"
	"go/types"
	"math/big"
	"sort"

	"golang.org/x/tools/go/ssa"
)

type atom struct {
	v     ssa.Value
	isLen bool
	fld   int // 1+field index when the atom is a field of struct value v (0 = none)
}

type lin struct {
	c *big.Rat
	t map[atom]*big.Rat
}

func konst(i int64) lin { return lin{c: big.NewRat(i, 1), t: map[atom]*big.Rat{}} }
func (a lin) clone() lin {
	r := lin{c: new(big.Rat).Set(a.c), t: make(map[atom]*big.Rat, len(a.t))}
	for k, v := range a.t {
		r.t[k] = new(big.Rat).Set(v)
	}
	return r
}
func (a lin) add(b lin, s int64) lin {
	r := a.clone()
	sr := big.NewRat(s, 1)
	r.c.Add(r.c, new(big.Rat).Mul(b.c, sr))
	for k, v := range b.t {
		if r.t[k] == nil {
			r.t[k] = new(big.Rat)
		}
		r.t[k].Add(r.t[k], new(big.Rat).Mul(v, sr))
		if r.t[k].Sign() == 0 {
			delete(r.t, k)
		}
	}
	return r
}
func (a lin) scale(s *big.Rat) lin {
	r := lin{c: new(big.Rat).Mul(a.c, s), t: map[atom]*big.Rat{}}
	if s.Sign() == 0 {
		return r
	}
	for k, v := range a.t {
		r.t[k] = new(big.Rat).Mul(v, s)
	}
	return r
}
func (a lin) isConst() bool { return len(a.t) == 0 }
func atomLin(at atom) lin   { return lin{c: new(big.Rat), t: map[atom]*big.Rat{at: big.NewRat(1, 1)}} }

// cons: e >= 0
type cons struct{ e lin }

func ge(a, b lin) cons { return cons{a.add(b, -1)} }                   // a >= b
func gt(a, b lin) cons { return cons{a.add(b, -1).add(konst(1), -1)} } // a > b (integers)

type prover struct {
	db      *proverDB
	fn      *ssa.Function
	canon   map[ssa.Value]ssa.Value
	phiInv  []cons
	env     map[ssa.Value]lin  // parameter bindings while inlining a callee
	lenEnv  map[ssa.Value]lin  // len(param) bindings while inlining
	capEnv  map[ssa.Value]lin  // cap(param) bindings while inlining
	cfVisit map[ssa.Value]bool // recursion guard of condFacts
	depth   int
	// peelConv: treat integer conversions to unsigned or >=32-bit types as the identity. Sound only
	// for "the value fits n bits" goals (F1): if the unconverted value is proven within [0, 2^n-1],
	// the converted value is the same number (and a narrower unsigned conversion fits a fortiori).
	peelConv bool
}

type proverDB struct {
	p       *Program
	provers map[*ssa.Function]*prover
	posts   map[*ssa.Function][]post
	postsIP map[*ssa.Function]bool
	spec    map[string][]specFact
}

func newProverDB(p *Program) *proverDB {
	return &proverDB{p: p, provers: map[*ssa.Function]*prover{}, posts: map[*ssa.Function][]post{}, postsIP: map[*ssa.Function]bool{}, spec: map[string][]specFact{}}
}

func (db *proverDB) proverFor(fn *ssa.Function) *prover {
	if pv, ok := db.provers[fn]; ok {
		return pv
	}
	pv := &prover{db: db, fn: fn}
	db.provers[fn] = pv
	pv.canonLoads()
	pv.inferPhiInvariants()
	pv.inferRelInvariants()
	pv.inferPhiInvariants()
	return pv
}

// ---- load canonicalisation ----

// canonLoads equates loads of the same field of the same base when no store to
// that field and no call receiving the base can execute between them.
func (p *prover) canonLoads() {
	p.canon = map[ssa.Value]ssa.Value{}
	type key struct {
		base  ssa.Value
		field int
	}
	loads := map[key][]*ssa.UnOp{}
	var writers []ssa.Instruction
	// loads of single-assignment local cells (spilled receivers/params, captured variables)
	cellLoads := map[ssa.Value][]*ssa.UnOp{}
	for _, b := range p.fn.Blocks {
		for _, ins := range b.Instrs {
			if x, ok := ins.(*ssa.UnOp); ok && x.Op == token.MUL {
				switch c := x.X.(type) {
				case *ssa.Alloc:
					if v := singleStore(c); v != nil {
						p.canon[x] = v
					}
				case *ssa.FreeVar:
					if !hasStore(c) {
						cellLoads[c] = append(cellLoads[c], x)
					}
				}
			}
		}
	}
	for _, ls := range cellLoads {
		for _, l := range ls[1:] {
			if ls[0].Block().Dominates(l.Block()) && ls[0] != l {
				p.canon[l] = ls[0]
			}
		}
	}
	for _, b := range p.fn.Blocks {
		for _, ins := range b.Instrs {
			switch x := ins.(type) {
			case *ssa.UnOp:
				if x.Op == token.MUL {
					if fa, ok := x.X.(*ssa.FieldAddr); ok {
						k := key{p.rep(fa.X), fa.Field}
						loads[k] = append(loads[k], x)
					}
				}
			case *ssa.Store:
				writers = append(writers, ins)
			case *ssa.Call:
				if _, ok := x.Call.Value.(*ssa.Builtin); !ok {
					writers = append(writers, ins)
				}
			}
		}
	}
	reach := func(from, to *ssa.BasicBlock) bool {
		seen := map[*ssa.BasicBlock]bool{}
		st := append([]*ssa.BasicBlock{}, from.Succs...)
		for len(st) > 0 {
			b := st[len(st)-1]
			st = st[:len(st)-1]
			if seen[b] {
				continue
			}
			seen[b] = true
			if b == to {
				return true
			}
			st = append(st, b.Succs...)
		}
		return false
	}
	idxIn := func(ins ssa.Instruction) int {
		for i, x := range ins.Block().Instrs {
			if x == ins {
				return i
			}
		}
		return -1
	}
	for k, ls := range loads {
		bad := false
		for _, w := range writers {
			affects := false
			switch x := w.(type) {
			case *ssa.Store:
				if fa, ok := x.Addr.(*ssa.FieldAddr); ok && fa.Field == k.field && types.Identical(fa.X.Type(), k.base.Type()) {
					affects = true
				}
			case *ssa.Call:
				for _, a := range x.Call.Args {
					if p.rep(a) == k.base {
						affects = true
					}
				}
				if x.Call.IsInvoke() {
					affects = true
				}
			}
			if !affects {
				continue
			}
			// w between one load and another?
			for _, first := range ls {
				for _, l := range ls {
					if l == first {
						continue
					}
					afterFirst := (w.Block() == first.Block() && idxIn(w) > idxIn(first)) || (w.Block() != first.Block() && reach(first.Block(), w.Block()))
					beforeL := (w.Block() == l.Block() && idxIn(w) < idxIn(l)) || (w.Block() != l.Block() && reach(w.Block(), l.Block()))
					if afterFirst && beforeL {
						bad = true
					}
				}
			}
		}
		if bad {
			continue
		}
		// store-to-load forwarding: a store to this field of this base that dominates a load with no
		// other writer in between makes the load equal to the stored value
		for _, l := range ls {
			var src *ssa.Store
			for _, w := range writers {
				st, ok := w.(*ssa.Store)
				if !ok {
					continue
				}
				fa, ok := st.Addr.(*ssa.FieldAddr)
				if !ok || fa.Field != k.field || p.rep(fa.X) != k.base {
					continue
				}
				domL := (st.Block() == l.Block() && idxIn(st) < idxIn(l)) || (st.Block() != l.Block() && st.Block().Dominates(l.Block()))
				if domL && (src == nil || src.Block().Dominates(st.Block())) {
					src = st
				}
			}
			if src == nil {
				continue
			}
			clean := true
			for _, w := range writers {
				if w == ssa.Instruction(src) {
					continue
				}
				affects := false
				switch x := w.(type) {
				case *ssa.Store:
					if fa, ok := x.Addr.(*ssa.FieldAddr); ok && fa.Field == k.field && types.Identical(fa.X.Type(), k.base.Type()) {
						affects = true
					}
				case *ssa.Call:
					for _, a := range x.Call.Args {
						if p.rep(a) == k.base {
							affects = true
						}
					}
					if x.Call.IsInvoke() {
						affects = true
					}
				}
				if !affects {
					continue
				}
				afterSrc := (w.Block() == src.Block() && idxIn(w) > idxIn(src)) || (w.Block() != src.Block() && reach(src.Block(), w.Block()))
				beforeL := (w.Block() == l.Block() && idxIn(w) < idxIn(l)) || (w.Block() != l.Block() && reach(w.Block(), l.Block()))
				if afterSrc && beforeL {
					clean = false
				}
			}
			if clean {
				p.canon[l] = src.Val
			}
		}
		// representative: a load that dominates the other (same block: the earlier one)
		doms := func(a, b *ssa.UnOp) bool {
			if a.Block() == b.Block() {
				return idxIn(a) < idxIn(b)
			}
			return a.Block().Dominates(b.Block())
		}
		for _, l := range ls {
			var best *ssa.UnOp
			for _, d := range ls {
				if d != l && doms(d, l) && (best == nil || doms(d, best)) {
					best = d
				}
			}
			if best != nil {
				if _, fwd := p.canon[l]; !fwd {
					p.canon[l] = best
				}
			}
		}
	}
}

// singleStore: the local cell is assigned exactly once (and closures capturing it never assign it).
func singleStore(a *ssa.Alloc) ssa.Value {
	var val ssa.Value
	n := 0
	for _, u := range *a.Referrers() {
		switch x := u.(type) {
		case *ssa.Store:
			if x.Addr == ssa.Value(a) {
				val = x.Val
				n++
			} else {
				return nil
			}
		case *ssa.UnOp, *ssa.DebugRef:
		case *ssa.FieldAddr:
			// reading fields of a struct cell is fine; writing through them is not
			for _, u2 := range *x.Referrers() {
				switch y := u2.(type) {
				case *ssa.UnOp, *ssa.DebugRef:
				case *ssa.Store:
					if y.Addr == ssa.Value(x) {
						return nil
					}
				default:
					return nil
				}
			}
		case *ssa.MakeClosure:
			fn := x.Fn.(*ssa.Function)
			for i, b := range x.Bindings {
				if b == ssa.Value(a) && hasStore(fn.FreeVars[i]) {
					return nil
				}
			}
		default:
			return nil
		}
	}
	if n == 1 {
		return val
	}
	return nil
}

func hasStore(fv *ssa.FreeVar) bool {
	for _, u := range *fv.Referrers() {
		switch x := u.(type) {
		case *ssa.Store:
			if x.Addr == ssa.Value(fv) {
				return true
			}
		case *ssa.MakeClosure:
			fn := x.Fn.(*ssa.Function)
			for i, b := range x.Bindings {
				if b == ssa.Value(fv) && hasStore(fn.FreeVars[i]) {
					return true
				}
			}
		case *ssa.UnOp, *ssa.DebugRef:
		default:
			return true
		}
	}
	return false
}

func (p *prover) rep(v ssa.Value) ssa.Value {
	for i := 0; i < 8; i++ {
		r, ok := p.canon[v]
		if !ok {
			break
		}
		v = r
	}
	return v
}

// ---- translation ----

func intConst(v ssa.Value) (int64, bool) {
	c, ok := v.(*ssa.Const)
	if !ok || c.Value == nil || c.Value.Kind() != constant.Int {
		return 0, false
	}
	i, exact := constant.Int64Val(c.Value)
	return i, exact
}

func intBits(t types.Type) (bits int, unsigned bool, ok bool) {
	b, okb := t.Underlying().(*types.Basic)
	if !okb || b.Info()&types.IsInteger == 0 {
		return 0, false, false
	}
	switch b.Kind() {
	case types.Uint8:
		return 8, true, true
	case types.Uint16:
		return 16, true, true
	case types.Uint32:
		return 32, true, true
	case types.Uint64:
		return 64, true, true
	case types.Uint, types.Uintptr:
		return proverWordBits, true, true
	case types.Int8:
		return 8, false, true
	case types.Int16:
		return 16, false, true
	case types.Int32:
		return 32, false, true
	case types.Int64:
		return 64, false, true
	default:
		return proverWordBits, false, true
	}
}

// proverWordBits is the width of int/uint on the configuration being analysed (32 on 386, arm, mips*).
// With 32 a conversion uint32 -> int is no longer the identity: the prover then needs a dominating
// bound below 2^31 for every declared size it converts.
var proverWordBits = 64

func wordBitsOf(goarch string) int {
	switch goarch {
	case "386", "arm", "mips", "mipsle":
		return 32
	}
	return 64
}

func isIntLike(t types.Type) bool {
	_, _, ok := intBits(t)
	return ok
}

// typeRange adds the value range of a narrow integer type for the atom.
func typeRange(at lin, t types.Type, facts *[]cons) {
	bits, uns, ok := intBits(t)
	if !ok {
		return
	}
	if uns {
		*facts = append(*facts, cons{at.clone()})
		if bits <= 32 {
			*facts = append(*facts, ge(konst(int64(1)<<uint(bits)-1), at))
		}
	} else if bits <= 32 {
		*facts = append(*facts, ge(at, konst(-(int64(1)<<uint(bits-1)))))
		*facts = append(*facts, ge(konst(int64(1)<<uint(bits-1)-1), at))
	}
}

// structField resolves v as "field f of struct value s".
func (p *prover) structField(v ssa.Value) (s ssa.Value, f int, ok bool) {
	switch x := v.(type) {
	case *ssa.Field:
		return p.rep(x.X), x.Field, true
	case *ssa.UnOp:
		if x.Op != token.MUL {
			return nil, 0, false
		}
		fa, isFA := x.X.(*ssa.FieldAddr)
		if !isFA {
			return nil, 0, false
		}
		al, isAl := fa.X.(*ssa.Alloc)
		if !isAl {
			return nil, 0, false
		}
		// a local struct variable assigned exactly once as a whole, never through its fields
		var whole ssa.Value
		for _, u := range *al.Referrers() {
			switch y := u.(type) {
			case *ssa.Store:
				if y.Addr == ssa.Value(al) {
					if whole != nil {
						return nil, 0, false
					}
					whole = y.Val
				}
			case *ssa.FieldAddr:
				for _, u2 := range *y.Referrers() {
					if st, isSt := u2.(*ssa.Store); isSt && st.Addr == ssa.Value(y) {
						return nil, 0, false
					}
				}
			}
		}
		if whole != nil {
			return p.rep(whole), fa.Field, true
		}
	}
	return nil, 0, false
}

func (p *prover) toLin(v ssa.Value, facts *[]cons) lin {
	v = p.rep(v)
	if i, ok := intConst(v); ok {
		return konst(i)
	}
	if p.env != nil {
		if l, ok := p.env[v]; ok {
			return l.clone()
		}
	}
	switch x := v.(type) {
	case *ssa.BinOp:
		bits, uns, _ := intBits(x.Type())
		exact := func(e lin) (lin, bool) {
			// narrow unsigned arithmetic may wrap: use the linear form only when it provably fits
			if uns && bits <= 32 {
				if entails(*facts, ge(konst(int64(1)<<uint(bits)-1), e).e) && entails(*facts, e) {
					return e, true
				}
				return lin{}, false
			}
			return e, true
		}
		switch x.Op {
		case token.ADD:
			if e, ok := exact(p.toLin(x.X, facts).add(p.toLin(x.Y, facts), 1)); ok {
				return e
			}
		case token.SUB:
			e := p.toLin(x.X, facts).add(p.toLin(x.Y, facts), -1)
			if !uns {
				return e
			}
			// unsigned subtraction: exact only if provably non-negative
			if entails(*facts, e) {
				return e
			}
		case token.MUL:
			a, b := p.toLin(x.X, facts), p.toLin(x.Y, facts)
			if a.isConst() {
				if e, ok := exact(b.scale(a.c)); ok {
					return e
				}
			} else if b.isConst() {
				if e, ok := exact(a.scale(b.c)); ok {
					return e
				}
			}
		case token.AND:
			for _, pr := range [][2]ssa.Value{{x.X, x.Y}, {x.Y, x.X}} {
				if c, ok := intConst(pr[1]); ok && c >= 0 {
					at := atomLin(atom{v: v})
					*facts = append(*facts, cons{at.clone()}, ge(konst(c), at))
					// x & c <= x when x >= 0
					inner := p.toLin(pr[0], facts)
					if entails(*facts, inner) {
						*facts = append(*facts, ge(inner, at))
					}
					return at
				}
			}
		case token.OR:
			// a | b with disjoint-bit operands (byte << 8k patterns): bounded by the sum; keep as atom with range
			at := atomLin(atom{v: v})
			a, b := p.toLin(x.X, facts), p.toLin(x.Y, facts)
			if entails(*facts, a) && entails(*facts, b) {
				*facts = append(*facts, cons{at.clone()}, ge(a.add(b, 1), at), ge(at, a), ge(at, b))
			}
			typeRange(at, x.Type(), facts)
			return at
		case token.SHL:
			if c, ok := intConst(x.Y); ok && c >= 0 && c < 40 {
				if e, ok := exact(p.toLin(x.X, facts).scale(big.NewRat(1<<uint(c), 1))); ok {
					return e
				}
			}
		case token.SHR:
			at := atomLin(atom{v: v})
			inner := p.toLin(x.X, facts)
			if entails(*facts, inner) {
				*facts = append(*facts, cons{at.clone()}, ge(inner, at))
				if c, ok := intConst(x.Y); ok && c >= 0 && c < 40 {
					// x >> c  in  [(x - (2^c - 1)) / 2^c, x / 2^c]
					k := big.NewRat(1<<uint(c), 1)
					*facts = append(*facts, ge(inner, at.scale(k)))
					*facts = append(*facts, ge(at.scale(k).add(konst((1<<uint(c))-1), 1), inner))
				}
			}
			typeRange(at, x.Type(), facts)
			return at
		case token.REM:
			if c, ok := intConst(x.Y); ok && c > 0 {
				at := atomLin(atom{v: v})
				inner := p.toLin(x.X, facts)
				if entails(*facts, inner) {
					*facts = append(*facts, cons{at.clone()}, ge(konst(c-1), at), ge(inner, at))
				} else {
					*facts = append(*facts, ge(konst(c-1), at), ge(at, konst(-(c-1))))
				}
				return at
			}
		case token.QUO:
			if c, ok := intConst(x.Y); ok && c > 0 {
				at := atomLin(atom{v: v})
				inner := p.toLin(x.X, facts)
				if entails(*facts, inner) {
					k := big.NewRat(c, 1)
					*facts = append(*facts, cons{at.clone()}, ge(inner, at.scale(k)), ge(at.scale(k).add(konst(c-1), 1), inner))
				}
				return at
			}
		}
	case *ssa.Convert:
		sb, su, sok := intBits(x.X.Type())
		db, du, dok := intBits(x.Type())
		if sok && dok {
			inner := p.toLin(x.X, facts)
			if p.peelConv && (du || db >= 32) {
				return inner
			}
			lo, hi := int64(0), int64(0)
			if du {
				if db <= 32 {
					hi = int64(1)<<uint(db) - 1
				}
			} else if db <= 32 {
				lo, hi = -(int64(1) << uint(db-1)), int64(1)<<uint(db-1)-1
			}
			fits := false
			switch {
			case su && du && db >= sb:
				fits = true
			case su && !du && db > sb:
				fits = true
			case su && !du && db == 64 && sb == 64:
				fits = true // uint64 -> int: lengths and header fields stay far below 2^63 (stated assumption)
			case !su && !du && db >= sb:
				fits = true
			case !su && du && db == 64:
				fits = entails(*facts, inner) // int -> uint64 identity when non-negative
			default:
				if db <= 32 {
					fits = entails(*facts, ge(inner, konst(lo)).e) && entails(*facts, ge(konst(hi), inner).e)
				}
			}
			if fits {
				return inner
			}
			at := atomLin(atom{v: v})
			typeRange(at, x.Type(), facts)
			return at
		}
	case *ssa.ChangeType:
		return p.toLin(x.X, facts)
	case *ssa.Call:
		if b, ok := x.Call.Value.(*ssa.Builtin); ok {
			switch b.Name() {
			case "len":
				return p.lenLin(x.Call.Args[0], facts)
			case "cap":
				return p.capLin(x.Call.Args[0], facts)
			case "min", "max":
				at := atomLin(atom{v: v})
				var als []lin
				for _, a := range x.Call.Args {
					al := p.toLin(a, facts)
					als = append(als, al)
					if b.Name() == "min" {
						*facts = append(*facts, ge(al, at))
					} else {
						*facts = append(*facts, ge(at, al))
					}
				}
				// the result is one of the operands: a constant bound that holds for every operand holds for it
				for _, k := range []int64{0, 1, 4, 8, 10, 12, 16, 20, 30} {
					all := true
					for _, al := range als {
						g := ge(al, konst(k)).e
						if b.Name() == "max" {
							g = ge(konst(k), al).e
						}
						if !entails(*facts, g) {
							all = false
							break
						}
					}
					if all {
						if b.Name() == "min" {
							*facts = append(*facts, ge(at, konst(k)))
						} else {
							*facts = append(*facts, ge(konst(k), at))
						}
					}
				}
				return at
			}
		} else if callee := x.Call.StaticCallee(); callee != nil {
			if l, ok := p.inlineCall(callee, x, facts); ok {
				return l
			}
			// encoding/binary readers: value range by result type (handled below)
		}
	case *ssa.Extract, *ssa.Field, *ssa.UnOp:
		if s, f, ok := p.structField(v); ok {
			at := atomLin(atom{v: s, fld: f + 1})
			typeRange(at, v.Type(), facts)
			return at
		}
	}
	at := atomLin(atom{v: p.rep(v)})
	typeRange(at, v.Type(), facts)
	return at
}

// inlineCall substitutes a small pure helper: a single-block function whose result is
// an integer expression of its parameters.
func (p *prover) inlineCall(callee *ssa.Function, call *ssa.Call, facts *[]cons) (lin, bool) {
	if p.depth >= 3 || callee.Blocks == nil || len(callee.Blocks) != 1 || !p.db.p.IsModFunc(callee) {
		return lin{}, false
	}
	b := callee.Blocks[0]
	ret, ok := b.Instrs[len(b.Instrs)-1].(*ssa.Return)
	if !ok || len(ret.Results) != 1 || !isIntLike(ret.Results[0].Type()) {
		return lin{}, false
	}
	for _, in := range b.Instrs {
		switch in.(type) {
		case *ssa.Store, *ssa.Call, *ssa.Go, *ssa.Defer:
			return lin{}, false
		}
	}
	sub := &prover{db: p.db, fn: callee, canon: map[ssa.Value]ssa.Value{}, env: map[ssa.Value]lin{}, lenEnv: map[ssa.Value]lin{}, depth: p.depth + 1}
	for i, par := range callee.Params {
		if i >= len(call.Call.Args) {
			return lin{}, false
		}
		a := call.Call.Args[i]
		if isIntLike(par.Type()) {
			sub.env[par] = p.toLin(a, facts)
		} else if _, isSl := par.Type().Underlying().(*types.Slice); isSl {
			sub.lenEnv[par] = p.lenLin(a, facts)
		}
	}
	return sub.toLin(ret.Results[0], facts), true
}

func (p *prover) lenLin(v ssa.Value, facts *[]cons) lin {
	v = p.rep(v)
	if p.lenEnv != nil {
		if l, ok := p.lenEnv[v]; ok {
			return l.clone()
		}
	}
	switch x := v.(type) {
	case *ssa.Slice:
		var lo, hi lin
		if x.Low != nil {
			lo = p.toLin(x.Low, facts)
		} else {
			lo = konst(0)
		}
		if x.High != nil {
			hi = p.toLin(x.High, facts)
		} else {
			hi = p.lenOfOperand(x.X, facts)
		}
		return hi.add(lo, -1)
	case *ssa.MakeSlice:
		return p.toLin(x.Len, facts)
	case *ssa.Const:
		if x.Value != nil && x.Value.Kind() == constant.String {
			return konst(int64(len(constant.StringVal(x.Value))))
		}
		if x.IsNil() {
			return konst(0)
		}
	case *ssa.Phi:
		// handled as an atom; case split happens at the goal level
	case *ssa.ChangeType:
		return p.lenLin(x.X, facts)
	}
	if t, ok := v.Type().Underlying().(*types.Array); ok {
		return konst(t.Len())
	}
	if s, f, ok := p.structField(v); ok {
		at := atomLin(atom{v: s, fld: f + 1, isLen: true})
		*facts = append(*facts, cons{at.clone()})
		return at
	}
	at := atomLin(atom{v: p.rep(v), isLen: true})
	*facts = append(*facts, cons{at.clone()})
	return at
}

// capLin: capacity of a slice value as an atom >= its length.
func (p *prover) capLin(v ssa.Value, facts *[]cons) lin {
	v = p.rep(v)
	if p.capEnv != nil {
		if l, ok := p.capEnv[v]; ok {
			return l.clone()
		}
	}
	if sl, ok := v.(*ssa.Slice); ok && sl.Max == nil {
		// cap(x[lo:hi]) = cap(x) - lo
		if _, isSl := sl.X.Type().Underlying().(*types.Slice); isSl {
			lo := konst(0)
			if sl.Low != nil {
				lo = p.toLin(sl.Low, facts)
			}
			return p.capLin(sl.X, facts).add(lo, -1)
		}
	}
	if ms, ok := v.(*ssa.MakeSlice); ok {
		return p.toLin(ms.Cap, facts)
	}
	at := atomLin(atom{v: p.rep(v), fld: -1})
	*facts = append(*facts, ge(at, p.lenLin(v, facts)))
	return at
}

func (p *prover) lenOfOperand(v ssa.Value, facts *[]cons) lin {
	if pt, ok := v.Type().Underlying().(*types.Pointer); ok {
		if at, ok := pt.Elem().Underlying().(*types.Array); ok {
			return konst(at.Len())
		}
	}
	return p.lenLin(v, facts)
}

// ---- facts ----

func negOp(op token.Token) token.Token {
	switch op {
	case token.LSS:
		return token.GEQ
	case token.LEQ:
		return token.GTR
	case token.GTR:
		return token.LEQ
	case token.GEQ:
		return token.LSS
	case token.EQL:
		return token.NEQ
	case token.NEQ:
		return token.EQL
	}
	return op
}

func (p *prover) condFacts(cond ssa.Value, truth bool, facts *[]cons) {
	if p.cfVisit == nil {
		p.cfVisit = map[ssa.Value]bool{}
	}
	if p.cfVisit[cond] || len(p.cfVisit) > 40 {
		return
	}
	p.cfVisit[cond] = true
	defer delete(p.cfVisit, cond)
	switch c := cond.(type) {
	case *ssa.BinOp:
		switch c.Op {
		case token.LSS, token.LEQ, token.GTR, token.GEQ, token.EQL, token.NEQ:
			// err == nil on a call result: callee postconditions
			if !isIntLike(c.X.Type()) {
				if (c.Op == token.EQL) == truth {
					p.errNilFacts(c.X, c.Y, facts)
				}
				return
			}
			x := p.toLin(c.X, facts)
			y := p.toLin(c.Y, facts)
			op := c.Op
			if !truth {
				op = negOp(op)
			}
			switch op {
			case token.LSS:
				*facts = append(*facts, gt(y, x))
			case token.LEQ:
				*facts = append(*facts, ge(y, x))
			case token.GTR:
				*facts = append(*facts, gt(x, y))
			case token.GEQ:
				*facts = append(*facts, ge(x, y))
			case token.EQL:
				*facts = append(*facts, ge(x, y), ge(y, x))
			case token.NEQ:
				// x != y with x >= y known gives x >= y+1 (and symmetrically)
				if entails(*facts, ge(x, y).e) {
					*facts = append(*facts, gt(x, y))
				} else if entails(*facts, ge(y, x).e) {
					*facts = append(*facts, gt(y, x))
				}
			}
		}
	case *ssa.UnOp:
		if c.Op == token.NOT {
			p.condFacts(c.X, !truth, facts)
		}
	case *ssa.Phi:
		// short-circuit && / ||: t = phi [false from blocks where a conjunct failed, X from the last]
		// truth of a conjunction implies every conjunct
		if truth {
			allFalse := true
			var last ssa.Value
			for _, e := range c.Edges {
				if k, ok := e.(*ssa.Const); ok && k.Value != nil && k.Value.Kind() == constant.Bool {
					if constant.BoolVal(k.Value) {
						allFalse = false
					}
				} else {
					last = e
				}
			}
			if allFalse && last != nil {
				p.condFacts(last, true, facts)
				// the conjuncts that jumped to the phi with false: their conditions were true on the other edge
				for i, e := range c.Edges {
					if k, ok := e.(*ssa.Const); ok && k.Value != nil && !constant.BoolVal(k.Value) {
						pred := c.Block().Preds[i]
						if iff, ok := pred.Instrs[len(pred.Instrs)-1].(*ssa.If); ok {
							// edge to phi block taken when cond false => on the other path cond true
							p.condFacts(iff.Cond, pred.Succs[0] != c.Block(), facts)
						}
					}
				}
			}
		} else {
			allTrue := true
			var last ssa.Value
			for _, e := range c.Edges {
				if k, ok := e.(*ssa.Const); ok && k.Value != nil && k.Value.Kind() == constant.Bool {
					if !constant.BoolVal(k.Value) {
						allTrue = false
					}
				} else {
					last = e
				}
			}
			if allTrue && last != nil {
				p.condFacts(last, false, facts)
				for i, e := range c.Edges {
					if k, ok := e.(*ssa.Const); ok && k.Value != nil && constant.BoolVal(k.Value) {
						pred := c.Block().Preds[i]
						if iff, ok := pred.Instrs[len(pred.Instrs)-1].(*ssa.If); ok {
							p.condFacts(iff.Cond, pred.Succs[0] != c.Block(), facts)
						}
					}
				}
			}
		}
	case *ssa.Call:
		p.boolHelperFacts(c, truth, facts)
	}
}

// boolHelperFacts: the call returned `truth`. If exactly one return site of the (side-effect free)
// callee can produce that value, everything that dominates that return holds, with the callee's
// parameters bound to the call's arguments.
func (p *prover) boolHelperFacts(c *ssa.Call, truth bool, facts *[]cons) {
	callee := c.Call.StaticCallee()
	if callee == nil || callee.Blocks == nil || p.depth >= 3 || !p.db.p.IsModFunc(callee) {
		return
	}
	if callee.Signature.Results().Len() != 1 {
		return
	}
	for _, b := range callee.Blocks {
		for _, in := range b.Instrs {
			switch x := in.(type) {
			case *ssa.Store, *ssa.Go, *ssa.Defer:
				return
			case *ssa.Call:
				if _, isB := x.Call.Value.(*ssa.Builtin); !isB {
					return
				}
			}
		}
	}
	var cands []*ssa.Return
	for _, b := range callee.Blocks {
		ret, ok := b.Instrs[len(b.Instrs)-1].(*ssa.Return)
		if !ok {
			continue
		}
		if k, ok := ret.Results[0].(*ssa.Const); ok && k.Value != nil && k.Value.Kind() == constant.Bool {
			if constant.BoolVal(k.Value) == truth {
				cands = append(cands, ret)
			}
			continue
		}
		cands = append(cands, ret)
	}
	if len(cands) != 1 {
		return
	}
	ret := cands[0]
	sub := &prover{db: p.db, fn: callee, canon: map[ssa.Value]ssa.Value{}, env: map[ssa.Value]lin{}, lenEnv: map[ssa.Value]lin{}, capEnv: map[ssa.Value]lin{}, depth: p.depth + 1}
	for i, par := range callee.Params {
		if i >= len(c.Call.Args) {
			break
		}
		if isIntLike(par.Type()) {
			sub.env[par] = p.toLin(c.Call.Args[i], facts)
		} else if _, isSl := par.Type().Underlying().(*types.Slice); isSl {
			sub.lenEnv[par] = p.lenLin(c.Call.Args[i], facts)
			sub.capEnv[par] = p.capLin(c.Call.Args[i], facts)
		}
	}
	sub.domFacts(ret.Block(), ret, facts)
	if _, isConst := ret.Results[0].(*ssa.Const); !isConst {
		sub.condFacts(ret.Results[0], truth, facts)
	}
}

// edge facts of all dominating branches of block b, plus what earlier executed
// index/slice operations imply.
func (p *prover) domFacts(b *ssa.BasicBlock, upTo ssa.Instruction, facts *[]cons) {
	// dominator chain, outermost first, so that facts established early are
	// available when later conditions are translated (conversions, wrap checks)
	var chain []*ssa.BasicBlock
	for d := b; d != nil; d = d.Idom() {
		chain = append(chain, d)
	}
	for i, j := 0, len(chain)-1; i < j; i, j = i+1, j-1 {
		chain[i], chain[j] = chain[j], chain[i]
	}
	add := func(in ssa.Instruction) {
		switch x := in.(type) {
		case *ssa.IndexAddr:
			idx := p.toLin(x.Index, facts)
			*facts = append(*facts, cons{idx.clone()}, gt(p.lenOfOperand(x.X, facts), idx))
		case *ssa.Slice:
			ln := p.lenOfOperand(x.X, facts)
			if x.High != nil {
				hi := p.toLin(x.High, facts)
				if _, isSl := x.X.Type().Underlying().(*types.Slice); !isSl {
					*facts = append(*facts, ge(ln, hi))
				} else {
					*facts = append(*facts, ge(p.capLin(x.X, facts), hi))
				}
				if x.Low != nil {
					*facts = append(*facts, ge(hi, p.toLin(x.Low, facts)))
				}
			} else if x.Low != nil {
				*facts = append(*facts, ge(ln, p.toLin(x.Low, facts)))
			}
		case *ssa.Call:
			// unconditional postconditions of callees (no error result)
			p.callFacts(x, facts, false)
		}
	}
	for ci, d := range chain {
		// edge from the immediate dominator
		if ci > 0 {
			idom := chain[ci-1]
			if len(idom.Instrs) > 0 {
				if iff, ok := idom.Instrs[len(idom.Instrs)-1].(*ssa.If); ok {
					tsucc, fsucc := idom.Succs[0], idom.Succs[1]
					if tsucc != fsucc {
						td := edgeDominates(tsucc, d)
						fd := edgeDominates(fsucc, d)
						if td && !fd {
							p.condFacts(iff.Cond, true, facts)
						} else if fd && !td {
							p.condFacts(iff.Cond, false, facts)
						}
					}
				}
			}
		}
		for _, in := range d.Instrs {
			if d == b && in == upTo {
				break
			}
			add(in)
		}
	}
}

// edgeDominates: successor s is entered only through this edge and dominates cur.
func edgeDominates(s, cur *ssa.BasicBlock) bool {
	if len(s.Preds) != 1 {
		return false
	}
	return s.Dominates(cur)
}

// ---- phi invariants: phi >= L ----

func (p *prover) inferPhiInvariants() {
	for round := 0; round < 2; round++ {
		for _, b := range p.fn.Blocks {
			for _, ins := range b.Instrs {
				phi, ok := ins.(*ssa.Phi)
				if !ok {
					break
				}
				if !isIntLike(phi.Type()) {
					continue
				}
				for _, L := range []int64{-1, 0, 1} {
					hyp := ge(atomLin(atom{v: phi}), konst(L))
					if p.hasInv(hyp) {
						continue
					}
					good := true
					for i, e := range phi.Edges {
						pred := b.Preds[i]
						facts := []cons{hyp}
						facts = append(facts, p.phiInv...)
						el := p.toLin(e, &facts)
						p.domFacts(pred, nil, &facts)
						if len(pred.Instrs) > 0 {
							if iff, ok := pred.Instrs[len(pred.Instrs)-1].(*ssa.If); ok && pred.Succs[0] != pred.Succs[1] {
								p.condFacts(iff.Cond, pred.Succs[0] == b, &facts)
							}
						}
						if !entails(facts, el.add(konst(L), -1)) {
							good = false
							break
						}
					}
					if good {
						p.phiInv = append(p.phiInv, hyp)
					} else {
						break
					}
				}
			}
		}
	}
}

// inferRelInvariants: for a slice phi S and an int phi q at the same loop header, try the
// relations len(S) + a*q == (same expression over the entry values); checked inductively.
func (p *prover) inferRelInvariants() {
	for _, b := range p.fn.Blocks {
		var sphis, iphis []*ssa.Phi
		for _, ins := range b.Instrs {
			phi, ok := ins.(*ssa.Phi)
			if !ok {
				break
			}
			if _, isSl := phi.Type().Underlying().(*types.Slice); isSl {
				sphis = append(sphis, phi)
			} else if isIntLike(phi.Type()) {
				iphis = append(iphis, phi)
			}
		}
		if len(sphis) == 0 || len(iphis) == 0 {
			continue
		}
		// loop header: some predecessor is dominated by b
		entry := -1
		nback := 0
		for i, pr := range b.Preds {
			if b.Dominates(pr) {
				nback++
			} else if entry == -1 {
				entry = i
			} else {
				entry = -2
			}
		}
		if nback == 0 || entry < 0 {
			continue
		}
		for _, S := range sphis {
			for _, q := range iphis {
				for _, a := range []int64{1, -1, 2, 3, 4, 8} {
					var f0 []cons
					expr := func(sv, qv ssa.Value, facts *[]cons) lin {
						return p.lenLin(sv, facts).add(p.toLin(qv, facts).scale(big.NewRat(a, 1)), 1)
					}
					// the phi atoms themselves (not their definitions)
					cur := atomLin(atom{v: S, isLen: true}).add(atomLin(atom{v: q}).scale(big.NewRat(a, 1)), 1)
					init := expr(S.Edges[entry], q.Edges[entry], &f0)
					hyp1, hyp2 := ge(cur, init), ge(init, cur)
					good := true
					for i, pr := range b.Preds {
						if i == entry {
							continue
						}
						facts := []cons{hyp1, hyp2}
						facts = append(facts, p.phiInv...)
						p.domFacts(pr, nil, &facts)
						next := expr(S.Edges[i], q.Edges[i], &facts)
						if !entails(facts, ge(next, init).e) || !entails(facts, ge(init, next).e) {
							good = false
							break
						}
					}
					if good {
						p.phiInv = append(p.phiInv, hyp1, hyp2)
						break
					}
				}
			}
		}
	}
}

func (p *prover) hasInv(c cons) bool {
	for _, x := range p.phiInv {
		if linEq(x.e, c.e) {
			return true
		}
	}
	return false
}

func linEq(a, b lin) bool {
	if a.c.Cmp(b.c) != 0 || len(a.t) != len(b.t) {
		return false
	}
	for k, v := range a.t {
		w, ok := b.t[k]
		if !ok || v.Cmp(w) != 0 {
			return false
		}
	}
	return true
}

// ---- Fourier-Motzkin ----

// entails: facts |= goal >= 0 (over the integers, decided over the rationals with the
// integer tightening goal <= -1 for the negation).
func entails(facts []cons, goal lin) bool {
	neg := goal.scale(big.NewRat(-1, 1)).add(konst(1), -1)
	// relevance filter: facts sharing atoms (transitively) with the goal
	rel := map[atom]bool{}
	for k := range goal.t {
		rel[k] = true
	}
	used := make([]bool, len(facts))
	var cs []lin
	for round := 0; round < 4; round++ {
		grew := false
		for i, f := range facts {
			if used[i] {
				continue
			}
			hit := false
			for k := range f.e.t {
				if rel[k] {
					hit = true
					break
				}
			}
			if hit {
				used[i] = true
				cs = append(cs, f.e)
				for k := range f.e.t {
					if !rel[k] {
						rel[k] = true
						grew = true
					}
				}
			}
		}
		if !grew {
			break
		}
	}
	if proverWordBits == 32 {
		// lengths are ints: below 2^31 on a 32-bit configuration
		for k := range rel {
			if k.isLen {
				cs = append(cs, ge(konst(1<<31-1), atomLin(k)).e)
			}
		}
	}
	if len(cs) > 120 {
		cs = cs[:120]
	}
	if debugEntails {
		for _, c := range cs {
			println("   rel fact:", c.String(), ">= 0")
		}
	}
	cs = append(cs, neg)
	return infeasible(cs)
}

func infeasible(cs []lin) bool {
	for iter := 0; iter < 60; iter++ {
		vars := map[atom]bool{}
		next := cs[:0:0]
		for _, c := range cs {
			if c.isConst() {
				if c.c.Sign() < 0 {
					return true
				}
				continue
			}
			next = append(next, c)
			for k := range c.t {
				vars[k] = true
			}
		}
		cs = next
		if len(vars) == 0 {
			return false
		}
		var best atom
		bestCost := -1
		// deterministic choice: lowest cost, ties by a stable order
		var vs []atom
		for v := range vars {
			vs = append(vs, v)
		}
		sort.Slice(vs, func(i, j int) bool { return atomOrder(vs[i]) < atomOrder(vs[j]) })
		for _, v := range vs {
			pos, neg := 0, 0
			for _, c := range cs {
				if co, ok := c.t[v]; ok {
					if co.Sign() > 0 {
						pos++
					} else {
						neg++
					}
				}
			}
			cost := pos * neg
			if bestCost < 0 || cost < bestCost {
				bestCost = cost
				best = v
			}
		}
		var pos, neg, rest []lin
		for _, c := range cs {
			if co, ok := c.t[best]; ok {
				if co.Sign() > 0 {
					pos = append(pos, c)
				} else {
					neg = append(neg, c)
				}
			} else {
				rest = append(rest, c)
			}
		}
		for _, a := range pos {
			for _, b := range neg {
				ca := a.t[best]
				cb := new(big.Rat).Neg(b.t[best])
				comb := a.scale(cb).add(b.scale(ca), 1)
				delete(comb.t, best)
				rest = append(rest, comb)
			}
		}
		if len(rest) > 3000 {
			return false
		}
		cs = rest
	}
	return false
}

func atomOrder(a atom) string {
	s := ""
	if a.v != nil {
		s = a.v.Name()
		if in, ok := a.v.(ssa.Instruction); ok && in.Parent() != nil {
			s = in.Parent().Name() + "." + s
		}
	}
	if a.isLen {
		s += "#len"
	}
	return s + string(rune('0'+a.fld))
}

var proverDebug = false
var debugEntails = false

func (l lin) String() string {
	var ks []atom
	for k := range l.t {
		ks = append(ks, k)
	}
	sort.Slice(ks, func(i, j int) bool { return atomOrder(ks[i]) < atomOrder(ks[j]) })
	s := l.c.RatString()
	for _, k := range ks {
		s += " + " + l.t[k].RatString() + "*" + atomOrder(k)
	}
	return s
}

// proveAt decides goal >= 0 at instruction `at` of p.fn.
func (p *prover) proveAt(at ssa.Instruction, mk func(facts *[]cons) []lin) bool {
	var facts []cons
	facts = append(facts, p.phiInv...)
	p.domFacts(at.Block(), at, &facts)
	goals := mk(&facts)
	for _, g := range goals {
		if !entails(facts, g) {
			if !p.caseSplit(at, g, facts, 0) {
				if proverDebug {
					println("UNPROVED goal:", g.String(), " >= 0")
					debugEntails = true
					entails(facts, g)
					debugEntails = false
				}
				return false
			}
		}
	}
	return true
}

// caseSplit: if the goal mentions a phi atom, prove it per incoming edge with the edge's facts.
func (p *prover) caseSplit(at ssa.Instruction, g lin, facts []cons, depth int) bool {
	if depth >= 3 {
		return false
	}
	var phis []atom
	for k := range g.t {
		if _, ok := k.v.(*ssa.Phi); ok && k.fld == 0 {
			phis = append(phis, k)
		}
	}
	sort.Slice(phis, func(i, j int) bool { return atomOrder(phis[i]) < atomOrder(phis[j]) })
	for _, k := range phis {
		phi := k.v.(*ssa.Phi)
		if len(phi.Edges) > 4 {
			continue
		}
		// not a loop phi of a block that `at` is inside (edge facts would not hold then)
		ok := true
		for i, e := range phi.Edges {
			pred := phi.Block().Preds[i]
			if phi.Block().Dominates(pred) {
				ok = false // back edge
			}
			_ = e
		}
		if !ok {
			continue
		}
		all := true
		for i, e := range phi.Edges {
			pred := phi.Block().Preds[i]
			f2 := append([]cons{}, facts...)
			p.domFacts(pred, nil, &f2)
			if iff, isIf := pred.Instrs[len(pred.Instrs)-1].(*ssa.If); isIf && pred.Succs[0] != pred.Succs[1] {
				p.condFacts(iff.Cond, pred.Succs[0] == phi.Block(), &f2)
			}
			var el lin
			if k.isLen {
				el = p.lenLin(e, &f2)
			} else {
				el = p.toLin(e, &f2)
			}
			// substitute phi atom by the edge value
			g2 := g.clone()
			co := g2.t[k]
			delete(g2.t, k)
			g2 = g2.add(el.scale(co), 1)
			// the edge value equals the phi on this path
			f2 = append(f2, ge(atomLin(k), el), ge(el, atomLin(k)))
			if !entails(f2, g2) && !p.caseSplit(at, g2, f2, depth+1) {
				all = false
				break
			}
		}
		if all {
			return true
		}
	}
	return false
}
