package main

// C03: VP8L tables (A8), handler exhaustiveness, in-place safety of the inverse transforms (A7).

import (
	"fmt"
	"go/ast"
	"go/constant"
	"go/types"
	"sort"
)

func init() { register("C03", runC03) }

func runC03(c *Ctx) {
	c.Rule("A8-tables: the VP8L constant tables (code-length code order, distance map, alphabet sizes, repeat-code extra bits and offsets) are read by constant folding and equal the tables of an independent decoder written from the specification (golang.org/x/image/vp8l)")
	c.Rule("A8-relations: kBitMask[n] = 1<<n - 1; CodeLengthCodeOrder is a permutation of 0..18")
	c.Rule("A8-handlers: the predictor dispatch table has an entry for each of the 16 mode values, the inverse-transform switch has a case for each of the four transform types, and the transform reader has a case for each type")
	c.Rule("A7-inplace: no inverse transform kernel that reads input elements after it has written output elements at lower or unrelated positions is ever called with possibly overlapping input and output buffers (root analysis of the buffers passed by applyInverseTransforms)")
	c.NotCovered("prefix-code table construction, the LZ77 copy loop, colour-cache bookkeeping and predictor arithmetic (value-level)")
	c.NotCovered("the header/transform bit grammar - see DESIGN.md: the grammar extractor was not built")
	ref := loadRefOrFail(c)
	if ref == nil {
		return
	}
	for _, cf := range c.configsFor() {
		p := c.load(cf[0], cf[1])
		if p == nil {
			continue
		}
		repo := repoTables(p, "internal/lossless", "internal/bitio", "internal/dsp")
		c.Func(fmt.Sprintf("%d tables and constants folded", len(repo)))
		checkTablePairs(c, repo, ref, []tablePair{
			{"lossless.CodeLengthCodeOrder", "vp8l.codeLengthCodeOrder", "code-length code order"},
			{"lossless.CodeToPlane", "vp8l.distanceMapTable", "distance code to plane map"},
			{"lossless.kBaseAlphabetSize", "vp8l.alphabetSizes", "alphabet sizes of the five prefix codes"},
			{"lossless.CodeLengthExtraBits", "vp8l.repeatBits", "extra bits of the repeat codes 16/17/18"},
			{"lossless.CodeLengthRepeatOffsets", "vp8l.repeatOffsets", "offsets of the repeat codes 16/17/18"},
		}, "A8-tables")
		bitBudget(c, p)
		relation(c, "A8-relations", "bitio.kBitMask", repo, []string{"bitio.kBitMask"}, "kBitMask[n] = (1<<n) - 1", func(t [][]int64) (bool, string) {
			for n, v := range t[0] {
				if v != (int64(1)<<uint(n))-1 {
					return false, fmt.Sprintf("kBitMask[%d] = %d", n, v)
				}
			}
			return len(t[0]) >= 25, "fewer than 25 entries"
		})
		relation(c, "A8-relations", "lossless.CodeLengthCodeOrder:permutation", repo, []string{"lossless.CodeLengthCodeOrder"}, "CodeLengthCodeOrder is a permutation of 0..18", func(t [][]int64) (bool, string) {
			seen := map[int64]bool{}
			for _, v := range t[0] {
				if v < 0 || v > 18 || seen[v] {
					return false, fmt.Sprintf("value %d", v)
				}
				seen[v] = true
			}
			return len(t[0]) == 19, "length"
		})
		c03Handlers(c, p)
		a7InPlace(c, p, "C03")
	}
}

// switchCases returns the constant case values of the switch statements in fn whose tag is of
// the named type.
func switchCaseValues(p *Program, rel, fn, recv string, typeName string) (map[int64]bool, bool) {
	pk := p.Pkg(rel)
	if pk == nil {
		return nil, false
	}
	fd := FuncDecl(pk, recv, fn)
	if fd == nil || fd.Body == nil {
		return nil, false
	}
	vals := map[int64]bool{}
	found := false
	ast.Inspect(fd.Body, func(n ast.Node) bool {
		sw, ok := n.(*ast.SwitchStmt)
		if !ok || sw.Tag == nil {
			return true
		}
		tv, ok := pk.TypesInfo.Types[sw.Tag]
		if !ok {
			return true
		}
		if named, ok := tv.Type.(*types.Named); !ok || named.Obj().Name() != typeName {
			return true
		}
		found = true
		for _, st := range sw.Body.List {
			cc := st.(*ast.CaseClause)
			for _, e := range cc.List {
				if cv, ok := pk.TypesInfo.Types[e]; ok && cv.Value != nil {
					if v, exact := constant.Int64Val(constant.ToInt(cv.Value)); exact {
						vals[v] = true
					}
				}
			}
		}
		return true
	})
	return vals, found
}

func c03Handlers(c *Ctx, p *Program) {
	// transform types: constants of type TransformType
	pk := p.Pkg("internal/lossless")
	if pk == nil {
		c.AnchorMissing("A8-handlers", "internal/lossless")
		return
	}
	var ttypes []int64
	for _, name := range pk.Types.Scope().Names() {
		if k, ok := pk.Types.Scope().Lookup(name).(*types.Const); ok {
			if named, ok := k.Type().(*types.Named); ok && named.Obj().Name() == "TransformType" {
				if v, exact := constant.Int64Val(k.Val()); exact {
					ttypes = append(ttypes, v)
				}
			}
		}
	}
	sort.Slice(ttypes, func(i, j int) bool { return ttypes[i] < ttypes[j] })
	c.Check(len(ttypes) == 4, "A8-handlers", "lossless.TransformType:count", "", "four transform types are defined", fmt.Sprintf("%d TransformType constants defined, the format has 4", len(ttypes)))
	for _, site := range [][3]string{{"inverseTransform", "", "inverse transform dispatch"}, {"readTransform", "Decoder", "transform reader"}} {
		vals, found := switchCaseValues(p, "internal/lossless", site[0], site[1], "TransformType")
		if !found {
			c.AnchorMissing("A8-handlers", "switch on TransformType in lossless."+site[0])
			continue
		}
		for _, t := range ttypes {
			c.Check(vals[t], "A8-handlers", fmt.Sprintf("lossless.%s:case(%d)", site[0], t), "", site[2]+" handles the transform type", fmt.Sprintf("%s has no case for transform type %d", site[2], t))
		}
	}
	// predictor table: 16 slots stored from init-reachable code (the spec has 14 modes; 14 and 15 behave as 0)
	stored, _ := dispatchSlots(c, p)
	n := 0
	for i := 0; i < 16; i++ {
		k := fmt.Sprintf("dsp.LosslessPredictors[%d]", i)
		if stored[k] {
			n++
		}
		c.Check(stored[k] || stored["dsp.LosslessPredictors[*]"], "A8-handlers", k, "", "predictor slot initialised", "lossless predictor mode has no function: a stream using it would call nil")
	}
	_ = n
}
