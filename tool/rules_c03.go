package main

// C03: VP8L tables (A8), handler exhaustiveness, in-place safety of the inverse transforms (A7).

import (
	"fmt"
	"go/ast"
	"go/constant"
	"go/types"
	"sort"
	"strings"
)

func init() { register("C03", runC03) }

func runC03(c *Ctx) {
	c.Rule("A8-tables: the VP8L constant tables (code-length code order, distance map, alphabet sizes, repeat-code extra bits and offsets) are read by constant folding and equal the tables of an independent decoder written from the specification (golang.org/x/image/vp8l)")
	c.Rule("A8-relations: kBitMask[n] = 1<<n - 1; CodeLengthCodeOrder is a permutation of 0..18")
	c.Rule("A8-handlers: the predictor dispatch table has an entry for each of the 16 mode values, the inverse-transform switch has a case for each of the four transform types, and the transform reader has a case for each type")
	c.Rule("A7-inplace: no inverse transform kernel that reads input elements after it has written output elements at lower or unrelated positions is ever called with possibly overlapping input and output buffers (root analysis of the buffers passed by applyInverseTransforms)")
	c.NotCovered("prefix-code table construction, the LZ77 copy loop, colour-cache bookkeeping and predictor arithmetic (value-level)")
	c.NotCovered("the header/transform bit grammar - see DESIGN.md: the grammar extractor was not built")
	ref := loadRefOrFail(c)
	if ref == nil {
		return
	}
	for _, cf := range c.configsFor() {
		p := c.load(cf[0], cf[1])
		if p == nil {
			continue
		}
		repo := repoTables(p, "internal/lossless", "internal/bitio", "internal/dsp")
		c.Func(fmt.Sprintf("%d tables and constants folded", len(repo)))
		checkTablePairs(c, repo, ref, []tablePair{
			{"lossless.CodeLengthCodeOrder", "vp8l.codeLengthCodeOrder", "code-length code order"},
			{"lossless.CodeToPlane", "vp8l.distanceMapTable", "distance code to plane map"},
			{"lossless.kBaseAlphabetSize", "vp8l.alphabetSizes", "alphabet sizes of the five prefix codes"},
			{"lossless.CodeLengthExtraBits", "vp8l.repeatBits", "extra bits of the repeat codes 16/17/18"},
			{"lossless.CodeLengthRepeatOffsets", "vp8l.repeatOffsets", "offsets of the repeat codes 16/17/18"},
		}, "A8-tables")
		bitBudget(c, p)
		paletteTable(c, p)
		relation(c, "A8-relations", "bitio.kBitMask", repo, []string{"bitio.kBitMask"}, "kBitMask[n] = (1<<n) - 1", func(t [][]int64) (bool, string) {
			for n, v := range t[0] {
				if v != (int64(1)<<uint(n))-1 {
					return false, fmt.Sprintf("kBitMask[%d] = %d", n, v)
				}
			}
			return len(t[0]) >= 25, "fewer than 25 entries"
		})
		relation(c, "A8-relations", "lossless.CodeLengthCodeOrder:permutation", repo, []string{"lossless.CodeLengthCodeOrder"}, "CodeLengthCodeOrder is a permutation of 0..18", func(t [][]int64) (bool, string) {
			seen := map[int64]bool{}
			for _, v := range t[0] {
				if v < 0 || v > 18 || seen[v] {
					return false, fmt.Sprintf("value %d", v)
				}
				seen[v] = true
			}
			return len(t[0]) == 19, "length"
		})
		c03Handlers(c, p)
		a7InPlace(c, p, "C03")
	}
}

// switchCases returns the constant case values of the switch statements in fn whose tag is of
// the named type.
func switchCaseValues(p *Program, rel, fn, recv string, typeName string) (map[int64]bool, bool) {
	pk := p.Pkg(rel)
	if pk == nil {
		return nil, false
	}
	fd := FuncDecl(pk, recv, fn)
	if fd == nil || fd.Body == nil {
		return nil, false
	}
	vals := map[int64]bool{}
	found := false
	ast.Inspect(fd.Body, func(n ast.Node) bool {
		sw, ok := n.(*ast.SwitchStmt)
		if !ok || sw.Tag == nil {
			return true
		}
		tv, ok := pk.TypesInfo.Types[sw.Tag]
		if !ok {
			return true
		}
		if named, ok := tv.Type.(*types.Named); !ok || named.Obj().Name() != typeName {
			return true
		}
		found = true
		for _, st := range sw.Body.List {
			cc := st.(*ast.CaseClause)
			for _, e := range cc.List {
				if cv, ok := pk.TypesInfo.Types[e]; ok && cv.Value != nil {
					if v, exact := constant.Int64Val(constant.ToInt(cv.Value)); exact {
						vals[v] = true
					}
				}
			}
		}
		return true
	})
	return vals, found
}

func c03Handlers(c *Ctx, p *Program) {
	// transform types: constants of type TransformType
	pk := p.Pkg("internal/lossless")
	if pk == nil {
		c.AnchorMissing("A8-handlers", "internal/lossless")
		return
	}
	var ttypes []int64
	for _, name := range pk.Types.Scope().Names() {
		if k, ok := pk.Types.Scope().Lookup(name).(*types.Const); ok {
			if named, ok := k.Type().(*types.Named); ok && named.Obj().Name() == "TransformType" {
				if v, exact := constant.Int64Val(k.Val()); exact {
					ttypes = append(ttypes, v)
				}
			}
		}
	}
	sort.Slice(ttypes, func(i, j int) bool { return ttypes[i] < ttypes[j] })
	c.Check(len(ttypes) == 4, "A8-handlers", "lossless.TransformType:count", "", "four transform types are defined", fmt.Sprintf("%d TransformType constants defined, the format has 4", len(ttypes)))
	for _, site := range [][3]string{{"inverseTransform", "", "inverse transform dispatch"}, {"readTransform", "Decoder", "transform reader"}} {
		vals, found := switchCaseValues(p, "internal/lossless", site[0], site[1], "TransformType")
		if !found {
			c.AnchorMissing("A8-handlers", "switch on TransformType in lossless."+site[0])
			continue
		}
		for _, t := range ttypes {
			c.Check(vals[t], "A8-handlers", fmt.Sprintf("lossless.%s:case(%d)", site[0], t), "", site[2]+" handles the transform type", fmt.Sprintf("%s has no case for transform type %d", site[2], t))
		}
	}
	// predictor table: 16 slots stored from init-reachable code (the spec has 14 modes; 14 and 15 behave as 0)
	stored, _ := dispatchSlots(c, p)
	n := 0
	for i := 0; i < 16; i++ {
		k := fmt.Sprintf("dsp.LosslessPredictors[%d]", i)
		if stored[k] {
			n++
		}
		c.Check(stored[k] || stored["dsp.LosslessPredictors[*]"], "A8-handlers", k, "", "predictor slot initialised", "lossless predictor mode has no function: a stream using it would call nil")
	}
	_ = n
}

// B2 palette table: the colour-indexing inverse transform looks its (possibly packed) pixel values
// up in the colour table and leaves the output untouched for an index beyond the table; the format
// defines such a pixel as transparent black. So the table the decoder builds must have
// 1 << (8 >> bits) entries - every value a packed index can take - with zeros behind the transmitted
// colours. The table builder (found by signature: func(int, int, []uint32) []uint32 in the decoder
// files of internal/lossless) is evaluated by S8 for each packing (bits 3,2,1,0 with 2,3,5,17
// transmitted colours): the result's length and the entries behind the transmitted colours are read
// off the abstract memory.
func paletteTable(c *Ctx, p *Program) {
	c.Rule("B2 palette table: the function that expands a transmitted palette into the colour-indexing transform's table returns, for every packing (bits 0..3), a table of 1<<(8>>bits) entries whose entries behind the transmitted colours are 0 (S8 evaluation with concrete sizes and symbolic colours): the inverse transform skips the store for an index beyond the table, where the format defines transparent black")
	pk := p.SSAPkg("internal/lossless")
	if pk == nil {
		return
	}
	n := 0
	for _, fn := range p.SrcFuncs() {
		if fn.Pkg != pk || fn.Blocks == nil || fn.Signature.Recv() != nil || !strings.Contains(p.Pos(fn.Pos()), "decode") {
			continue
		}
		sg := fn.Signature
		if sg.Params().Len() != 3 || sg.Results().Len() != 1 {
			continue
		}
		if types.TypeString(sg.Params().At(0).Type(), nil) != "int" || types.TypeString(sg.Params().At(1).Type(), nil) != "int" ||
			types.TypeString(sg.Params().At(2).Type(), nil) != "[]uint32" || types.TypeString(sg.Results().At(0).Type(), nil) != "[]uint32" {
			continue
		}
		n++
		c.Func(FnName(fn))
		bad := ""
		for _, pr := range [][2]int64{{2, 3}, {3, 2}, {5, 1}, {17, 0}} {
			nc, bits := pr[0], pr[1]
			want := int64(1) << uint(8>>uint(bits))
			err := kernelEval(func(x *kx) {
				pal := x.newObj("palette")
				pal.input = func(off int64) (string, int64, int64, bool) {
					if off < 0 || off >= nc {
						return "", 0, 0, false
					}
					return fmt.Sprintf("pal(%d)", off), 0, 1<<32 - 1, true
				}
				r := x.call(fn, []kval{kint(nc), kint(bits), {kind: kvSlice, obj: pal, ln: nc, cp: nc}}, nil)
				if r.kind != kvSlice {
					kfail("the result is not a slice")
				}
				if r.ln != want {
					kfail("for %d transmitted colours packed with bits=%d the table has %d entries; the inverse transform can look up %d different values", nc, bits, r.ln, want)
				}
				for i := nc; i < want; i++ {
					v := x.load(r.obj, r.off+i, types.Typ[types.Uint32])
					if v.kind != kvNum || !v.n.isConst() || v.n.c != 0 {
						kfail("entry %d of the table (behind the %d transmitted colours, bits=%d) is not 0", i, nc, bits)
					}
				}
			})
			if err != nil && bad == "" {
				bad = err.Error()
			}
		}
		c.Check(bad == "", "B2-palette-table", FnName(fn), p.Pos(fn.Pos()),
			"for every packing the table has 1<<(8>>bits) entries, zero behind the transmitted colours",
			fn.Name()+": "+bad+": a pixel whose colour index lies beyond the table keeps whatever the output buffer held (stale pixels of an earlier decode or of the previous transform) instead of transparent black")
	}
	if n == 0 {
		c.AnchorMissing("B2-palette-table", "palette expansion function func(int, int, []uint32) []uint32 in the decoder")
	}
}
