package main

// Animation rules: C08 (blend-identity), C09 (decoder state and result ownership).

import (
	"fmt"
	"go/constant"
	"go/token"
	"go/types"
	"sort"
	"strings"

	"golang.org/x/tools/go/ssa"
)

func init() {
	register("C08", runC08)
	register("C09", runC09)
}

// ---- S4: order-partition evaluation over alpha classes ----

type alphaClass int

const (
	aZero alphaClass = iota
	aMid
	aFull
)

func (a alphaClass) String() string { return [...]string{"alpha=0", "0<alpha<255", "alpha=255"}[a] }

type tri int

const (
	triFalse tri = iota
	triTrue
	triUnknown
)

// absEnv: the two pixels of the analysed function and their abstract relation.
type absEnv struct {
	pix   map[ssa.Value]int // pixel value -> 0 (first pixel) / 1 (second pixel)
	alpha [2]alphaClass
	equal bool
	depth int
}

// pixelOf resolves a value to one of the two pixels (through local cells).
func (e *absEnv) pixelOf(v ssa.Value) (int, bool) {
	if i, ok := e.pix[v]; ok {
		return i, true
	}
	if ld, ok := v.(*ssa.UnOp); ok && ld.Op == token.MUL {
		if a, ok := ld.X.(*ssa.Alloc); ok {
			if s := singleStore(a); s != nil {
				return e.pixelOf(s)
			}
		}
	}
	return 0, false
}

// alphaOf: v is the alpha component of a pixel.
func (e *absEnv) alphaOf(v ssa.Value) (int, bool) {
	switch x := v.(type) {
	case *ssa.Field:
		if st, ok := x.X.Type().Underlying().(*types.Struct); ok && st.Field(x.Field).Name() == "A" {
			return e.pixelOf(x.X)
		}
	case *ssa.UnOp:
		if x.Op == token.MUL {
			if fa, ok := x.X.(*ssa.FieldAddr); ok {
				if st := structOf(fa.X.Type()); st != nil && st.Field(fa.Field).Name() == "A" {
					if a, ok := fa.X.(*ssa.Alloc); ok {
						if s := singleStore(a); s != nil {
							return e.pixelOf(s)
						}
					}
					if par, ok := fa.X.(*ssa.Parameter); ok {
						return e.pixelOf(par)
					}
				}
			}
		}
	case *ssa.Convert:
		return e.alphaOf(x.X)
	}
	return 0, false
}

func (e *absEnv) eval(cond ssa.Value) tri {
	switch c := cond.(type) {
	case *ssa.Const:
		if c.Value != nil && c.Value.Kind() == constant.Bool {
			if constant.BoolVal(c.Value) {
				return triTrue
			}
			return triFalse
		}
	case *ssa.UnOp:
		if c.Op == token.NOT {
			switch e.eval(c.X) {
			case triTrue:
				return triFalse
			case triFalse:
				return triTrue
			}
			return triUnknown
		}
	case *ssa.Call:
		// boolean helper over the two pixels: evaluate it abstractly on the same classes
		callee := c.Call.StaticCallee()
		if callee == nil || callee.Blocks == nil || e.depth > 2 {
			return triUnknown
		}
		sub := &absEnv{pix: map[ssa.Value]int{}, alpha: e.alpha, equal: e.equal, depth: e.depth + 1}
		npix := 0
		for i, a := range c.Call.Args {
			if pi, ok := e.pixelOf(a); ok && i < len(callee.Params) {
				sub.pix[callee.Params[i]] = pi
				npix++
			}
		}
		if npix == 0 {
			return triUnknown
		}
		sawT, sawF, sawU := false, false, false
		budget := 2000
		sub.explore(callee.Blocks[0], nil, map[*ssa.BasicBlock]bool{}, func(ret *ssa.Return, loop bool) {
			if ret == nil || len(ret.Results) != 1 {
				sawU = true
				return
			}
			switch sub.eval(ret.Results[0]) {
			case triTrue:
				sawT = true
			case triFalse:
				sawF = true
			default:
				sawU = true
			}
		}, &budget)
		switch {
		case sawU || (sawT && sawF):
			return triUnknown
		case sawT:
			return triTrue
		case sawF:
			return triFalse
		}
		return triUnknown
	case *ssa.BinOp:
		if c.Op != token.EQL && c.Op != token.NEQ {
			return triUnknown
		}
		res := triUnknown
		// pixel == pixel
		if i, ok := e.pixelOf(c.X); ok {
			if j, ok := e.pixelOf(c.Y); ok && i != j {
				if e.equal {
					res = triTrue
				} else {
					res = triFalse
				}
			}
		}
		// alpha == const / alpha == alpha
		if i, ok := e.alphaOf(c.X); ok {
			if k, isK := intConst(c.Y); isK {
				res = alphaEq(e.alpha[i], k)
			} else if j, ok := e.alphaOf(c.Y); ok {
				res = alphaEqA(e, i, j)
			}
		} else if j, ok := e.alphaOf(c.Y); ok {
			if k, isK := intConst(c.X); isK {
				res = alphaEq(e.alpha[j], k)
			}
		}
		if res == triUnknown {
			return res
		}
		if c.Op == token.NEQ {
			if res == triTrue {
				return triFalse
			}
			return triTrue
		}
		return res
	}
	return triUnknown
}

func alphaEq(a alphaClass, k int64) tri {
	switch a {
	case aZero:
		if k == 0 {
			return triTrue
		}
		return triFalse
	case aFull:
		if k == 255 {
			return triTrue
		}
		return triFalse
	}
	if k == 0 || k == 255 || k < 0 || k > 255 {
		return triFalse
	}
	return triUnknown
}

func alphaEqA(e *absEnv, i, j int) tri {
	if i == j {
		return triTrue
	}
	if e.equal {
		return triTrue
	}
	if e.alpha[i] != e.alpha[j] {
		return triFalse
	}
	if e.alpha[i] == aMid {
		return triUnknown
	}
	return triTrue
}

// explore follows every feasible path from block b (entered from prev) to a return and calls
// sink for each return reached; a revisited block ends the path with loop=true.
func (e *absEnv) explore(b, prev *ssa.BasicBlock, onPath map[*ssa.BasicBlock]bool, sink func(ret *ssa.Return, loop bool), budget *int) {
	if *budget <= 0 {
		sink(nil, true)
		return
	}
	*budget--
	if onPath[b] {
		sink(nil, true)
		return
	}
	onPath[b] = true
	defer delete(onPath, b)
	last := b.Instrs[len(b.Instrs)-1]
	switch t := last.(type) {
	case *ssa.Return:
		sink(t, false)
	case *ssa.If:
		v := e.evalAt(t.Cond, b, prev)
		if v != triFalse {
			e.explore(b.Succs[0], b, onPath, sink, budget)
		}
		if v != triTrue {
			e.explore(b.Succs[1], b, onPath, sink, budget)
		}
	default:
		for _, s := range b.Succs {
			e.explore(s, b, onPath, sink, budget)
		}
	}
}

// evalAt evaluates a condition; a phi of the current block is resolved through the edge taken.
func (e *absEnv) evalAt(cond ssa.Value, b, prev *ssa.BasicBlock) tri {
	if phi, ok := cond.(*ssa.Phi); ok && phi.Block() == b && prev != nil {
		for i, p := range b.Preds {
			if p == prev {
				return e.eval(phi.Edges[i])
			}
		}
	}
	return e.eval(cond)
}

type blendOutcome struct {
	retSrc, retDst, other bool
}

// blendClass evaluates the decoder's blend function for frame pixel class f (its src) and canvas class cv (its dst).
func blendClass(fn *ssa.Function, f, cv alphaClass, equal bool) blendOutcome {
	env := &absEnv{pix: map[ssa.Value]int{fn.Params[0]: 0, fn.Params[1]: 1}, alpha: [2]alphaClass{f, cv}, equal: equal}
	var out blendOutcome
	budget := 4000
	env.explore(fn.Blocks[0], nil, map[*ssa.BasicBlock]bool{}, func(ret *ssa.Return, loop bool) {
		if ret == nil {
			out.other = true
			return
		}
		if i, ok := env.pixelOf(ret.Results[0]); ok {
			if i == 0 {
				out.retSrc = true
			} else {
				out.retDst = true
			}
			return
		}
		out.other = true
	}, &budget)
	return out
}

// predicateMayAccept: does the encoder's per-pixel predicate possibly not reject the class?
// fn(prev, target, ...): pixels are the results of the two At-style calls in the loop body.
func predicateMayAccept(fn *ssa.Function, target, prev alphaClass, equal bool) (bool, bool) {
	// pixel fetches: calls whose receiver/first argument is parameter 0 (prev) or 1 (target) and that return a struct with field A
	pix := map[ssa.Value]int{}
	var start *ssa.BasicBlock
	for _, b := range fn.Blocks {
		for _, in := range b.Instrs {
			call, ok := in.(*ssa.Call)
			if !ok || len(call.Call.Args) == 0 {
				continue
			}
			st, ok := call.Type().Underlying().(*types.Struct)
			if !ok || st.NumFields() != 4 {
				continue
			}
			switch call.Call.Args[0] {
			case ssa.Value(fn.Params[0]):
				pix[call] = 0
				start = b
			case ssa.Value(fn.Params[1]):
				pix[call] = 1
				start = b
			}
		}
	}
	if len(pix) < 2 || start == nil {
		return false, false
	}
	env := &absEnv{pix: pix, alpha: [2]alphaClass{prev, target}, equal: equal}
	accept := false
	budget := 4000
	env.explore(start, nil, map[*ssa.BasicBlock]bool{}, func(ret *ssa.Return, loop bool) {
		if ret == nil {
			accept = true // reaches the next pixel without rejecting
			return
		}
		if k, ok := ret.Results[0].(*ssa.Const); ok && k.Value != nil && !constant.BoolVal(k.Value) {
			return // rejected
		}
		accept = true
	}, &budget)
	return accept, true
}

func runC08(c *Ctx) {
	c.Rule("blend-identity: the per-pixel predicates under which the animation encoder chooses alpha blending for a sub-frame, and the function the decoder applies to blended frames, touch the pixels only through comparisons of their alpha with 0 and 255 and through (in)equality of the pixels. Over the finite partition (target alpha, previous-canvas alpha) in {0, mid, 255}^2 x {pixels equal, different}: every class the predicate may accept must make the decoder's blend return the frame pixel, or return the canvas pixel with the two pixels equal or both fully transparent. A class that can reach the blend arithmetic is not provably the identity")
	c.Rule("commit-state: every AnimEncoder method that hands a frame to (*mux.Muxer).AddFrame has, on each successful exit, written every frame-to-frame state field that its sibling commit sites write (union over the sites; exceptions reviewed one per site+field in tables/animstate.txt)")
	c.Rule("canvas-provenance: the canvas passed from the AddFrame entry to the encoder's frame methods is built only from the call's image and memory allocated in the call (followed through calls by result-provenance summaries), never loaded from encoder fields or package variables")
	c.Rule("prev-canvas-fresh: every *image.NRGBA stored in an AnimEncoder field is the result of a function whose results are freshly allocated")
	c.Rule("candidate-consistency: every call of a blending predicate is asked about the same reference canvas that the candidate's changed rectangle was computed against (findChangedRect's first argument, followed through snapping, clipping, local variables and helper parameters)")
	c.Rule("frame-normalise: a conversion function that can return the caller's *image.NRGBA itself does so only under tests of its Stride and origin")
	c.NotCovered("changed-rectangle detection, even snapping, dispose selection, duplicate merging, durations, key-frame policy (value-level over pixel data and histories)")
	for _, cf := range c.configsFor() {
		p := c.load(cf[0], cf[1])
		if p == nil {
			continue
		}
		blend := p.Fn("animation", "alphaBlendNRGBA")
		if blend == nil {
			c.AnchorMissing("blend-identity", "animation.alphaBlendNRGBA")
			continue
		}
		c.Func(FnName(blend))
		classes := []alphaClass{aZero, aMid, aFull}
		n := 0
		transfer := findFrameTransfer(p)
		if transfer != nil {
			c.Func(FnName(transfer))
			c.Note("blended sub-frames are rewritten by " + FnName(transfer) + " before encoding")
		}
		for _, name := range []string{"isLosslessBlendingPossible", "isLossyBlendingPossible"} {
			pred := p.Fn("animation", name)
			if pred == nil {
				c.AnchorMissing("blend-identity", "animation."+name)
				continue
			}
			c.Func(FnName(pred))
			for _, ta := range classes {
				for _, pa := range classes {
					for _, eq := range []bool{true, false} {
						if eq && ta != pa {
							continue
						}
						n++
						key := fmt.Sprintf("%s:target(%s),prev(%s),%s", name, ta, pa, map[bool]string{true: "equal", false: "different"}[eq])
						acc, ok := predicateMayAccept(pred, ta, pa, eq)
						if !ok {
							c.Fail("blend-identity", key, p.Pos(pred.Pos()), "cannot find the two pixel fetches of the predicate")
							continue
						}
						if !acc {
							c.Pass("blend-identity", key, p.Pos(pred.Pos()), "the predicate rejects this class (the frame is stored without blending)")
							continue
						}
						// the pixel actually stored in a blended sub-frame
						fa, feq := ta, eq
						if transfer != nil && frameMadeTransparent(transfer, ta) {
							fa = aZero
							feq = eq && ta == aZero
						}
						o := blendClass(blend, fa, pa, feq)
						okClass := !o.other && (!o.retDst || eq || (ta == aZero && pa == aZero))
						if name == "isLossyBlendingPossible" {
							// lossy colour is approximate; alpha must survive: keeping the canvas pixel is fine when the alpha classes agree
							okClass = !o.other && (!o.retDst || ta == pa) && (!o.retSrc || fa == ta)
						} else if o.retSrc && fa != ta {
							okClass = false
						}
						why := fmt.Sprintf("frame pixel %s; blend outcomes: frame=%v canvas=%v arithmetic=%v", fa, o.retSrc, o.retDst, o.other)
						c.Check(okClass, "blend-identity", key, p.Pos(pred.Pos()), "accepted class; the decoder's blend reproduces the target ("+why+")",
							"the encoder may choose alpha blending for a pixel of this class but the decoder's blend does not reproduce the target pixel ("+why+"): e.g. an unchanged semi-transparent pixel is composited onto itself")
					}
				}
			}
		}
		c.Floor("blend-identity", n, 20)
		c08EncoderState(c, p)
	}
}

// ---- C09 ----

func runC09(c *Ctx) {
	c.Rule("R1 reset: every AnimDecoder field that NextFrame (and what it calls) may modify is stored by Reset with a constant, and Reset clears both canvases, so a replay after Reset starts from the state NewAnimDecoder creates")
	c.Rule("R2 fresh result: the image returned by NextFrame is allocated in that call and no reference to it (or to its pixel slice) is stored in the decoder or anywhere else; the decoder's own canvases are never returned by NextFrame")
	c.Rule("R5 canvas refresh: every canvas of the decoder (an *image.NRGBA field) that NextFrame overwrites completely on some path (copy into its Pix, or a callee that writes all of Pix) is overwritten completely on every successful path - a refresh that is skipped on some path leaves the pixels of an older frame in a buffer the next frame starts from")
	c.Rule("R6 no-blend overwrite: in the function that composites a frame (reads the frame's blend method), a branch on pixel data is taken only on the alpha-blending side of the blend-method test, or always leads to a canvas write before the next pixel: in do-not-blend mode every pixel of the rectangle overwrites the canvas")
	c.Rule("R3 history refresh: every history field that NextFrame may modify is written on every successful path through NextFrame (a field updated on some paths only keeps a stale value from an older frame)")
	c.Rule("R4 blend exits: alphaBlendNRGBA leaves early only under conditions on the alpha values being 0 or 255; the specified blend has no other shortcut")
	c.NotCovered("the blend arithmetic itself, rectangle clamping values, disposal order and that the key-frame shortcut never changes a result (value-level over pixel data)")
	for _, cf := range c.configsFor() {
		p := c.load(cf[0], cf[1])
		if p == nil {
			continue
		}
		c09KeyFrameCover(c, p)
		next := p.Fn("animation", "AnimDecoder.NextFrame")
		reset := p.Fn("animation", "AnimDecoder.Reset")
		blend := p.Fn("animation", "alphaBlendNRGBA")
		if next == nil || reset == nil || blend == nil {
			c.AnchorMissing("C09", "animation.AnimDecoder.NextFrame/Reset, alphaBlendNRGBA")
			continue
		}
		c.Func(FnName(next))
		c.Func(FnName(reset))
		s := newS1(p)
		sn := s.summary(next, 0, false)
		st := structOf(next.Params[0].Type())
		// R1 / R3
		resetConst := s.summary(reset, 0, true) // constant stores only
		var fields []string
		for l := range sn.mayW {
			if !strings.Contains(l, "[") {
				fields = append(fields, l)
			}
		}
		sort.Strings(fields)
		nf := 0
		for _, f := range fields {
			ft := fieldTypeOf(st, f)
			if ft == nil {
				continue
			}
			if _, isPtr := ft.Underlying().(*types.Pointer); isPtr {
				continue // canvases: handled below
			}
			if _, isStruct := ft.Underlying().(*types.Struct); isStruct && strings.Contains(f, ".") == false && hasSubLoc(sn.mayW, f) {
				continue // a nested state struct: its fields are checked one by one
			}
			nf++
			c.Check(coveredBy(resetConst.mw, f), "R1-reset", "AnimDecoder."+f, p.Pos(reset.Pos()), "modified by NextFrame and restored to a constant by Reset",
				"NextFrame modifies AnimDecoder."+f+" but Reset does not restore it to a constant: a replay after Reset starts from leftover state")
			c.Check(coveredBy(sn.mw, f), "R3-history", "AnimDecoder."+f, p.Pos(next.Pos()), "written on every successful path of NextFrame",
				"AnimDecoder."+f+" is updated only on some paths through NextFrame: on the others the value of an older frame steers the key-frame decision of the next one")
		}
		c.Floor("R1-reset", nf, 4)
		// Reset clears both canvases: calls that receive a load of each pointer field
		for i := 0; i < st.NumFields(); i++ {
			f := st.Field(i)
			pt, ok := f.Type().Underlying().(*types.Pointer)
			if !ok || shortType(pt.Elem()) != "image.NRGBA" {
				continue
			}
			cleared := false
			for _, b := range reset.Blocks {
				for _, in := range b.Instrs {
					call, ok := in.(*ssa.Call)
					if !ok {
						continue
					}
					for _, a := range call.Call.Args {
						if ld, ok := a.(*ssa.UnOp); ok && ld.Op == token.MUL {
							if fa, ok := ld.X.(*ssa.FieldAddr); ok && fa.Field == i && fa.X == ssa.Value(reset.Params[0]) {
								if callee := call.Call.StaticCallee(); callee != nil && writesAllPix(callee) {
									cleared = true
								}
							}
						}
					}
				}
			}
			c.Check(cleared, "R1-reset", "AnimDecoder."+f.Name()+":cleared", p.Pos(reset.Pos()), "Reset clears the canvas",
				"Reset does not clear canvas "+f.Name()+": a replay would composite onto leftover pixels")
		}
		// R5: both canvases are completely rewritten on every successful path of NextFrame
		c09CanvasRefresh(c, p, next)
		c09NoBlendOverwrite(c, p)
		// R2
		c09Fresh(c, p, next)
		// R4
		c09BlendExits(c, p, blend)
	}
}

func fieldTypeOf(st *types.Struct, name string) types.Type {
	// a dotted path goes through nested (embedded or named) struct fields
	head, rest, nested := strings.Cut(name, ".")
	for i := 0; st != nil && i < st.NumFields(); i++ {
		if st.Field(i).Name() == head {
			if !nested {
				return st.Field(i).Type()
			}
			if in, ok := st.Field(i).Type().Underlying().(*types.Struct); ok {
				return fieldTypeOf(in, rest)
			}
			return nil
		}
	}
	return nil
}

// coveredBy: the location or one of its enclosing struct locations is in the set.
func coveredBy(set map[string]bool, loc string) bool {
	for {
		if set[loc] {
			return true
		}
		i := strings.LastIndex(loc, ".")
		if i < 0 {
			return false
		}
		loc = loc[:i]
	}
}

// writesAllPix: the function stores to every element of param0.Pix (full-range loop).
func writesAllPix(fn *ssa.Function) bool {
	if fn.Blocks == nil || len(fn.Params) == 0 {
		return false
	}
	for _, b := range fn.Blocks {
		for _, in := range b.Instrs {
			// copy(param0.Pix, ...) or clear(param0.Pix)
			if call, ok := in.(*ssa.Call); ok && len(call.Call.Args) > 0 {
				if bi, ok := call.Call.Value.(*ssa.Builtin); ok && (bi.Name() == "copy" || bi.Name() == "clear") {
					if ld, ok := call.Call.Args[0].(*ssa.UnOp); ok && ld.Op == token.MUL {
						if fa, ok := ld.X.(*ssa.FieldAddr); ok && fa.X == ssa.Value(fn.Params[0]) {
							if s := structOf(fa.X.Type()); s != nil && s.Field(fa.Field).Name() == "Pix" {
								return true
							}
						}
					}
				}
			}
			st, ok := in.(*ssa.Store)
			if !ok {
				continue
			}
			ia, ok := st.Addr.(*ssa.IndexAddr)
			if !ok {
				continue
			}
			if _, isConst := ia.Index.(*ssa.Const); isConst {
				continue
			}
			if ld, ok := ia.X.(*ssa.UnOp); ok && ld.Op == token.MUL {
				if fa, ok := ld.X.(*ssa.FieldAddr); ok && fa.X == ssa.Value(fn.Params[0]) {
					if s := structOf(fa.X.Type()); s != nil && s.Field(fa.Field).Name() == "Pix" {
						return true
					}
				}
			}
		}
	}
	return false
}

func c09Fresh(c *Ctx, p *Program, next *ssa.Function) {
	recv := next.Params[0]
	derRecv := derivedFrom(next, recv)
	n := 0
	for _, b := range next.Blocks {
		ret, ok := b.Instrs[len(b.Instrs)-1].(*ssa.Return)
		if !ok || len(ret.Results) == 0 {
			continue
		}
		res := ret.Results[0]
		if k, isC := res.(*ssa.Const); isC && k.IsNil() {
			continue
		}
		n++
		key := fmt.Sprintf("NextFrame:return#%d", n)
		// defer-spilled results: look through the cell
		vals := []ssa.Value{res}
		if ld, ok := res.(*ssa.UnOp); ok && ld.Op == token.MUL {
			if a, ok := ld.X.(*ssa.Alloc); ok {
				vals = nil
				for _, u := range *a.Referrers() {
					if st, ok := u.(*ssa.Store); ok && st.Addr == ssa.Value(a) {
						vals = append(vals, st.Val)
					}
				}
			}
		}
		bad := ""
		for _, v := range vals {
			if k, isC := v.(*ssa.Const); isC && k.IsNil() {
				continue
			}
			if derRecv[v] {
				bad = "returns memory owned by the decoder (" + v.Name() + "): later calls modify the picture the caller holds"
				break
			}
			call, isCall := v.(*ssa.Call)
			if !isCall || call.Call.StaticCallee() == nil || call.Call.StaticCallee().Pkg == nil || call.Call.StaticCallee().Pkg.Pkg.Path() != "image" {
				if callee := func() *ssa.Function {
					if isCall {
						return call.Call.StaticCallee()
					}
					return nil
				}(); callee == nil || !freshResults(callee, map[*ssa.Function]bool{}) {
					bad = "the returned image is not allocated in this call"
					break
				}
			}
			// retained?
			der := derivedFrom(next, v)
			for _, b2 := range next.Blocks {
				for _, in := range b2.Instrs {
					st, ok := in.(*ssa.Store)
					if !ok || !der[st.Val] || !pointerLike(st.Val.Type()) {
						continue
					}
					if der[st.Addr] {
						continue
					}
					if _, isCell := st.Addr.(*ssa.Alloc); isCell {
						continue
					}
					bad = fmt.Sprintf("the returned snapshot (or its pixel slice) is stored into %s at %s: the decoder keeps writing to a picture the caller holds", describeAddr(st.Addr), p.Pos(st.Pos()))
				}
			}
		}
		c.Check(bad == "", "R2-fresh", key, p.Pos(ret.Pos()), "fresh image, not retained by the decoder", bad)
	}
	c.Floor("R2-fresh", n, 1)
}

func c09BlendExits(c *Ctx, p *Program, blend *ssa.Function) {
	env := &absEnv{pix: map[ssa.Value]int{blend.Params[0]: 0, blend.Params[1]: 1}}
	n := 0
	// every branch that can lead to a return of one of the parameters must test alpha against 0/255 only
	for _, b := range blend.Blocks {
		iff, ok := b.Instrs[len(b.Instrs)-1].(*ssa.If)
		if !ok {
			continue
		}
		// does a successor return a parameter directly?
		early := false
		for _, s := range b.Succs {
			if ret, ok := s.Instrs[len(s.Instrs)-1].(*ssa.Return); ok && len(s.Instrs) <= 3 {
				if _, isPix := env.pixelOf(ret.Results[0]); isPix {
					early = true
				}
			}
		}
		if !early {
			continue
		}
		n++
		key := fmt.Sprintf("alphaBlendNRGBA:exit#%d", n)
		ok2, why := alphaExtremeCond(env, iff.Cond, b, 0)
		c.Check(ok2, "R4-blend-exits", key, p.Pos(iff.Cond.Pos()), "early exit guarded by alpha == 0 / alpha == 255 tests only", "early exit of the blend function is taken under a condition other than an alpha value being 0 or 255 ("+why+"): the specified blend has no such shortcut")
	}
	c.Floor("R4-blend-exits", n, 2)
}

// alphaExtremeCond: cond is built only from comparisons of a pixel's alpha with the constants 0 and 255.
func alphaExtremeCond(env *absEnv, cond ssa.Value, b *ssa.BasicBlock, depth int) (bool, string) {
	if depth > 6 {
		return false, "too deep"
	}
	switch c := cond.(type) {
	case *ssa.BinOp:
		if c.Op == token.EQL || c.Op == token.NEQ {
			for _, pr := range [][2]ssa.Value{{c.X, c.Y}, {c.Y, c.X}} {
				if _, ok := env.alphaOf(pr[0]); ok {
					if k, ok := intConst(pr[1]); ok && (k == 0 || k == 255) {
						return true, ""
					}
				}
			}
		}
		return false, "comparison " + c.String()
	case *ssa.UnOp:
		if c.Op == token.NOT {
			return alphaExtremeCond(env, c.X, b, depth+1)
		}
	case *ssa.Phi:
		// short circuit: every incoming condition and the branch conditions of the predecessors
		for i, e := range c.Edges {
			if _, isConst := e.(*ssa.Const); isConst {
				pred := c.Block().Preds[i]
				if iff, ok := pred.Instrs[len(pred.Instrs)-1].(*ssa.If); ok {
					if ok2, why := alphaExtremeCond(env, iff.Cond, pred, depth+1); !ok2 {
						return false, why
					}
				}
				continue
			}
			if ok2, why := alphaExtremeCond(env, e, b, depth+1); !ok2 {
				return false, why
			}
		}
		return true, ""
	}
	return false, "condition " + cond.String()
}

// findFrameTransfer: the helper the encoder applies to a sub-frame when blending was chosen:
// a void function (sub, target *image.NRGBA, rect) called from the function that calls the
// blending predicates, in a block controlled by a comparison with the blend constant.
func findFrameTransfer(p *Program) *ssa.Function {
	pred := p.Fn("animation", "isLosslessBlendingPossible")
	if pred == nil {
		return nil
	}
	n := p.CallGraph().Nodes[pred]
	if n == nil {
		return nil
	}
	// the predicate may be wrapped by boolean helpers (isBlendingPossible(...) choosing between the
	// lossless and the lossy predicate): the blend decision is then taken by the wrapper's caller
	type lvl struct {
		via    *ssa.Function // the function whose calls mark the blend decision
		caller *ssa.Function
	}
	var work []lvl
	seenLvl := map[[2]*ssa.Function]bool{}
	var addCallers func(via *ssa.Function, depth int)
	addCallers = func(via *ssa.Function, depth int) {
		nn := p.CallGraph().Nodes[via]
		if nn == nil || depth > 3 {
			return
		}
		for _, e := range nn.In {
			cf := e.Caller.Func
			k := [2]*ssa.Function{via, cf}
			if seenLvl[k] {
				continue
			}
			seenLvl[k] = true
			work = append(work, lvl{via, cf})
			if cf.Signature.Results().Len() == 1 && shortType(cf.Signature.Results().At(0).Type()) == "bool" {
				addCallers(cf, depth+1)
			}
		}
	}
	addCallers(pred, 0)
	for _, lv := range work {
		caller := lv.caller
		counts := map[*ssa.Function]int{}
		npred := 0
		for _, b := range caller.Blocks {
			for _, in := range b.Instrs {
				call, ok := in.(*ssa.Call)
				if !ok {
					continue
				}
				callee := call.Call.StaticCallee()
				if callee == lv.via {
					npred++
				}
				if callee == nil || callee.Blocks == nil || callee.Signature.Results().Len() != 0 || len(callee.Params) != 3 {
					continue
				}
				if shortType(callee.Params[0].Type()) != "*image.NRGBA" || shortType(callee.Params[1].Type()) != "*image.NRGBA" {
					continue
				}
				// controlled by a branch (the blend decision)
				if idom := b.Idom(); idom != nil {
					if _, isIf := idom.Instrs[len(idom.Instrs)-1].(*ssa.If); isIf && len(b.Preds) == 1 {
						counts[callee]++
					}
				}
			}
		}
		for f, k := range counts {
			if k >= npred && npred > 0 {
				return f
			}
		}
	}
	return nil
}

// frameMadeTransparent: for a target pixel of class t the helper overwrites the sub-frame pixel with the zero colour.
func frameMadeTransparent(fn *ssa.Function, t alphaClass) bool {
	pix := map[ssa.Value]int{}
	var start *ssa.BasicBlock
	for _, b := range fn.Blocks {
		for _, in := range b.Instrs {
			call, ok := in.(*ssa.Call)
			if !ok || len(call.Call.Args) == 0 {
				continue
			}
			if st, ok := call.Type().Underlying().(*types.Struct); ok && st.NumFields() == 4 && call.Call.Args[0] == ssa.Value(fn.Params[1]) {
				pix[call] = 1
				start = b
			}
		}
	}
	if start == nil {
		return false
	}
	env := &absEnv{pix: pix, alpha: [2]alphaClass{aMid, t}}
	// does every feasible path from the fetch store the zero colour into param 0 before looping?
	always := true
	any := false
	var walk func(b, prev *ssa.BasicBlock, stored bool, onPath map[*ssa.BasicBlock]bool, depth int)
	walk = func(b, prev *ssa.BasicBlock, stored bool, onPath map[*ssa.BasicBlock]bool, depth int) {
		if depth > 200 {
			always = false
			return
		}
		if onPath[b] {
			any = true
			if !stored {
				always = false
			}
			return
		}
		onPath[b] = true
		defer delete(onPath, b)
		for _, in := range b.Instrs {
			if call, ok := in.(*ssa.Call); ok && len(call.Call.Args) >= 4 && call.Call.Args[0] == ssa.Value(fn.Params[0]) {
				if callee := call.Call.StaticCallee(); callee != nil && strings.HasPrefix(callee.Name(), "Set") {
					if zeroStruct(call.Call.Args[len(call.Call.Args)-1]) {
						stored = true
					}
				}
			}
		}
		switch t := b.Instrs[len(b.Instrs)-1].(type) {
		case *ssa.Return:
			any = true
			if !stored {
				always = false
			}
		case *ssa.If:
			v := env.evalAt(t.Cond, b, prev)
			if v != triFalse {
				walk(b.Succs[0], b, stored, onPath, depth+1)
			}
			if v != triTrue {
				walk(b.Succs[1], b, stored, onPath, depth+1)
			}
		default:
			for _, s := range b.Succs {
				walk(s, b, stored, onPath, depth+1)
			}
		}
	}
	walk(start, nil, false, map[*ssa.BasicBlock]bool{}, 0)
	return any && always
}

func zeroStruct(v ssa.Value) bool {
	switch x := v.(type) {
	case *ssa.Const:
		return x.Value == nil
	case *ssa.UnOp:
		if x.Op == token.MUL {
			if a, ok := x.X.(*ssa.Alloc); ok {
				for _, u := range *a.Referrers() {
					switch u.(type) {
					case *ssa.Store, *ssa.FieldAddr:
						return false
					}
				}
				return true
			}
		}
	}
	return false
}

// c09CanvasRefresh: must-overwrite analysis for the decoder's canvases inside NextFrame (and the
// methods of the decoder it calls with the same receiver: a NextFrame split into phases).
type refreshInfo struct {
	union map[string]bool                     // canvases completely overwritten somewhere
	out   map[*ssa.BasicBlock]map[string]bool // must-set at the end of each block
	exit  map[string]bool                     // must-set at every return that is not an error return
}

func canvasRefreshOf(fn *ssa.Function, memo map[*ssa.Function]*refreshInfo, depth int) *refreshInfo {
	if r, ok := memo[fn]; ok {
		return r
	}
	ri := &refreshInfo{union: map[string]bool{}, out: map[*ssa.BasicBlock]map[string]bool{}, exit: map[string]bool{}}
	memo[fn] = ri
	if fn.Blocks == nil || len(fn.Params) == 0 || depth > 4 {
		return ri
	}
	recv := fn.Params[0]
	canvasOf := func(v ssa.Value) string {
		// load of recv.<field> (pointer to NRGBA), or load of (load recv.<field>).Pix
		ld, ok := v.(*ssa.UnOp)
		if !ok || ld.Op != token.MUL {
			return ""
		}
		fa, ok := ld.X.(*ssa.FieldAddr)
		if !ok {
			return ""
		}
		if fa.X == ssa.Value(recv) {
			return fieldName(fa.X.Type(), fa.Field)
		}
		if fieldName(fa.X.Type(), fa.Field) == "Pix" {
			if in, ok := fa.X.(*ssa.UnOp); ok && in.Op == token.MUL {
				if fa2, ok := in.X.(*ssa.FieldAddr); ok && fa2.X == ssa.Value(recv) {
					return fieldName(fa2.X.Type(), fa2.Field)
				}
			}
		}
		return ""
	}
	gen := map[*ssa.BasicBlock]map[string]bool{}
	for _, b := range fn.Blocks {
		g := map[string]bool{}
		for _, in := range b.Instrs {
			call, ok := in.(*ssa.Call)
			if !ok || len(call.Call.Args) == 0 {
				continue
			}
			if bi, ok := call.Call.Value.(*ssa.Builtin); ok && bi.Name() == "copy" {
				if f := canvasOf(call.Call.Args[0]); f != "" {
					g[f] = true
				}
				continue
			}
			cal := call.Call.StaticCallee()
			if cal != nil && writesAllPix(cal) {
				if f := canvasOf(call.Call.Args[0]); f != "" {
					g[f] = true
				}
			}
			// a method of the decoder called on the same receiver: what it refreshes on all its exits
			if cal != nil && cal.Blocks != nil && call.Call.Args[0] == ssa.Value(recv) && cal.Signature.Recv() != nil {
				sub := canvasRefreshOf(cal, memo, depth+1)
				for f := range sub.exit {
					g[f] = true
				}
				for f := range sub.union {
					ri.union[f] = true
				}
			}
		}
		gen[b] = g
		for f := range g {
			ri.union[f] = true
		}
	}
	out := ri.out
	for changed := true; changed; {
		changed = false
		for _, b := range fn.Blocks {
			var in map[string]bool
			first := true
			if b == fn.Blocks[0] {
				in, first = map[string]bool{}, false
			}
			for _, pr := range b.Preds {
				po, ok := out[pr]
				if !ok {
					continue
				}
				if first {
					in = map[string]bool{}
					for k := range po {
						in[k] = true
					}
					first = false
				} else {
					for k := range in {
						if !po[k] {
							delete(in, k)
						}
					}
				}
			}
			if first {
				continue
			}
			for k := range gen[b] {
				in[k] = true
			}
			if old, had := out[b]; !had || len(old) != len(in) {
				out[b] = in
				changed = true
			}
		}
	}
	firstRet := true
	for _, b := range fn.Blocks {
		ret, ok := b.Instrs[len(b.Instrs)-1].(*ssa.Return)
		if !ok {
			continue
		}
		if len(ret.Results) > 0 {
			last := ret.Results[len(ret.Results)-1]
			if isErrorType(last.Type()) {
				if k, ok := last.(*ssa.Const); !ok || !k.IsNil() {
					continue // error return
				}
			}
		}
		if firstRet {
			for k := range out[b] {
				ri.exit[k] = true
			}
			firstRet = false
		} else {
			for k := range ri.exit {
				if !out[b][k] {
					delete(ri.exit, k)
				}
			}
		}
	}
	return ri
}

func c09CanvasRefresh(c *Ctx, p *Program, next *ssa.Function) {
	ri := canvasRefreshOf(next, map[*ssa.Function]*refreshInfo{}, 0)
	union, out := ri.union, ri.out
	if len(union) == 0 {
		c.AnchorMissing("R5-canvas-refresh", "complete overwrites of the decoder's canvases in NextFrame")
		return
	}
	var fields []string
	for f := range union {
		fields = append(fields, f)
	}
	sort.Strings(fields)
	for _, f := range fields {
		bad := ""
		for _, b := range next.Blocks {
			ret, ok := b.Instrs[len(b.Instrs)-1].(*ssa.Return)
			if !ok || len(ret.Results) == 0 {
				continue
			}
			last := ret.Results[len(ret.Results)-1]
			if k, ok := last.(*ssa.Const); !ok || !k.IsNil() {
				continue // error return
			}
			if !out[b][f] {
				bad = p.Pos(ret.Pos())
			}
		}
		c.Check(bad == "", "R5-canvas-refresh", "AnimDecoder."+f, p.Pos(next.Pos()), "completely rewritten on every successful path of NextFrame",
			"AnimDecoder."+f+" is completely rewritten on some paths through NextFrame but not on the one that returns at "+bad+": the next frame is composited over pixels of an older frame")
	}
	c.Floor("R5-canvas-refresh", len(fields), 2)
}

func hasSubLoc(set map[string]bool, loc string) bool {
	for l := range set {
		if strings.HasPrefix(l, loc+".") {
			return true
		}
	}
	return false
}

// R7 key-frame cover: "treating some frames as key frames never changes a result" holds only if a
// frame is treated as a key frame when the canvas it starts from is certainly fully transparent or
// fully overwritten. The boolean method of AnimDecoder that takes a frame index (the key-frame test)
// is evaluated by the S6 class evaluator for a frame that is NOT the first one, whose X (resp. Y)
// offset is positive, with the previous frame's bounds starting at a positive X (resp. Y) and the
// previous frame not a key frame: neither "this frame covers the canvas" nor "the previous frame
// covered it and was disposed" can be true for such a frame, so no path may return true.
func c09KeyFrameCover(c *Ctx, p *Program) {
	c.Rule("R7 key-frame cover: the key-frame test of AnimDecoder (a bool method of one int parameter) cannot return true for a non-first frame whose X offset (resp. Y offset) is positive while the previous frame's bounds start at a positive X (resp. Y) and the previous frame was not a key frame (S6 class evaluation; all other inputs unknown): a frame placed off the origin never covers the canvas, whatever its size")
	pk := p.SSAPkg("animation")
	if pk == nil {
		return
	}
	n := 0
	for _, fn := range p.SrcFuncs() {
		if fn.Pkg != pk || fn.Blocks == nil || !recvNamedIs(fn, "AnimDecoder") {
			continue
		}
		sg := fn.Signature
		if sg.Params().Len() != 1 || sg.Results().Len() != 1 || types.TypeString(sg.Params().At(0).Type(), nil) != "int" || types.TypeString(sg.Results().At(0).Type(), nil) != "bool" {
			continue
		}
		// it looks at frame offsets (directly or through helpers): the key-frame test
		for _, axis := range []struct{ off, pt, name string }{{"OffsetX", "X", "X"}, {"OffsetY", "Y", "Y"}} {
			e := newCE(p)
			e.params[fn.Params[1]] = avIntSign(sgPos)
			e.fields["Frame."+axis.off] = avIntSign(sgPos)
			e.fields["Point."+axis.pt] = avIntSign(sgPos)
			// "the previous frame was a key frame" is a boolean of the decoder's own state, whatever it is
			// called and wherever it is kept (directly or in a nested state record): all of them false
			if dst := structOf(fn.Params[0].Type()); dst != nil {
				for i := 0; i < dst.NumFields(); i++ {
					ft := dst.Field(i).Type()
					if bt, ok := ft.Underlying().(*types.Basic); ok && bt.Kind() == types.Bool {
						e.fields["AnimDecoder."+dst.Field(i).Name()] = avBool(triFalse)
					}
					if nst, ok := ft.Underlying().(*types.Struct); ok {
						if nn, ok := ft.(*types.Named); ok && nn.Obj().Pkg() == fn.Pkg.Pkg {
							for j := 0; j < nst.NumFields(); j++ {
								if bt, ok := nst.Field(j).Type().Underlying().(*types.Basic); ok && bt.Kind() == types.Bool {
									e.fields[nn.Obj().Name()+"."+nst.Field(j).Name()] = avBool(triFalse)
								}
							}
						}
					}
				}
			}
			rets, complete := e.run(fn)
			mayTrue := false
			for _, r := range rets {
				if len(r) == 1 && r[0].b != triFalse {
					mayTrue = true
				}
			}
			n++
			c.Func(FnName(fn))
			key := FnName(fn) + ":" + axis.name
			if !complete {
				c.Fail("R7-keyframe-cover", key, p.Pos(fn.Pos()), "the class evaluation of the key-frame test did not finish")
				continue
			}
			c.Check(!mayTrue, "R7-keyframe-cover", key, p.Pos(fn.Pos()),
				"a later frame with a positive "+axis.name+" offset (previous bounds off the origin too, previous frame not a key frame) is never a key frame",
				fmt.Sprintf("%s can return true for a frame that is not the first one, has a positive %s offset, follows a frame whose bounds do not start at %s = 0 and that was not a key frame: a frame (or a disposed previous frame) as large as the canvas but placed off the origin does not cover it, yet the canvas is cleared before this frame is drawn - pixels of earlier frames outside the frame's rectangle are lost", fn.Name(), axis.name, axis.name))
		}
	}
	if n == 0 {
		c.AnchorMissing("R7-keyframe-cover", "AnimDecoder method func(int) bool (key-frame test)")
	}
}
