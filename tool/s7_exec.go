package main

// S7 part 2: instruction semantics.

import (
	"fmt"
	"go/token"
	"go/types"
	"sort"
	"strings"
	"sync"

	"golang.org/x/tools/go/ssa"
)

func isByteSlice(t types.Type) bool {
	sl, ok := t.Underlying().(*types.Slice)
	if !ok {
		return false
	}
	b, ok := sl.Elem().Underlying().(*types.Basic)
	return ok && b.Kind() == types.Uint8
}

func (s *sx) exec(f *frame, in ssa.Instruction) {
	switch x := in.(type) {
	case *ssa.DebugRef, *ssa.RunDefers:
	case *ssa.Defer:
		s.note("deferred call ignored: " + x.String())
	case *ssa.Alloc:
		el := x.Type().Underlying().(*types.Pointer).Elem()
		c := &cell{typ: el}
		if arr, ok := el.Underlying().(*types.Array); ok {
			if b, ok := arr.Elem().Underlying().(*types.Basic); ok && b.Kind() == types.Uint8 {
				buf := s.newBuf(linC(arr.Len()), true, "array")
				c.v = SV{K: kBytes, Buf: buf}
				c.set = true
			}
		}
		f.vals[x] = SV{K: kCell, Cell: c, Typ: el}
	case *ssa.Store:
		s.store(f, s.eval(f, x.Addr), s.eval(f, x.Val), x)
	case *ssa.UnOp:
		f.vals[x] = s.unop(f, x)
	case *ssa.BinOp:
		f.vals[x] = s.binop(f, x)
	case *ssa.FieldAddr:
		base := s.eval(f, x.X)
		name := fieldName(x.X.Type(), x.Field)
		ft := fieldType(x.X.Type(), x.Field)
		switch base.K {
		case kCell:
			f.vals[x] = SV{K: kField, Cell: base.Cell, Field: name, Typ: ft}
		case kPtr, kStruct, kOpaque:
			if base.Nil {
				panic(undecided{"field of a nil pointer"})
			}
			f.vals[x] = SV{K: kPtr, Path: base.Path + "." + name, Typ: ft, Str: "field"}
		case kField:
			// nested struct field of a local
			cur := s.loadField(base)
			if cur.K == kStruct {
				f.vals[x] = SV{K: kPtr, Path: cur.Path + "." + name, Typ: ft, Str: "field"}
			} else {
				panic(undecided{"nested field address"})
			}
		default:
			panic(undecided{fmt.Sprintf("field address of %v", base.K)})
		}
	case *ssa.Field:
		base := s.eval(f, x.X)
		name := fieldName(x.X.Type(), x.Field)
		ft := fieldType(x.X.Type(), x.Field)
		f.vals[x] = s.structField(base, name, ft)
	case *ssa.IndexAddr:
		base := s.eval(f, x.X)
		idx := s.eval(f, x.Index)
		if base.K == kCell && base.Cell.set && base.Cell.v.K == kBytes {
			base = base.Cell.v
		}
		switch {
		case base.K == kBytes && base.Buf != nil && idx.K == kInt:
			f.vals[x] = SV{K: kElem, Buf: base.Buf, Off: base.Off.add(idx.L)}
		case base.K == kBytes && idx.K == kInt:
			f.vals[x] = SV{K: kElem, Path: contentID(base), Off: base.Off.add(idx.L)}
		case base.K == kCell && !base.Cell.set:
			// a local array of non-byte elements (varargs of error formatting etc.): not modelled
			el := x.Type().Underlying().(*types.Pointer).Elem()
			f.vals[x] = SV{K: kCell, Cell: &cell{typ: el}, Typ: el}
		default:
			p := s.pathOf(base)
			if base.K == kCell && base.Cell.set {
				p = s.pathOf(base.Cell.v)
			}
			if p == "" {
				panic(undecided{fmt.Sprintf("element address of an unknown sequence (%v, %s in %s)", base.K, x.String(), f.fn.Name())})
			}
			el := x.Type().Underlying().(*types.Pointer).Elem()
			if idx.K == kInt && idx.L.isConst() {
				f.vals[x] = SV{K: kPtr, Path: fmt.Sprintf("%s[%d]", p, idx.L.C), Typ: el, Str: "field"}
			} else {
				f.vals[x] = SV{K: kPtr, Path: "elem(" + p + ")", Typ: el, Str: "field"}
			}
		}
	case *ssa.Index:
		base := s.eval(f, x.X)
		f.vals[x] = svOpaque("index(" + s.pathOf(base) + ")")
	case *ssa.Slice:
		f.vals[x] = s.slice(f, x)
	case *ssa.MakeSlice:
		ln := s.eval(f, x.Len)
		if ln.K != kInt {
			panic(undecided{"make with unknown length"})
		}
		if isByteSlice(x.Type()) {
			f.vals[x] = SV{K: kBytes, Buf: s.newBuf(ln.L, true, "make")}
		} else {
			f.vals[x] = SV{K: kOpaque, Path: fmt.Sprintf("made%d", s.steps)}
		}
	case *ssa.MakeClosure:
		var binds []SV
		for _, b := range x.Bindings {
			binds = append(binds, s.eval(f, b))
		}
		f.vals[x] = SV{K: kFunc, Fn: x.Fn.(*ssa.Function), Binds: binds}
	case *ssa.MakeInterface:
		v := s.eval(f, x.X)
		if isErrorType(x.Type()) {
			f.vals[x] = SV{K: kErr}
		} else {
			f.vals[x] = v
		}
	case *ssa.ChangeInterface:
		f.vals[x] = s.eval(f, x.X)
	case *ssa.ChangeType:
		f.vals[x] = s.eval(f, x.X)
	case *ssa.Convert:
		v := s.eval(f, x.X)
		if v.K == kInt {
			if bt, ok := x.Type().Underlying().(*types.Basic); ok && bt.Info()&types.IsInteger != 0 {
				// narrowing to a byte keeps only the low bits: opaque unless constant
				if bt.Kind() == types.Uint8 || bt.Kind() == types.Int8 {
					if v.L.isConst() {
						f.vals[x] = svInt(linC(v.L.C & 0xff))
					} else {
						f.vals[x] = SV{K: kInt, L: defAtom("byte("+v.L.String()+")", "byte", 0, v.L)}
					}
					return
				}
				if bt.Kind() == types.Uint16 && !v.L.isConst() {
					f.vals[x] = SV{K: kInt, L: defAtom("u16("+v.L.String()+")", "u16", 0, v.L)}
					return
				}
				s.note("integer conversions between int/uint32/uint64 are assumed not to overflow")
				f.vals[x] = v
				return
			}
		}
		f.vals[x] = v
	case *ssa.TypeAssert:
		f.vals[x] = s.eval(f, x.X)
	case *ssa.Extract:
		t := s.eval(f, x.Tuple)
		if t.K == kTuple && x.Index < len(t.Tup) {
			f.vals[x] = t.Tup[x.Index]
		} else {
			f.vals[x] = s.opaqueOfType(x.Type(), fmt.Sprintf("%s#%d", t.Path, x.Index))
		}
	case *ssa.Call:
		f.vals[x] = s.doCall(f, x)
	case *ssa.Lookup, *ssa.Range, *ssa.Next, *ssa.Select, *ssa.Send, *ssa.Go, *ssa.MapUpdate, *ssa.MakeMap, *ssa.MakeChan:
		panic(undecided{fmt.Sprintf("unsupported instruction %T in %s", in, f.fn.Name())})
	default:
		panic(undecided{fmt.Sprintf("unsupported instruction %T in %s", in, f.fn.Name())})
	}
}

func (s *sx) opaqueOfType(t types.Type, path string) SV {
	if isErrorType(t) {
		s.note("errors returned by calls outside the analysed writers are assumed nil (success path)")
		return SV{K: kErr, Nil: true}
	}
	switch u := t.Underlying().(type) {
	case *types.Basic:
		if u.Info()&types.IsInteger != 0 {
			return svInt(linA(path))
		}
		if u.Info()&types.IsBoolean != 0 {
			return SV{K: kBool, Path: path, Str: "input"}
		}
	case *types.Slice:
		if isByteSlice(t) {
			return SV{K: kBytes, Path: path, Whole: true}
		}
	case *types.Struct:
		return SV{K: kStruct, Path: path, Typ: t}
	}
	return SV{K: kOpaque, Path: path, Typ: t}
}

func (s *sx) structField(base SV, name string, ft types.Type) SV {
	switch base.K {
	case kStruct:
		if v, ok := base.Fields[name]; ok {
			return v
		}
		if base.Str == "zero" {
			return s.zeroOf(ft)
		}
		return s.valueAtPath(base.Path+"."+name, ft)
	case kOpaque, kPtr:
		return s.valueAtPath(base.Path+"."+name, ft)
	}
	panic(undecided{"field of a non-struct value"})
}

func (s *sx) zeroOf(t types.Type) SV {
	switch u := t.Underlying().(type) {
	case *types.Basic:
		if u.Info()&types.IsInteger != 0 {
			return svInt(linC(0))
		}
		if u.Info()&types.IsBoolean != 0 {
			return svBool(false)
		}
	case *types.Slice:
		return SV{K: kBytes, Nil: true}
	case *types.Struct:
		return SV{K: kStruct, Fields: map[string]SV{}, Typ: t, Str: "zero"}
	case *types.Pointer, *types.Interface:
		return SV{K: kPtr, Nil: true}
	}
	return SV{K: kOpaque, Path: "zero"}
}

func (s *sx) loadField(p SV) SV {
	c := p.Cell
	if !c.set {
		c.v = s.zeroOf(c.typ)
		c.set = true
	}
	st := c.v
	if st.K != kStruct {
		panic(undecided{"field of a local that is not a struct"})
	}
	return s.structField(st, p.Field, p.Typ)
}

func (s *sx) store(f *frame, addr, val SV, at *ssa.Store) {
	switch addr.K {
	case kCell:
		addr.Cell.v = val
		addr.Cell.set = true
	case kField:
		c := addr.Cell
		if !c.set {
			c.v = s.zeroOf(c.typ)
			c.set = true
		}
		if c.v.K != kStruct {
			panic(undecided{"store to a field of a non-struct local"})
		}
		nf := map[string]SV{}
		for k, v := range c.v.Fields {
			nf[k] = v
		}
		nf[addr.Field] = val
		c.v.Fields = nf
	case kElem:
		if addr.Buf != nil {
			addr.Buf.events = append(addr.Buf.events, bufEvent{off: addr.Off, n: linC(1), kind: "byte", val: val})
		}
	case kPtr:
		if addr.Path == "" {
			panic(undecided{"store through an unknown pointer"})
		}
		s.heap[addr.Path] = val
	default:
		panic(undecided{fmt.Sprintf("store to %v", addr.K)})
	}
}

func (s *sx) unop(f *frame, x *ssa.UnOp) SV {
	v := s.eval(f, x.X)
	switch x.Op {
	case token.NOT:
		if v.K == kBool && v.Str == "cmp" {
			neg := map[token.Token]token.Token{token.EQL: token.NEQ, token.NEQ: token.EQL, token.LSS: token.GEQ, token.GEQ: token.LSS, token.LEQ: token.GTR, token.GTR: token.LEQ}
			r := v
			r.Op = neg[v.Op]
			return r
		}
		return svBool(!s.boolOf(v))
	case token.SUB:
		if v.K == kInt {
			return svInt(v.L.scale(-1))
		}
	case token.XOR:
		if v.K == kInt && v.L.isConst() {
			return svInt(linC(^v.L.C))
		}
		return SV{K: kInt, L: defAtom("^("+v.L.String()+")", "^", 0, v.L)}
	case token.MUL:
		switch v.K {
		case kCell:
			if !v.Cell.set {
				v.Cell.v = s.zeroOf(v.Cell.typ)
				v.Cell.set = true
			}
			return v.Cell.v
		case kField:
			return s.loadField(v)
		case kPtr:
			if v.Nil {
				panic(undecided{"load through nil"})
			}
			el := x.Type()
			return s.valueAtPath(v.Path, el)
		case kElem:
			if v.Buf != nil {
				return SV{K: kInt, L: linA(fmt.Sprintf("buf%d[%s]", v.Buf.id, v.Off.String()))}
			}
			return SV{K: kInt, L: linA(fmt.Sprintf("%s@%s", v.Path, v.Off.String()))}
		}
	}
	panic(undecided{fmt.Sprintf("unary %s on %v", x.Op, v.K)})
}

func (s *sx) binop(f *frame, x *ssa.BinOp) SV {
	a, b := s.eval(f, x.X), s.eval(f, x.Y)
	switch x.Op {
	case token.EQL, token.NEQ, token.LSS, token.LEQ, token.GTR, token.GEQ:
		// nil tests
		if a.K == kErr || b.K == kErr {
			e, o := a, b
			if a.K != kErr {
				e, o = b, a
			}
			if (o.K == kErr || o.K == kPtr) && o.Nil {
				return svBool(e.Nil == (x.Op == token.EQL))
			}
			panic(undecided{"comparison of two error values"})
		}
		if (a.K == kBytes || a.K == kPtr || a.K == kOpaque || a.K == kFunc) && (b.K == kBytes || b.K == kPtr) && (a.Nil || b.Nil) {
			o := a
			if a.Nil && !b.Nil {
				o = b
			}
			var isNil bool
			switch {
			case o.Nil:
				isNil = true
			case o.K == kBytes && o.Whole && o.Path != "":
				isNil = s.decide("nil(" + o.Path + ")")
			case o.K == kBytes:
				isNil = false // built or sliced from existing memory
			case o.K == kFunc:
				isNil = false
			case o.Path != "":
				isNil = s.decide("nil(" + o.Path + ")")
			default:
				panic(undecided{"nil test of an unknown value"})
			}
			return svBool(isNil == (x.Op == token.EQL))
		}
		if a.K == kInt && b.K == kInt {
			d := a.L.sub(b.L)
			if d.isConst() {
				return svBool(cmpInt(x.Op, d.C, 0))
			}
			return SV{K: kBool, Str: "cmp", L: d, Op: x.Op}
		}
		if a.K == kBool && b.K == kBool {
			av, bv := s.boolOf(a), s.boolOf(b)
			return svBool((av == bv) == (x.Op == token.EQL))
		}
		if a.K == kStr && b.K == kStr {
			return svBool((a.Str == b.Str) == (x.Op == token.EQL))
		}
		panic(undecided{fmt.Sprintf("comparison of %v and %v at %s", a.K, b.K, s.p.Pos(x.Pos()))})
	}
	if a.K != kInt || b.K != kInt {
		panic(undecided{fmt.Sprintf("arithmetic on %v and %v at %s", a.K, b.K, s.p.Pos(x.Pos()))})
	}
	ac, bc := a.L.isConst(), b.L.isConst()
	switch x.Op {
	case token.ADD:
		return svInt(a.L.add(b.L))
	case token.SUB:
		return svInt(a.L.sub(b.L))
	case token.MUL:
		if ac {
			return svInt(b.L.scale(a.L.C))
		}
		if bc {
			return svInt(a.L.scale(b.L.C))
		}
	case token.REM:
		if bc && b.L.C == 2 {
			return svInt(linC(s.parity(a.L)))
		}
		if ac && bc && b.L.C != 0 {
			return svInt(linC(a.L.C % b.L.C))
		}
	case token.AND:
		if bc && b.L.C == 1 {
			return svInt(linC(s.parity(a.L)))
		}
		if ac && a.L.C == 1 {
			return svInt(linC(s.parity(b.L)))
		}
		if ac && bc {
			return svInt(linC(a.L.C & b.L.C))
		}
	case token.OR:
		if ac && bc {
			return svInt(linC(a.L.C | b.L.C))
		}
		if ac && a.L.C == 0 {
			return b
		}
		if bc && b.L.C == 0 {
			return a
		}
	case token.XOR:
		if ac && bc {
			return svInt(linC(a.L.C ^ b.L.C))
		}
	case token.SHL:
		if ac && bc {
			return svInt(linC(a.L.C << uint(b.L.C)))
		}
		if bc && b.L.C < 32 {
			return svInt(a.L.scale(1 << uint(b.L.C)))
		}
	case token.SHR:
		if ac && bc {
			return svInt(linC(a.L.C >> uint(b.L.C)))
		}
	case token.QUO:
		if ac && bc && b.L.C != 0 {
			return svInt(linC(a.L.C / b.L.C))
		}
	case token.AND_NOT:
		if ac && bc {
			return svInt(linC(a.L.C &^ b.L.C))
		}
	}
	// opaque but canonical: equal expressions give equal atoms
	return SV{K: kInt, L: defAtom("("+a.L.String()+x.Op.String()+b.L.String()+")", x.Op.String(), 0, a.L, b.L)}
}

func (s *sx) slice(f *frame, x *ssa.Slice) SV {
	base := s.eval(f, x.X)
	if base.K == kCell {
		if !base.Cell.set {
			return svOpaque("localarray") // array of non-byte elements (varargs): not modelled
		}
		base = base.Cell.v
	}
	lo := linC(0)
	if x.Low != nil {
		l := s.eval(f, x.Low)
		if l.K != kInt {
			panic(undecided{"slice bound"})
		}
		lo = l.L
	}
	var hi *Lin
	if x.High != nil {
		h := s.eval(f, x.High)
		if h.K != kInt {
			panic(undecided{"slice bound"})
		}
		hi = &h.L
	}
	switch base.K {
	case kBytes:
		if base.Nil {
			return base
		}
		r := base
		r.Whole = false
		r.Off = base.Off.add(lo)
		if hi != nil {
			n := hi.sub(lo)
			r.Len = &n
		} else if base.Len != nil {
			n := base.Len.sub(lo)
			r.Len = &n
		} else if base.Buf == nil {
			n := s.lenOf(base).sub(lo)
			r.Len = &n
		} else {
			r.Len = nil
		}
		if base.Path != "" && base.Buf == nil && r.Len != nil {
			s.rlog = append(s.rlog, readEvent{kind: "slice", path: base.Path, off: r.Off, ln: *r.Len, pos: s.p.Pos(x.Pos())})
		}
		if base.Whole && x.Low == nil && x.High == nil {
			r.Whole = true
			r.Len = nil
		}
		if base.Whole && lo.isConst() && lo.C == 0 && hi != nil && hi.eq(s.lenOf(base)) {
			r.Whole = true
			r.Len = nil
		}
		return r
	case kStr:
		return svOpaque("strslice")
	}
	p := s.pathOf(base)
	if p == "" {
		panic(undecided{"slice of an unknown value"})
	}
	return SV{K: kOpaque, Path: fmt.Sprintf("%s[%s:]", p, lo.String())}
}

// ---- calls ----

func (s *sx) doCall(f *frame, x *ssa.Call) SV {
	com := x.Common()
	var args []SV
	for _, a := range com.Args {
		args = append(args, s.eval(f, a))
	}
	pos := s.p.Pos(x.Pos())
	if com.IsInvoke() {
		recv := s.eval(f, com.Value)
		switch com.Method.Name() {
		case "Write":
			if lb := localBuffer(recv); lb != nil && len(args) == 1 {
				// an io.Writer that is a local bytes.Buffer: the bytes are collected, not yet output
				lb.v = s.appendBytes(bufOfCell(lb), s.lenOf(args[0]), "bytes", args[0])
				lb.set = true
				return SV{K: kTuple, Tup: []SV{svInt(s.lenOf(args[0])), {K: kErr, Nil: true}}}
			}
			if len(args) == 1 {
				s.emitBytes(args[0], pos)
				s.note("errors returned by the output's Write are assumed nil (success path)")
				return SV{K: kTuple, Tup: []SV{svInt(s.lenOf(args[0])), {K: kErr, Nil: true}}}
			}
		case "Error":
			return svOpaque("errstr")
		}
		_ = recv
		panic(undecided{"interface call " + com.Method.Name() + " at " + pos})
	}
	if b, ok := com.Value.(*ssa.Builtin); ok {
		return s.builtin(f, x, b.Name(), args)
	}
	callee := com.StaticCallee()
	var binds []SV
	if callee == nil {
		fv := s.eval(f, com.Value)
		if fv.K == kFunc && fv.Fn != nil {
			callee = fv.Fn
			binds = fv.Binds
		}
	} else if mc, ok := com.Value.(*ssa.MakeClosure); ok {
		fv := s.eval(f, mc)
		binds = fv.Binds
	}
	if callee == nil {
		panic(undecided{"dynamic call at " + pos})
	}
	full := ""
	if callee.Pkg != nil {
		full = callee.Pkg.Pkg.Path() + "." + callee.Name()
	}
	if callee.Signature.Recv() != nil {
		full = callee.Signature.Recv().Type().String() + "." + callee.Name()
	}
	switch full {
	case "encoding/binary.littleEndian.PutUint32":
		s.bufStore(args[1], linC(4), "u32", args[2])
		return SV{}
	case "encoding/binary.littleEndian.PutUint16":
		s.bufStore(args[1], linC(2), "u16", args[2])
		return SV{}
	case "encoding/binary.littleEndian.Uint32":
		if a := args[1]; a.K == kBytes && a.Path != "" && a.Buf == nil {
			s.rlog = append(s.rlog, readEvent{kind: "u32", path: a.Path, off: a.Off, pos: pos})
		}
		return svInt(linA("u32(" + contentID(args[1]) + ")"))
	case "encoding/binary.littleEndian.Uint16":
		return svInt(linA("u16(" + contentID(args[1]) + ")"))
	case "encoding/binary.littleEndian.AppendUint32":
		return s.appendBytes(args[1], linC(4), "u32", args[2])
	case "*bytes.Buffer.Write":
		if lb := localBuffer(args[0]); lb != nil {
			lb.v = s.appendBytes(bufOfCell(lb), s.lenOf(args[1]), "bytes", args[1])
			lb.set = true
			return SV{K: kTuple, Tup: []SV{svInt(s.lenOf(args[1])), {K: kErr, Nil: true}}}
		}
		s.emitBytes(args[1], pos)
		return SV{K: kTuple, Tup: []SV{svInt(s.lenOf(args[1])), {K: kErr, Nil: true}}}
	case "*bytes.Buffer.WriteByte":
		if lb := localBuffer(args[0]); lb != nil {
			lb.v = s.appendBytes(bufOfCell(lb), linC(1), "byte", args[1])
			lb.set = true
			return SV{K: kErr, Nil: true}
		}
		s.emit(linC(1), "byte", args[1], pos)
		return SV{K: kErr, Nil: true}
	case "*bytes.Buffer.Bytes":
		if lb := localBuffer(args[0]); lb != nil {
			return bufOfCell(lb)
		}
	case "*bytes.Buffer.Len":
		if lb := localBuffer(args[0]); lb != nil {
			return svInt(s.lenOf(bufOfCell(lb)))
		}
	case "*bytes.Buffer.Grow", "*bytes.Buffer.Reset":
		if lb := localBuffer(args[0]); lb != nil {
			if callee.Name() == "Reset" {
				lb.v = SV{K: kBytes, Nil: true}
			}
			return SV{}
		}
	case "fmt.Errorf", "errors.New":
		return SV{K: kErr}
	}
	if s.opaqueFns[callee.Name()] {
		s.note("calls to " + callee.Name() + " are not followed (result assumed: no error)")
		// a writer-built buffer handed to a function that is not followed: filled by it
		for _, a := range args {
			if a.K == kBytes && a.Buf != nil && len(a.Buf.events) == 0 && a.Buf.fixed {
				a.Buf.events = append(a.Buf.events, bufEvent{off: linC(0), n: a.Buf.length, kind: "bytes", val: SV{K: kBytes, Path: "filled-by:" + callee.Name(), Whole: true}})
			}
		}
		return s.opaqueResult(x, "call:"+callee.Name())
	}
	if !s.p.IsModFunc(callee) {
		// outside the module: results unknown (errors assumed nil)
		return s.opaqueResult(x, "call:"+callee.Name()+"@"+pos)
	}
	rs := s.call(callee, args, binds)
	if len(rs) == 1 {
		return rs[0]
	}
	return SV{K: kTuple, Tup: rs}
}

func (s *sx) opaqueResult(x *ssa.Call, path string) SV {
	if tup, ok := x.Type().(*types.Tuple); ok {
		var ts []SV
		for i := 0; i < tup.Len(); i++ {
			ts = append(ts, s.opaqueOfType(tup.At(i).Type(), fmt.Sprintf("%s#%d", path, i)))
		}
		return SV{K: kTuple, Tup: ts, Path: path}
	}
	return s.opaqueOfType(x.Type(), path)
}

func (s *sx) appendBytes(dst SV, n Lin, kind string, val SV) SV {
	if dst.K != kBytes {
		panic(undecided{"append to a non-byte slice"})
	}
	if dst.Buf == nil || dst.Nil {
		// start a new growable buffer holding the old contents
		nb := s.newBuf(linC(0), false, "append")
		if !dst.Nil {
			old := s.lenOf(dst)
			nb.events = append(nb.events, bufEvent{off: linC(0), n: old, kind: "bytes", val: dst})
			nb.length = old
		}
		dst = SV{K: kBytes, Buf: nb}
	}
	if dst.Buf.fixed {
		// append to a make([]byte, n) buffer (or a slice of one): grows from its current length
		cur := s.lenOf(dst)
		dst.Buf.events = append(dst.Buf.events, bufEvent{off: dst.Off.add(cur), n: n, kind: kind, val: val})
		nl := cur.add(n)
		r := dst
		r.Len = &nl
		if dst.Off.add(nl).sub(dst.Buf.length).isConst() && dst.Off.add(nl).sub(dst.Buf.length).C > 0 {
			dst.Buf.length = dst.Off.add(nl)
		} else if !dst.Off.add(nl).sub(dst.Buf.length).isConst() {
			dst.Buf.length = dst.Off.add(nl)
		}
		return r
	}
	off := dst.Buf.length
	s.touch(dst.Buf)
	dst.Buf.events = append(dst.Buf.events, bufEvent{off: off, n: n, kind: kind, val: val})
	dst.Buf.length = off.add(n)
	r := dst
	r.Len = nil
	return r
}

func (s *sx) builtin(f *frame, x *ssa.Call, name string, args []SV) SV {
	switch name {
	case "len":
		a := args[0]
		if a.K == kCell && a.Cell.set {
			a = a.Cell.v
		}
		if a.K == kOpaque || a.K == kStruct || a.K == kPtr {
			if a.Nil {
				return svInt(linC(0))
			}
			if a.Path == "" {
				panic(undecided{"len of unknown"})
			}
			return svInt(linA("len(" + a.Path + ")"))
		}
		return svInt(s.lenOf(a))
	case "cap":
		return svInt(linA(fmt.Sprintf("cap@%d", s.steps)))
	case "copy":
		dst, src := args[0], args[1]
		n := s.lenOf(src)
		s.bufStore(dst, n, "bytes", src)
		return svInt(n)
	case "append":
		dst := args[0]
		if !isByteSlice(x.Type()) {
			return SV{K: kOpaque, Path: fmt.Sprintf("appended@%s", s.p.Pos(x.Pos()))}
		}
		if len(args) == 1 {
			return dst
		}
		src := args[1]
		if src.K == kBytes && src.Buf != nil && src.Buf.desc == "array" {
			// append(buf, b0, b1, ...): the variadic bytes were stored into a fresh array
			r := dst
			for _, ev := range src.Buf.events {
				r = s.appendBytes(r, ev.n, ev.kind, ev.val)
			}
			missing := s.lenOf(src)
			for _, ev := range src.Buf.events {
				missing = missing.sub(ev.n)
			}
			if !missing.isConst() || missing.C != 0 {
				if missing.isConst() && missing.C > 0 {
					r = s.appendBytes(r, missing, "zeros", SV{})
				} else {
					panic(undecided{"append of a partly filled array"})
				}
			}
			return r
		}
		if src.Nil {
			return dst
		}
		return s.appendBytes(dst, s.lenOf(src), "bytes", src)
	case "min", "max":
		if len(args) == 2 && args[0].K == kInt && args[1].K == kInt {
			le := s.cmp(args[0].L.sub(args[1].L), token.LEQ)
			if (name == "min") == le {
				return args[0]
			}
			return args[1]
		}
	case "panic":
		panic(errorRun{})
	}
	panic(undecided{"builtin " + name})
}

// ---- driver ----

type sxRun struct {
	assume  map[string]bool
	order   []string
	stream  []segment
	results []SV
	err     bool // the function returned a non-nil error (or panicked): a rejecting run
	notes   map[string]bool
	facts   []loopFact
	written []string // heap paths stored to during the run
}

type sxOutcome struct {
	runs      []sxRun
	undecided []string // reasons (with the assumptions under which they arose)
}

// explore runs fn under every consistent assignment of the conditions it consults (in parallel:
// every run is independent).
func sxExplore(p *Program, fn *ssa.Function, mkArgs func(s *sx) []SV, maxRuns int, pre map[string]bool, opaque ...string) sxOutcome {
	opq := map[string]bool{}
	for _, o := range opaque {
		opq[o] = true
	}
	p.globalInit()
	var out sxOutcome
	type job struct {
		assume map[string]bool
		order  []string
	}
	var mu sync.Mutex
	cond := sync.NewCond(&mu)
	first := job{assume: map[string]bool{}}
	var preKeys []string
	for k := range pre {
		preKeys = append(preKeys, k)
	}
	sort.Strings(preKeys)
	for _, k := range preKeys {
		first.assume[k] = pre[k]
		first.order = append(first.order, k)
	}
	work := []job{first}
	active := 0
	overflow := false
	runOne := func(j job) (res *sxRun, und *undecided, split *needSplit) {
		s := &sx{p: p, assume: j.assume, order: j.order, heap: map[string]SV{}, notes: map[string]bool{}, opaqueFns: opq}
		isErr := false
		var results []SV
		func() {
			defer func() {
				if e := recover(); e != nil {
					switch v := e.(type) {
					case needSplit:
						split = &v
					case undecided:
						und = &v
					case errorRun:
						isErr = true
					default:
						und = &undecided{fmt.Sprintf("analyser panic: %v", e)}
					}
				}
			}()
			results = s.call(fn, mkArgs(s), nil)
		}()
		if split != nil || und != nil {
			return
		}
		r := sxRun{assume: j.assume, order: j.order, stream: s.stream, results: results, notes: s.notes, facts: s.facts}
		for k := range s.heap {
			r.written = append(r.written, k)
		}
		sort.Strings(r.written)
		if isErr {
			r.err = true
		} else if n := len(results); n > 0 && results[n-1].K == kErr && !results[n-1].Nil {
			r.err = true
		}
		res = &r
		return
	}
	var wg sync.WaitGroup
	for w := 0; w < 12; w++ {
		wg.Add(1)
		go func() {
			defer wg.Done()
			for {
				mu.Lock()
				for len(work) == 0 && active > 0 {
					cond.Wait()
				}
				if len(work) == 0 || overflow {
					mu.Unlock()
					cond.Broadcast()
					return
				}
				j := work[len(work)-1]
				work = work[:len(work)-1]
				active++
				mu.Unlock()
				res, und, split := runOne(j)
				mu.Lock()
				active--
				switch {
				case split != nil:
					for _, val := range []bool{false, true} {
						na := make(map[string]bool, len(j.assume)+1)
						for k, v := range j.assume {
							na[k] = v
						}
						na[split.key] = val
						no := append(append([]string{}, j.order...), split.key)
						work = append(work, job{na, no})
					}
				case und != nil:
					out.undecided = append(out.undecided, und.why+" [under "+describeAssume(j.assume, j.order)+"]")
				default:
					out.runs = append(out.runs, *res)
				}
				if len(out.runs)+len(out.undecided) > maxRuns {
					overflow = true
				}
				mu.Unlock()
				cond.Broadcast()
			}
		}()
	}
	wg.Wait()
	if overflow {
		out.undecided = append(out.undecided, fmt.Sprintf("more than %d input classes", maxRuns))
	}
	// deterministic order
	sort.Slice(out.runs, func(a, b int) bool {
		return describeAssume(out.runs[a].assume, out.runs[a].order) < describeAssume(out.runs[b].assume, out.runs[b].order)
	})
	sort.Strings(out.undecided)
	return out
}

func describeAssume(a map[string]bool, order []string) string {
	var parts []string
	for _, k := range order {
		v := a[k]
		kk := k
		if strings.HasPrefix(k, "ge:") {
			var n int64
			fmt.Sscanf(k, "ge:%d:", &n)
			atom := k[strings.Index(k[3:], ":")+4:]
			if v {
				kk = fmt.Sprintf("%s>=%d", atom, n)
			} else {
				kk = fmt.Sprintf("%s<%d", atom, n)
			}
			parts = append(parts, kk)
			continue
		}
		if v {
			parts = append(parts, kk)
		} else {
			parts = append(parts, "!"+kk)
		}
	}
	if len(parts) == 0 {
		return "no assumption"
	}
	return strings.Join(parts, ", ")
}

// localBuffer: v points to a local variable of type bytes.Buffer.
func localBuffer(v SV) *cell {
	if v.K != kCell || v.Cell == nil || v.Cell.typ == nil {
		return nil
	}
	if n, ok := v.Cell.typ.(*types.Named); ok && n.Obj().Pkg() != nil && n.Obj().Pkg().Path() == "bytes" && n.Obj().Name() == "Buffer" {
		return v.Cell
	}
	return nil
}

func bufOfCell(c *cell) SV {
	if c.set && c.v.K == kBytes {
		return c.v
	}
	return SV{K: kBytes, Nil: true}
}
