package main

// A1: build matrix, asm declarations, dispatch completeness, no cgo (C13).

import (
	"bufio"
	"fmt"
	"go/ast"
	"go/constant"
	"go/token"
	"go/types"
	"os"
	"os/exec"
	"path/filepath"
	"regexp"
	"sort"
	"strings"
	"sync"

	"golang.org/x/tools/go/packages"
	"golang.org/x/tools/go/ssa"
)

func init() { register("C13", runC13) }

var quickPairs = []string{"linux/amd64", "linux/arm64", "linux/386", "linux/arm", "linux/riscv64", "windows/amd64", "darwin/arm64", "js/wasm", "linux/mips", "linux/s390x"}

func runC13(c *Ctx) {
	c.Rule("A1-typecheck: every module package type-checks from source (go/types, target word size) for each GOOS/GOARCH pair; quick = 10 pairs covering every build-tag class and both word sizes, thorough = all pairs of `go tool dist list`")
	c.Rule("A1-asmdecl: `go vet -asmdecl` (assembly frame/argument layout vs Go declaration) is clean for amd64 and arm64")
	c.Rule("A1-asmbody: every body-less Go function declaration has a TEXT symbol in an assembly file selected for the same configuration")
	c.Rule("A1-dispatch: every function-typed dispatch slot (package-level func variable or constant-indexed element of a func array) stored from init-reachable code on amd64/arm64 is also stored from init-reachable code in the portable configuration (linux/riscv64 selects every !amd64 && !arm64 file); every dispatch variable that is called has a portable default")
	c.Rule("A1-delegate: every function that exists only in the portable build (file selected for linux/riscv64 but not for linux/amd64) is a pure delegation: its body only forwards its parameters to functions that are compiled on every platform, possibly under a switch on a parameter; it contains no arithmetic, loop, load or store of its own, so the portable path is the reference kernel the amd64 tests also exercise")
	c.Rule("A1-nocgo: no Go file of the module imports \"C\"")
	c.NotCovered("that assembly kernels and Go kernels compute the same values for all inputs (value-level; needs execution or a solver)")
	c.NotCovered("AVX2 vs SSE2 agreement")
	c.Assume("go/types with the target's types.Sizes models the compiler's constant-overflow and conversion rules")

	pairs := quickPairs
	if c.Tier == "thorough" {
		out, err := exec.Command("go", "tool", "dist", "list").Output()
		if err != nil {
			c.Fail("A1-typecheck", "dist-list", "", "cannot enumerate platforms: "+err.Error())
		} else {
			pairs = strings.Fields(string(out))
		}
	}
	c.SetConfig("matrix")
	type res struct {
		pair string
		errs []string
		npk  int
		err  error
	}
	results := make([]res, len(pairs))
	sem := make(chan struct{}, 6)
	var wg sync.WaitGroup
	for i, pr := range pairs {
		wg.Add(1)
		go func(i int, pr string) {
			defer wg.Done()
			sem <- struct{}{}
			defer func() { <-sem }()
			results[i] = typecheckPair(c.Repo, pr)
		}(i, pr)
	}
	wg.Wait()
	for _, r := range results {
		switch {
		case r.err != nil:
			c.Fail("A1-typecheck", r.pair, "", "load failed: "+r.err.Error())
		case r.npk < 11:
			c.Fail("A1-typecheck", r.pair, "", fmt.Sprintf("only %d module packages", r.npk))
		case len(r.errs) > 0:
			c.Fail("A1-typecheck", r.pair, firstPos(r.errs[0]), fmt.Sprintf("%d type errors for %s, first: %s", len(r.errs), r.pair, r.errs[0]))
		default:
			c.Pass("A1-typecheck", r.pair, "", fmt.Sprintf("%d packages type-check from source", r.npk))
		}
	}
	c.Floor("A1-typecheck", len(results), 10)

	// asmdecl
	for _, arch := range []string{"amd64", "arm64"} {
		cmd := exec.Command("go", "vet", "-asmdecl", "./...")
		cmd.Dir = c.Repo
		cmd.Env = goEnv("linux", arch)
		out, err := cmd.CombinedOutput()
		if err != nil {
			lines := strings.Split(strings.TrimSpace(string(out)), "\n")
			c.Fail("A1-asmdecl", "linux/"+arch, "", "go vet -asmdecl: "+strings.Join(head(lines, 4), " / "))
		} else {
			c.Pass("A1-asmdecl", "linux/"+arch, "", "go vet -asmdecl clean")
		}
	}

	// per-config SSA: dispatch slots and asm bodies
	type slots map[string]bool
	perCfg := map[string]slots{}
	called := map[string]slots{}
	progs := map[string]*Program{}
	for _, cf := range [][2]string{{"linux", "riscv64"}, {"linux", "amd64"}, {"linux", "arm64"}} {
		p := c.load(cf[0], cf[1])
		if p == nil {
			continue
		}
		perCfg[p.Label], called[p.Label] = dispatchSlots(c, p)
		asmBodies(c, p)
		progs[p.Label] = p
	}
	a1Delegates(c, progs)
	c.SetConfig("cross-config")
	port := perCfg["linux/riscv64"]
	n := 0
	if port != nil {
		for _, lab := range []string{"linux/amd64", "linux/arm64"} {
			var ks []string
			for k := range perCfg[lab] {
				ks = append(ks, k)
			}
			sort.Strings(ks)
			for _, k := range ks {
				n++
				c.Check(port[k], "A1-dispatch", k, "", "slot also initialised in the portable configuration",
					"dispatch slot is initialised under "+lab+" but has no portable (pure Go) default under !amd64 && !arm64")
			}
		}
		var ks []string
		for k := range called["linux/riscv64"] {
			ks = append(ks, k)
		}
		sort.Strings(ks)
		for _, k := range ks {
			n++
			c.Check(port[k] || port[k+"[*]"], "A1-dispatch", "called:"+k, "", "called dispatch variable has a portable default",
				"dispatch variable is called but never assigned from init-reachable code in the portable configuration (nil call)")
		}
	}
	c.Floor("A1-dispatch", n, 40)

	// no cgo: ask the go command, with cgo enabled, which files of each module package would be built with cgo
	c.SetConfig("cgo-enabled")
	for _, pr := range []string{"linux/amd64", "linux/arm64", "linux/386", "windows/amd64", "darwin/arm64"} {
		oa := strings.SplitN(pr, "/", 2)
		cmd := exec.Command("go", "list", "-f", "{{.ImportPath}}|{{len .GoFiles}}|{{.CgoFiles}}|{{.SwigFiles}}{{.CFiles}}{{.CXXFiles}}", "./...")
		cmd.Dir = c.Repo
		env := goEnv(oa[0], oa[1])
		for i, e := range env {
			if e == "CGO_ENABLED=0" {
				env[i] = "CGO_ENABLED=1"
			}
		}
		cmd.Env = env
		out, err := cmd.Output()
		if err != nil {
			c.Fail("A1-nocgo", pr, "", "go list failed: "+err.Error())
			continue
		}
		npk := 0
		for _, ln := range strings.Split(strings.TrimSpace(string(out)), "\n") {
			f := strings.Split(ln, "|")
			if len(f) != 4 {
				continue
			}
			npk++
			c.Check(f[2] == "[]" && f[3] == "[][][]", "A1-nocgo", pr+":"+strings.TrimPrefix(f[0], modPath), "",
				f[1]+" Go files, no cgo/C/C++/SWIG files", "package builds with cgo or C sources: "+f[2]+f[3]+" (the module is no longer pure Go)")
		}
		if npk < 11 {
			c.Fail("A1-nocgo", pr+":count", "", fmt.Sprintf("only %d packages listed", npk))
		}
	}
}

func firstPos(e string) string {
	if i := strings.Index(e, ": "); i > 0 {
		return e[:i]
	}
	return ""
}

func typecheckPair(repo, pair string) (r struct {
	pair string
	errs []string
	npk  int
	err  error
}) {
	r.pair = pair
	oa := strings.SplitN(pair, "/", 2)
	cfg := &packages.Config{
		Mode: packages.NeedName | packages.NeedFiles | packages.NeedCompiledGoFiles | packages.NeedImports |
			packages.NeedDeps | packages.NeedTypes | packages.NeedSyntax | packages.NeedTypesSizes,
		Dir: repo, Env: goEnv(oa[0], oa[1])}
	all, err := packages.Load(cfg, "./...")
	if err != nil {
		r.err = err
		return
	}
	// android/386, android/amd64, android/arm, ios/*: the go command refuses to list anything with cgo
	// disabled ("requires external (cgo) linking"). That is a linker-mode rule of the toolchain, not a
	// property of the sources: load again with cgo enabled (the module contains no cgo, see the nocgo rule;
	// none of its dependencies needs a C compiler to be type-checked).
	needCgo := false
	packages.Visit(all, nil, func(pk *packages.Package) {
		for _, e := range pk.Errors {
			if strings.Contains(e.Error(), "requires external (cgo) linking") {
				needCgo = true
			}
		}
	})
	if needCgo {
		env := []string{}
		for _, e := range cfg.Env {
			if !strings.HasPrefix(e, "CGO_ENABLED=") {
				env = append(env, e)
			}
		}
		cfg.Env = append(env, "CGO_ENABLED=1")
		all, err = packages.Load(cfg, "./...")
		if err != nil {
			r.err = err
			return
		}
	}
	packages.Visit(all, nil, func(pk *packages.Package) {
		mine := pk.PkgPath == modPath || strings.HasPrefix(pk.PkgPath, modPath+"/")
		if mine {
			r.npk++
		}
		for _, e := range pk.Errors {
			s := e.Error()
			if rel, err := filepath.Rel(repo, s); err == nil && !strings.HasPrefix(rel, "..") {
				s = rel
			}
			r.errs = append(r.errs, s)
		}
	})
	sort.Strings(r.errs)
	return
}

// dispatchSlots returns the func-typed package-level slots stored from
// init-reachable code, and the func-typed package-level variables that are called.
func dispatchSlots(c *Ctx, p *Program) (map[string]bool, map[string]bool) {
	stored := map[string]bool{}
	called := map[string]bool{}
	isFuncish := func(t types.Type) int {
		switch u := t.Underlying().(type) {
		case *types.Signature:
			return 1
		case *types.Array:
			if _, ok := u.Elem().Underlying().(*types.Signature); ok {
				return 2
			}
		case *types.Slice:
			if _, ok := u.Elem().Underlying().(*types.Signature); ok {
				return 2
			}
		}
		return 0
	}
	gname := func(g *ssa.Global) string { return g.Pkg.Pkg.Name() + "." + g.Name() }
	var roots []*ssa.Function
	for _, pk := range p.Pkgs {
		if sp := p.SSA.Package(pk.Types); sp != nil {
			if f := sp.Func("init"); f != nil {
				roots = append(roots, f)
			}
		}
	}
	reach := p.Reachable(roots...)
	for _, f := range p.SrcFuncs() {
		c.Func(FnName(f))
	}
	// stores: include the synthetic package init (variable initialisers)
	fns := append([]*ssa.Function{}, roots...)
	for f := range reach {
		if p.IsModFunc(f) {
			fns = append(fns, f)
		}
	}
	for _, f := range fns {
		for _, b := range f.Blocks {
			for _, in := range b.Instrs {
				st, ok := in.(*ssa.Store)
				if !ok {
					continue
				}
				switch a := st.Addr.(type) {
				case *ssa.Global:
					if isFuncish(a.Type().(*types.Pointer).Elem()) == 1 {
						stored[gname(a)] = true
					} else if isFuncish(a.Type().(*types.Pointer).Elem()) == 2 {
						stored[gname(a)+"[*]"] = true
					}
				case *ssa.IndexAddr:
					if g, ok := a.X.(*ssa.Global); ok && isFuncish(g.Type().(*types.Pointer).Elem()) == 2 {
						if k, ok := a.Index.(*ssa.Const); ok && k.Value != nil {
							stored[fmt.Sprintf("%s[%s]", gname(g), constant.ToInt(k.Value).ExactString())] = true
						} else {
							stored[gname(g)+"[*]"] = true
						}
					}
				}
			}
		}
	}
	// calls through a global func variable anywhere in module code
	for _, f := range p.SrcFuncs() {
		for _, b := range f.Blocks {
			for _, in := range b.Instrs {
				ci, ok := in.(ssa.CallInstruction)
				if !ok {
					continue
				}
				v := ci.Common().Value
				if ld, ok := v.(*ssa.UnOp); ok && ld.Op == token.MUL {
					switch a := ld.X.(type) {
					case *ssa.Global:
						if isFuncish(a.Type().(*types.Pointer).Elem()) == 1 {
							called[gname(a)] = true
						}
					case *ssa.IndexAddr:
						if g, ok := a.X.(*ssa.Global); ok && isFuncish(g.Type().(*types.Pointer).Elem()) == 2 {
							called[gname(g)] = true
						}
					}
				}
			}
		}
	}
	// array slots: a whole-array dynamic store covers constant slots
	for k := range called {
		if stored[k+"[*]"] {
			continue
		}
		for s := range stored {
			if strings.HasPrefix(s, k+"[") {
				stored[k+"[*]"] = true
			}
		}
	}
	return stored, called
}

var textRe = regexp.MustCompile(`^TEXT\s+·([A-Za-z0-9_]+)\s*\(SB\)`)

// asmBodies: every body-less func declaration must have a TEXT symbol in an
// assembly file of the same package selected for this configuration.
func asmBodies(c *Ctx, p *Program) {
	for _, pk := range p.Pkgs {
		syms := map[string]bool{}
		for _, of := range pk.OtherFiles {
			if !strings.HasSuffix(of, ".s") {
				continue
			}
			fh, err := os.Open(of)
			if err != nil {
				continue
			}
			sc := bufio.NewScanner(fh)
			sc.Buffer(make([]byte, 1<<20), 1<<20)
			for sc.Scan() {
				if m := textRe.FindStringSubmatch(sc.Text()); m != nil {
					syms[m[1]] = true
				}
			}
			fh.Close()
		}
		for _, f := range pk.Syntax {
			for _, d := range f.Decls {
				fd, ok := d.(*ast.FuncDecl)
				if !ok || fd.Body != nil {
					continue
				}
				c.Check(syms[fd.Name.Name], "A1-asmbody", pk.Types.Name()+"."+fd.Name.Name, p.Pos(fd.Pos()),
					"TEXT symbol present in a selected .s file", "function declared without body and no TEXT ·"+fd.Name.Name+"(SB) in the assembly files selected for "+p.Label)
			}
		}
	}
}

// a1Delegates: portable-only functions must be pure delegations to code compiled everywhere.
func a1Delegates(c *Ctx, progs map[string]*Program) {
	port, amd := progs["linux/riscv64"], progs["linux/amd64"]
	if port == nil || amd == nil {
		return
	}
	c.SetConfig("linux/riscv64")
	amdFiles := map[string]bool{}
	for _, pk := range amd.Pkgs {
		for _, f := range pk.CompiledGoFiles {
			amdFiles[f] = true
		}
	}
	n := 0
	for _, fn := range port.SrcFuncs() {
		if fn.Parent() != nil || fn.Synthetic != "" {
			continue
		}
		file := port.Fset.Position(fn.Pos()).Filename
		if file == "" || amdFiles[file] {
			continue
		}
		n++
		cons := FnName(fn)
		bad := ""
		params := map[ssa.Value]bool{}
		for _, pa := range fn.Params {
			params[pa] = true
		}
		okVal := func(v ssa.Value) bool {
			if params[v] {
				return true
			}
			switch x := v.(type) {
			case *ssa.Const:
				return true
			case *ssa.Slice:
				// p[:] style pass-through of a parameter
				return params[x.X] && x.Low == nil && x.High == nil
			}
			return false
		}
		for _, b := range fn.Blocks {
			for _, in := range b.Instrs {
				switch x := in.(type) {
				case *ssa.Call:
					callee := x.Call.StaticCallee()
					if callee == nil {
						bad = "dynamic call at " + port.Pos(x.Pos())
						break
					}
					cf := port.Fset.Position(callee.Pos()).Filename
					if port.IsModFunc(callee) && !amdFiles[cf] {
						bad = "calls " + callee.Name() + ", which is not compiled on amd64 either"
					}
					for _, a := range x.Call.Args {
						if !okVal(a) {
							bad = "argument of " + callee.Name() + " is computed here rather than passed through (" + port.Pos(x.Pos()) + ")"
						}
					}
				case *ssa.Return:
					for _, r := range x.Results {
						if _, isCall := r.(*ssa.Call); !isCall && !okVal(r) {
							if _, isExt := r.(*ssa.Extract); !isExt {
								bad = "returns a value computed here (" + port.Pos(x.Pos()) + ")"
							}
						}
					}
				case *ssa.If, *ssa.Jump, *ssa.DebugRef, *ssa.Extract:
				case *ssa.BinOp:
					// only the comparisons of a switch on a parameter
					if !(x.Op == token.EQL && okVal(x.X) && okVal(x.Y)) {
						bad = "computes " + x.String() + " at " + port.Pos(x.Pos())
					}
				default:
					bad = fmt.Sprintf("does more than forwarding: %T at %s", in, port.Pos(in.Pos()))
				}
			}
		}
		c.Check(bad == "", "A1-delegate", cons, port.Pos(fn.Pos()), "pure delegation to code compiled on every platform", "portable-only function is not a pure delegation: "+bad+"; its behaviour is exercised by no amd64 test and may diverge from the reference kernel")
	}
	c.Floor("A1-delegate", n, 10)
}
