package main

// A2: pooled state (C11; A2c also serves C10).

import (
	"bufio"
	"fmt"
	"go/token"
	"go/types"
	"os"
	"path/filepath"
	"sort"
	"strings"

	"golang.org/x/tools/go/ssa"
)

func init() { register("C11", runC11) }

type poolInfo struct {
	name   string // "lossy.encoderPool"
	global *ssa.Global
	gets   []*ssa.Call
	puts   []*ssa.Call
}

// findPools inventories every sync.Pool variable of the module with its Get/Put sites.
func findPools(p *Program) []*poolInfo {
	byG := map[string]*poolInfo{}
	for _, f := range p.SrcFuncs() {
		for _, b := range f.Blocks {
			for _, in := range b.Instrs {
				call, ok := in.(*ssa.Call)
				if !ok {
					continue
				}
				callee := call.Call.StaticCallee()
				if callee == nil || callee.Pkg == nil || callee.Pkg.Pkg.Path() != "sync" {
					continue
				}
				if callee.Name() != "Get" && callee.Name() != "Put" {
					continue
				}
				recv := callee.Signature.Recv()
				if recv == nil || !strings.HasSuffix(recv.Type().String(), "sync.Pool") {
					continue
				}
				var g *ssa.Global
				switch a := call.Call.Args[0].(type) {
				case *ssa.Global:
					g = a
				case *ssa.IndexAddr:
					g, _ = a.X.(*ssa.Global)
				}
				name := "?" + p.Pos(call.Pos())
				if g != nil {
					name = g.Pkg.Pkg.Name() + "." + g.Name()
				}
				pi := byG[name]
				if pi == nil {
					pi = &poolInfo{name: name, global: g}
					byG[name] = pi
				}
				if callee.Name() == "Get" {
					pi.gets = append(pi.gets, call)
				} else {
					pi.puts = append(pi.puts, call)
				}
			}
		}
	}
	var out []*poolInfo
	for _, pi := range byG {
		out = append(out, pi)
	}
	sort.Slice(out, func(i, j int) bool { return out[i].name < out[j].name })
	return out
}

// assertsOf returns the values of pointer-to-struct type obtained from a Get result.
func assertsOf(get *ssa.Call) []ssa.Value {
	var out []ssa.Value
	seen := map[ssa.Value]bool{}
	var walk func(v ssa.Value)
	walk = func(v ssa.Value) {
		if seen[v] {
			return
		}
		seen[v] = true
		refs := v.Referrers()
		if refs == nil {
			return
		}
		for _, u := range *refs {
			switch x := u.(type) {
			case *ssa.TypeAssert:
				if x.CommaOk {
					for _, u2 := range *x.Referrers() {
						if ex, ok := u2.(*ssa.Extract); ok && ex.Index == 0 {
							out = append(out, ex)
						}
					}
				} else {
					out = append(out, x)
				}
			case *ssa.Phi:
				walk(x)
			case *ssa.ChangeInterface:
				walk(x)
			}
		}
	}
	walk(get)
	return out
}

// reviewed table: tables/poolstate.txt: "<Type> <loc> <class> <reason>"
type reviewRow struct {
	typ, loc, class, reason string
	used                    bool
}

func loadReview(path string) ([]*reviewRow, error) {
	f, err := os.Open(path)
	if err != nil {
		if os.IsNotExist(err) {
			return nil, nil
		}
		return nil, err
	}
	defer f.Close()
	var rows []*reviewRow
	sc := bufio.NewScanner(f)
	for sc.Scan() {
		ln := strings.TrimSpace(sc.Text())
		if ln == "" || strings.HasPrefix(ln, "#") {
			continue
		}
		fs := strings.Fields(ln)
		if len(fs) < 4 {
			return nil, fmt.Errorf("%s: need '<Type> <loc> <class> <reason>': %q", path, ln)
		}
		rows = append(rows, &reviewRow{typ: fs[0], loc: fs[1], class: fs[2], reason: strings.Join(fs[3:], " ")})
	}
	return rows, nil
}

type a2life struct {
	c      *Ctx
	p      *Program
	s      *s1
	tname  string
	st     *types.Struct
	ue     map[string]ueSite
	visits map[string]bool
	funcs  []string
}

// lifeLevel analyses each function in defs (function -> object definitions with their
// must-written sets at the definition), then follows returned objects into callers, level by level.
func (l *a2life) lifeLevel(defs map[*ssa.Function]map[ssa.Value]locSet, depth int) {
	if len(defs) == 0 || depth > 4 {
		return
	}
	next := map[*ssa.Function]map[ssa.Value]locSet{}
	var fns []*ssa.Function
	for fn := range defs {
		fns = append(fns, fn)
	}
	sort.Slice(fns, func(i, j int) bool { return FnName(fns[i]) < FnName(fns[j]) })
	cg := l.p.CallGraph()
	for _, fn := range fns {
		key := FnName(fn)
		if l.visits[key] {
			continue
		}
		l.visits[key] = true
		l.funcs = append(l.funcs, FnName(fn))
		r := l.s.newRun(fn, l.st, false)
		for def, w0 := range defs[fn] {
			r.this[def] = true
			r.thisInit[def] = w0
		}
		r.closeThis()
		_, retThis, mwRet := r.run(locSet{"⊤": true})
		for loc, site := range r.ue {
			if _, ok := l.ue[loc]; !ok {
				l.ue[loc] = site
			}
		}
		for _, e := range r.escapes {
			if _, ok := l.ue["<escape>"]; !ok {
				l.ue["<escape>"] = ueSite{note: "object pointer stored into other memory at " + e + ": life cannot be followed"}
			}
		}
		if !retThis {
			continue
		}
		if mwRet["⊤"] {
			mwRet = locSet{}
		}
		idxs := map[int]bool{}
		for _, b := range fn.Blocks {
			if len(b.Instrs) == 0 {
				continue
			}
			if ret, ok := b.Instrs[len(b.Instrs)-1].(*ssa.Return); ok {
				for i, res := range ret.Results {
					if r.this[res] {
						idxs[i] = true
					}
				}
			}
		}
		n := cg.Nodes[fn]
		if n == nil {
			continue
		}
		for _, e := range n.In {
			caller := e.Caller.Func
			if !l.p.IsModFunc(caller) || e.Site == nil {
				continue
			}
			cv, ok := e.Site.(*ssa.Call)
			if !ok {
				continue
			}
			add := func(v ssa.Value) {
				if next[caller] == nil {
					next[caller] = map[ssa.Value]locSet{}
				}
				next[caller][v] = mwRet
			}
			if fn.Signature.Results().Len() == 1 {
				add(cv)
			} else {
				for _, u := range *cv.Referrers() {
					if ex, ok := u.(*ssa.Extract); ok && idxs[ex.Index] {
						add(ex)
					}
				}
			}
		}
	}
	l.lifeLevel(next, depth+1)
}

func runC11(c *Ctx) {
	c.Rule("A2a-reset: for every sync.Pool of the module, for every field location (field, sub-field, slice/array contents) of the pooled struct: it is not read before being fully written between Get and the end of the object's life (followed through returns into callers), counting constant resets done before Put; an upward-exposed read is a violation unless the location has a reviewed line in tables/poolstate.txt")
	c.Rule("A2a-benign: reads of a kept slice header used only for cap()/nil tests and reslice-store-back (the capacity-reuse idiom) are not exposed reads")
	c.Rule("A2b-reuse: for every cap()-guarded buffer reuse X[:n] vs make(n): on the reuse path no element is read before the buffer is cleared or fully overwritten (clear, full-range store loop), within the function and the callees it is passed to; buffers that leave the function unwritten must be fields of a pooled type tracked by A2a or reviewed")
	c.Rule("A2b-extend: no reslice provably extends a slice beyond its length (x[:len(x)+k], x[:cap(x)]) unless its backing array was allocated in the same function or the site is reviewed")
	c.Rule("A2d raster fill: a two-dimensional fill loop (index y*W+x) of a pooled buffer stores the element on every path of its inner body")
	c.Rule("A2c-put: after Put(x) (including deferred Put, which runs after results are evaluated) no value derived from x is used, stored or returned")
	c.NotCovered("locations with a reviewed table line (scratch written before read by construction, invariants implied by the reuse test) are reviewed by hand, not proven")
	c.NotCovered("that equal internal state implies equal output bytes (determinism of the kernels themselves)")
	c.Assume("a failed decode/encode releases or drops the pooled object: must-writes are taken on success returns only")
	rows, err := loadReview(filepath.Join(c.Verif, "tables", "poolstate.txt"))
	if err != nil {
		c.Fail("internal", "tables/poolstate.txt", "", err.Error())
		return
	}
	c.Table("tables/poolstate.txt")
	for _, cf := range c.configsFor() {
		p := c.load(cf[0], cf[1])
		if p == nil {
			continue
		}
		pooled := a2Pools(c, p, rows)
		a2bReuse(c, p, rows, pooled)
		a2cPut(c, p)
	}
	for _, r := range rows {
		if !r.used {
			c.SetConfig("tables")
			c.Stale("poolstate:" + r.typ + ":" + r.loc)
		}
	}
}

func a2Pools(c *Ctx, p *Program, rows []*reviewRow) map[string]bool {
	pooledTypes := map[string]bool{}
	pools := findPools(p)
	npools := 0
	s := newS1(p)
	for _, pi := range pools {
		if len(pi.gets) == 0 {
			continue
		}
		npools++
		// group the Get sites of this pool by asserted struct type
		type group struct {
			st    *types.Struct
			tname string
			defs  map[*ssa.Function]map[ssa.Value]locSet
			pos   token.Pos
		}
		groups := map[string]*group{}
		for _, get := range pi.gets {
			defs := assertsOf(get)
			if len(defs) == 0 {
				c.Fail("A2a-reset", pi.name+":get", p.Pos(get.Pos()), "Get result is not type-asserted to a struct pointer: pooled type unknown")
				continue
			}
			for _, def := range defs {
				st := structOf(def.Type())
				if st == nil {
					c.Pass("A2a-reset", pi.name+":"+shortType(def.Type()), p.Pos(def.Pos()), "pooled value is not a struct; no field state")
					continue
				}
				tname := shortType(def.Type().Underlying().(*types.Pointer).Elem())
				g := groups[tname]
				if g == nil {
					g = &group{st: st, tname: tname, defs: map[*ssa.Function]map[ssa.Value]locSet{}, pos: def.Pos()}
					groups[tname] = g
				}
				if g.defs[get.Parent()] == nil {
					g.defs[get.Parent()] = map[ssa.Value]locSet{}
				}
				g.defs[get.Parent()][def] = nil
			}
		}
		var gnames []string
		for k := range groups {
			gnames = append(gnames, k)
		}
		sort.Strings(gnames)
		for _, gn := range gnames {
			g := groups[gn]
			st, tname := g.st, g.tname
			pooledTypes[tname] = true
			// W0: constant resets before every Put whose operand is a parameter of the releasing function
			var w0 locSet
			for _, put := range pi.puts {
				w := putResetSet(s, p, put, st)
				if w0 == nil {
					w0 = w
				} else {
					w0 = locInter(w0, w)
				}
			}
			if w0 == nil {
				w0 = locSet{}
			}
			for _, m := range g.defs {
				for d := range m {
					m[d] = w0
				}
			}
			l := &a2life{c: c, p: p, s: s, tname: tname, st: st, ue: map[string]ueSite{}, visits: map[string]bool{}}
			l.lifeLevel(g.defs, 0)
			for _, f := range l.funcs {
				c.Func(f)
			}
			locs := structLocs(st)
			owned := ownedSliceFields(p, st)
			for _, loc := range locs {
				cons := tname + "/" + loc + "@" + pi.name
				site, exposed := l.ue[loc]
				if !exposed {
					c.Pass("A2a-reset", cons, "", "never read before written after Get (reset, rebuilt, or unused)")
					continue
				}
				if row := findRow(rows, tname, loc); row != nil {
					row.used = true
					c.Pass("A2a-reset", cons, p.Pos(site.pos), "reviewed ("+row.class+"): "+row.reason)
					continue
				}
				if owned[loc] {
					c.Pass("A2a-reset", cons, p.Pos(site.pos), "kept buffer: the slice header only ever holds memory allocated by the object itself (make / reslice of itself / nil); its contents are tracked separately as "+loc+"[]; a stale length is not checked")
					continue
				}
				c.Fail("A2a-reset", cons, p.Pos(site.pos), fmt.Sprintf("pooled %s: location %s is read in %s (%s) before any full write since Get; not reset on the reuse path and not reviewed", tname, loc, site.via, site.note))
			}
			for _, extra := range []string{"*", "<escape>"} {
				if site, ok := l.ue[extra]; ok {
					if row := findRow(rows, tname, extra); row != nil {
						row.used = true
						c.Pass("A2a-reset", tname+"/"+extra+"@"+pi.name, p.Pos(site.pos), "reviewed ("+row.class+"): "+row.reason)
					} else {
						c.Fail("A2a-reset", tname+"/"+extra+"@"+pi.name, p.Pos(site.pos), "pooled "+tname+": analysis lost track of the object in "+site.via+" ("+site.note+")")
					}
				}
			}
		}
	}
	// raster fills of pooled buffers that skip elements
	seenPF := map[string]bool{}
	for _, pf := range s.Partial() {
		key := pf.fn + ":" + pf.loc
		if seenPF[key] {
			continue
		}
		seenPF[key] = true
		c.Fail("A2d-raster-skip", key, p.Pos(pf.pos), "the two-dimensional fill of pooled buffer "+pf.loc+" in "+pf.fn+" does not store every element (a path through the inner loop body skips the store): the skipped elements keep the previous call's contents")
	}
	c.Floor("A2-pools", npools, 8)
	for k := range s.sums {
		c.Func(FnName(k.fn))
	}
	return pooledTypes
}

func findRow(rows []*reviewRow, typ, loc string) *reviewRow {
	for _, r := range rows {
		if r.typ == typ && r.loc == loc {
			return r
		}
	}
	return nil
}

// structLocs enumerates the tracked locations of a struct.
func structLocs(st *types.Struct) []string {
	var out []string
	for i := 0; i < st.NumFields(); i++ {
		f := st.Field(i)
		out = append(out, f.Name())
		switch u := f.Type().Underlying().(type) {
		case *types.Slice, *types.Array:
			out = append(out, f.Name()+"[]")
		case *types.Struct:
			for j := 0; j < u.NumFields(); j++ {
				out = append(out, f.Name()+"."+u.Field(j).Name())
				switch u.Field(j).Type().Underlying().(type) {
				case *types.Slice, *types.Array:
					out = append(out, f.Name()+"."+u.Field(j).Name()+"[]")
				}
			}
		}
	}
	return out
}

// putResetSet: locations stored with constants in the function containing put, before put,
// when the put operand is a parameter of that function (a release function).
func putResetSet(s *s1, p *Program, put *ssa.Call, st *types.Struct) locSet {
	fn := put.Parent()
	arg := put.Call.Args[1]
	if mi, ok := arg.(*ssa.MakeInterface); ok {
		arg = mi.X
	}
	par, ok := arg.(*ssa.Parameter)
	if !ok || structOf(par.Type()) == nil {
		return locSet{}
	}
	r := s.newRun(fn, st, true)
	r.this[par] = true
	r.closeThis()
	r.probe = map[ssa.Instruction]locSet{put: nil}
	r.run(locSet{})
	if w := r.probe[put]; w != nil {
		return w
	}
	return locSet{}
}

// ---- A2c: nothing derived from a pooled object is used after Put ----

func a2cPut(c *Ctx, p *Program) {
	pools := findPools(p)
	n := 0
	for _, pi := range pools {
		for _, put := range pi.puts {
			n++
			fn := put.Parent()
			arg := put.Call.Args[1]
			if mi, ok := arg.(*ssa.MakeInterface); ok {
				arg = mi.X
			}
			cons := FnName(fn) + ":Put(" + pi.name + ")"
			// derived closure of arg within fn
			der := derivedFrom(fn, arg)
			// instructions that may execute after put
			bad := ""
			after := instrsAfter(fn, put, arg)
			for _, in := range after {
				if in == ssa.Instruction(put) {
					continue
				}
				for _, op := range in.Operands(nil) {
					if *op != nil && der[*op] {
						if _, isDbg := in.(*ssa.DebugRef); isDbg {
							continue
						}
						bad = fmt.Sprintf("%s uses %s (derived from the released object) after Put", p.Pos(in.Pos()), (*op).Name())
					}
				}
				if bad != "" {
					break
				}
			}
			if bad == "" {
				bad = escapesOf(p, fn, arg, der, put, false)
			}
			c.Check(bad == "", "A2c-put", cons, p.Pos(put.Pos()), "no value derived from the released object is used after Put, stored into longer-lived memory, or returned", bad)
			// release functions: callers must not use the object after calling the release function
			if par, ok := arg.(*ssa.Parameter); ok {
				a2cCallers(c, p, fn, par, pi.name)
			}
		}
	}
	// deferred release: results must not alias
	c.Floor("A2c-put", n, 8)
}

// derivedFrom: closure of def-use from v through address/slice/load/phi/interface operations.
func derivedFrom(fn *ssa.Function, v ssa.Value) map[ssa.Value]bool {
	der := map[ssa.Value]bool{v: true}
	for changed := true; changed; {
		changed = false
		for _, b := range fn.Blocks {
			for _, in := range b.Instrs {
				val, ok := in.(ssa.Value)
				if !ok || der[val] {
					continue
				}
				add := false
				switch x := in.(type) {
				case *ssa.FieldAddr:
					add = der[x.X]
				case *ssa.IndexAddr:
					add = der[x.X]
				case *ssa.Slice:
					add = der[x.X]
				case *ssa.UnOp:
					if a, ok := x.X.(*ssa.Alloc); ok && x.Op == token.MUL && !der[x.X] {
						// local cell (incl. defer-spilled results): derived if a derived value is stored into it
						for _, u := range *a.Referrers() {
							if st, ok := u.(*ssa.Store); ok && st.Addr == ssa.Value(a) && der[st.Val] {
								add = true
							}
						}
					}
					if x.Op == token.MUL && der[x.X] {
						// loading a pointer/slice/map out of the object yields memory still owned by it
						switch x.Type().Underlying().(type) {
						case *types.Slice, *types.Pointer, *types.Map, *types.Struct, *types.Array, *types.Interface:
							add = true
						}
					}
				case *ssa.Phi:
					for _, e := range x.Edges {
						if der[e] {
							add = true
						}
					}
				case *ssa.MakeInterface:
					add = der[x.X]
				case *ssa.ChangeType:
					add = der[x.X]
				case *ssa.Convert:
					add = der[x.X]
				case *ssa.TypeAssert:
					add = der[x.X]
				case *ssa.Extract:
					add = der[x.Tuple]
				case *ssa.Call:
					// result-aliases-argument: a call that receives a derived value and returns
					// pointer-like data is derived unless every such result is provably fresh
					if pointerLike(x.Type()) {
						anyDer := false
						for _, a := range x.Call.Args {
							if der[a] {
								anyDer = true
							}
						}
						if x.Call.IsInvoke() && der[x.Call.Value] {
							anyDer = true
						}
						if anyDer {
							if b, ok := x.Call.Value.(*ssa.Builtin); ok {
								// append(fresh, derived...) copies; append(derived, ...) aliases
								add = b.Name() == "append" && der[x.Call.Args[0]]
							} else if callee := x.Call.StaticCallee(); callee == nil || !freshResults(callee, map[*ssa.Function]bool{}) {
								add = true
							}
						}
					}
				case *ssa.Field:
					add = der[x.X]
				}
				if add && types.Identical(val.Type(), types.Universe.Lookup("error").Type()) {
					add = false // error values carry no reference to pooled buffers
				}
				if add {
					der[val] = true
					changed = true
				}
			}
		}
	}
	return der
}

// instrsAfter returns the instructions that may execute after `at` in fn before the
// instruction defining `redef` executes again (a new dynamic value in a loop).
func instrsAfter(fn *ssa.Function, at ssa.Instruction, redef ssa.Value) []ssa.Instruction {
	var out []ssa.Instruction
	stop, _ := redef.(ssa.Instruction)
	seen := map[*ssa.BasicBlock]bool{}
	var walk func(b *ssa.BasicBlock, from int)
	walk = func(b *ssa.BasicBlock, from int) {
		for i := from; i < len(b.Instrs); i++ {
			if stop != nil && b.Instrs[i] == stop {
				return
			}
			out = append(out, b.Instrs[i])
		}
		for _, s := range b.Succs {
			if !seen[s] {
				seen[s] = true
				walk(s, 0)
			}
		}
	}
	b0 := at.Block()
	for i, in := range b0.Instrs {
		if in == at {
			walk(b0, i+1)
		}
	}
	return out
}

// a2cCallers: for a release function rel(param), every caller must not use values derived
// from the released argument after the call. A deferred release runs after the results are
// evaluated, so no result may be derived from the object.
func a2cCallers(c *Ctx, p *Program, rel *ssa.Function, par *ssa.Parameter, pool string) {
	idx := -1
	for i, q := range rel.Params {
		if q == par {
			idx = i
		}
	}
	cg := p.CallGraph()
	n := cg.Nodes[rel]
	if n == nil || idx < 0 {
		return
	}
	for _, e := range n.In {
		caller := e.Caller.Func
		if !p.IsModFunc(caller) || e.Site == nil {
			continue
		}
		args := e.Site.Common().Args
		if idx >= len(args) {
			continue
		}
		obj := args[idx]
		der := derivedFrom(caller, obj)
		// the released value was parked in a local slice/array: everything stored into that
		// container is released here as well
		for _, o2 := range parkedAliases(caller, obj) {
			for k := range derivedFrom(caller, o2) {
				der[k] = true
			}
		}
		cons := FnName(caller) + ":" + rel.Name() + "(" + pool + ")@" + fmt.Sprint(callOrdinal(caller, e.Site))
		bad := ""
		if _, isDefer := e.Site.(*ssa.Defer); isDefer {
			for _, b := range caller.Blocks {
				for _, in := range b.Instrs {
					if ret, ok := in.(*ssa.Return); ok {
						for _, res := range ret.Results {
							if der[res] {
								bad = fmt.Sprintf("%s returns %s, which aliases the object released by the deferred %s", p.Pos(ret.Pos()), res.Name(), rel.Name())
							}
						}
					}
				}
			}
		} else {
			for _, in := range instrsAfter(caller, e.Site, obj) {
				if _, isDbg := in.(*ssa.DebugRef); isDbg {
					continue
				}
				for _, op := range in.Operands(nil) {
					if *op != nil && der[*op] {
						// storing nil into the variable that held the object is fine
						if st, ok := in.(*ssa.Store); ok && st.Addr == *op {
							continue
						}
						bad = fmt.Sprintf("%s uses %s (derived from the released object) after %s", p.Pos(in.Pos()), (*op).Name(), rel.Name())
					}
				}
				if bad != "" {
					break
				}
			}
		}
		if bad == "" {
			_, isDef := e.Site.(*ssa.Defer)
			bad = escapesOf(p, caller, obj, der, e.Site, isDef)
		}
		c.Check(bad == "", "A2c-put", cons, p.Pos(e.Site.Pos()), "nothing derived from the released object is used afterwards, stored into longer-lived memory, or returned", bad)
	}
}

func callOrdinal(fn *ssa.Function, site ssa.CallInstruction) int {
	n := 0
	for _, b := range fn.Blocks {
		for _, in := range b.Instrs {
			if ci, ok := in.(ssa.CallInstruction); ok {
				if ci.Common().StaticCallee() == site.Common().StaticCallee() {
					n++
				}
				if ci == site {
					return n
				}
			}
		}
	}
	return n
}

// ownedSliceFields: slice-typed fields of st (and of its struct-typed fields, as "f.g") that,
// everywhere in the module, are only ever assigned memory the object allocated itself.
func ownedSliceFields(p *Program, st *types.Struct) map[string]bool {
	type fkey struct {
		st   *types.Struct
		name string
	}
	cand := map[fkey]string{} // -> location name
	for i := 0; i < st.NumFields(); i++ {
		f := st.Field(i)
		switch u := f.Type().Underlying().(type) {
		case *types.Slice:
			cand[fkey{st, f.Name()}] = f.Name()
		case *types.Struct:
			for j := 0; j < u.NumFields(); j++ {
				if _, ok := u.Field(j).Type().Underlying().(*types.Slice); ok {
					cand[fkey{u, u.Field(j).Name()}] = f.Name() + "." + u.Field(j).Name()
				}
			}
		}
	}
	bad := map[fkey]bool{}
	var ownedVal func(v ssa.Value, base ssa.Value, k fkey, depth int) bool
	ownedVal = func(v ssa.Value, base ssa.Value, k fkey, depth int) bool {
		if depth > 8 {
			return false
		}
		switch x := v.(type) {
		case *ssa.Const:
			return x.IsNil()
		case *ssa.MakeSlice:
			return true
		case *ssa.Slice:
			if a, ok := x.X.(*ssa.Alloc); ok {
				_ = a
				return true // slice of a fresh local array (new [N]T)
			}
			return ownedVal(x.X, base, k, depth+1)
		case *ssa.Phi:
			for _, e := range x.Edges {
				if e != v && !ownedVal(e, base, k, depth+1) {
					return false
				}
			}
			return true
		case *ssa.UnOp:
			if x.Op == token.MUL {
				if fa, ok := x.X.(*ssa.FieldAddr); ok {
					if s2 := structOf(fa.X.Type()); s2 != nil {
						// another slice field of the same kind of object: owned if that field is a candidate too
						if _, isCand := cand[fkey{s2, s2.Field(fa.Field).Name()}]; isCand {
							return true
						}
					}
				}
				if a, ok := x.X.(*ssa.Alloc); ok {
					// local variable cell
					okAll := true
					for _, u := range *a.Referrers() {
						if st, ok := u.(*ssa.Store); ok && st.Addr == ssa.Value(a) && !ownedVal(st.Val, base, k, depth+1) {
							okAll = false
						}
					}
					return okAll
				}
			}
		case *ssa.Call:
			if b, ok := x.Call.Value.(*ssa.Builtin); ok && b.Name() == "append" {
				return ownedVal(x.Call.Args[0], base, k, depth+1)
			}
			// a reslice-or-allocate helper: the result is a fresh make or a reslice of one slice argument
			if pi, ok := resliceOrMake(x.Call.StaticCallee()); ok && pi < len(x.Call.Args) {
				return ownedVal(x.Call.Args[pi], base, k, depth+1)
			}
		}
		return false
	}
	for _, fn := range p.SrcFuncs() {
		for _, b := range fn.Blocks {
			for _, in := range b.Instrs {
				st2, ok := in.(*ssa.Store)
				if !ok {
					continue
				}
				fa, ok := st2.Addr.(*ssa.FieldAddr)
				if !ok {
					continue
				}
				s2 := structOf(fa.X.Type())
				if s2 == nil {
					continue
				}
				k := fkey{s2, s2.Field(fa.Field).Name()}
				if _, isCand := cand[k]; !isCand {
					continue
				}
				if !ownedVal(st2.Val, fa.X, k, 0) {
					bad[k] = true
				}
			}
		}
		// composite literals &T{f: v} are lowered to FieldAddr stores as well
	}
	out := map[string]bool{}
	for k, loc := range cand {
		if !bad[k] {
			out[loc] = true
		}
	}
	return out
}

func pointerLike(t types.Type) bool {
	switch u := t.Underlying().(type) {
	case *types.Slice, *types.Pointer, *types.Map, *types.Interface, *types.Chan, *types.Signature:
		return true
	case *types.Tuple:
		for i := 0; i < u.Len(); i++ {
			if pointerLike(u.At(i).Type()) {
				return true
			}
		}
	case *types.Struct:
		for i := 0; i < u.NumFields(); i++ {
			if pointerLike(u.Field(i).Type()) {
				return true
			}
		}
	case *types.Array:
		return pointerLike(u.Elem())
	}
	return false
}

var freshMemo = map[*ssa.Function]bool{}

// freshResults: every pointer-like result of fn is newly allocated memory (or nil / an error value),
// never memory reachable from its parameters or receiver.
func freshResults(fn *ssa.Function, inprog map[*ssa.Function]bool) bool {
	if v, ok := freshMemo[fn]; ok {
		return v
	}
	if fn.Blocks == nil {
		return false
	}
	if inprog[fn] {
		return true
	}
	inprog[fn] = true
	defer delete(inprog, fn)
	visiting := map[ssa.Value]bool{}
	var fresh func(v ssa.Value, depth int) bool
	fresh = func(v ssa.Value, depth int) bool {
		if depth > 40 {
			return false
		}
		if visiting[v] {
			return true // cycle through a loop phi: decided by the other edges
		}
		visiting[v] = true
		defer delete(visiting, v)
		if !pointerLike(v.Type()) {
			return true
		}
		if types.Identical(v.Type(), types.Universe.Lookup("error").Type()) {
			return true
		}
		switch x := v.(type) {
		case *ssa.Const:
			return true
		case *ssa.MakeSlice, *ssa.MakeMap, *ssa.MakeChan:
			return true
		case *ssa.Alloc:
			// a new object: fresh if nothing non-fresh is stored into it
			for _, u := range *x.Referrers() {
				switch y := u.(type) {
				case *ssa.Store:
					if y.Addr == ssa.Value(x) && !fresh(y.Val, depth+1) {
						return false
					}
				case *ssa.FieldAddr:
					for _, u2 := range *y.Referrers() {
						if st, ok := u2.(*ssa.Store); ok && st.Addr == ssa.Value(y) && !fresh(st.Val, depth+1) {
							return false
						}
					}
				}
			}
			return true
		case *ssa.Slice:
			return fresh(x.X, depth+1)
		case *ssa.Phi:
			for _, e := range x.Edges {
				if e != v && !fresh(e, depth+1) {
					return false
				}
			}
			return true
		case *ssa.MakeInterface:
			return fresh(x.X, depth+1)
		case *ssa.ChangeType:
			return fresh(x.X, depth+1)
		case *ssa.Convert:
			return fresh(x.X, depth+1)
		case *ssa.Extract:
			return fresh(x.Tuple, depth+1)
		case *ssa.UnOp:
			if x.Op == token.MUL {
				if a, ok := x.X.(*ssa.Alloc); ok {
					for _, u := range *a.Referrers() {
						if st, ok := u.(*ssa.Store); ok && st.Addr == ssa.Value(a) && !fresh(st.Val, depth+1) {
							return false
						}
					}
					return true
				}
			}
			return false
		case *ssa.Call:
			if b, ok := x.Call.Value.(*ssa.Builtin); ok {
				if b.Name() == "append" {
					return fresh(x.Call.Args[0], depth+1)
				}
				return true
			}
			if callee := x.Call.StaticCallee(); callee != nil {
				if callee.Pkg != nil {
					switch callee.Pkg.Pkg.Path() + "." + callee.Name() {
					case "errors.New", "fmt.Errorf", "fmt.Sprintf", "image.NewNRGBA", "image.NewRGBA", "image.NewYCbCr", "image.NewGray", "image.Rect":
						return true
					}
				}
				return freshResults(callee, inprog)
			}
			return false
		}
		return false
	}
	ok := true
	for _, b := range fn.Blocks {
		for _, in := range b.Instrs {
			if ret, isRet := in.(*ssa.Return); isRet {
				for _, res := range ret.Results {
					if !fresh(res, 0) {
						ok = false
					}
				}
			}
		}
	}
	if len(inprog) == 1 {
		freshMemo[fn] = ok
	}
	return ok
}

// escapesOf: in a function that releases obj, a pointer-like value derived from obj must not be
// returned or stored into memory that is not itself part of obj (it would outlive the release).
// The object's own acquire/return path is exempt: when obj is a parameter (release helpers) nothing is checked.
func escapesOf(p *Program, fn *ssa.Function, obj ssa.Value, der map[ssa.Value]bool, site ssa.Instruction, deferred bool) string {
	if _, isParam := obj.(*ssa.Parameter); isParam {
		return ""
	}
	after := map[ssa.Instruction]bool{}
	for _, in := range instrsAfter(fn, site, obj) {
		after[in] = true
	}
	// instructions from which the release is reachable
	before := map[ssa.Instruction]bool{}
	if !deferred {
		reach := map[*ssa.BasicBlock]bool{}
		var stack []*ssa.BasicBlock
		stack = append(stack, site.Block().Preds...)
		for len(stack) > 0 {
			b := stack[len(stack)-1]
			stack = stack[:len(stack)-1]
			if reach[b] {
				continue
			}
			reach[b] = true
			stack = append(stack, b.Preds...)
		}
		for b := range reach {
			for _, in := range b.Instrs {
				before[in] = true
			}
		}
		for _, in := range site.Block().Instrs {
			if in == site {
				break
			}
			before[in] = true
		}
	}
	for _, b := range fn.Blocks {
		for _, in := range b.Instrs {
			switch x := in.(type) {
			case *ssa.Return:
				if !deferred && !after[in] {
					continue
				}
				for _, res := range x.Results {
					if der[res] && pointerLike(res.Type()) && res != obj {
						return fmt.Sprintf("%s returns %s, which aliases memory of the object released in this function", p.Pos(x.Pos()), res.Name())
					}
				}
			case *ssa.Store:
				if !deferred && !after[in] && !before[in] {
					continue
				}
				if der[x.Val] && pointerLike(x.Val.Type()) && !der[x.Addr] {
					if _, ok := x.Addr.(*ssa.Alloc); ok {
						continue // local cell; its loads are derived
					}
					if deferred && overwrittenWithNilBeforeExit(fn, x) {
						continue // parked in a field for the duration of the call and cleared before the deferred release runs
					}
					return fmt.Sprintf("%s stores %s (aliases the released object) into memory that outlives the release", p.Pos(x.Pos()), x.Val.Name())
				}
			}
		}
	}
	return ""
}

// parkedAliases: if v is loaded from an element of a container (slice/array) local to fn, return the
// values stored into elements of that container.
func parkedAliases(fn *ssa.Function, v ssa.Value) []ssa.Value {
	ld, ok := v.(*ssa.UnOp)
	if !ok || ld.Op != token.MUL {
		return nil
	}
	ia, ok := ld.X.(*ssa.IndexAddr)
	if !ok {
		return nil
	}
	root := sliceRoot(ia.X)
	if root == nil {
		return nil
	}
	var out []ssa.Value
	for _, b := range fn.Blocks {
		for _, in := range b.Instrs {
			st, ok := in.(*ssa.Store)
			if !ok {
				continue
			}
			ia2, ok := st.Addr.(*ssa.IndexAddr)
			if !ok || sliceRoot(ia2.X) != root {
				continue
			}
			out = append(out, st.Val)
		}
	}
	return out
}

func sliceRoot(v ssa.Value) ssa.Value {
	for i := 0; i < 6; i++ {
		switch x := v.(type) {
		case *ssa.MakeSlice:
			return x
		case *ssa.Alloc:
			return x
		case *ssa.Slice:
			v = x.X
		case *ssa.Phi:
			for _, e := range x.Edges {
				if r := sliceRoot(e); r != nil {
					return r
				}
			}
			return nil
		case *ssa.UnOp:
			if x.Op == token.MUL {
				if a, ok := x.X.(*ssa.Alloc); ok {
					return a
				}
			}
			return nil
		default:
			return nil
		}
	}
	return nil
}

// resliceOrMake: every value fn returns is nil, a fresh make, or a reslice of its slice parameter
// number param (the shape of reuse-or-allocate helpers, cleared or not).
var resliceOrMakeMemo = map[*ssa.Function]int{}

func resliceOrMake(fn *ssa.Function) (param int, ok bool) {
	if fn == nil || fn.Blocks == nil {
		return 0, false
	}
	if v, seen := resliceOrMakeMemo[fn]; seen {
		return v, v >= 0
	}
	resliceOrMakeMemo[fn] = -1
	if fn.Signature.Results().Len() != 1 {
		return 0, false
	}
	if _, isSl := fn.Signature.Results().At(0).Type().Underlying().(*types.Slice); !isSl {
		return 0, false
	}
	for pi, par := range fn.Params {
		if _, isSl := par.Type().Underlying().(*types.Slice); !isSl {
			continue
		}
		var derived func(v ssa.Value, depth int) bool
		derived = func(v ssa.Value, depth int) bool {
			if depth > 6 {
				return false
			}
			switch x := v.(type) {
			case *ssa.Parameter:
				return x == par
			case *ssa.Slice:
				return derived(x.X, depth+1)
			case *ssa.MakeSlice:
				return true
			case *ssa.Const:
				return x.IsNil()
			case *ssa.Phi:
				for _, e := range x.Edges {
					if e != v && !derived(e, depth+1) {
						return false
					}
				}
				return true
			}
			return false
		}
		good, nret := true, 0
		for _, b := range fn.Blocks {
			if ret, isRet := b.Instrs[len(b.Instrs)-1].(*ssa.Return); isRet {
				nret++
				if !derived(ret.Results[0], 0) {
					good = false
				}
			}
		}
		if good && nret > 0 {
			resliceOrMakeMemo[fn] = pi
			return pi, true
		}
	}
	return 0, false
}

// overwrittenWithNilBeforeExit: st stores into a field x.f; on every path from st to the function's
// exit a later store writes nil into the same field of the same base value.
func overwrittenWithNilBeforeExit(fn *ssa.Function, st *ssa.Store) bool {
	fa, ok := st.Addr.(*ssa.FieldAddr)
	if !ok {
		return false
	}
	ipd := computeIPdom(fn)
	for _, b := range fn.Blocks {
		for i, in := range b.Instrs {
			s2, ok := in.(*ssa.Store)
			if !ok || s2 == st {
				continue
			}
			fa2, ok := s2.Addr.(*ssa.FieldAddr)
			if !ok || fa2.Field != fa.Field || fa2.X != fa.X {
				continue
			}
			k, isC := s2.Val.(*ssa.Const)
			if !isC || !k.IsNil() {
				continue
			}
			if b == st.Block() {
				for j, in2 := range b.Instrs {
					if in2 == ssa.Instruction(st) && j < i {
						return true
					}
				}
				continue
			}
			for d := ipd[st.Block()]; d != nil; d = ipd[d] {
				if d == b {
					return true
				}
			}
		}
	}
	return false
}
