package main

import (
	"fmt"
	"go/token"
	"go/types"

	"golang.org/x/tools/go/callgraph"
	"golang.org/x/tools/go/ssa"
)

// ---- G8: arrival order ----
//
// A channel that several goroutines send to delivers its messages in an order chosen by the
// scheduler. What the receiver keeps from them must therefore not depend on that order. For every
// receive from a channel with more than one producer the rule looks at the receiving loop:
//   - a variable carried round the loop may only be left unchanged, set to a constant, or combined
//     with a commutative and associative operator (+ * | & ^, min, max);
//   - a store of something derived from the message goes to a slot whose index is itself derived
//     from the message (the producer says where its result belongs).
// "keep the first one that arrived" (x == nil guard, then x = msg.f) and "keep the last one"
// (plain assignment, append) are reported.

// chanRoot resolves a channel operand to the instruction that owns the channel in the function
// that created it: the MakeChan itself, or the Alloc cell of the captured variable holding it.
func chanRoot(v ssa.Value) ssa.Value {
	for i := 0; i < 8; i++ {
		switch x := v.(type) {
		case *ssa.MakeChan:
			return x
		case *ssa.Alloc:
			return x
		case *ssa.ChangeType:
			v = x.X
		case *ssa.UnOp:
			if x.Op != token.MUL {
				return nil
			}
			v = x.X
		case *ssa.FreeVar:
			fn := x.Parent()
			par := fn.Parent()
			if par == nil {
				return nil
			}
			var bound ssa.Value
			for _, b := range par.Blocks {
				for _, in := range b.Instrs {
					mc, ok := in.(*ssa.MakeClosure)
					if !ok || mc.Fn != ssa.Value(fn) {
						continue
					}
					for k, fv := range fn.FreeVars {
						if fv == x {
							bound = mc.Bindings[k]
						}
					}
				}
			}
			if bound == nil {
				return nil
			}
			v = bound
		case *ssa.Parameter:
			// a channel handed to a named worker function: what every caller passes
			if chanCG == nil {
				return nil
			}
			fn := x.Parent()
			idx := -1
			for i, q := range fn.Params {
				if q == x {
					idx = i
				}
			}
			nd := chanCG.Nodes[fn]
			if nd == nil || idx < 0 || len(nd.In) == 0 {
				return nil
			}
			var root ssa.Value
			for _, e := range nd.In {
				if e.Site == nil {
					return nil
				}
				args := e.Site.Common().Args
				if e.Site.Common().IsInvoke() || idx >= len(args) {
					return nil
				}
				r := chanRoot(args[idx])
				if r == nil || (root != nil && r != root) {
					return nil
				}
				root = r
			}
			return root
		default:
			return nil
		}
	}
	return nil
}

// chanCG is the call graph used to follow channels passed as arguments (set by arrivalOrder).
var chanCG *callgraph.Graph

// a local (not captured) channel variable is not a cell: its root is the MakeChan. A captured one is
// an Alloc into which exactly one MakeChan is stored; rootKey maps both to one key.
func rootKey(v ssa.Value) ssa.Value {
	r := chanRoot(v)
	if a, ok := r.(*ssa.Alloc); ok {
		var mk ssa.Value
		n := 0
		for _, ref := range *a.Referrers() {
			if st, ok := ref.(*ssa.Store); ok && st.Addr == ssa.Value(a) {
				n++
				mk = st.Val
			}
		}
		if n == 1 {
			if m, ok := mk.(*ssa.MakeChan); ok {
				return m
			}
		}
		return a
	}
	return r
}

func allFuncsUnder(fn *ssa.Function) []*ssa.Function {
	out := []*ssa.Function{fn}
	for _, a := range fn.AnonFuncs {
		out = append(out, allFuncsUnder(a)...)
	}
	return out
}

// goSiteOf returns the go statement that runs the closure fn (nil when fn is not spawned).
func goSiteOf(fn *ssa.Function) *ssa.Go {
	par := fn.Parent()
	if par == nil {
		return nil
	}
	for _, b := range par.Blocks {
		for _, in := range b.Instrs {
			gs, ok := in.(*ssa.Go)
			if !ok {
				continue
			}
			if bodyOf(gs) == fn {
				return gs
			}
		}
	}
	return nil
}

func inCycle(b *ssa.BasicBlock) bool { return reachable(b, b) }

func (g *a4) arrivalOrder() {
	c, p := g.c, g.p
	nrecv := 0
	chanCG = p.CallGraph()
	defer func() { c.Floor("G8-arrival-order", nrecv, 1) }()
	for _, fn := range p.SrcFuncs() {
		if fn.Blocks == nil || !p.IsModFunc(fn) {
			continue
		}
		for _, b := range fn.Blocks {
			for _, in := range b.Instrs {
				var chv ssa.Value
				switch u := in.(type) {
				case *ssa.UnOp:
					if u.Op != token.ARROW {
						continue
					}
					chv = u.X
				case *ssa.Select:
					for _, st := range u.States {
						if st.Dir == 2 /* types.RecvOnly */ {
							chv = st.Chan
						}
					}
					if chv == nil {
						continue
					}
				default:
					continue
				}
				nrecv++
				key := fmt.Sprintf("%s#recv(%s)", FnName(fn), chanName(chv))
				pos := p.Pos(in.Pos())
				root := rootKey(chv)
				if root == nil {
					c.Fail("G8-arrival-order", key, pos, "the producers of this channel cannot be identified (the channel is not created in an enclosing function)")
					continue
				}
				if _, isSel := in.(*ssa.Select); isSel {
					c.Fail("G8-arrival-order", key, pos, "receive inside a select: not analysed")
					continue
				}
				// producers: every send in the module whose channel is this one
				goSites := map[*ssa.Go]bool{}
				direct, looped, nsend := false, false, 0
				for _, f := range p.SrcFuncs() {
					if f.Blocks == nil || !p.IsModFunc(f) {
						continue
					}
					for _, fb := range f.Blocks {
						for _, fi := range fb.Instrs {
							sd, ok := fi.(*ssa.Send)
							if !ok || rootKey(sd.Chan) != root {
								continue
							}
							nsend++
							sites := spawnSitesOf(f, 0)
							if len(sites) == 0 {
								direct = true
								continue
							}
							for _, gs := range sites {
								goSites[gs] = true
								if inCycle(gs.Block()) {
									looped = true
								}
							}
						}
					}
				}
				multi := looped || len(goSites) > 1 || (len(goSites) == 1 && direct)
				if !multi {
					c.Pass("G8-arrival-order", key, pos, fmt.Sprintf("one producer (%d send sites, %d go statements, none in a loop): messages arrive in program order", nsend, len(goSites)))
					continue
				}
				bad := g.orderSensitive(fn, in.(*ssa.UnOp))
				c.Check(bad == "", "G8-arrival-order", key, pos,
					fmt.Sprintf("%d producers' messages are only stored at message-supplied indices or folded with commutative operators", len(goSites)),
					"what the receiver keeps depends on the order in which the goroutines deliver: "+bad)
			}
		}
	}
}

func chanName(v ssa.Value) string {
	switch x := v.(type) {
	case *ssa.UnOp:
		return chanName(x.X)
	case *ssa.Alloc:
		if x.Comment != "" {
			return x.Comment
		}
	case *ssa.FreeVar:
		return x.Name()
	case *ssa.Parameter:
		return x.Name()
	}
	return v.Name()
}

// orderSensitive inspects the loop around the receive u in fn.
func (g *a4) orderSensitive(fn *ssa.Function, u *ssa.UnOp) string {
	p := g.p
	ub := u.Block()
	inLoop := map[*ssa.BasicBlock]bool{}
	if inCycle(ub) {
		for _, b := range fn.Blocks {
			if b == ub || (reachable(ub, b) && reachable(b, ub)) {
				inLoop[b] = true
			}
		}
	} else {
		// not in a loop: several receives in sequence; every later use is order dependent unless
		// only folded - treat the rest of the function as the region
		for _, b := range fn.Blocks {
			if b == ub || reachable(ub, b) {
				inLoop[b] = true
			}
		}
	}
	// D: values derived from the message
	D := map[ssa.Value]bool{u: true}
	dcell := map[ssa.Value]bool{}
	for changed := true; changed; {
		changed = false
		for b := range inLoop {
			for _, in := range b.Instrs {
				if st, ok := in.(*ssa.Store); ok && D[st.Val] {
					if a, ok := cellOf(st.Addr).(*ssa.Alloc); ok && !dcell[a] {
						dcell[a] = true
						changed = true
					}
					continue
				}
				if ld, ok := in.(*ssa.UnOp); ok && ld.Op == token.MUL && !D[ld] && dcell[cellOf(ld.X)] {
					D[ld] = true
					changed = true
					continue
				}
				v, ok := in.(ssa.Value)
				if !ok || D[v] {
					continue
				}
				for _, op := range in.Operands(nil) {
					if *op != nil && D[*op] {
						// the ok flag of a range-over-channel is not message content
						if ex, isEx := in.(*ssa.Extract); isEx && ex.Index == 1 && ex.Tuple == ssa.Value(u) && u.CommaOk {
							continue
						}
						D[v] = true
						changed = true
						break
					}
				}
			}
		}
	}
	// control dependence on the message: blocks of the loop dominated by a successor of a branch on D
	ctl := map[*ssa.BasicBlock]bool{}
	for b := range inLoop {
		iff, ok := b.Instrs[len(b.Instrs)-1].(*ssa.If)
		if !ok || !D[iff.Cond] {
			continue
		}
		for _, s := range b.Succs {
			for d := range inLoop {
				if s.Dominates(d) && len(s.Preds) == 1 {
					ctl[d] = true
				}
			}
		}
	}
	var orderFree func(v ssa.Value, carried ssa.Value, depth int) bool
	orderFree = func(v ssa.Value, carried ssa.Value, depth int) bool {
		if v == carried {
			return true
		}
		if depth > 6 {
			return false
		}
		switch x := v.(type) {
		case *ssa.Const:
			return true
		case *ssa.BinOp:
			switch x.Op {
			case token.ADD, token.MUL, token.OR, token.AND, token.XOR:
				if bt, ok := x.Type().Underlying().(*types.Basic); ok && bt.Info()&types.IsString != 0 {
					return false // concatenation is not commutative
				}
				return orderFree(x.X, carried, depth+1) && !dependsOn(x.Y, carried) || orderFree(x.Y, carried, depth+1) && !dependsOn(x.X, carried)
			}
			return false
		case *ssa.Phi:
			if !inLoop[x.Block()] {
				return false
			}
			for _, e := range x.Edges {
				if !orderFree(e, carried, depth+1) {
					return false
				}
			}
			return true
		case *ssa.Call:
			if bi, ok := x.Call.Value.(*ssa.Builtin); ok && (bi.Name() == "max" || bi.Name() == "min") {
				n := 0
				for _, a := range x.Call.Args {
					if orderFree(a, carried, depth+1) && a == carried {
						n++
					}
				}
				return n == 1
			}
		}
		return false
	}
	// loop-carried SSA variables
	for b := range inLoop {
		for _, in := range b.Instrs {
			ph, ok := in.(*ssa.Phi)
			if !ok {
				break
			}
			header := false
			for _, pr := range b.Preds {
				if !inLoop[pr] {
					header = true
				}
			}
			if !header {
				continue
			}
			for k, e := range ph.Edges {
				if !inLoop[b.Preds[k]] || e == ssa.Value(ph) {
					continue
				}
				if !involves(e, D, ctl, inLoop, 0) {
					continue
				}
				if !orderFree(e, ph, 0) {
					if keyedSelection(ph, e, b.Preds[k], D, inLoop) {
						continue
					}
					name := ph.Comment
					if name == "" {
						name = ph.Name()
					}
					return fmt.Sprintf("variable %s carried round the receive loop takes a value chosen from the messages (%s)", name, p.Pos(posOfValue(e, ph)))
				}
			}
		}
	}
	// stores
	for b := range inLoop {
		for _, in := range b.Instrs {
			switch st := in.(type) {
			case *ssa.Store:
				if !D[st.Val] && !ctl[b] {
					continue
				}
				if msgIndexed(st.Addr, D) {
					continue
				}
				if a, ok := cellOf(st.Addr).(*ssa.Alloc); ok && !a.Heap {
					continue // register-like local; its flow is covered by the phi rule after lifting
				}
				if ld, ok := st.Val.(*ssa.Const); ok && ld != nil && ctl[b] && !D[st.Val] {
					continue // setting a flag to a constant when some message has a property
				}
				return fmt.Sprintf("store at %s keeps a message-derived value in a location that is not addressed by the message (last or first arrival wins)", p.Pos(st.Pos()))
			case *ssa.Call:
				if bi, ok := st.Call.Value.(*ssa.Builtin); ok && bi.Name() == "append" {
					for _, a := range st.Call.Args[1:] {
						if D[a] {
							return fmt.Sprintf("append at %s collects messages in arrival order", p.Pos(st.Pos()))
						}
					}
				}
			}
		}
	}
	return ""
}

func dependsOn(v, target ssa.Value) bool {
	seen := map[ssa.Value]bool{}
	var walk func(v ssa.Value, d int) bool
	walk = func(v ssa.Value, d int) bool {
		if v == target {
			return true
		}
		if d > 8 || seen[v] {
			return false
		}
		seen[v] = true
		in, ok := v.(ssa.Instruction)
		if !ok {
			return false
		}
		for _, op := range in.Operands(nil) {
			if *op != nil && walk(*op, d+1) {
				return true
			}
		}
		return false
	}
	return walk(v, 0)
}

// involves: the value (followed through merges inside the loop) is derived from the message or is
// selected under a branch on the message.
func involves(v ssa.Value, D map[ssa.Value]bool, ctl, inLoop map[*ssa.BasicBlock]bool, depth int) bool {
	if D[v] {
		return true
	}
	if depth > 6 {
		return true
	}
	switch x := v.(type) {
	case *ssa.Phi:
		if !inLoop[x.Block()] {
			return false
		}
		for k, e := range x.Edges {
			if ctl[x.Block().Preds[k]] {
				return true
			}
			if involves(e, D, ctl, inLoop, depth+1) {
				return true
			}
		}
	case *ssa.BinOp:
		return involves(x.X, D, ctl, inLoop, depth+1) || involves(x.Y, D, ctl, inLoop, depth+1)
	}
	return false
}

func posOfValue(v ssa.Value, fallback ssa.Value) token.Pos {
	if v.Pos() != token.NoPos {
		return v.Pos()
	}
	if in, ok := v.(ssa.Instruction); ok {
		for _, op := range in.Operands(nil) {
			if *op != nil && (*op).Pos() != token.NoPos {
				return (*op).Pos()
			}
		}
	}
	return fallback.Pos()
}

// msgIndexed: the address is an element (or a field of an element) whose index derives from the message.
func msgIndexed(addr ssa.Value, D map[ssa.Value]bool) bool {
	for i := 0; i < 6; i++ {
		switch x := addr.(type) {
		case *ssa.FieldAddr:
			addr = x.X
		case *ssa.IndexAddr:
			if D[x.Index] {
				return true
			}
			addr = x.X
		case *ssa.UnOp:
			if x.Op != token.MUL {
				return false
			}
			addr = x.X
		default:
			return false
		}
	}
	return false
}

// keyedSelection accepts the arg-min / arg-max idiom: the carried variable takes a message value only
// in a block entered through comparisons of a message-derived key with another carried variable K
// (or tests of carried variables against constants: "nothing kept yet"), and K takes that key in the
// same block. The result is then the message with the smallest (largest) key whatever the arrival
// order, provided keys are distinct (assumption recorded in the evidence).
func keyedSelection(ph *ssa.Phi, e ssa.Value, pred *ssa.BasicBlock, D map[ssa.Value]bool, inLoop map[*ssa.BasicBlock]bool) bool {
	hdr := ph.Block()
	isCarried := func(v ssa.Value) *ssa.Phi {
		if q, ok := v.(*ssa.Phi); ok && q.Block() == hdr {
			return q
		}
		return nil
	}
	type leaf struct {
		v ssa.Value
		b *ssa.BasicBlock
	}
	var leaves func(v ssa.Value, from *ssa.BasicBlock, depth int) []leaf
	leaves = func(v ssa.Value, from *ssa.BasicBlock, depth int) []leaf {
		if q, ok := v.(*ssa.Phi); ok && q.Block() != hdr && inLoop[q.Block()] && depth < 6 {
			var out []leaf
			for k, x := range q.Edges {
				out = append(out, leaves(x, q.Block().Preds[k], depth+1)...)
			}
			return out
		}
		return []leaf{{v, from}}
	}
	norm := func(b *ssa.BasicBlock) *ssa.BasicBlock {
		for i := 0; i < 8 && len(b.Preds) == 1; i++ {
			if _, isIf := b.Preds[0].Instrs[len(b.Preds[0].Instrs)-1].(*ssa.If); isIf {
				break
			}
			b = b.Preds[0]
		}
		return b
	}
	for _, lf := range leaves(e, pred, 0) {
		if lf.v == ssa.Value(ph) {
			continue
		}
		if _, isConst := lf.v.(*ssa.Const); isConst {
			continue
		}
		if !D[lf.v] {
			return false
		}
		nb := norm(lf.b)
		if len(nb.Preds) == 0 {
			return false
		}
		keyed := false
		for _, pb := range nb.Preds {
			iff, ok := pb.Instrs[len(pb.Instrs)-1].(*ssa.If)
			if !ok {
				return false
			}
			cmp, ok := iff.Cond.(*ssa.BinOp)
			if !ok {
				return false
			}
			var carried *ssa.Phi
			var other ssa.Value
			if q := isCarried(cmp.X); q != nil {
				carried, other = q, cmp.Y
			} else if q := isCarried(cmp.Y); q != nil {
				carried, other = q, cmp.X
			} else {
				return false
			}
			if _, isConst := other.(*ssa.Const); isConst {
				continue // "nothing kept yet"
			}
			switch cmp.Op {
			case token.LSS, token.GTR, token.LEQ, token.GEQ:
			default:
				return false
			}
			if !D[other] {
				return false
			}
			// the key variable takes this key in the same block
			okKey := false
			for k, x := range carried.Edges {
				if !inLoop[hdr.Preds[k]] {
					continue
				}
				for _, kl := range leaves(x, hdr.Preds[k], 0) {
					if sameMsgVal(kl.v, other) && norm(kl.b) == nb {
						okKey = true
					}
				}
			}
			if !okKey {
				return false
			}
			keyed = true
		}
		if !keyed {
			return false
		}
	}
	return true
}

// sameMsgVal: go/ssa does not share common subexpressions, so r.idx read twice is two instructions.
func sameMsgVal(a, b ssa.Value) bool {
	if a == b {
		return true
	}
	switch x := a.(type) {
	case *ssa.Field:
		y, ok := b.(*ssa.Field)
		return ok && x.Field == y.Field && sameMsgVal(x.X, y.X)
	case *ssa.Extract:
		y, ok := b.(*ssa.Extract)
		return ok && x.Index == y.Index && x.Tuple == y.Tuple
	case *ssa.UnOp:
		y, ok := b.(*ssa.UnOp)
		if !ok || x.Op != token.MUL || y.Op != token.MUL {
			return false
		}
		fx, ok1 := x.X.(*ssa.FieldAddr)
		fy, ok2 := y.X.(*ssa.FieldAddr)
		return ok1 && ok2 && fx.Field == fy.Field && fx.X == fy.X
	case *ssa.Convert:
		y, ok := b.(*ssa.Convert)
		return ok && sameMsgVal(x.X, y.X)
	}
	return false
}

// spawnSitesOf: the go statements that run f - directly (closure or named function), or through the
// closures / callers that enclose it.
func spawnSitesOf(f *ssa.Function, depth int) []*ssa.Go {
	if depth > 3 {
		return nil
	}
	var out []*ssa.Go
	if gs := goSiteOf(f); gs != nil {
		out = append(out, gs)
	}
	if chanCG != nil {
		if nd := chanCG.Nodes[f]; nd != nil {
			for _, e := range nd.In {
				if gs, ok := e.Site.(*ssa.Go); ok {
					out = append(out, gs)
				}
			}
		}
	}
	if len(out) == 0 && f.Parent() != nil {
		return spawnSitesOf(f.Parent(), depth+1)
	}
	return out
}

// ---- G9: schedule-dependent control through atomics ----
//
// A goroutine body that loads an atomic variable which its sibling goroutines update, and branches on
// the loaded value, does different work under different interleavings (skipping items "that cannot
// matter any more", early exits on a shared flag). The work-claiming idiom uses the *result of Add* as
// a ticket and is not a load; the row pipeline's wait/signal protocol lives in methods of its own
// type and is checked by G3.
func (g *a4) atomicControl() {
	c, p := g.c, g.p
	isAtomic := func(call *ssa.Call, names ...string) (ssa.Value, bool) {
		cal := call.Call.StaticCallee()
		if cal == nil || cal.Pkg == nil || cal.Pkg.Pkg.Path() != "sync/atomic" || len(call.Call.Args) == 0 {
			return nil, false
		}
		for _, n := range names {
			if cal.Name() == n || (len(cal.Name()) > len(n) && cal.Name()[:len(n)] == n && cal.Signature.Recv() == nil) {
				return atomicRoot(call.Call.Args[0]), true
			}
		}
		return nil, false
	}
	bySpawner := map[*ssa.Function][]*ssa.Function{}
	for _, gs := range g.goStmts() {
		if fn := bodyOf(gs); fn != nil && fn.Blocks != nil && p.IsModFunc(fn) {
			bySpawner[gs.Parent()] = append(bySpawner[gs.Parent()], fn)
		}
	}
	n := 0
	for spawner, bodies := range bySpawner {
		written := map[ssa.Value]bool{}
		for _, fn := range bodies {
			for _, b := range fn.Blocks {
				for _, in := range b.Instrs {
					if call, ok := in.(*ssa.Call); ok {
						if root, ok := isAtomic(call, "Store", "Add", "CompareAndSwap", "Swap", "Or", "And"); ok && root != nil {
							written[spawnerRoot(fn, root)] = true
						}
					}
				}
			}
		}
		for _, fn := range bodies {
			n++
			bad := ""
			for _, b := range fn.Blocks {
				for _, in := range b.Instrs {
					call, ok := in.(*ssa.Call)
					if !ok {
						continue
					}
					root, ok := isAtomic(call, "Load")
					if !ok || root == nil || !written[spawnerRoot(fn, root)] {
						continue
					}
					if reachesBranch(call, 0) && bad == "" {
						bad = p.Pos(call.Pos())
					}
				}
			}
			key := fmt.Sprintf("%s#atomic-control", FnName(fn))
			c.Check(bad == "", "G9-atomic-control", key, p.Pos(fn.Pos()), "no branch of the goroutine body depends on an atomic variable that sibling goroutines update",
				fmt.Sprintf("the goroutine body branches on an atomic variable loaded at %s that goroutines started by %s also update: which work is done depends on the interleaving", bad, spawner.Name()))
		}
	}
	c.Floor("G9-atomic-control", n, 10)
}

// atomicRoot: the variable an atomic operation works on (captured variable, field address, local cell).
func atomicRoot(v ssa.Value) ssa.Value {
	for i := 0; i < 6; i++ {
		switch x := v.(type) {
		case *ssa.FieldAddr:
			v = x.X
		case *ssa.IndexAddr:
			v = x.X
		case *ssa.UnOp:
			v = x.X
		default:
			return v
		}
	}
	return v
}

// spawnerRoot maps a free variable of a goroutine closure to the spawner's variable.
func spawnerRoot(fn *ssa.Function, v ssa.Value) ssa.Value {
	if fv, ok := v.(*ssa.FreeVar); ok {
		if par := fn.Parent(); par != nil {
			for _, b := range par.Blocks {
				for _, in := range b.Instrs {
					if mc, ok := in.(*ssa.MakeClosure); ok && mc.Fn == ssa.Value(fn) {
						for k, f := range fn.FreeVars {
							if f == fv {
								return mc.Bindings[k]
							}
						}
					}
				}
			}
		}
	}
	return v
}

// reachesBranch: the value flows (through arithmetic, conversions and phis) into a branch condition.
func reachesBranch(v ssa.Value, depth int) bool {
	if depth > 6 {
		return false
	}
	refs := v.Referrers()
	if refs == nil {
		return false
	}
	for _, u := range *refs {
		switch x := u.(type) {
		case *ssa.If:
			return true
		case *ssa.BinOp:
			if reachesBranch(x, depth+1) {
				return true
			}
		case *ssa.Convert:
			if reachesBranch(x, depth+1) {
				return true
			}
		case *ssa.UnOp:
			if reachesBranch(x, depth+1) {
				return true
			}
		case *ssa.Phi:
			if reachesBranch(x, depth+1) {
				return true
			}
		}
	}
	return false
}
