package main

// C06: lossy decode equals the encoder's own reconstruction - one structural clause.
//
// Q1 quantiser derivation: the decoder turns the transmitted quantiser index and deltas into
//    dequantisation factors by table lookups KDcTable/KAcTable[clip(index + delta, K)] followed by
//    fixed post-operations (x2, x155/100, floor 8). The encoder must derive the factors it quantises,
//    dequantises and reconstructs with from the same tables with the same clamp limits and the same
//    post-operations (KAcTable2 being the tabulated form of KAcTable*155/100 with floor 8, which
//    A8-relations of C04 verifies entry by entry). The rule compares, between the function of the
//    encoder and the function of the decoder that read KDcTable, the multiset of
//    (table, clamp limit, multiplier, shift) signatures.

import (
	"fmt"
	"go/constant"
	"go/token"
	"go/types"
	"os"
	"sort"
	"strings"

	"golang.org/x/tools/go/ssa"
)

func init() { register("C06", runC06) }

type quantSig struct {
	table      string
	clampMax   int64
	mul, shift int64
}

func (q quantSig) String() string {
	s := fmt.Sprintf("%s[clip(.., %d)]", q.table, q.clampMax)
	if q.mul != 1 {
		s += fmt.Sprintf("*%d", q.mul)
	}
	if q.shift != 0 {
		s += fmt.Sprintf(">>%d", q.shift)
	}
	return s
}

// normalise: the decoder's KAcTable*101581>>16 is the encoder's KAcTable2 (C04 A8-relations)
func (q quantSig) norm() string {
	if q.table == "KAcTable" && q.mul == 101581 && q.shift == 16 {
		return fmt.Sprintf("AC*155/100[<=%d]", q.clampMax)
	}
	if q.table == "KAcTable2" && q.mul == 1 && q.shift == 0 {
		return fmt.Sprintf("AC*155/100[<=%d]", q.clampMax)
	}
	return q.String()
}

func constArgMax(call *ssa.Call) (int64, bool) {
	return clampLimit(call, 0)
}

// clampLimit: the last constant argument of a clamp helper is its upper limit; a helper or closure
// that only wraps such a call is looked through.
func clampLimit(call *ssa.Call, depth int) (int64, bool) {
	if l, ok := clampLimitThrough(call, depth); ok {
		return l, true
	}
	for i := len(call.Call.Args) - 1; i >= 0; i-- {
		if k, ok := call.Call.Args[i].(*ssa.Const); ok && k.Value != nil && k.Value.Kind() == constant.Int {
			v, _ := constant.Int64Val(k.Value)
			return v, true
		}
	}
	return 0, false
}

func clampLimitThrough(call *ssa.Call, depth int) (int64, bool) {
	if depth > 3 {
		return 0, false
	}
	var callee *ssa.Function
	if sc := call.Call.StaticCallee(); sc != nil {
		callee = sc
	} else if mc, ok := call.Call.Value.(*ssa.MakeClosure); ok {
		callee, _ = mc.Fn.(*ssa.Function)
	}
	if callee == nil || callee.Blocks == nil {
		return 0, false
	}
	found := false
	var lim int64
	for _, b := range callee.Blocks {
		ret, ok := b.Instrs[len(b.Instrs)-1].(*ssa.Return)
		if !ok || len(ret.Results) != 1 {
			continue
		}
		inner, ok := ret.Results[0].(*ssa.Call)
		if !ok {
			return 0, false
		}
		l, ok := clampLimit(inner, depth+1)
		if !ok || (found && l != lim) {
			return 0, false
		}
		found, lim = true, l
	}
	return lim, found
}

func quantSigs(fn *ssa.Function) ([]quantSig, []string) {
	var out []quantSig
	var problems []string
	for _, b := range fn.Blocks {
		for _, in := range b.Instrs {
			ld, ok := in.(*ssa.UnOp)
			if !ok || ld.Op != token.MUL {
				continue
			}
			ia, ok := ld.X.(*ssa.IndexAddr)
			if !ok {
				continue
			}
			g, ok := ia.X.(*ssa.Global)
			if !ok || !(g.Name() == "KDcTable" || g.Name() == "KAcTable" || g.Name() == "KAcTable2") {
				continue
			}
			sig := quantSig{table: g.Name(), mul: 1}
			call, ok := ia.Index.(*ssa.Call)
			if !ok {
				problems = append(problems, fmt.Sprintf("%s is indexed without a clamp helper", g.Name()))
				continue
			}
			mx, ok := constArgMax(call)
			if !ok {
				problems = append(problems, fmt.Sprintf("the clamp of the %s index has no constant limit", g.Name()))
				continue
			}
			sig.clampMax = mx
			// post-operations: follow the single arithmetic chain of the loaded value
			var v ssa.Value = ld
			for steps := 0; steps < 6; steps++ {
				refs := v.Referrers()
				if refs == nil {
					break
				}
				var next ssa.Value
				for _, u := range *refs {
					switch x := u.(type) {
					case *ssa.Convert:
						next = x
					case *ssa.BinOp:
						if k, ok := x.Y.(*ssa.Const); ok && k.Value != nil && x.X == v {
							kv, _ := constant.Int64Val(k.Value)
							switch x.Op {
							case token.MUL:
								sig.mul *= kv
								next = x
							case token.SHR:
								sig.shift += kv
								next = x
							case token.SHL:
								sig.mul <<= uint(kv)
								next = x
							}
						}
					}
				}
				if next == nil {
					break
				}
				v = next
			}
			out = append(out, sig)
		}
	}
	return out, problems
}

func runC06(c *Ctx) {
	c.Rule("Q1 quantiser derivation: the encoder function and the decoder function that read KDcTable derive the dequantisation factors from the same tables with the same clamp limits and post-operations: equal multisets of (table, clamp limit, multiplier, shift), with KAcTable2[i] identified with KAcTable[i]*101581>>16 (relation verified by C04 A8-relations)")
	c.Rule("K3-enc-transform: the encoder's reconstruction transforms (dsp.iTransformOne, iTransform, ITransformDirect) have, sample for sample, the S8 normal form of the decoder's dsp.transformOne applied to the prediction block; the intra predictors are shared functions (checked against the reference by C04 K1)")
	c.NotCovered("everything else the property states: that encoder-side reconstruction (quantisation/dequantisation round trip, WHT shortcut paths, serial and parallel paths) and decoder-side reconstruction compute the same sample values; token and context agreement; segment map transmission - all value-level")
	for _, cf := range c.configsFor() {
		p := c.load(cf[0], cf[1])
		if p == nil {
			continue
		}
		kernelEncoderTransform(c, p)
		segmentMapOff(c, p)
		pk := p.SSAPkg("internal/lossy")
		if pk == nil {
			c.AnchorMissing("Q1-quant-derivation", "package internal/lossy")
			continue
		}
		var encFn, decFn *ssa.Function
		for _, fn := range p.SrcFuncs() {
			if fn.Pkg != pk {
				continue
			}
			sigs, _ := quantSigs(fn)
			hasDC := false
			for _, s := range sigs {
				if s.table == "KDcTable" {
					hasDC = true
				}
			}
			if !hasDC {
				continue
			}
			file := p.Pos(fn.Pos())
			if strings.Contains(file, "/decode") {
				if decFn == nil || len(sigs) > 0 {
					decFn = fn
				}
			} else if strings.Contains(file, "/encode") {
				encFn = fn
			}
		}
		if encFn == nil || decFn == nil {
			c.AnchorMissing("Q1-quant-derivation", "encoder/decoder functions reading lossy.KDcTable")
			continue
		}
		c.Func(FnName(encFn))
		c.Func(FnName(decFn))
		quantCoherence(c, p, encFn)
		es, ep := quantSigs(encFn)
		ds, dp := quantSigs(decFn)
		key := encFn.Name() + "~" + decFn.Name()
		pos := p.Pos(encFn.Pos())
		if len(ep)+len(dp) > 0 {
			c.Fail("Q1-quant-derivation", key+":shape", pos, strings.Join(append(ep, dp...), "; "))
			continue
		}
		count := func(ss []quantSig) map[string]int {
			m := map[string]int{}
			for _, s := range ss {
				m[s.norm()]++
			}
			return m
		}
		em, dm := count(es), count(ds)
		var diffs []string
		keys := map[string]bool{}
		for k := range em {
			keys[k] = true
		}
		for k := range dm {
			keys[k] = true
		}
		var ks []string
		for k := range keys {
			ks = append(ks, k)
		}
		sort.Strings(ks)
		for _, k := range ks {
			if em[k] != dm[k] {
				diffs = append(diffs, fmt.Sprintf("%s: encoder x%d, decoder x%d", k, em[k], dm[k]))
			}
		}
		c.Check(len(diffs) == 0, "Q1-quant-derivation", key, pos,
			fmt.Sprintf("%s and %s derive the %d dequantisation factors with the same tables, clamp limits and post-operations", encFn.Name(), decFn.Name(), len(ds)),
			fmt.Sprintf("%s (encoder) and %s (decoder) do not derive the dequantisation factors the same way: %s - the encoder quantises and reconstructs with a different step than the decoder uses, so the decoded planes drift from the encoder's reconstruction", encFn.Name(), decFn.Name(), strings.Join(diffs, "; ")))
		c.Floor("Q1-quant-derivation", len(ds), 6)
	}
}

// Q2 segment-map-off: a VP8 decoder that is told (update_mb_segmentation_map = 0) that no segment
// map is transmitted uses segment 0 for every macroblock. So wherever the encoder stores the
// constant false into the segment header's UpdateMap flag, every macroblock's segment id must be
// reset to 0 on the same path (a loop storing 0 into the Segment field of every element, which
// every path from the flag store to the function's exit passes through): otherwise the encoder
// quantises and reconstructs some macroblocks with a segment quantiser the decoder never uses.
func segmentMapOff(c *Ctx, p *Program) {
	c.Rule("Q2 segment-map-off: every store of the constant false into the encoder's segment-header flag UpdateMap is followed, on every path to the function's exit, by a loop that stores 0 into the Segment field of the macroblock records (the decoder assumes segment 0 for all macroblocks when no map is sent)")
	pk := p.SSAPkg("internal/lossy")
	if pk == nil {
		return
	}
	n := 0
	for _, fn := range p.SrcFuncs() {
		if fn.Pkg != pk || fn.Blocks == nil {
			continue
		}
		var flagStores []*ssa.Store
		var zeroLoops []*ssa.BasicBlock // loop headers of loops that store 0 into .Segment of a slice element
		for _, b := range fn.Blocks {
			for _, in := range b.Instrs {
				st, ok := in.(*ssa.Store)
				if !ok {
					continue
				}
				fa, ok := st.Addr.(*ssa.FieldAddr)
				if !ok {
					continue
				}
				name := fieldNameOf(fa.X.Type(), fa.Field)
				k, isC := st.Val.(*ssa.Const)
				if !isC || k.Value == nil {
					continue
				}
				switch name {
				case "UpdateMap":
					if bv, ok := constBool(k); ok && !bv {
						// the encoder's header (the decoder parses its own copy from the bitstream)
						if strings.Contains(p.Pos(fn.Pos()), "encode") {
							flagStores = append(flagStores, st)
						}
					}
				case "Segment":
					if kv, ok := constantInt(k); ok && kv == 0 {
						if _, isElem := fa.X.(*ssa.IndexAddr); isElem {
							for _, h := range fn.Blocks {
								if li := loopOf(h); li != nil && li.body[b] {
									zeroLoops = append(zeroLoops, h)
								}
							}
						}
					}
				}
			}
		}
		if len(flagStores) == 0 {
			continue
		}
		ipd := computeIPdom(fn)
		for i, st := range flagStores {
			n++
			c.Func(FnName(fn))
			ok := false
			for d := ipd[st.Block()]; d != nil; d = ipd[d] {
				for _, h := range zeroLoops {
					if h == d {
						ok = true
					}
				}
			}
			// the store's own block may be inside/before the loop header directly
			for _, h := range zeroLoops {
				if h == st.Block() {
					ok = true
				}
			}
			c.Check(ok, "Q2-segment-map-off", fmt.Sprintf("%s:UpdateMap=false#%d", FnName(fn), i+1), p.Pos(st.Pos()),
				"every macroblock's segment id is reset to 0 on the path that switches the segment map off",
				fn.Name()+" switches the segment map off (UpdateMap = false) without resetting every macroblock's Segment to 0 on that path: macroblocks that the analysis put into another segment are quantised and reconstructed with that segment's quantiser, while the decoder - which receives no map - dequantises them with segment 0's: the decoded picture drifts from the encoder's reconstruction")
		}
	}
	if n == 0 {
		c.Note("Q2 segment-map-off: the encoder never stores the constant false into a segment-header UpdateMap flag on this tree (no instance)")
	}
}

// Q3 quantiser/token coherence: the quantisers announced in the frame header must be the ones the
// coefficients were quantised with. In the function that produces the final frame bytes
// (the exported encoder method returning ([]byte, error)), consider three kinds of calls:
//
//	W  a call that (transitively) reaches the quantiser setter - the encoder function that derives
//	   the quantisation steps from KDcTable (the one Q1 compares with the decoder's);
//	E  a call that (transitively) reaches a quantisation kernel - a function that takes a pointer
//	   to the matrix type the setter fills - i.e. coefficients and tokens are produced anew;
//	S  the call whose result becomes the returned frame.
//
// On no path may a W call reach S without an E call in between. For a W callee that returns a
// boolean the analysis is sensitive to the constant returned: the callee "leaves the quantisers
// changed" only on the return values reached after its own W calls.
func quantCoherence(c *Ctx, p *Program, setter *ssa.Function) {
	c.Rule("Q3 quantiser/token coherence: in the encoder method that returns the frame bytes, on no path does a call that may change the quantisers (it reaches the function deriving the steps from KDcTable) reach the call producing the returned frame without a call that re-quantises the coefficients in between; boolean-returning callees are summarised per returned constant")
	pk := setter.Pkg
	// call graph closure inside the package (static callees)
	callees := func(fn *ssa.Function) []*ssa.Function {
		var out []*ssa.Function
		for _, b := range fn.Blocks {
			for _, in := range b.Instrs {
				if cc, ok := in.(ssa.CallInstruction); ok {
					if cal := cc.Common().StaticCallee(); cal != nil && cal.Pkg == pk {
						out = append(out, cal)
					}
				}
			}
		}
		return out
	}
	var fns []*ssa.Function
	for _, fn := range p.SrcFuncs() {
		if fn.Pkg == pk && fn.Blocks != nil {
			fns = append(fns, fn)
		}
	}
	closure := func(seed map[*ssa.Function]bool) map[*ssa.Function]bool {
		r := map[*ssa.Function]bool{}
		for f := range seed {
			r[f] = true
		}
		for changed := true; changed; {
			changed = false
			for _, fn := range fns {
				if r[fn] {
					continue
				}
				for _, cal := range callees(fn) {
					if r[cal] {
						r[fn] = true
						changed = true
						break
					}
				}
			}
		}
		return r
	}
	W := closure(map[*ssa.Function]bool{setter: true})
	// matrix types the setter stores into
	mat := map[types.Type]bool{}
	for _, b := range setter.Blocks {
		for _, in := range b.Instrs {
			if st, ok := in.(*ssa.Store); ok {
				v := st.Addr
				for i := 0; i < 6; i++ {
					switch t := v.(type) {
					case *ssa.FieldAddr:
						if pt, ok := t.X.Type().Underlying().(*types.Pointer); ok {
							if _, isN := pt.Elem().(*types.Named); isN {
								mat[pt.Elem()] = true
							}
						}
						v = t.X
					case *ssa.IndexAddr:
						v = t.X
					default:
						i = 6
					}
				}
			}
		}
	}
	kernels := map[*ssa.Function]bool{}
	for _, fn := range fns {
		if W[fn] || fn.Signature.Recv() != nil {
			continue
		}
		for i := 0; i < fn.Signature.Params().Len(); i++ {
			pt, ok := fn.Signature.Params().At(i).Type().(*types.Pointer)
			if !ok || !mat[pt.Elem()] {
				continue
			}
			// a consumer of the matrices: it never stores through the parameter
			writes := false
			for _, b := range fn.Blocks {
				for _, in := range b.Instrs {
					st, ok := in.(*ssa.Store)
					if !ok {
						continue
					}
					v := st.Addr
					for k := 0; k < 6; k++ {
						switch t := v.(type) {
						case *ssa.FieldAddr:
							v = t.X
						case *ssa.IndexAddr:
							v = t.X
						default:
							k = 6
						}
					}
					if v == ssa.Value(fn.Params[i]) {
						writes = true
					}
				}
			}
			if !writes {
				kernels[fn] = true
			}
		}
	}
	if len(kernels) == 0 {
		c.AnchorMissing("Q3-quant-coherence", "quantisation kernels (functions taking a pointer to the matrix type filled by "+setter.Name()+")")
		return
	}
	E := closure(kernels)
	debugSets(p, W, E)
	// per-function summary for W callees: which constant boolean returns are reached "dirty"
	type summ struct{ onTrue, onFalse, other bool }
	memo := map[*ssa.Function]*summ{}
	var summarise func(fn *ssa.Function, depth int) *summ
	// generic forward dataflow: state at block entry (dirty may-analysis)
	flow := func(fn *ssa.Function, depth int, atSink func(call *ssa.Call, dirty bool)) map[*ssa.BasicBlock]bool {
		dirtyIn := map[*ssa.BasicBlock]bool{}
		dirtyOutEdge := map[[2]*ssa.BasicBlock]bool{}
		work := []*ssa.BasicBlock{fn.Blocks[0]}
		seen := map[*ssa.BasicBlock]bool{}
		for len(work) > 0 {
			b := work[0]
			work = work[1:]
			d := dirtyIn[b]
			var lastW *ssa.Call // last boolean W call in this block whose summary splits on the result
			var lastSum *summ
			cleanBefore := false
			for _, in := range b.Instrs {
				call, ok := in.(*ssa.Call)
				if !ok {
					continue
				}
				cal := call.Common().StaticCallee()
				if cal == nil || cal.Pkg != pk {
					continue
				}
				if atSink != nil {
					atSink(call, d)
				}
				switch {
				case cal == setter:
					d = true
					lastW = nil
				case W[cal] && !E[cal]:
					s := summarise(cal, depth+1)
					if bt, ok := call.Type().Underlying().(*types.Basic); ok && bt.Kind() == types.Bool {
						lastW, lastSum, cleanBefore = call, s, !d
						d = d || s.onTrue || s.onFalse || s.other
					} else {
						if s.onTrue || s.onFalse || s.other {
							d = true
						}
						lastW = nil
					}
				case W[cal] && E[cal]:
					// changes the quantisers and quantises: summarise the callee's own order
					s := summarise(cal, depth+1)
					d = s.onTrue || s.onFalse || s.other
					lastW = nil
				case E[cal]:
					d = false
					lastW = nil
				}
			}
			outs := make([]bool, len(b.Succs))
			for i := range outs {
				outs[i] = d
			}
			if iff, ok := b.Instrs[len(b.Instrs)-1].(*ssa.If); ok && lastW != nil && cleanBefore {
				cond := iff.Cond
				neg := false
				if u, ok := cond.(*ssa.UnOp); ok && u.Op == token.NOT {
					cond, neg = u.X, true
				}
				if cond == ssa.Value(lastW) {
					t, f := lastSum.onTrue || lastSum.other, lastSum.onFalse || lastSum.other
					if neg {
						t, f = f, t
					}
					outs[0], outs[1] = t, f
				}
			}
			for i, s := range b.Succs {
				k := [2]*ssa.BasicBlock{b, s}
				if outs[i] && !dirtyOutEdge[k] {
					dirtyOutEdge[k] = true
				}
				nd := dirtyIn[s] || outs[i]
				if !seen[s] || nd != dirtyIn[s] {
					seen[s] = true
					dirtyIn[s] = nd
					work = append(work, s)
				}
			}
			if len(b.Succs) == 0 {
				dirtyIn[b] = dirtyIn[b] // keep
			}
			// record exit state for returns
			if _, ok := b.Instrs[len(b.Instrs)-1].(*ssa.Return); ok {
				dirtyOutEdge[[2]*ssa.BasicBlock{b, nil}] = d
			}
		}
		res := map[*ssa.BasicBlock]bool{}
		for k, v := range dirtyOutEdge {
			if k[1] == nil {
				res[k[0]] = v
			}
		}
		return res
	}
	summarise = func(fn *ssa.Function, depth int) *summ {
		if s, ok := memo[fn]; ok {
			return s
		}
		s := &summ{}
		memo[fn] = s
		if depth > 12 {
			s.other = true
			return s
		}
		if fn == setter {
			s.other = true
			return s
		}
		exits := flow(fn, depth, nil)
		for b, dirty := range exits {
			if !dirty {
				continue
			}
			ret := b.Instrs[len(b.Instrs)-1].(*ssa.Return)
			if len(ret.Results) == 1 {
				if v, ok := constBool(ret.Results[0]); ok {
					if v {
						s.onTrue = true
					} else {
						s.onFalse = true
					}
					continue
				}
			}
			s.other = true
		}
		return s
	}
	// the frame producers
	n := 0
	for _, fn := range fns {
		if fn.Object() == nil || !fn.Object().Exported() || fn.Signature.Recv() == nil || fn.Signature.Results().Len() != 2 {
			continue
		}
		if types.TypeString(fn.Signature.Results().At(0).Type(), nil) != "[]byte" || !isErrorType(fn.Signature.Results().At(1).Type()) {
			continue
		}
		if !W[fn] || !E[fn] {
			continue
		}
		// sink calls: calls whose first result is returned
		sinks := map[*ssa.Call]bool{}
		for _, b := range fn.Blocks {
			ret, ok := b.Instrs[len(b.Instrs)-1].(*ssa.Return)
			if !ok || len(ret.Results) == 0 {
				continue
			}
			v := ret.Results[0]
			for i := 0; i < 4; i++ {
				switch t := v.(type) {
				case *ssa.Extract:
					v = t.Tuple
				case *ssa.Phi:
					if len(t.Edges) > 0 {
						v = t.Edges[0]
					}
				}
			}
			if call, ok := v.(*ssa.Call); ok {
				sinks[call] = true
			}
		}
		if len(sinks) == 0 {
			continue
		}
		c.Func(FnName(fn))
		bad := ""
		flow(fn, 0, func(call *ssa.Call, dirty bool) {
			if sinks[call] && dirty && bad == "" {
				bad = p.Pos(call.Pos())
			}
		})
		n++
		c.Check(bad == "", "Q3-quant-coherence", FnName(fn), p.Pos(fn.Pos()),
			fmt.Sprintf("every path that changes the quantisers (through %s) re-quantises the coefficients before the frame is produced", setter.Name()),
			fmt.Sprintf("%s can reach the call that produces the returned frame (%s) after a call that changed the quantisers (it reaches %s) without quantising the coefficients again: the header then announces quantisers the recorded tokens were not coded with, and the decoder dequantises with the wrong steps", fn.Name(), bad, setter.Name()))
	}
	if n == 0 {
		c.AnchorMissing("Q3-quant-coherence", "exported encoder method returning ([]byte, error) that both sets quantisers and quantises")
	}
}

func debugSets(p *Program, W, E map[*ssa.Function]bool) {
	if os.Getenv("VERIF_DEBUG") == "" {
		return
	}
	for fn := range W {
		fmt.Fprintf(os.Stderr, "Q3 W %s E=%v\n", fn.Name(), E[fn])
	}
}
