package main

import (
	"fmt"
	"go/constant"
	"go/token"
	"go/types"

	"golang.org/x/tools/go/ssa"
)

// R6 (C09, also run by C08): in "do not blend" mode every pixel of the frame rectangle overwrites the
// canvas, whatever its value. In the function that composites a frame (a method of the decoder that
// reads the frame's blend method), a test of pixel data - a source alpha of 0, "same as the canvas" -
// may only be made on the alpha-blending side of the blend-method test. The rule searches for a path
// through the function that takes a branch on pixel data, never takes the blending side of a
// blend-method test, and reaches the next iteration (or the return) without a canvas write.
func c09NoBlendOverwrite(c *Ctx, p *Program) {
	pk := p.SSAPkg("animation")
	if pk == nil {
		c.AnchorMissing("R6-noblend-overwrite", "package animation")
		return
	}
	n := 0
	for _, fn := range p.SrcFuncs() {
		if fn.Pkg != pk || fn.Blocks == nil || fn.Signature.Recv() == nil {
			continue
		}
		// a *Frame parameter whose blend-method field is loaded
		var frame *ssa.Parameter
		for _, par := range fn.Params[1:] {
			if pt, ok := par.Type().(*types.Pointer); ok && shortType(pt.Elem()) == "animation.Frame" {
				frame = par
			}
		}
		if frame == nil {
			continue
		}
		mode := map[ssa.Value]bool{}
		for _, b := range fn.Blocks {
			for _, in := range b.Instrs {
				if ld, ok := in.(*ssa.UnOp); ok && ld.Op == token.MUL {
					if fa, ok := ld.X.(*ssa.FieldAddr); ok && fa.X == ssa.Value(frame) && shortType(ld.Type()) == "animation.BlendMethod" {
						mode[ld] = true
					}
				}
			}
		}
		if len(mode) == 0 {
			continue
		}
		n++
		c.Func(FnName(fn))
		// forward closure: values derived from the blend method / from pixel data
		pix := map[ssa.Value]bool{}
		canvas := map[ssa.Value]bool{} // values denoting the decoder's canvas image or its pixel slice
		for changed := true; changed; {
			changed = false
			for _, b := range fn.Blocks {
				for _, in := range b.Instrs {
					v, ok := in.(ssa.Value)
					if !ok {
						continue
					}
					mark := func(set map[ssa.Value]bool) {
						if !set[v] {
							set[v] = true
							changed = true
						}
					}
					switch x := in.(type) {
					case *ssa.UnOp:
						if x.Op == token.MUL {
							// load of a receiver field holding an image: the canvas
							if fa, ok := x.X.(*ssa.FieldAddr); ok && fa.X == ssa.Value(fn.Params[0]) {
								if pt, ok := x.Type().(*types.Pointer); ok && shortType(pt.Elem()) == "image.NRGBA" {
									mark(canvas)
								}
							}
							// load of the Pix slice of an image / of a byte of a pixel slice
							if fa, ok := x.X.(*ssa.FieldAddr); ok {
								if st := structOf(fa.X.Type()); st != nil && st.Field(fa.Field).Name() == "Pix" {
									if canvas[fa.X] {
										mark(canvas)
									} else {
										mark(pix) // the slice itself; element loads below are pixel data
									}
								}
							}
							if ia, ok := x.X.(*ssa.IndexAddr); ok && (pix[ia.X] || canvas[ia.X]) {
								mark(pix) // a loaded sample (also of the canvas: "same as before" tests)
							}
							if mode[x.X] {
								mark(mode)
							}
						} else if pix[x.X] {
							mark(pix)
						} else if mode[x.X] {
							mark(mode)
						}
					case *ssa.Slice:
						if pix[x.X] {
							mark(pix)
						}
						if canvas[x.X] {
							mark(canvas)
						}
					case *ssa.BinOp:
						if pix[x.X] || pix[x.Y] {
							mark(pix)
						}
						if mode[x.X] || mode[x.Y] {
							mark(mode)
						}
					case *ssa.Convert:
						if pix[x.X] {
							mark(pix)
						}
					case *ssa.Phi:
						for _, e := range x.Edges {
							if pix[e] {
								mark(pix)
							}
							if mode[e] {
								mark(mode)
							}
							if canvas[e] {
								mark(canvas)
							}
						}
					case *ssa.Field:
						if pix[x.X] {
							mark(pix)
						}
					case *ssa.Extract:
						if pix[x.Tuple] {
							mark(pix)
						}
					case *ssa.Call:
						// colour accessors of stdlib images return pixel data
						if cal := x.Call.StaticCallee(); cal != nil && cal.Pkg != nil && cal.Pkg.Pkg.Path() == "image" && cal.Signature.Recv() != nil {
							switch cal.Name() {
							case "NRGBAAt", "RGBAAt", "At", "RGBA64At":
								mark(pix)
							}
						}
					}
				}
			}
		}
		// canvas writes per block
		writes := map[*ssa.BasicBlock]bool{}
		var blendCalls []*ssa.BasicBlock
		for _, b := range fn.Blocks {
			for _, in := range b.Instrs {
				switch x := in.(type) {
				case *ssa.Store:
					if ia, ok := x.Addr.(*ssa.IndexAddr); ok && canvas[ia.X] {
						writes[b] = true
					}
				case *ssa.Call:
					if bi, ok := x.Call.Value.(*ssa.Builtin); ok && bi.Name() == "copy" && canvas[x.Call.Args[0]] {
						writes[b] = true
					}
					if cal := x.Call.StaticCallee(); cal != nil {
						if len(x.Call.Args) > 0 && canvas[x.Call.Args[0]] && (cal.Name() == "SetNRGBA" || cal.Name() == "Set" || cal.Name() == "SetRGBA") {
							writes[b] = true
						}
						// the blend function: two colours in, one colour out
						sg := cal.Signature
						if sg.Params().Len() == 2 && sg.Results().Len() == 1 && shortType(sg.Params().At(0).Type()) == "color.NRGBA" && shortType(sg.Results().At(0).Type()) == "color.NRGBA" {
							blendCalls = append(blendCalls, b)
						}
					}
				}
			}
		}
		// evaluate the blend-method conditions for the "do not blend" value of the field: the successor
		// that contradicts it is not part of a do-not-blend execution
		noBlend, okNB := constOf(p.Pkg("animation"), "BlendNone")
		if !okNB {
			c.AnchorMissing("R6-noblend-overwrite", "constant animation.BlendNone")
			return
		}
		var evalMode func(v ssa.Value, depth int) (int64, bool)
		evalMode = func(v ssa.Value, depth int) (int64, bool) {
			if depth > 8 {
				return 0, false
			}
			switch x := v.(type) {
			case *ssa.Const:
				if x.Value == nil {
					return 0, false
				}
				if x.Value.Kind() == constant.Bool {
					if constant.BoolVal(x.Value) {
						return 1, true
					}
					return 0, true
				}
				return constantInt(x)
			case *ssa.UnOp:
				if x.Op == token.MUL && mode[x] {
					if _, isFA := x.X.(*ssa.FieldAddr); isFA {
						return noBlend, true // the field itself
					}
					// a local cell holding a mode-derived value: its single stored value
					if al, ok := x.X.(*ssa.Alloc); ok {
						var val ssa.Value
						cnt := 0
						for _, ref := range *al.Referrers() {
							if st, ok := ref.(*ssa.Store); ok && st.Addr == ssa.Value(al) {
								cnt++
								val = st.Val
							}
						}
						if cnt == 1 {
							return evalMode(val, depth+1)
						}
					}
					return 0, false
				}
				if x.Op == token.NOT {
					if a, ok := evalMode(x.X, depth+1); ok {
						return 1 - a, true
					}
				}
			case *ssa.Convert:
				return evalMode(x.X, depth+1)
			case *ssa.BinOp:
				a, ok1 := evalMode(x.X, depth+1)
				b, ok2 := evalMode(x.Y, depth+1)
				if !ok1 || !ok2 {
					return 0, false
				}
				bv := func(t bool) (int64, bool) {
					if t {
						return 1, true
					}
					return 0, true
				}
				switch x.Op {
				case token.EQL:
					return bv(a == b)
				case token.NEQ:
					return bv(a != b)
				}
			}
			return 0, false
		}
		blendEdge := map[[2]*ssa.BasicBlock]bool{}
		for _, b := range fn.Blocks {
			iff, ok := b.Instrs[len(b.Instrs)-1].(*ssa.If)
			if !ok || !mode[iff.Cond] {
				continue
			}
			if v, ok := evalMode(iff.Cond, 0); ok {
				if v == 1 {
					blendEdge[[2]*ssa.BasicBlock{b, b.Succs[1]}] = true
				} else {
					blendEdge[[2]*ssa.BasicBlock{b, b.Succs[0]}] = true
				}
			}
		}
		_ = blendCalls
		// path search from every pixel-data branch
		bad := ""
		for _, b := range fn.Blocks {
			iff, ok := b.Instrs[len(b.Instrs)-1].(*ssa.If)
			if !ok || !pix[iff.Cond] || mode[iff.Cond] {
				continue
			}
			// is this branch reachable without the blending side? (search from entry)
			if !reachAvoiding(fn.Blocks[0], b, blendEdge, nil) {
				continue
			}
			// from either successor: a way to the loop header / a return without a canvas write and
			// without the blending side
			for _, s := range b.Succs {
				if skipsWrite(s, b, writes, blendEdge) {
					bad = p.Pos(iff.Cond.Pos())
				}
			}
		}
		key := fn.Name() + ":noblend-overwrite"
		c.Check(bad == "", "R6-noblend-overwrite", key, p.Pos(fn.Pos()),
			"tests of pixel data are made only on the alpha-blending side of the blend-method test (or always lead to a canvas write)",
			fmt.Sprintf("%s tests pixel data at %s outside the alpha-blending side of the blend-method test and can then leave the canvas pixel unwritten: in do-not-blend mode every pixel of the frame must overwrite the canvas (a transparent source pixel erases it)", fn.Name(), bad))
	}
	c.Floor("R6-noblend-overwrite", n, 1)
}

func dominatesAny(b *ssa.BasicBlock, ts []*ssa.BasicBlock) bool {
	for _, t := range ts {
		if b.Dominates(t) {
			return true
		}
	}
	return false
}

// reachAvoiding: to is reachable from from without taking an edge of avoid.
func reachAvoiding(from, to *ssa.BasicBlock, avoid map[[2]*ssa.BasicBlock]bool, stop map[*ssa.BasicBlock]bool) bool {
	seen := map[*ssa.BasicBlock]bool{}
	st := []*ssa.BasicBlock{from}
	for len(st) > 0 {
		b := st[len(st)-1]
		st = st[:len(st)-1]
		if b == to {
			return true
		}
		if seen[b] || stop[b] {
			continue
		}
		seen[b] = true
		for _, s := range b.Succs {
			if !avoid[[2]*ssa.BasicBlock{b, s}] {
				st = append(st, s)
			}
		}
	}
	return false
}

// skipsWrite: from start, control can come back to a block that dominates origin (the next iteration)
// or return, without a canvas write and without the blending side.
func skipsWrite(start, origin *ssa.BasicBlock, writes map[*ssa.BasicBlock]bool, avoid map[[2]*ssa.BasicBlock]bool) bool {
	seen := map[*ssa.BasicBlock]bool{}
	st := []*ssa.BasicBlock{start}
	for len(st) > 0 {
		b := st[len(st)-1]
		st = st[:len(st)-1]
		if seen[b] || writes[b] {
			continue
		}
		seen[b] = true
		if len(b.Succs) == 0 {
			if _, isRet := b.Instrs[len(b.Instrs)-1].(*ssa.Return); isRet {
				return true
			}
			continue
		}
		if b != origin && b.Dominates(origin) {
			return true // back at a loop header enclosing the test: next pixel
		}
		for _, s := range b.Succs {
			if !avoid[[2]*ssa.BasicBlock{b, s}] {
				st = append(st, s)
			}
		}
	}
	return false
}
