package main

// C19: Encode depends on the picture, not on how the pixels are stored.
//
// I1 index form: every element read (index or slice bound) from the pixel buffer of an input image
//    - a value of type *image.NRGBA / *image.RGBA / *image.YCbCr / *image.Gray obtained by a type
//    assertion from an image.Image parameter, followed through phis and calls - is addressed by an
//    expression whose derivation contains the image's Stride (YStride/CStride) AND its Rect.Min /
//    Bounds (the sub-image origin). An address that ignores either reads other pixels for a
//    sub-image view or a padded buffer.
// I2 read-only input: nothing is stored into memory reached from an input image (its pixel buffers,
//    through any callee).

import (
	"fmt"
	"go/token"
	"go/types"
	"sort"
	"strings"

	"golang.org/x/tools/go/ssa"
)

func init() { register("C19", runC19) }

func isStdImagePtr(t types.Type) (string, bool) {
	pt, ok := t.(*types.Pointer)
	if !ok {
		return "", false
	}
	n, ok := pt.Elem().(*types.Named)
	if !ok || n.Obj().Pkg() == nil || n.Obj().Pkg().Path() != "image" {
		return "", false
	}
	switch n.Obj().Name() {
	case "NRGBA", "RGBA", "YCbCr", "Gray", "NRGBA64", "RGBA64", "Gray16", "Alpha", "Paletted", "NYCbCrA":
		return n.Obj().Name(), true
	}
	return "", false
}

var pixFields = map[string]bool{"Pix": true, "Y": true, "Cb": true, "Cr": true, "A": true}
var strideFields = map[string]bool{"Stride": true, "YStride": true, "CStride": true, "AStride": true}

func runC19(c *Ctx) {
	c.Rule("I1 index form: every index or slice bound applied to the pixel buffer of an input image (a *image.NRGBA/RGBA/YCbCr/Gray obtained by type assertion from an image.Image parameter, followed through phis, calls and struct-free aliases) derives from the image's Stride and from its Rect.Min/Bounds origin")
	c.Rule("I2 read-only input: no store (element store, copy destination, append destination) targets memory reached from an input image, in any function the image is passed to")
	c.NotCovered("agreement of the fast paths with the generic At() path value by value; edge replication for macroblock padding; images stored in encoder state and read later")
	for _, cf := range c.configsFor() {
		p := c.load(cf[0], cf[1])
		if p == nil {
			continue
		}
		c19Analyse(c, p)
	}
}

func c19Analyse(c *Ctx, p *Program) {
	funcs := p.SrcFuncs()
	inScope := func(fn *ssa.Function) bool {
		if fn.Pkg == nil {
			return false
		}
		pp := fn.Pkg.Pkg.Path()
		return !strings.Contains(pp, "/cmd/") && !strings.HasSuffix(pp, "/animation") && !strings.HasSuffix(pp, "/mux")
	}
	img := map[ssa.Value]bool{}     // input image objects (interfaces and asserted pointers)
	pix := map[ssa.Value]bool{}     // pixel slices of input images
	cellImg := map[ssa.Value]bool{} // captured variables holding an input image
	cellPix := map[ssa.Value]bool{} // captured variables holding an input pixel slice
	encRoots := map[*ssa.Function]bool{}
	// sources: image.Image parameters of functions reachable from the encode entry points
	enc := p.Fn("", "Encode")
	if enc == nil {
		c.AnchorMissing("I1-index-form", "webp.Encode")
		return
	}
	reach := p.Reachable(enc)
	for fn := range reach {
		if inScope(fn) {
			encRoots[fn] = true
		}
	}
	for _, prm := range enc.Params {
		if types.IsInterface(prm.Type()) && prm.Type().String() == "image.Image" {
			img[prm] = true
		}
	}
	for changed := true; changed; {
		changed = false
		mark := func(m map[ssa.Value]bool, v ssa.Value) {
			if !m[v] {
				m[v] = true
				changed = true
			}
		}
		for _, fn := range funcs {
			if !encRoots[fn] {
				continue
			}
			for _, b := range fn.Blocks {
				for _, in := range b.Instrs {
					switch x := in.(type) {
					case *ssa.TypeAssert:
						if img[x.X] {
							mark(img, x)
						}
					case *ssa.Extract:
						if img[x.Tuple] && x.Index == 0 {
							mark(img, x)
						}
					case *ssa.ChangeInterface:
						if img[x.X] {
							mark(img, x)
						}
					case *ssa.MakeInterface:
						if img[x.X] {
							mark(img, x)
						}
					case *ssa.Phi:
						for _, e := range x.Edges {
							if img[e] {
								mark(img, x)
							}
							if pix[e] {
								mark(pix, x)
							}
						}
					case *ssa.UnOp:
						if x.Op == token.MUL {
							if fa, ok := x.X.(*ssa.FieldAddr); ok && img[fa.X] && pixFields[fieldName(fa.X.Type(), fa.Field)] {
								if _, isSl := x.Type().Underlying().(*types.Slice); isSl {
									mark(pix, x)
								}
							}
							if fv, ok := x.X.(*ssa.FreeVar); ok {
								if cellImg[fv] {
									mark(img, x)
								}
								if cellPix[fv] {
									mark(pix, x)
								}
							}
							if al, ok := x.X.(*ssa.Alloc); ok {
								for _, u := range *al.Referrers() {
									if st, ok := u.(*ssa.Store); ok && st.Addr == ssa.Value(al) {
										if img[st.Val] {
											mark(img, x)
										}
										if pix[st.Val] {
											mark(pix, x)
										}
									}
								}
							}
						}
					case *ssa.Slice:
						if pix[x.X] {
							mark(pix, x)
						}
					case *ssa.Store:
						// img2.Pix = <input pixels>: img2 now shares the caller's buffer
						if pix[x.Val] {
							if fa, ok := x.Addr.(*ssa.FieldAddr); ok && pixFields[fieldName(fa.X.Type(), fa.Field)] {
								mark(img, fa.X)
							}
						}
					case *ssa.MakeClosure:
						cl := x.Fn.(*ssa.Function)
						encRoots[cl] = true
						for i, bnd := range x.Bindings {
							if i >= len(cl.FreeVars) {
								continue
							}
							if img[bnd] {
								mark(img, cl.FreeVars[i])
							}
							if pix[bnd] {
								mark(pix, cl.FreeVars[i])
							}
							if al, ok := bnd.(*ssa.Alloc); ok {
								for _, u := range *al.Referrers() {
									if st, ok := u.(*ssa.Store); ok && st.Addr == ssa.Value(al) {
										if img[st.Val] {
											mark(cellImg, cl.FreeVars[i])
										}
										if pix[st.Val] {
											mark(cellPix, cl.FreeVars[i])
										}
									}
								}
							}
						}
					case *ssa.Call:
						// a call returning its image argument unchanged (SubImage etc. are not followed)
						cal := x.Call.StaticCallee()
						for i, a := range x.Call.Args {
							if cal == nil || cal.Blocks == nil || !p.IsModFunc(cal) || i >= len(cal.Params) {
								continue
							}
							if img[a] {
								mark(img, cal.Params[i])
							}
							if pix[a] {
								mark(pix, cal.Params[i])
							}
						}
						if cal != nil && cal.Blocks != nil && p.IsModFunc(cal) {
							// results that are the image parameter itself
							for _, cb := range cal.Blocks {
								if ret, ok := cb.Instrs[len(cb.Instrs)-1].(*ssa.Return); ok {
									for ri, r := range ret.Results {
										if img[r] && ri == 0 && len(ret.Results) == 1 {
											mark(img, x)
										}
									}
								}
							}
						}
					}
				}
			}
		}
	}
	// I1
	n1, n2 := 0, 0
	seenKey := map[string]int{}
	for _, fn := range funcs {
		if !encRoots[fn] {
			continue
		}
		for _, b := range fn.Blocks {
			for _, in := range b.Instrs {
				switch x := in.(type) {
				case *ssa.IndexAddr:
					if !pix[x.X] {
						continue
					}
					n1++
					fields := indexFields(p, fn, x.Index, 0, map[ssa.Value]bool{})
					addBaseFields(p, fn, x.X, fields, 0)
					c19Report(c, p, fn, x.Pos(), "index", fields, seenKey)
				case *ssa.Slice:
					if !pix[x.X] || (x.Low == nil && x.High == nil) {
						continue
					}
					var fields map[string]bool
					if x.Low != nil {
						fields = indexFields(p, fn, x.Low, 0, map[ssa.Value]bool{})
					} else {
						fields = indexFields(p, fn, x.High, 0, map[ssa.Value]bool{})
					}
					n1++
					addBaseFields(p, fn, x.X, fields, 0)
					c19Report(c, p, fn, x.Pos(), "slice", fields, seenKey)
				}
			}
		}
	}
	c.Floor("I1-index-form", n1, 20)
	// I2: stores into input memory
	bad := 0
	for _, fn := range funcs {
		if !encRoots[fn] {
			continue
		}
		for _, b := range fn.Blocks {
			for _, in := range b.Instrs {
				switch x := in.(type) {
				case *ssa.Store:
					if ia, ok := x.Addr.(*ssa.IndexAddr); ok && pix[ia.X] {
						bad++
						c.Fail("I2-read-only", fmt.Sprintf("%s:store#%d", fn.Name(), bad), p.Pos(x.Pos()), fn.Name()+" writes into the pixel buffer of the caller's image: Encode modifies its input")
					}
					if fa, ok := x.Addr.(*ssa.FieldAddr); ok && img[fa.X] {
						bad++
						c.Fail("I2-read-only", fmt.Sprintf("%s:fieldstore#%d", fn.Name(), bad), p.Pos(x.Pos()), fn.Name()+" assigns a field of the caller's image: Encode modifies its input")
					}
				case *ssa.Call:
					if cal := x.Call.StaticCallee(); cal != nil && !p.IsModFunc(cal) && cal.Blocks != nil {
						for i, a := range x.Call.Args {
							if (img[a] || pix[a]) && i < len(cal.Params) && writesThroughParam(cal, i, 0) {
								bad++
								c.Fail("I2-read-only", fmt.Sprintf("%s:%s#%d", fn.Name(), cal.Name(), bad), p.Pos(x.Pos()), fmt.Sprintf("%s calls %s on the caller's image, which writes into it: Encode modifies its input", fn.Name(), FnName(cal)))
							}
						}
					}
					if bi, ok := x.Call.Value.(*ssa.Builtin); ok && (bi.Name() == "copy" || bi.Name() == "clear") && len(x.Call.Args) > 0 && pix[x.Call.Args[0]] {
						bad++
						c.Fail("I2-read-only", fmt.Sprintf("%s:%s#%d", fn.Name(), bi.Name(), bad), p.Pos(x.Pos()), fn.Name()+" copies into the pixel buffer of the caller's image: Encode modifies its input")
					}
					n2++
				}
			}
		}
	}
	if bad == 0 {
		c.Pass("I2-read-only", "input-images", "", fmt.Sprintf("no store, copy or clear targets memory of an input image in the %d functions reachable from Encode that receive it", len(encRoots)))
	}
	var names []string
	for v := range img {
		if prm, ok := v.(*ssa.Parameter); ok {
			names = append(names, prm.Parent().Name())
		}
	}
	sort.Strings(names)
	c.Note("functions receiving the input image: " + strings.Join(uniqStrings(names), ", "))
}

func uniqStrings(s []string) []string {
	var out []string
	for i, x := range s {
		if i == 0 || s[i-1] != x {
			out = append(out, x)
		}
	}
	return out
}

func c19Report(c *Ctx, p *Program, fn *ssa.Function, pos token.Pos, kind string, fields map[string]bool, seen map[string]int) {
	seen[fn.Name()]++
	key := fmt.Sprintf("%s:%s#%d", fn.Name(), kind, seen[fn.Name()])
	c.Func(FnName(fn))
	hasStride := false
	for f := range fields {
		if strideFields[f] {
			hasStride = true
		}
	}
	hasOrigin := fields["Rect"] || fields["Bounds"] || fields["Min"]
	var fl []string
	for f := range fields {
		fl = append(fl, f)
	}
	sort.Strings(fl)
	switch {
	case hasStride && hasOrigin:
		c.Pass("I1-index-form", key, p.Pos(pos), "address derives from the image's stride and origin")
	case !hasStride:
		c.Fail("I1-index-form", key, p.Pos(pos), fmt.Sprintf("%s reads the input image's pixel buffer at an address that does not depend on the image's Stride (derivation uses only: %s): for a sub-image view or a buffer with row padding it reads other pixels than the picture's", fn.Name(), strings.Join(fl, ", ")))
	default:
		c.Fail("I1-index-form", key, p.Pos(pos), fmt.Sprintf("%s reads the input image's pixel buffer at an address that does not depend on the image's origin (Rect.Min / Bounds; derivation uses only: %s): for a sub-image view with non-zero origin it reads other pixels than the picture's", fn.Name(), strings.Join(fl, ", ")))
	}
}

// indexFields: names of the struct fields (of any object) and the Bounds calls in the backward
// slice of an index expression; parameters are followed to the arguments of the static callers.
func indexFields(p *Program, fn *ssa.Function, v ssa.Value, depth int, seen map[ssa.Value]bool) map[string]bool {
	out := map[string]bool{}
	var rec func(fn *ssa.Function, v ssa.Value, depth int)
	rec = func(fn *ssa.Function, v ssa.Value, depth int) {
		if seen[v] || depth > 60 {
			return
		}
		seen[v] = true
		switch x := v.(type) {
		case *ssa.BinOp:
			rec(fn, x.X, depth+1)
			rec(fn, x.Y, depth+1)
		case *ssa.UnOp:
			if x.Op == token.MUL {
				switch a := x.X.(type) {
				case *ssa.FieldAddr:
					out[fieldName(a.X.Type(), a.Field)] = true
					rec(fn, a.X, depth+1)
				case *ssa.Alloc:
					for _, u := range *a.Referrers() {
						if st, ok := u.(*ssa.Store); ok && st.Addr == ssa.Value(a) {
							rec(fn, st.Val, depth+1)
						}
					}
					// a local struct (e.g. bounds := img.Bounds()): fields read from it
				case *ssa.IndexAddr:
					rec(fn, a.Index, depth+1)
				case *ssa.FreeVar:
					rec(fn, a, depth+1)
				}
			} else {
				rec(fn, x.X, depth+1)
			}
		case *ssa.FieldAddr:
			out[fieldName(x.X.Type(), x.Field)] = true
			rec(fn, x.X, depth+1)
		case *ssa.Field:
			out[fieldName(x.X.Type(), x.Field)] = true
			rec(fn, x.X, depth+1)
		case *ssa.Phi:
			for _, e := range x.Edges {
				rec(fn, e, depth+1)
			}
		case *ssa.Convert:
			rec(fn, x.X, depth+1)
		case *ssa.ChangeType:
			rec(fn, x.X, depth+1)
		case *ssa.Extract:
			rec(fn, x.Tuple, depth+1)
		case *ssa.Call:
			if x.Call.IsInvoke() && x.Call.Method.Name() == "Bounds" {
				out["Bounds"] = true
			}
			if cal := x.Call.StaticCallee(); cal != nil && cal.Name() == "Bounds" {
				out["Bounds"] = true
			}
			for _, a := range x.Call.Args {
				rec(fn, a, depth+1)
			}
		case *ssa.Parameter:
			// follow to the callers' arguments
			if fn == nil {
				return
			}
			idx := -1
			for i, prm := range fn.Params {
				if prm == x {
					idx = i
				}
			}
			if idx < 0 {
				return
			}
			if n := p.CallGraph().Nodes[fn]; n != nil {
				for _, e := range n.In {
					if e.Site == nil {
						continue
					}
					args := e.Site.Common().Args
					if idx < len(args) {
						rec(e.Caller.Func, args[idx], depth+1)
					}
				}
			}
		case *ssa.FreeVar:
			// closure variable: follow the binding in the parent
			if fn != nil && fn.Parent() != nil {
				for i, fv := range fn.FreeVars {
					if fv != x {
						continue
					}
					for _, pb := range fn.Parent().Blocks {
						for _, in := range pb.Instrs {
							if mc, ok := in.(*ssa.MakeClosure); ok && mc.Fn == ssa.Value(fn) && i < len(mc.Bindings) {
								rec(fn.Parent(), mc.Bindings[i], depth+1)
							}
						}
					}
				}
			}
		case *ssa.Alloc:
			for _, u := range *x.Referrers() {
				if st, ok := u.(*ssa.Store); ok && st.Addr == ssa.Value(x) {
					rec(fn, st.Val, depth+1)
				}
			}
		}
	}
	rec(fn, v, depth)
	return out
}

// writesThroughParam: the (library) function stores into memory reached from its parameter idx.
func writesThroughParam(fn *ssa.Function, idx, depth int) bool {
	if fn.Blocks == nil || idx >= len(fn.Params) || depth > 2 {
		return false
	}
	der := map[ssa.Value]bool{fn.Params[idx]: true}
	for changed := true; changed; {
		changed = false
		for _, b := range fn.Blocks {
			for _, in := range b.Instrs {
				v, ok := in.(ssa.Value)
				if !ok || der[v] {
					continue
				}
				hit := false
				switch x := in.(type) {
				case *ssa.FieldAddr:
					hit = der[x.X]
				case *ssa.IndexAddr:
					hit = der[x.X]
				case *ssa.UnOp:
					hit = x.Op == token.MUL && der[x.X] && pointerLike(x.Type())
				case *ssa.Slice:
					hit = der[x.X]
				case *ssa.Phi:
					for _, e := range x.Edges {
						if der[e] {
							hit = true
						}
					}
				}
				if hit {
					der[v] = true
					changed = true
				}
			}
		}
	}
	for _, b := range fn.Blocks {
		for _, in := range b.Instrs {
			switch x := in.(type) {
			case *ssa.Store:
				if der[x.Addr] {
					return true
				}
			case *ssa.Call:
				if cal := x.Call.StaticCallee(); cal != nil {
					for i, a := range x.Call.Args {
						if der[a] && writesThroughParam(cal, i, depth+1) {
							return true
						}
					}
				}
				if bi, ok := x.Call.Value.(*ssa.Builtin); ok && bi.Name() == "copy" && der[x.Call.Args[0]] {
					return true
				}
			}
		}
	}
	return false
}

// addBaseFields: an address into a sub-slice (row := pix[off:...]; row[i]) also depends on what the
// sub-slice's own lower bound depends on.
func addBaseFields(p *Program, fn *ssa.Function, base ssa.Value, fields map[string]bool, depth int) {
	if depth > 8 {
		return
	}
	switch x := base.(type) {
	case *ssa.Slice:
		if x.Low != nil {
			for f := range indexFields(p, fn, x.Low, 0, map[ssa.Value]bool{}) {
				fields[f] = true
			}
		}
		addBaseFields(p, fn, x.X, fields, depth+1)
	case *ssa.Phi:
		for _, e := range x.Edges {
			if e != base {
				addBaseFields(p, fn, e, fields, depth+1)
			}
		}
	case *ssa.Parameter:
		// a row passed to a helper: follow to the callers
		idx := -1
		for i, prm := range fn.Params {
			if prm == x {
				idx = i
			}
		}
		if idx < 0 {
			return
		}
		if n := p.CallGraph().Nodes[fn]; n != nil {
			for _, e := range n.In {
				if e.Site == nil {
					continue
				}
				args := e.Site.Common().Args
				if idx < len(args) {
					addBaseFields(p, e.Caller.Func, args[idx], fields, depth+1)
				}
			}
		}
	}
}
