package main

// C19: Encode depends on the picture, not on how the pixels are stored.
//
// I1 index form: every element read (index or slice bound) from the pixel buffer of an input image
//    - a value of type *image.NRGBA / *image.RGBA / *image.YCbCr / *image.Gray obtained by a type
//    assertion from an image.Image parameter, followed through phis and calls - is addressed by an
//    expression whose derivation contains the image's Stride (YStride/CStride) AND its Rect.Min /
//    Bounds (the sub-image origin). An address that ignores either reads other pixels for a
//    sub-image view or a padded buffer.
// I2 read-only input: nothing is stored into memory reached from an input image (its pixel buffers,
//    through any callee).

import (
	"fmt"
	"go/token"
	"go/types"
	"sort"
	"strings"

	"golang.org/x/tools/go/ssa"
)

func init() { register("C19", runC19) }

func isStdImagePtr(t types.Type) (string, bool) {
	pt, ok := t.(*types.Pointer)
	if !ok {
		return "", false
	}
	n, ok := pt.Elem().(*types.Named)
	if !ok || n.Obj().Pkg() == nil || n.Obj().Pkg().Path() != "image" {
		return "", false
	}
	switch n.Obj().Name() {
	case "NRGBA", "RGBA", "YCbCr", "Gray", "NRGBA64", "RGBA64", "Gray16", "Alpha", "Paletted", "NYCbCrA":
		return n.Obj().Name(), true
	}
	return "", false
}

var pixFields = map[string]bool{"Pix": true, "Y": true, "Cb": true, "Cr": true, "A": true}
var strideFields = map[string]bool{"Stride": true, "YStride": true, "CStride": true, "AStride": true}

func runC19(c *Ctx) {
	c.Rule("I1 index form: every index or slice bound applied to the pixel buffer of an input image (a *image.NRGBA/RGBA/YCbCr/Gray obtained by type assertion from an image.Image parameter, followed through phis, calls and struct-free aliases) derives from the image's Stride and from its Rect.Min/Bounds origin")
	c.Rule("I2 read-only input: no store (element store, copy destination, append destination) targets memory reached from an input image, in any function the image is passed to")
	c.NotCovered("agreement of the fast paths with the generic At() path value by value; edge replication for macroblock padding; images stored in encoder state and read later")
	for _, cf := range c.configsFor() {
		p := c.load(cf[0], cf[1])
		if p == nil {
			continue
		}
		c19Analyse(c, p)
		c19CoordSpaces(c, p)
	}
}

func c19Analyse(c *Ctx, p *Program) {
	funcs := p.SrcFuncs()
	inScope := func(fn *ssa.Function) bool {
		if fn.Pkg == nil {
			return false
		}
		pp := fn.Pkg.Pkg.Path()
		return !strings.Contains(pp, "/cmd/") && !strings.HasSuffix(pp, "/animation") && !strings.HasSuffix(pp, "/mux")
	}
	img := map[ssa.Value]bool{}     // input image objects (interfaces and asserted pointers)
	pix := map[ssa.Value]bool{}     // pixel slices of input images
	cellImg := map[ssa.Value]bool{} // captured variables holding an input image
	cellPix := map[ssa.Value]bool{} // captured variables holding an input pixel slice
	encRoots := map[*ssa.Function]bool{}
	// sources: image.Image parameters of functions reachable from the encode entry points
	enc := p.Fn("", "Encode")
	if enc == nil {
		c.AnchorMissing("I1-index-form", "webp.Encode")
		return
	}
	reach := p.Reachable(enc)
	for fn := range reach {
		if inScope(fn) {
			encRoots[fn] = true
		}
	}
	for _, prm := range enc.Params {
		if types.IsInterface(prm.Type()) && prm.Type().String() == "image.Image" {
			img[prm] = true
		}
	}
	for changed := true; changed; {
		changed = false
		mark := func(m map[ssa.Value]bool, v ssa.Value) {
			if !m[v] {
				m[v] = true
				changed = true
			}
		}
		for _, fn := range funcs {
			if !encRoots[fn] {
				continue
			}
			for _, b := range fn.Blocks {
				for _, in := range b.Instrs {
					switch x := in.(type) {
					case *ssa.TypeAssert:
						if img[x.X] {
							mark(img, x)
						}
					case *ssa.Extract:
						if img[x.Tuple] && x.Index == 0 {
							mark(img, x)
						}
					case *ssa.ChangeInterface:
						if img[x.X] {
							mark(img, x)
						}
					case *ssa.MakeInterface:
						if img[x.X] {
							mark(img, x)
						}
					case *ssa.Phi:
						for _, e := range x.Edges {
							if img[e] {
								mark(img, x)
							}
							if pix[e] {
								mark(pix, x)
							}
						}
					case *ssa.UnOp:
						if x.Op == token.MUL {
							if fa, ok := x.X.(*ssa.FieldAddr); ok && img[fa.X] && pixFields[fieldName(fa.X.Type(), fa.Field)] {
								if _, isSl := x.Type().Underlying().(*types.Slice); isSl {
									mark(pix, x)
								}
							}
							if fv, ok := x.X.(*ssa.FreeVar); ok {
								if cellImg[fv] {
									mark(img, x)
								}
								if cellPix[fv] {
									mark(pix, x)
								}
							}
							if al, ok := x.X.(*ssa.Alloc); ok {
								for _, u := range *al.Referrers() {
									if st, ok := u.(*ssa.Store); ok && st.Addr == ssa.Value(al) {
										if img[st.Val] {
											mark(img, x)
										}
										if pix[st.Val] {
											mark(pix, x)
										}
									}
								}
							}
						}
					case *ssa.Slice:
						if pix[x.X] {
							mark(pix, x)
						}
					case *ssa.Store:
						// img2.Pix = <input pixels>: img2 now shares the caller's buffer
						if pix[x.Val] {
							if fa, ok := x.Addr.(*ssa.FieldAddr); ok && pixFields[fieldName(fa.X.Type(), fa.Field)] {
								mark(img, fa.X)
							}
						}
					case *ssa.MakeClosure:
						cl := x.Fn.(*ssa.Function)
						encRoots[cl] = true
						for i, bnd := range x.Bindings {
							if i >= len(cl.FreeVars) {
								continue
							}
							if img[bnd] {
								mark(img, cl.FreeVars[i])
							}
							if pix[bnd] {
								mark(pix, cl.FreeVars[i])
							}
							if al, ok := bnd.(*ssa.Alloc); ok {
								for _, u := range *al.Referrers() {
									if st, ok := u.(*ssa.Store); ok && st.Addr == ssa.Value(al) {
										if img[st.Val] {
											mark(cellImg, cl.FreeVars[i])
										}
										if pix[st.Val] {
											mark(cellPix, cl.FreeVars[i])
										}
									}
								}
							}
						}
					case *ssa.Call:
						// a call returning its image argument unchanged (SubImage etc. are not followed)
						cal := x.Call.StaticCallee()
						for i, a := range x.Call.Args {
							if cal == nil || cal.Blocks == nil || !p.IsModFunc(cal) || i >= len(cal.Params) {
								continue
							}
							if img[a] {
								mark(img, cal.Params[i])
							}
							if pix[a] {
								mark(pix, cal.Params[i])
							}
						}
						if cal != nil && cal.Blocks != nil && p.IsModFunc(cal) {
							// results that are the image parameter itself
							for _, cb := range cal.Blocks {
								if ret, ok := cb.Instrs[len(cb.Instrs)-1].(*ssa.Return); ok {
									for ri, r := range ret.Results {
										if img[r] && ri == 0 && len(ret.Results) == 1 {
											mark(img, x)
										}
									}
								}
							}
						}
					}
				}
			}
		}
	}
	// I1
	n1, n2 := 0, 0
	seenKey := map[string]int{}
	for _, fn := range funcs {
		if !encRoots[fn] {
			continue
		}
		for _, b := range fn.Blocks {
			for _, in := range b.Instrs {
				switch x := in.(type) {
				case *ssa.IndexAddr:
					if !pix[x.X] {
						continue
					}
					n1++
					fields := indexFields(p, fn, x.Index, 0, map[ssa.Value]bool{})
					addBaseFields(p, fn, x.X, fields, 0)
					c19Report(c, p, fn, x.Pos(), "index", fields, seenKey)
				case *ssa.Slice:
					if !pix[x.X] || (x.Low == nil && x.High == nil) {
						continue
					}
					var fields map[string]bool
					if x.Low != nil {
						fields = indexFields(p, fn, x.Low, 0, map[ssa.Value]bool{})
					} else {
						fields = indexFields(p, fn, x.High, 0, map[ssa.Value]bool{})
					}
					n1++
					addBaseFields(p, fn, x.X, fields, 0)
					c19Report(c, p, fn, x.Pos(), "slice", fields, seenKey)
				}
			}
		}
	}
	c.Floor("I1-index-form", n1, 20)
	// I2: stores into input memory
	bad := 0
	for _, fn := range funcs {
		if !encRoots[fn] {
			continue
		}
		for _, b := range fn.Blocks {
			for _, in := range b.Instrs {
				switch x := in.(type) {
				case *ssa.Store:
					if ia, ok := x.Addr.(*ssa.IndexAddr); ok && pix[ia.X] {
						bad++
						c.Fail("I2-read-only", fmt.Sprintf("%s:store#%d", fn.Name(), bad), p.Pos(x.Pos()), fn.Name()+" writes into the pixel buffer of the caller's image: Encode modifies its input")
					}
					if fa, ok := x.Addr.(*ssa.FieldAddr); ok && img[fa.X] {
						bad++
						c.Fail("I2-read-only", fmt.Sprintf("%s:fieldstore#%d", fn.Name(), bad), p.Pos(x.Pos()), fn.Name()+" assigns a field of the caller's image: Encode modifies its input")
					}
				case *ssa.Call:
					if cal := x.Call.StaticCallee(); cal != nil && !p.IsModFunc(cal) && cal.Blocks != nil {
						for i, a := range x.Call.Args {
							if (img[a] || pix[a]) && i < len(cal.Params) && writesThroughParam(cal, i, 0) {
								bad++
								c.Fail("I2-read-only", fmt.Sprintf("%s:%s#%d", fn.Name(), cal.Name(), bad), p.Pos(x.Pos()), fmt.Sprintf("%s calls %s on the caller's image, which writes into it: Encode modifies its input", fn.Name(), FnName(cal)))
							}
						}
					}
					if bi, ok := x.Call.Value.(*ssa.Builtin); ok && (bi.Name() == "copy" || bi.Name() == "clear") && len(x.Call.Args) > 0 && pix[x.Call.Args[0]] {
						bad++
						c.Fail("I2-read-only", fmt.Sprintf("%s:%s#%d", fn.Name(), bi.Name(), bad), p.Pos(x.Pos()), fn.Name()+" copies into the pixel buffer of the caller's image: Encode modifies its input")
					}
					n2++
				}
			}
		}
	}
	if bad == 0 {
		c.Pass("I2-read-only", "input-images", "", fmt.Sprintf("no store, copy or clear targets memory of an input image in the %d functions reachable from Encode that receive it", len(encRoots)))
	}
	var names []string
	for v := range img {
		if prm, ok := v.(*ssa.Parameter); ok {
			names = append(names, prm.Parent().Name())
		}
	}
	sort.Strings(names)
	c.Note("functions receiving the input image: " + strings.Join(uniqStrings(names), ", "))
}

func uniqStrings(s []string) []string {
	var out []string
	for i, x := range s {
		if i == 0 || s[i-1] != x {
			out = append(out, x)
		}
	}
	return out
}

func c19Report(c *Ctx, p *Program, fn *ssa.Function, pos token.Pos, kind string, fields map[string]bool, seen map[string]int) {
	seen[fn.Name()]++
	key := fmt.Sprintf("%s:%s#%d", fn.Name(), kind, seen[fn.Name()])
	c.Func(FnName(fn))
	hasStride := false
	for f := range fields {
		if strideFields[f] {
			hasStride = true
		}
	}
	hasOrigin := fields["Rect"] || fields["Bounds"] || fields["Min"]
	var fl []string
	for f := range fields {
		fl = append(fl, f)
	}
	sort.Strings(fl)
	switch {
	case hasStride && hasOrigin:
		c.Pass("I1-index-form", key, p.Pos(pos), "address derives from the image's stride and origin")
	case !hasStride:
		c.Fail("I1-index-form", key, p.Pos(pos), fmt.Sprintf("%s reads the input image's pixel buffer at an address that does not depend on the image's Stride (derivation uses only: %s): for a sub-image view or a buffer with row padding it reads other pixels than the picture's", fn.Name(), strings.Join(fl, ", ")))
	default:
		c.Fail("I1-index-form", key, p.Pos(pos), fmt.Sprintf("%s reads the input image's pixel buffer at an address that does not depend on the image's origin (Rect.Min / Bounds; derivation uses only: %s): for a sub-image view with non-zero origin it reads other pixels than the picture's", fn.Name(), strings.Join(fl, ", ")))
	}
}

// indexFields: names of the struct fields (of any object) and the Bounds calls in the backward
// slice of an index expression; parameters are followed to the arguments of the static callers.
func indexFields(p *Program, fn *ssa.Function, v ssa.Value, depth int, seen map[ssa.Value]bool) map[string]bool {
	out := map[string]bool{}
	var rec func(fn *ssa.Function, v ssa.Value, depth int)
	rec = func(fn *ssa.Function, v ssa.Value, depth int) {
		if seen[v] || depth > 60 {
			return
		}
		seen[v] = true
		switch x := v.(type) {
		case *ssa.BinOp:
			rec(fn, x.X, depth+1)
			rec(fn, x.Y, depth+1)
		case *ssa.UnOp:
			if x.Op == token.MUL {
				switch a := x.X.(type) {
				case *ssa.FieldAddr:
					out[fieldName(a.X.Type(), a.Field)] = true
					rec(fn, a.X, depth+1)
				case *ssa.Alloc:
					for _, u := range *a.Referrers() {
						if st, ok := u.(*ssa.Store); ok && st.Addr == ssa.Value(a) {
							rec(fn, st.Val, depth+1)
						}
					}
					// a local struct (e.g. bounds := img.Bounds()): fields read from it
				case *ssa.IndexAddr:
					rec(fn, a.Index, depth+1)
				case *ssa.FreeVar:
					rec(fn, a, depth+1)
				}
			} else {
				rec(fn, x.X, depth+1)
			}
		case *ssa.FieldAddr:
			out[fieldName(x.X.Type(), x.Field)] = true
			rec(fn, x.X, depth+1)
		case *ssa.Field:
			out[fieldName(x.X.Type(), x.Field)] = true
			rec(fn, x.X, depth+1)
		case *ssa.Phi:
			for _, e := range x.Edges {
				rec(fn, e, depth+1)
			}
		case *ssa.Convert:
			rec(fn, x.X, depth+1)
		case *ssa.ChangeType:
			rec(fn, x.X, depth+1)
		case *ssa.Extract:
			rec(fn, x.Tuple, depth+1)
		case *ssa.Call:
			if x.Call.IsInvoke() && x.Call.Method.Name() == "Bounds" {
				out["Bounds"] = true
			}
			if cal := x.Call.StaticCallee(); cal != nil && cal.Name() == "Bounds" {
				out["Bounds"] = true
			}
			for _, a := range x.Call.Args {
				rec(fn, a, depth+1)
			}
		case *ssa.Parameter:
			// follow to the callers' arguments
			if fn == nil {
				return
			}
			idx := -1
			for i, prm := range fn.Params {
				if prm == x {
					idx = i
				}
			}
			if idx < 0 {
				return
			}
			if n := p.CallGraph().Nodes[fn]; n != nil {
				for _, e := range n.In {
					if e.Site == nil {
						continue
					}
					args := e.Site.Common().Args
					if idx < len(args) {
						rec(e.Caller.Func, args[idx], depth+1)
					}
				}
			}
		case *ssa.FreeVar:
			// closure variable: follow the binding in the parent
			if fn != nil && fn.Parent() != nil {
				for i, fv := range fn.FreeVars {
					if fv != x {
						continue
					}
					for _, pb := range fn.Parent().Blocks {
						for _, in := range pb.Instrs {
							if mc, ok := in.(*ssa.MakeClosure); ok && mc.Fn == ssa.Value(fn) && i < len(mc.Bindings) {
								rec(fn.Parent(), mc.Bindings[i], depth+1)
							}
						}
					}
				}
			}
		case *ssa.Alloc:
			for _, u := range *x.Referrers() {
				if st, ok := u.(*ssa.Store); ok && st.Addr == ssa.Value(x) {
					rec(fn, st.Val, depth+1)
				}
			}
		}
	}
	rec(fn, v, depth)
	return out
}

// writesThroughParam: the (library) function stores into memory reached from its parameter idx.
func writesThroughParam(fn *ssa.Function, idx, depth int) bool {
	if fn.Blocks == nil || idx >= len(fn.Params) || depth > 2 {
		return false
	}
	der := map[ssa.Value]bool{fn.Params[idx]: true}
	for changed := true; changed; {
		changed = false
		for _, b := range fn.Blocks {
			for _, in := range b.Instrs {
				v, ok := in.(ssa.Value)
				if !ok || der[v] {
					continue
				}
				hit := false
				switch x := in.(type) {
				case *ssa.FieldAddr:
					hit = der[x.X]
				case *ssa.IndexAddr:
					hit = der[x.X]
				case *ssa.UnOp:
					hit = x.Op == token.MUL && der[x.X] && pointerLike(x.Type())
				case *ssa.Slice:
					hit = der[x.X]
				case *ssa.Phi:
					for _, e := range x.Edges {
						if der[e] {
							hit = true
						}
					}
				}
				if hit {
					der[v] = true
					changed = true
				}
			}
		}
	}
	for _, b := range fn.Blocks {
		for _, in := range b.Instrs {
			switch x := in.(type) {
			case *ssa.Store:
				if der[x.Addr] {
					return true
				}
			case *ssa.Call:
				if cal := x.Call.StaticCallee(); cal != nil {
					for i, a := range x.Call.Args {
						if der[a] && writesThroughParam(cal, i, depth+1) {
							return true
						}
					}
				}
				if bi, ok := x.Call.Value.(*ssa.Builtin); ok && bi.Name() == "copy" && der[x.Call.Args[0]] {
					return true
				}
			}
		}
	}
	return false
}

// addBaseFields: an address into a sub-slice (row := pix[off:...]; row[i]) also depends on what the
// sub-slice's own lower bound depends on.
func addBaseFields(p *Program, fn *ssa.Function, base ssa.Value, fields map[string]bool, depth int) {
	if depth > 8 {
		return
	}
	switch x := base.(type) {
	case *ssa.Slice:
		if x.Low != nil {
			for f := range indexFields(p, fn, x.Low, 0, map[ssa.Value]bool{}) {
				fields[f] = true
			}
		}
		addBaseFields(p, fn, x.X, fields, depth+1)
	case *ssa.Phi:
		for _, e := range x.Edges {
			if e != base {
				addBaseFields(p, fn, e, fields, depth+1)
			}
		}
	case *ssa.Parameter:
		// a row passed to a helper: follow to the callers
		idx := -1
		for i, prm := range fn.Params {
			if prm == x {
				idx = i
			}
		}
		if idx < 0 {
			return
		}
		if n := p.CallGraph().Nodes[fn]; n != nil {
			for _, e := range n.In {
				if e.Site == nil {
					continue
				}
				args := e.Site.Common().Args
				if idx < len(args) {
					addBaseFields(p, e.Caller.Func, args[idx], fields, depth+1)
				}
			}
		}
	}
}

// I3 coordinate spaces: in the functions that read an input image, every integer is either an
// absolute image coordinate (derived from a Rectangle's Min/Max), a relative one (0-based: loop
// counters from 0, Dx()/Dy(), lengths, strides, differences of two absolute values) or of unknown
// kind (constants, anything else). Absolute + relative is absolute, absolute - absolute is relative.
// Comparing a definitely absolute value with a definitely relative one, or subtracting an absolute
// value from a relative one, mixes the two spaces: the code is right only for images whose bounds
// start at the origin. Parameters and closure variables take the kind their call sites / bindings give.
type cspace uint8

const (
	csAny cspace = iota
	csAbs
	csRel
)

func (a cspace) String() string { return [...]string{"unknown", "absolute", "relative"}[a] }

func csJoin(a, b cspace) cspace {
	if a == b {
		return a
	}
	return csAny
}

func c19CoordSpaces(c *Ctx, p *Program) {
	c.Rule("I3 coordinate spaces: in the encoder front end (root package and internal/lossy import code) no comparison relates a value that is definitely an absolute image coordinate (derived from Rectangle.Min/Max) to one that is definitely relative (0-based counters, Dx/Dy, differences of absolute values), and no absolute value is subtracted from a relative one: such code is correct only when the image's bounds start at the origin")
	isRectPoint := func(t types.Type) bool {
		if pt, ok := t.Underlying().(*types.Pointer); ok {
			t = pt.Elem()
		}
		n, ok := t.(*types.Named)
		return ok && n.Obj().Pkg() != nil && n.Obj().Pkg().Path() == "image" && (n.Obj().Name() == "Rectangle" || n.Obj().Name() == "Point")
	}
	var scope []*ssa.Function
	for _, fn := range p.SrcFuncs() {
		if fn.Pkg == nil || fn.Blocks == nil {
			continue
		}
		pos := p.Pos(fn.Pos())
		if strings.HasPrefix(pos, "encode.go") || strings.HasPrefix(pos, "internal/lossy/encode.go") {
			scope = append(scope, fn)
		}
	}
	tag := map[ssa.Value]cspace{}
	bound := map[ssa.Value]cspace{}
	boundSet := map[ssa.Value]bool{}
	get := func(v ssa.Value) cspace {
		switch v.(type) {
		case *ssa.Parameter, *ssa.FreeVar:
			if boundSet[v] {
				return bound[v]
			}
			return csAny
		}
		return tag[v]
	}
	// parameter / free-variable bindings from call sites and closures (joined)
	bind := func(v ssa.Value, t cspace) bool {
		if !boundSet[v] {
			boundSet[v] = true
			bound[v] = t
			return t != csAny
		}
		n := csJoin(bound[v], t)
		if n != bound[v] {
			bound[v] = n
			return true
		}
		return false
	}
	eval := func(v ssa.Value) cspace {
		switch x := v.(type) {
		case *ssa.Const:
			return csAny
		case *ssa.Parameter, *ssa.FreeVar:
			if boundSet[v] {
				return bound[v]
			}
			return csAny
		case *ssa.Field:
			if isRectPoint(x.X.Type()) {
				if bt, ok := x.Type().Underlying().(*types.Basic); ok && bt.Info()&types.IsInteger != 0 {
					return csAbs
				}
			}
		case *ssa.UnOp:
			if x.Op == token.MUL {
				if fa, ok := x.X.(*ssa.FieldAddr); ok {
					if isRectPoint(fa.X.Type()) {
						if bt, ok := x.Type().Underlying().(*types.Basic); ok && bt.Info()&types.IsInteger != 0 {
							return csAbs
						}
					}
					if fieldNameOf(fa.X.Type(), fa.Field) == "Stride" {
						return csRel
					}
				}
				if al, ok := x.X.(*ssa.Alloc); ok {
					// local cell: join of the stored values
					first := true
					r := csAny
					for _, u := range *al.Referrers() {
						if st, ok := u.(*ssa.Store); ok && st.Addr == ssa.Value(al) {
							if first {
								r, first = get(st.Val), false
							} else {
								r = csJoin(r, get(st.Val))
							}
						}
					}
					return r
				}
				if fv, ok := x.X.(*ssa.FreeVar); ok && boundSet[fv] {
					return bound[fv]
				}
			}
		case *ssa.Call:
			if cal := x.Call.StaticCallee(); cal != nil && cal.Signature.Recv() != nil && isRectPoint(cal.Signature.Recv().Type()) {
				switch cal.Name() {
				case "Dx", "Dy":
					return csRel
				}
			}
			if bi, ok := x.Call.Value.(*ssa.Builtin); ok && (bi.Name() == "len" || bi.Name() == "cap") {
				return csRel
			}
			if bi, ok := x.Call.Value.(*ssa.Builtin); ok && (bi.Name() == "min" || bi.Name() == "max") && len(x.Call.Args) > 0 {
				r := get(x.Call.Args[0])
				for _, a := range x.Call.Args[1:] {
					r = csJoin(r, get(a))
				}
				return r
			}
		case *ssa.Convert:
			return get(x.X)
		case *ssa.ChangeType:
			return get(x.X)
		case *ssa.Phi:
			// a counter that starts at a constant and is only incremented by constants counts from
			// the image's first row / column: relative
			{
				hasConst, counter := false, true
				for _, e := range x.Edges {
					if _, isC := e.(*ssa.Const); isC {
						hasConst = true
						continue
					}
					bo, ok := e.(*ssa.BinOp)
					if !ok || (bo.Op != token.ADD && bo.Op != token.SUB) || bo.X != ssa.Value(x) {
						counter = false
						continue
					}
					if _, isC := bo.Y.(*ssa.Const); !isC {
						counter = false
					}
				}
				if hasConst && counter && len(x.Edges) >= 2 {
					return csRel
				}
			}
			first := true
			r := csAny
			for _, e := range x.Edges {
				if e == ssa.Value(x) {
					continue
				}
				if _, isC := e.(*ssa.Const); isC {
					continue // a constant start value takes the kind of the other edges
				}
				if first {
					r, first = get(e), false
				} else {
					r = csJoin(r, get(e))
				}
			}
			return r
		case *ssa.BinOp:
			a, b := get(x.X), get(x.Y)
			switch x.Op {
			case token.ADD:
				switch {
				case a == csAbs && b != csAbs, b == csAbs && a != csAbs:
					return csAbs
				case a == csRel && b == csRel, a == csRel && b == csAny, a == csAny && b == csRel:
					return csRel
				}
			case token.SUB:
				switch {
				case a == csAbs && b == csAbs:
					return csRel
				case a == csAbs:
					return csAbs
				case a == csRel && b != csAbs:
					return csRel
				}
			case token.MUL, token.QUO, token.SHL, token.SHR:
				if a == csRel && b != csAbs {
					return csRel
				}
			}
		}
		return csAny
	}
	for round := 0; round < 12; round++ {
		changed := false
		for _, fn := range scope {
			for _, b := range fn.Blocks {
				for _, in := range b.Instrs {
					if v, ok := in.(ssa.Value); ok {
						if t := eval(v); t != tag[v] {
							tag[v] = t
							changed = true
						}
					}
					// bindings
					switch x := in.(type) {
					case *ssa.Call:
						args := x.Call.Args
						var callee *ssa.Function
						var binds []ssa.Value
						if cal := x.Call.StaticCallee(); cal != nil {
							callee = cal
						} else if mc, ok := x.Call.Value.(*ssa.MakeClosure); ok {
							callee = mc.Fn.(*ssa.Function)
							binds = mc.Bindings
						} else if ld, ok := x.Call.Value.(*ssa.UnOp); ok && ld.Op == token.MUL {
							// a closure kept in a local variable
							if al, ok := ld.X.(*ssa.Alloc); ok {
								for _, u := range *al.Referrers() {
									if st, ok := u.(*ssa.Store); ok && st.Addr == ssa.Value(al) {
										if mc, ok := st.Val.(*ssa.MakeClosure); ok {
											callee = mc.Fn.(*ssa.Function)
											binds = mc.Bindings
										}
									}
								}
							}
						}
						if callee != nil && callee.Blocks != nil {
							for i, a := range args {
								if i < len(callee.Params) {
									if bind(callee.Params[i], get(a)) {
										changed = true
									}
								}
							}
							_ = binds
						}
					case *ssa.MakeClosure:
						cf := x.Fn.(*ssa.Function)
						for i, bv := range x.Bindings {
							if i < len(cf.FreeVars) {
								// the binding is the address of the captured variable: its contents' kind
								t := csAny
								if al, ok := bv.(*ssa.Alloc); ok {
									first := true
									for _, u := range *al.Referrers() {
										if st, ok := u.(*ssa.Store); ok && st.Addr == ssa.Value(al) {
											if first {
												t, first = tag[st.Val], false
											} else {
												t = csJoin(t, tag[st.Val])
											}
										}
									}
								} else {
									t = tag[bv]
								}
								if bind(cf.FreeVars[i], t) {
									changed = true
								}
							}
						}
					}
				}
			}
		}
		if !changed {
			break
		}
	}
	n, cmpN := 0, 0
	for _, fn := range scope {
		k := 0
		for _, b := range fn.Blocks {
			for _, in := range b.Instrs {
				bo, ok := in.(*ssa.BinOp)
				if !ok {
					continue
				}
				a, bb := get(bo.X), get(bo.Y)
				switch bo.Op {
				case token.LSS, token.LEQ, token.GTR, token.GEQ, token.EQL, token.NEQ:
					if a != csAny && bb != csAny {
						cmpN++
					}
					if (a == csAbs && bb == csRel) || (a == csRel && bb == csAbs) {
						k++
						n++
						c.Func(FnName(fn))
						c.Fail("I3-coord-space", fmt.Sprintf("%s:cmp#%d", FnName(fn), k), p.Pos(bo.Pos()),
							fmt.Sprintf("%s compares a %s value with a %s one (%s): an index counted from the image's first row/column is tested against an absolute bound (or the reverse); for a sub-image view whose bounds do not start at the origin the test is wrong - rows are clamped or replicated at the wrong place, or pixels outside the bounds are read", fn.Name(), a, bb, p.ExprText(bo.Pos())))
					}
				case token.SUB:
					if a == csRel && bb == csAbs {
						k++
						n++
						c.Func(FnName(fn))
						c.Fail("I3-coord-space", fmt.Sprintf("%s:sub#%d", FnName(fn), k), p.Pos(bo.Pos()),
							fmt.Sprintf("%s subtracts an absolute coordinate from a relative index (%s): correct only for images whose bounds start at the origin", fn.Name(), p.ExprText(bo.Pos())))
					}
				}
			}
		}
	}
	if n == 0 {
		c.Pass("I3-coord-space", "front end", "", fmt.Sprintf("%d comparisons between values of known coordinate kind, none mixes absolute and relative", cmpN))
	}
	c.Floor("I3-coord-space", cmpN, 3)
}

func evalOrTag(tag map[ssa.Value]cspace, v ssa.Value) cspace {
	if _, isC := v.(*ssa.Const); isC {
		return csAny
	}
	return tag[v]
}
