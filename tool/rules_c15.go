package main

// C15: metadata is stored byte-exact and never affects the picture.
//
// W rules (shared with C14, on the S7 symbolic layout): ICCP/EXIF/XMP payloads are the caller's
//    blobs, whole; the VP8X flags announce exactly the blobs written.
// M1 non-interference: values loaded from EncoderOptions.ICC/EXIF/XMP flow only into the container
//    writers (and into length/presence tests) - never into a call or a configuration of the lossy
//    or lossless encoder.
// M2 sibling paths: the presence of metadata selects between two implementations of lossless
//    encoding (streaming vs buffered). Both must hand the same pixels and the same configuration to
//    the encoder: the canonical expressions of every pixel store, of the conditions that control
//    them, of the same-package calls and of the encoder configuration fields are equal.

import (
	"fmt"
	"go/token"
	"go/types"
	"sort"
	"strings"

	"golang.org/x/tools/go/ssa"
)

func init() { register("C15", runC15) }

func runC15(c *Ctx) {
	c.Rule("W-layout (S7), for webp.writeRIFF and mux.Muxer.Assemble (used by the animation encoder): in every input class the ICCP/EXIF/XMP chunk payloads are exactly the caller's blobs, the VP8X flags announce exactly the chunks written, sizes and padding are consistent (W1-W3 as for C14)")
	c.Rule("M1 non-interference: no value derived from EncoderOptions.ICC/EXIF/XMP reaches a function or a configuration struct of internal/lossy or internal/lossless")
	c.Rule("M2 sibling paths: the two lossless paths selected by the presence of metadata (the functions that call lossless.Encode and lossless.EncodeToWriter) have equal canonical expressions for every pixel store, for the conditions controlling them, for their same-package calls and for every field of the encoder configuration")
	c.Rule("M3 muxer bypass: the animation encoder gives ICC/EXIF/XMP to its muxer and only Muxer.Assemble writes them; every Write of an AnimEncoder method to the caller's writer either writes bytes assembled by the muxer or is reached only under a test of state that the metadata setters maintain")
	c.Rule("R1-R3 for the demuxer (the reader that serves GetChunk and the animation reader): every chunk walk advances by 8+size+pad, hands on payload slices of exactly the declared size, and only ends at the end of the data or with an error (never a successful return from inside the walk, which would hide trailing EXIF/XMP chunks)")
	c.NotCovered("that equal encoder inputs give equal bitstreams (C11/C12); which chunk GetChunk selects")
	max := 300000
	for _, cf := range c.configsFor()[:1] {
		p := c.load(cf[0], cf[1])
		if p == nil {
			continue
		}
		checkWriter(c, p, writerSpec{rel: "", name: "writeRIFF"}, max)
		if c.Tier == "thorough" {
			checkWriter(c, p, writerSpec{rel: "mux", name: "Muxer.Assemble", opaque: []string{"frameDimensions", "canvasSize"}, domain: muxFrameDomain, domainDoc: muxFrameDomainDoc}, max)
		} else {
			c.Note("quick tier: Muxer.validate is not followed; its guarantee 'at least one frame' is assumed (the thorough tier follows it)")
			checkWriter(c, p, writerSpec{rel: "mux", name: "Muxer.Assemble", opaque: []string{"validate", "frameDimensions", "canvasSize"}, pre: map[string]bool{"ge:1:len(m.frames)": true}, domain: muxFrameDomain, domainDoc: muxFrameDomainDoc}, max)
		}
		c15NonInterference(c, p)
		c15Siblings(c, p)
		c15Bypass(c, p)
		// reading back: the demuxer's chunk walks (R1 advance, R2 payload, R3 walk to the end)
		readerFile := func(fn *ssa.Function) bool {
			f := p.Pos(fn.Pos())
			return strings.HasPrefix(f, "mux/demux.go") || strings.HasPrefix(f, "mux/chunk.go")
		}
		checkReaders(c, p, "mux", readerFile, max)
	}
}

// ---- M1 ----

func c15NonInterference(c *Ctx, p *Program) {
	tainted := map[ssa.Value]bool{}
	funcs := p.SrcFuncs()
	isMeta := func(base types.Type, idx int) bool {
		if namedOf(base) != "EncoderOptions" {
			return false
		}
		switch fieldName(base, idx) {
		case "ICC", "EXIF", "XMP":
			return true
		}
		return false
	}
	sources := 0
	for changed := true; changed; {
		changed = false
		mark := func(v ssa.Value) {
			if !tainted[v] {
				tainted[v] = true
				changed = true
			}
		}
		for _, fn := range funcs {
			for _, b := range fn.Blocks {
				for _, in := range b.Instrs {
					switch x := in.(type) {
					case *ssa.UnOp:
						if x.Op == token.MUL {
							if fa, ok := x.X.(*ssa.FieldAddr); ok && isMeta(fa.X.Type(), fa.Field) {
								if !tainted[x] {
									sources++
								}
								mark(x)
							}
							if tainted[x.X] {
								mark(x)
							}
						}
					case *ssa.Field:
						if isMeta(x.X.Type(), x.Field) {
							mark(x)
						}
					case *ssa.Phi:
						for _, e := range x.Edges {
							if tainted[e] {
								mark(x)
							}
						}
					case *ssa.Slice:
						if tainted[x.X] {
							mark(x)
						}
					case *ssa.IndexAddr:
						if tainted[x.X] {
							mark(x)
						}
					case *ssa.BinOp:
						if tainted[x.X] || tainted[x.Y] {
							switch x.Op {
							case token.EQL, token.NEQ, token.LSS, token.LEQ, token.GTR, token.GEQ:
							default:
								mark(x)
							}
						}
					case *ssa.Convert:
						if tainted[x.X] {
							mark(x)
						}
					case *ssa.Extract:
						if tainted[x.Tuple] {
							mark(x)
						}
					case *ssa.ChangeType:
						if tainted[x.X] {
							mark(x)
						}
					case *ssa.MakeInterface:
						if tainted[x.X] {
							mark(x)
						}
					case *ssa.Store:
						if tainted[x.Val] {
							if al, ok := x.Addr.(*ssa.Alloc); ok {
								mark(al)
							}
							// written into an element: the sequence now holds metadata-derived data
							if ia, ok := x.Addr.(*ssa.IndexAddr); ok {
								mark(ia.X)
								if ld, ok := ia.X.(*ssa.UnOp); ok {
									mark(ld.X)
								}
							}
						}
					case *ssa.Call:
						cal := x.Call.StaticCallee()
						for i, a := range x.Call.Args {
							if !tainted[a] {
								continue
							}
							if cal != nil && cal.Blocks != nil && p.IsModFunc(cal) && i < len(cal.Params) {
								mark(cal.Params[i])
							}
						}
						// a module function returning a metadata-derived value
						if cal != nil && cal.Blocks != nil && p.IsModFunc(cal) {
							for _, cb := range cal.Blocks {
								if ret, ok := cb.Instrs[len(cb.Instrs)-1].(*ssa.Return); ok {
									for _, r := range ret.Results {
										if tainted[r] {
											mark(x)
										}
									}
								}
							}
						}
						// the length of a blob is metadata too (a size that reaches the codec changes the picture)
						if bi, ok := x.Call.Value.(*ssa.Builtin); ok && (bi.Name() == "append" || bi.Name() == "len" || bi.Name() == "cap") {
							for _, a := range x.Call.Args {
								if tainted[a] {
									mark(x)
								}
							}
						}
					}
				}
			}
		}
	}
	c.Check(sources >= 3, "floor", "M1-noninterference:sources", "", fmt.Sprintf("%d loads of EncoderOptions.ICC/EXIF/XMP followed", sources), fmt.Sprintf("only %d loads of EncoderOptions.ICC/EXIF/XMP found (expected >= 3)", sources))
	n := 0
	bad := 0
	for _, fn := range funcs {
		for _, b := range fn.Blocks {
			for _, in := range b.Instrs {
				switch x := in.(type) {
				case *ssa.Call:
					cal := x.Call.StaticCallee()
					if cal == nil || cal.Pkg == nil {
						continue
					}
					pp := cal.Pkg.Pkg.Path()
					if !(strings.HasSuffix(pp, "/internal/lossy") || strings.HasSuffix(pp, "/internal/lossless") || strings.HasSuffix(pp, "/sharpyuv") || strings.HasSuffix(pp, "/internal/dsp")) {
						continue
					}
					if fn.Pkg != nil && fn.Pkg.Pkg.Path() == pp {
						continue
					}
					n++
					for i, a := range x.Call.Args {
						if tainted[a] {
							bad++
							c.Fail("M1-noninterference", fmt.Sprintf("%s->%s:arg%d", fn.Name(), cal.Name(), i), p.Pos(x.Pos()), fmt.Sprintf("a value derived from EncoderOptions.ICC/EXIF/XMP is passed to %s: metadata can change the coded picture", FnName(cal)))
						}
					}
				case *ssa.Store:
					if !tainted[x.Val] {
						continue
					}
					if fa, ok := x.Addr.(*ssa.FieldAddr); ok {
						if st := structOf(fa.X.Type()); st != nil {
							if nm, ok := fa.X.Type().Underlying().(*types.Pointer).Elem().(*types.Named); ok && nm.Obj().Pkg() != nil {
								pp := nm.Obj().Pkg().Path()
								if strings.HasSuffix(pp, "/internal/lossy") || strings.HasSuffix(pp, "/internal/lossless") {
									bad++
									c.Fail("M1-noninterference", fmt.Sprintf("%s:store(%s.%s)", fn.Name(), nm.Obj().Name(), fieldName(fa.X.Type(), fa.Field)), p.Pos(x.Pos()), "a value derived from EncoderOptions.ICC/EXIF/XMP is stored into an encoder configuration: metadata can change the coded picture")
								}
							}
						}
					}
				}
			}
		}
	}
	if bad == 0 {
		c.Pass("M1-noninterference", "EncoderOptions.ICC/EXIF/XMP", "", fmt.Sprintf("none of the %d calls from the API packages into the codec packages receives a value derived from the metadata blobs, and no codec configuration field does", n))
	}
	c.Floor("M1-noninterference", n, 5)
}

// ---- M2 ----

type canon struct {
	fn    *ssa.Function
	memo  map[ssa.Value]string
	stack map[ssa.Value]bool
}

func isCommutative(op token.Token) bool {
	switch op {
	case token.ADD, token.MUL, token.AND, token.OR, token.XOR, token.EQL, token.NEQ:
		return true
	}
	return false
}

func (k *canon) expr(v ssa.Value, depth int) string {
	if s, ok := k.memo[v]; ok {
		return s
	}
	if depth > 14 {
		return "…"
	}
	if k.stack[v] {
		return "φ#"
	}
	k.stack[v] = true
	defer delete(k.stack, v)
	var r string
	switch x := v.(type) {
	case *ssa.Const:
		if x.Value == nil {
			r = "nil"
		} else {
			r = x.Value.ExactString()
		}
	case *ssa.Parameter:
		for i, p := range k.fn.Params {
			if p == x {
				// parameters are matched by type and name (the two siblings have different lists)
				r = fmt.Sprintf("param(%s %s)", x.Name(), x.Type().String())
				_ = i
			}
		}
	case *ssa.BinOp:
		a, b := k.expr(x.X, depth+1), k.expr(x.Y, depth+1)
		if isCommutative(x.Op) && b < a {
			a, b = b, a
		}
		r = "(" + a + x.Op.String() + b + ")"
	case *ssa.UnOp:
		r = x.Op.String() + k.expr(x.X, depth+1)
	case *ssa.FieldAddr:
		r = k.expr(x.X, depth+1) + "." + fieldName(x.X.Type(), x.Field)
	case *ssa.Field:
		r = k.expr(x.X, depth+1) + "." + fieldName(x.X.Type(), x.Field)
	case *ssa.IndexAddr:
		r = k.expr(x.X, depth+1) + "[" + k.expr(x.Index, depth+1) + "]"
	case *ssa.Index:
		r = k.expr(x.X, depth+1) + "[" + k.expr(x.Index, depth+1) + "]"
	case *ssa.Convert:
		r = x.Type().String() + "(" + k.expr(x.X, depth+1) + ")"
	case *ssa.ChangeType:
		r = k.expr(x.X, depth+1)
	case *ssa.ChangeInterface:
		r = k.expr(x.X, depth+1)
	case *ssa.MakeInterface:
		r = k.expr(x.X, depth+1)
	case *ssa.TypeAssert:
		r = "assert[" + x.AssertedType.String() + "](" + k.expr(x.X, depth+1) + ")"
	case *ssa.Extract:
		r = fmt.Sprintf("#%d(%s)", x.Index, k.expr(x.Tuple, depth+1))
	case *ssa.Slice:
		lo, hi := "", ""
		if x.Low != nil {
			lo = k.expr(x.Low, depth+1)
		}
		if x.High != nil {
			hi = k.expr(x.High, depth+1)
		}
		r = k.expr(x.X, depth+1) + "[" + lo + ":" + hi + "]"
	case *ssa.Phi:
		var es []string
		seen := map[string]bool{}
		for _, e := range x.Edges {
			s := k.expr(e, depth+1)
			if !seen[s] {
				seen[s] = true
				es = append(es, s)
			}
		}
		sort.Strings(es)
		r = "φ{" + strings.Join(es, "|") + "}"
	case *ssa.Call:
		name := "?"
		if cal := x.Call.StaticCallee(); cal != nil {
			name = FnName(cal)
		} else if bi, ok := x.Call.Value.(*ssa.Builtin); ok {
			name = bi.Name()
		} else if x.Call.IsInvoke() {
			name = "invoke." + x.Call.Method.Name() + "(" + k.expr(x.Call.Value, depth+1) + ")"
		}
		var as []string
		for _, a := range x.Call.Args {
			as = append(as, k.expr(a, depth+1))
		}
		r = name + "(" + strings.Join(as, ",") + ")"
	case *ssa.Alloc:
		r = "local(" + x.Type().String() + ")"
	case *ssa.Global:
		r = "global:" + x.Name()
	case *ssa.MakeSlice:
		r = "make(" + x.Type().String() + "," + k.expr(x.Len, depth+1) + ")"
	case *ssa.Function:
		r = "func:" + x.Name()
	default:
		r = fmt.Sprintf("%T", v)
	}
	if !strings.Contains(r, "φ#") {
		k.memo[v] = r
	}
	return r
}

// pixelItems: canonical description of how fn fills a []uint32 pixel buffer and configures the encoder.
func pixelItems(fn *ssa.Function, encPkgSuffix string) (items map[string]bool, encCall *ssa.Call) {
	items = map[string]bool{}
	k := &canon{fn: fn, memo: map[ssa.Value]string{}, stack: map[ssa.Value]bool{}}
	var interesting []ssa.Instruction
	for _, b := range fn.Blocks {
		for _, in := range b.Instrs {
			switch x := in.(type) {
			case *ssa.Store:
				if ia, ok := x.Addr.(*ssa.IndexAddr); ok {
					if sl, ok := ia.X.Type().Underlying().(*types.Slice); ok {
						if bt, ok := sl.Elem().Underlying().(*types.Basic); ok && bt.Kind() == types.Uint32 {
							items["pixel-store: ["+k.expr(ia.Index, 0)+"] = "+k.expr(x.Val, 0)] = true
							interesting = append(interesting, in)
						}
					}
				}
				if fa, ok := x.Addr.(*ssa.FieldAddr); ok {
					if nm, ok := fa.X.Type().Underlying().(*types.Pointer).Elem().(*types.Named); ok && nm.Obj().Pkg() != nil && strings.HasSuffix(nm.Obj().Pkg().Path(), encPkgSuffix) {
						items["config: "+nm.Obj().Name()+"."+fieldName(fa.X.Type(), fa.Field)+" = "+k.expr(x.Val, 0)] = true
					}
				}
			case *ssa.Call:
				cal := x.Call.StaticCallee()
				if cal == nil || cal.Pkg == nil {
					continue
				}
				if cal.Pkg == fn.Pkg {
					var as []string
					for _, a := range x.Call.Args {
						as = append(as, k.expr(a, 0))
					}
					items["call: "+cal.Name()+"("+strings.Join(as, ",")+")"] = true
					interesting = append(interesting, in)
				}
				if strings.HasSuffix(cal.Pkg.Pkg.Path(), encPkgSuffix) && strings.HasPrefix(cal.Name(), "Encode") {
					encCall = x
					// the common leading arguments (pixels, width, height, configuration)
					for i, a := range x.Call.Args {
						if i < 4 {
							items[fmt.Sprintf("encoder-arg%d: %s", i, k.expr(a, 0))] = true
						}
					}
				}
			}
		}
	}
	// conditions that control an interesting instruction
	for _, b := range fn.Blocks {
		iff, ok := b.Instrs[len(b.Instrs)-1].(*ssa.If)
		if !ok {
			continue
		}
		controls := false
		for _, in := range interesting {
			ib := in.Block()
			for _, s := range b.Succs {
				if s.Dominates(ib) && !(b.Succs[0].Dominates(ib) && b.Succs[1].Dominates(ib)) {
					controls = true
				}
			}
		}
		if controls {
			items["condition: "+k.expr(iff.Cond, 0)] = true
		}
	}
	return
}

func c15Siblings(c *Ctx, p *Program) {
	root := p.SSAPkg("")
	if root == nil {
		c.AnchorMissing("M2-siblings", "root package")
		return
	}
	var callers []*ssa.Function
	byCallee := map[string]*ssa.Function{}
	for _, fn := range p.SrcFuncs() {
		if fn.Pkg != root || fn.Parent() != nil {
			continue
		}
		for _, b := range fn.Blocks {
			for _, in := range b.Instrs {
				if call, ok := in.(*ssa.Call); ok {
					if cal := call.Call.StaticCallee(); cal != nil && cal.Pkg != nil && strings.HasSuffix(cal.Pkg.Pkg.Path(), "/internal/lossless") && strings.HasPrefix(cal.Name(), "Encode") {
						if byCallee[cal.Name()] == nil {
							byCallee[cal.Name()] = fn
							callers = append(callers, fn)
						}
					}
				}
			}
		}
	}
	if len(callers) < 2 {
		c.Note("M2: a single function calls the lossless encoder; there are no sibling paths to compare")
		c.Pass("M2-siblings", "lossless-paths", "", fmt.Sprintf("%d caller of the lossless encoder: nothing to compare", len(callers)))
		return
	}
	sort.Slice(callers, func(i, j int) bool { return callers[i].Name() < callers[j].Name() })
	a := callers[0]
	ia, _ := pixelItems(a, "/internal/lossless")
	for _, b := range callers[1:] {
		ib, _ := pixelItems(b, "/internal/lossless")
		c.Func(FnName(a))
		c.Func(FnName(b))
		var onlyA, onlyB []string
		for s := range ia {
			if !ib[s] {
				onlyA = append(onlyA, s)
			}
		}
		for s := range ib {
			if !ia[s] {
				onlyB = append(onlyB, s)
			}
		}
		sort.Strings(onlyA)
		sort.Strings(onlyB)
		key := a.Name() + "~" + b.Name()
		why := ""
		if len(onlyA) > 0 {
			why += fmt.Sprintf("only in %s: %s; ", a.Name(), truncate(strings.Join(onlyA, " || "), 500))
		}
		if len(onlyB) > 0 {
			why += fmt.Sprintf("only in %s: %s", b.Name(), truncate(strings.Join(onlyB, " || "), 500))
		}
		c.Check(len(onlyA)+len(onlyB) == 0, "M2-siblings", key, p.Pos(b.Pos()),
			fmt.Sprintf("both lossless paths have the same %d pixel stores, controlling conditions, same-package calls, configuration fields and encoder arguments", len(ia)),
			"the two lossless paths (chosen by whether metadata is present) do not hand the same pixels/configuration to the encoder, so attaching metadata changes the coded picture: "+why)
		c.Floor("M2-siblings:"+key, len(ia), 8)
	}
}
