package main

// C01: the structural part of the lossless round trip that is visible in the shape of the code -
// the pixels that enter the VP8L coder are the source's non-premultiplied pixels for every storage
// type.
//
// U1 un-premultiply: every helper of the encoder front end that divides a channel value by an alpha
//    value (a function of two 8-bit parameters returning 8 bits that contains such a division) has
//    the S8 normal form of the conversion the generic path uses, color.NRGBAModel (image/color:
//    nrgbaModel: c16 = c*0x101, a16 = a*0x101, (c16*0xffff/a16)>>8), for all c and all a in 1..254.
// U2 no raw un-premultiply: in the front-end functions that have an *image.RGBA fast path no other
//    division by a value loaded from a pixel buffer exists.
// M2 (shared with C15) the two lossless import paths are the same computation; I1/I2 (shared with
//    C19) every address into the source image uses its stride and origin and nothing is stored
//    into it.

import (
	"fmt"
	"go/token"
	"go/types"

	"golang.org/x/tools/go/ssa"
)

func init() { register("C01", runC01) }

func runC01(c *Ctx) {
	c.Rule("U1 un-premultiply: every front-end helper func(c, a uint8) uint8 that divides by its alpha argument reduces (S8 normal form with symbolic division, common constant factors cancelled) to uint8((c*0x101*0xffff / (a*0x101)) >> 8), the arithmetic of color.NRGBAModel, for all c in 0..255 and a in 1..254")
	c.Rule("U2 no raw un-premultiply: outside those helpers, no function of the root package or internal/lossy divides by a value loaded from the Pix buffer of an image")
	c.Rule("M2 siblings (as in C15): the buffered and the streaming lossless front ends import pixels by the same canonical computation")
	c.Rule("I1 index form / I2 read-only input (as in C19): every address into the source image derives from its Stride and origin; nothing is stored into it")
	c.NotCovered("everything after the import: transform selection, prediction, LZ77, prefix coding and their inverses (value-level; the decoder-side structural clauses are decided under C03: in-place safety of the inverse transforms, VP8L tables, bit-window budget); the conversion of decoded ARGB to the returned image")
	c.Assume("the reference for U1 is a transcription of image/color.nrgbaModel (Go standard library) built with the evaluator's own operations")
	for _, cf := range c.configsFor() {
		p := c.load(cf[0], cf[1])
		if p == nil {
			continue
		}
		c01Unpremultiply(c, p)
		c15Siblings(c, p)
		c19Analyse(c, p)
	}
}

func isUint8(t types.Type) bool {
	b, ok := t.Underlying().(*types.Basic)
	return ok && b.Kind() == types.Uint8
}

// fromPix: v derives (through conversions, arithmetic and phis) from a load of an element of a
// field named Pix.
func fromPix(v ssa.Value, depth int, seen map[ssa.Value]bool) bool {
	if depth > 8 || seen[v] {
		return false
	}
	seen[v] = true
	switch t := v.(type) {
	case *ssa.Convert:
		return fromPix(t.X, depth+1, seen)
	case *ssa.ChangeType:
		return fromPix(t.X, depth+1, seen)
	case *ssa.BinOp:
		return fromPix(t.X, depth+1, seen) || fromPix(t.Y, depth+1, seen)
	case *ssa.Phi:
		for _, e := range t.Edges {
			if fromPix(e, depth+1, seen) {
				return true
			}
		}
	case *ssa.UnOp:
		if t.Op != token.MUL {
			return fromPix(t.X, depth+1, seen)
		}
		ia, ok := t.X.(*ssa.IndexAddr)
		if !ok {
			return false
		}
		base := ia.X
		for i := 0; i < 4; i++ {
			if sl, ok := base.(*ssa.Slice); ok {
				base = sl.X
			}
		}
		if ld, ok := base.(*ssa.UnOp); ok && ld.Op == token.MUL {
			if fa, ok := ld.X.(*ssa.FieldAddr); ok && fieldNameOf(fa.X.Type(), fa.Field) == "Pix" {
				return true
			}
		}
	}
	return false
}

func c01Unpremultiply(c *Ctx, p *Program) {
	helpers := map[*ssa.Function]bool{}
	nH := 0
	for _, rel := range []string{"", "internal/lossy", "internal/lossless", "animation"} {
		pk := p.SSAPkg(rel)
		if pk == nil {
			continue
		}
		for _, fn := range p.SrcFuncs() {
			if fn.Pkg != pk || fn.Blocks == nil || fn.Signature.Recv() != nil {
				continue
			}
			sg := fn.Signature
			if sg.Params().Len() != 2 || sg.Results().Len() != 1 || !isUint8(sg.Params().At(0).Type()) || !isUint8(sg.Params().At(1).Type()) || !isUint8(sg.Results().At(0).Type()) {
				continue
			}
			// contains a division by a value derived from a parameter
			hasDiv := false
			for _, b := range fn.Blocks {
				for _, in := range b.Instrs {
					if bo, ok := in.(*ssa.BinOp); ok && bo.Op == token.QUO {
						if _, isC := bo.Y.(*ssa.Const); !isC {
							hasDiv = true
						}
					}
				}
			}
			if !hasDiv {
				continue
			}
			helpers[fn] = true
			nH++
			c.Func(FnName(fn))
			var got, want string
			err := kernelEval(func(x *kx) {
				cv := x.inAtom("c", 0, 255)
				av := x.inAtom("a", 1, 254)
				r := x.call(fn, []kval{knum(cv), knum(av)}, nil)
				if r.kind != kvNum {
					kfail("the result is not a number")
				}
				got = r.n.key()
				num := cv.scale(0x101).scale(0xffff)
				den := av.scale(0x101)
				q := x.divv(num, den)
				want = x.wrapBits(x.shr(q, 8), 8, false).key()
			})
			if err != nil {
				c.Fail("U1-unpremultiply", FnName(fn), p.Pos(fn.Pos()), "cannot be reduced to a normal form: "+err.Error())
				continue
			}
			c.Check(got == want, "U1-unpremultiply", FnName(fn), p.Pos(fn.Pos()),
				"computes the non-premultiplied channel exactly as color.NRGBAModel does ("+short(want)+")",
				fmt.Sprintf("%s computes %s from a premultiplied channel c and alpha a; color.NRGBAModel, which the generic image.Image path uses, computes %s: the same picture given as *image.RGBA and through a generic image.Image enters the coder with different pixels, and a semi-transparent *image.RGBA picture does not round-trip to its non-premultiplied pixels", fn.Name(), got, want))
		}
	}
	c.Floor("U1-unpremultiply", nH, 1)
	// U2: raw divisions by pixel-buffer values elsewhere
	nRaw := 0
	for _, rel := range []string{"", "internal/lossy"} {
		pk := p.SSAPkg(rel)
		if pk == nil {
			continue
		}
		for _, fn := range p.SrcFuncs() {
			if fn.Pkg != pk || fn.Blocks == nil || helpers[fn] {
				continue
			}
			k := 0
			for _, b := range fn.Blocks {
				for _, in := range b.Instrs {
					bo, ok := in.(*ssa.BinOp)
					if !ok || bo.Op != token.QUO {
						continue
					}
					if _, isC := bo.Y.(*ssa.Const); isC {
						continue
					}
					if !fromPix(bo.Y, 0, map[ssa.Value]bool{}) {
						continue
					}
					k++
					nRaw++
					c.Func(FnName(fn))
					c.Fail("U2-raw-unpremultiply", fmt.Sprintf("%s:div#%d", FnName(fn), k), p.Pos(bo.Pos()),
						fmt.Sprintf("%s divides by a value loaded from an image's Pix buffer (%s) outside the verified un-premultiply helper: this storage type's pixels are converted by other arithmetic than color.NRGBAModel, which the generic path uses", fn.Name(), p.ExprText(bo.Pos())))
				}
			}
		}
	}
	if nRaw == 0 {
		c.Pass("U2-raw-unpremultiply", "root+internal/lossy", "", "no division by a pixel-buffer value outside the verified helpers")
	}
}
