package main

// C04 (VP8 tables) and C03 (VP8L tables): A8.

import (
	"fmt"
	"path/filepath"
)

func init() {
	register("C04", runC04)
}

func loadRefOrFail(c *Ctx) map[string][]int64 {
	ref, err := loadRef(filepath.Join(c.Verif, "ref", "ximage_tables.json"))
	if err != nil {
		c.Fail("internal", "ref/ximage_tables.json", "", "cannot read the reference tables: "+err.Error())
		return nil
	}
	c.Table("ref/ximage_tables.json")
	return ref
}

func runC04(c *Ctx) {
	c.Rule("A8-tables: the VP8 constant tables (dequantisation DC/AC, default and update coefficient probabilities, B-mode probabilities, zigzag, bands, large-value category probabilities, IDCT constants) are read from the source by constant folding and must equal, value for value, the tables of an independent decoder written from RFC 6386 (golang.org/x/image/vp8, extracted once into ref/ximage_tables.json)")
	c.Rule("A8-relations: duplicated tables are equal (bitio/lossy range tables, dsp/lossy zigzag and bands, writer/reader normalisation tables), the reverse zigzag is the inverse permutation, KAcTable2[i] = max(8, KAcTable[i]*101581>>16), kVP8NewRange[r] = ((r+1) << kVP8Log2Range[r]) - 1 with the minimal normalising shift")
	c.Rule("K1-predictors: every function stored in dsp.PredLuma4/PredLuma16/PredChroma8, and every mode of the direct dispatchers, is reduced by the S8 kernel evaluator to one normal form per output sample (linear forms over the neighbouring samples, shifts with the multiples of 2^k taken out, clamps as piecewise forms); the table of normal forms equals that of the independent RFC 6386 decoder (golang.org/x/image/vp8, reduced by the same evaluator into ref/ximage_kernels.json); samples outside the block must not be written")
	c.Rule("K2-transforms: dsp.transformOne and transformWHT have the normal forms of the reference inverse DCT and inverse WHT; transformDC and transformAC3 equal transformOne with the other coefficients zero")
	c.Rule("K5-inner-filter-gate: the per-macroblock flag that enables inner-edge loop filtering (the bool field of the filter-info record) depends on the macroblock's non-zero-coefficient masks or on the residual parser's result, not only on the bitstream skip flag (RFC 6386 15.1)")
	c.NotCovered("the loop filter arithmetic, the upsampler, YUV->RGB conversion and every assembly kernel (amd64/arm64 .s files and the functions that dispatch to them); coefficient parsing and dequantisation arithmetic")
	c.NotCovered("the header bit grammar (segment/filter/quantiser/partition syntax) - see DESIGN.md: the grammar extractor was not built")
	ref := loadRefOrFail(c)
	if ref == nil {
		return
	}
	kref, kerr := loadKernRef(filepath.Join(c.Verif, "ref", "ximage_kernels.json"))
	if kerr != nil {
		c.Fail("internal", "ref/ximage_kernels.json", "", "cannot read the reference kernels: "+kerr.Error())
		return
	}
	c.Table("ref/ximage_kernels.json")
	for _, cf := range c.configsFor() {
		p := c.load(cf[0], cf[1])
		if p == nil {
			continue
		}
		kernelPredictors(c, p, kref)
		kernelTransforms(c, p, kref)
		kernelInnerFilterGate(c, p)
		repo := repoTables(p, "internal/lossy", "internal/bitio", "internal/dsp")
		for k := range repo {
			_ = k
		}
		c.Func(fmt.Sprintf("%d tables and constants folded", len(repo)))
		checkTablePairs(c, repo, ref, []tablePair{
			{"lossy.KDcTable", "vp8.dequantTableDC", "DC dequantisation table"},
			{"lossy.KAcTable", "vp8.dequantTableAC", "AC dequantisation table"},
			{"lossy.CoeffsProba0", "vp8.defaultTokenProb", "default coefficient probabilities"},
			{"lossy.CoeffsUpdateProba", "vp8.tokenProbUpdateProb", "coefficient probability update probabilities"},
			{"lossy.KBModesProba", "vp8.predProb", "4x4 intra mode probabilities"},
			{"lossy.KZigzag", "vp8.zigzag", "zigzag scan order"},
			{"lossy.KBands", "vp8.bands", "coefficient bands"},
		}, "A8-tables")
		// category tables: x/image stores them padded to 12 columns
		relation(c, "A8-tables", "lossy.KCat3..6=vp8.cat3456", merge(repo, ref), []string{"lossy.KCat3", "lossy.KCat4", "lossy.KCat5", "lossy.KCat6", "vp8.cat3456"},
			"large-value category probabilities equal the independent implementation's (zero padded)", func(t [][]int64) (bool, string) {
				if len(t[4]) != 48 {
					return false, fmt.Sprintf("reference has %d values", len(t[4]))
				}
				for r := 0; r < 4; r++ {
					for i := 0; i < 12; i++ {
						want := t[4][r*12+i]
						got := int64(0)
						if i < len(t[r]) {
							got = t[r][i]
						}
						if got != want {
							return false, fmt.Sprintf("KCat%d[%d] = %d, reference %d", r+3, i, got, want)
						}
					}
				}
				return true, ""
			})
		relation(c, "A8-tables", "dsp.idct-constants=vp8.c1c2", merge(repo, ref), []string{"dsp.const:c1", "dsp.const:c2", "vp8.const:c1", "vp8.const:c2"},
			"IDCT multipliers equal the independent implementation's (c1 may omit the implicit 1<<16)", func(t [][]int64) (bool, string) {
				c1 := t[0][0]
				if c1 < 1<<16 {
					c1 += 1 << 16
				}
				if c1 != t[2][0] || t[1][0] != t[3][0] {
					return false, fmt.Sprintf("kC1=%d kC2=%d, reference c1=%d c2=%d", t[0][0], t[1][0], t[2][0], t[3][0])
				}
				return true, ""
			})
		eq := func(t [][]int64) (bool, string) {
			ok, at := eqInts(t[0], t[1])
			if !ok {
				return false, fmt.Sprintf("differ at index %d (lengths %d/%d)", at, len(t[0]), len(t[1]))
			}
			return true, ""
		}
		relation(c, "A8-relations", "lossy.kVP8Log2Range=bitio.kVP8Log2Range", repo, []string{"lossy.kVP8Log2Range", "bitio.kVP8Log2Range"}, "duplicate range-shift tables are equal", eq)
		relation(c, "A8-relations", "lossy.kVP8NewRange=bitio.kVP8NewRange", repo, []string{"lossy.kVP8NewRange", "bitio.kVP8NewRange"}, "duplicate new-range tables are equal", eq)
		relation(c, "A8-relations", "bitio.kNorm=bitio.kVP8Log2Range", repo, []string{"bitio.kNorm", "bitio.kVP8Log2Range"}, "writer and reader normalisation shifts are equal", eq)
		relation(c, "A8-relations", "bitio.kNewRange=bitio.kVP8NewRange", repo, []string{"bitio.kNewRange", "bitio.kVP8NewRange"}, "writer and reader new-range tables are equal", eq)
		relation(c, "A8-relations", "dsp.Zigzag=lossy.KZigzag", repo, []string{"dsp.Zigzag", "lossy.KZigzag"}, "the two zigzag tables are equal", eq)
		relation(c, "A8-relations", "dsp.VP8EncBands=lossy.KBands", repo, []string{"dsp.VP8EncBands", "lossy.KBands"}, "encoder and decoder band tables are equal", eq)
		relation(c, "A8-relations", "lossy.kReverseZigzag", repo, []string{"lossy.kReverseZigzag", "lossy.KZigzag"}, "kReverseZigzag is the inverse permutation of KZigzag", func(t [][]int64) (bool, string) {
			if len(t[0]) != 16 || len(t[1]) != 16 {
				return false, "length"
			}
			for i := 0; i < 16; i++ {
				if t[1][i] < 0 || t[1][i] > 15 || t[0][t[1][i]] != int64(i) {
					return false, fmt.Sprintf("kReverseZigzag[KZigzag[%d]] != %d", i, i)
				}
			}
			return true, ""
		})
		relation(c, "A8-relations", "lossy.KAcTable2", repo, []string{"lossy.KAcTable2", "lossy.KAcTable"}, "KAcTable2[i] = max(8, KAcTable[i]*101581>>16)", func(t [][]int64) (bool, string) {
			if len(t[0]) != 128 || len(t[1]) != 128 {
				return false, "length"
			}
			for i := range t[0] {
				v := t[1][i] * 101581 >> 16
				if v < 8 {
					v = 8
				}
				if v != t[0][i] {
					return false, fmt.Sprintf("index %d: %d vs %d", i, t[0][i], v)
				}
			}
			return true, ""
		})
		relation(c, "A8-relations", "bitio.range-formula", repo, []string{"bitio.kVP8Log2Range", "bitio.kVP8NewRange"}, "kVP8Log2Range[r] is the minimal shift normalising r+1 to >= 128 and kVP8NewRange[r] = ((r+1) << shift) - 1", func(t [][]int64) (bool, string) {
			for r := range t[0] {
				s := int64(0)
				for (int64(r)+1)<<uint(s) < 128 {
					s++
				}
				if r < 127 && t[0][r] != s {
					return false, fmt.Sprintf("kVP8Log2Range[%d] = %d, expected %d", r, t[0][r], s)
				}
				if r < 127 && t[1][r] != ((int64(r)+1)<<uint(s))-1 {
					return false, fmt.Sprintf("kVP8NewRange[%d] = %d, expected %d", r, t[1][r], ((int64(r)+1)<<uint(s))-1)
				}
			}
			return true, ""
		})
		// x/image keeps the same normalisation tables under other names (127 entries)
		relation(c, "A8-tables", "bitio.kVP8Log2Range=vp8.lutShift", merge(repo, ref), []string{"bitio.kVP8Log2Range", "vp8.lutShift"}, "range normalisation shifts equal the independent implementation's", func(t [][]int64) (bool, string) {
			for i := range t[1] {
				if i >= len(t[0]) || t[0][i] != t[1][i] {
					return false, fmt.Sprintf("index %d", i)
				}
			}
			return len(t[1]) >= 127, "reference too short"
		})
		relation(c, "A8-tables", "bitio.kVP8NewRange=vp8.lutRangeM1", merge(repo, ref), []string{"bitio.kVP8NewRange", "vp8.lutRangeM1"}, "normalised ranges equal the independent implementation's", func(t [][]int64) (bool, string) {
			for i := range t[1] {
				if i >= len(t[0]) || t[0][i] != t[1][i] {
					return false, fmt.Sprintf("index %d", i)
				}
			}
			return len(t[1]) >= 127, "reference too short"
		})
	}
}

func merge(a, b map[string][]int64) map[string][]int64 {
	out := map[string][]int64{}
	for k, v := range a {
		out[k] = v
	}
	for k, v := range b {
		out[k] = v
	}
	return out
}
