package main

// A8 (tables): constant tables of the codecs, read by constant folding of composite
// literals (no execution), compared with the tables of an independent implementation
// (golang.org/x/image vp8/vp8l, extracted once into ref/ximage_tables.json) and with
// each other (duplicates, inverse permutations, defining formulas).

import (
	"encoding/json"
	"fmt"
	"go/ast"
	"go/constant"
	"go/parser"
	"go/token"
	"go/types"
	"os"
	"path/filepath"
	"sort"
	"strings"
)

// flattenLit evaluates a (nested) composite literal of integer constants to a flat list.
func flattenLit(info *types.Info, e ast.Expr, out *[]int64) bool {
	switch x := e.(type) {
	case *ast.CompositeLit:
		for _, el := range x.Elts {
			if kv, ok := el.(*ast.KeyValueExpr); ok {
				el = kv.Value
			}
			if !flattenLit(info, el, out) {
				return false
			}
		}
		return true
	default:
		tv, ok := info.Types[e]
		if !ok || tv.Value == nil {
			return false
		}
		v, ok2 := constant.Int64Val(constant.ToInt(tv.Value))
		if !ok2 {
			return false
		}
		*out = append(*out, v)
		return true
	}
}

// tablesOf collects every variable (package-level or local) initialised with a composite literal
// of integer constants, and every named integer constant.
func tablesOf(files []*ast.File, info *types.Info, prefix string, res map[string][]int64) {
	for _, f := range files {
		ast.Inspect(f, func(n ast.Node) bool {
			vs, ok := n.(*ast.ValueSpec)
			if !ok {
				return true
			}
			for i, name := range vs.Names {
				if i >= len(vs.Values) {
					continue
				}
				if cl, ok := vs.Values[i].(*ast.CompositeLit); ok {
					var out []int64
					if flattenLit(info, cl, &out) && len(out) > 0 {
						res[prefix+name.Name] = out
					}
					continue
				}
				if obj, ok := info.Defs[name].(*types.Const); ok && obj.Val().Kind() == constant.Int {
					if v, exact := constant.Int64Val(obj.Val()); exact {
						res[prefix+"const:"+name.Name] = []int64{v}
					}
				}
			}
			return true
		})
	}
}

// loadDirTables type-checks the non-test files of a directory on their own (imports unresolved,
// errors ignored: constant folding of literals does not need them).
func loadDirTables(dir, prefix string, res map[string][]int64) error {
	fset := token.NewFileSet()
	pk, err := parser.ParseDir(fset, dir, func(fi os.FileInfo) bool { return !strings.HasSuffix(fi.Name(), "_test.go") }, 0)
	if err != nil {
		return err
	}
	for _, p := range pk {
		var files []*ast.File
		var names []string
		for n := range p.Files {
			names = append(names, n)
		}
		sort.Strings(names)
		for _, n := range names {
			files = append(files, p.Files[n])
		}
		info := &types.Info{Types: map[ast.Expr]types.TypeAndValue{}, Defs: map[*ast.Ident]types.Object{}}
		conf := types.Config{Error: func(error) {}, FakeImportC: true}
		conf.Check(p.Name, fset, files, info)
		tablesOf(files, info, prefix, res)
	}
	return nil
}

// genRef writes ref/ximage_tables.json from a golang.org/x/image source tree.
func genRef(ximage, out string) error {
	res := map[string][]int64{}
	if err := loadDirTables(filepath.Join(ximage, "vp8"), "vp8.", res); err != nil {
		return err
	}
	if err := loadDirTables(filepath.Join(ximage, "vp8l"), "vp8l.", res); err != nil {
		return err
	}
	// keep tables (>= 3 entries) and a few named constants
	keep := map[string][]int64{}
	for k, v := range res {
		if len(v) >= 3 || strings.Contains(k, "const:c1") || strings.Contains(k, "const:c2") || strings.Contains(k, "const:repeatsCodeLength") {
			keep[k] = v
		}
	}
	b, _ := json.MarshalIndent(map[string]any{
		"source": "golang.org/x/image v0.0.0-20190802002840-cff245a6509b (vp8, vp8l), BSD-3-Clause, see ref/XIMAGE_LICENSE",
		"method": "constant folding of composite literals with go/types; no code was executed",
		"tables": keep,
	}, "", " ")
	return os.WriteFile(out, b, 0o644)
}

type tableRef struct {
	Tables map[string][]int64 `json:"tables"`
}

func loadRef(path string) (map[string][]int64, error) {
	b, err := os.ReadFile(path)
	if err != nil {
		return nil, err
	}
	var r tableRef
	if err := json.Unmarshal(b, &r); err != nil {
		return nil, err
	}
	return r.Tables, nil
}

// repoTables folds the tables of the given module packages.
func repoTables(p *Program, rels ...string) map[string][]int64 {
	res := map[string][]int64{}
	for _, rel := range rels {
		pk := p.Pkg(rel)
		if pk == nil {
			continue
		}
		tablesOf(pk.Syntax, pk.TypesInfo, pk.Types.Name()+".", res)
	}
	return res
}

func eqInts(a, b []int64) (bool, int) {
	if len(a) != len(b) {
		return false, -1
	}
	for i := range a {
		if a[i] != b[i] {
			return false, i
		}
	}
	return true, -1
}

type tablePair struct{ repo, ref, what string }

// checkTablePairs compares repo tables with reference tables.
func checkTablePairs(c *Ctx, repo, ref map[string][]int64, pairs []tablePair, rule string) {
	for _, pr := range pairs {
		a, okA := repo[pr.repo]
		b, okB := ref[pr.ref]
		key := pr.repo + "=" + pr.ref
		switch {
		case !okA:
			c.AnchorMissing(rule, "table "+pr.repo)
		case !okB:
			c.Fail(rule, key, "", "reference table "+pr.ref+" missing from ref/ximage_tables.json")
		default:
			eq, at := eqInts(a, b)
			if eq {
				c.Pass(rule, key, "", fmt.Sprintf("%s: %d values equal to the independent implementation's %s", pr.what, len(a), pr.ref))
			} else if at < 0 {
				c.Fail(rule, key, "", fmt.Sprintf("%s: %s has %d values, the independent implementation's %s has %d", pr.what, pr.repo, len(a), pr.ref, len(b)))
			} else {
				c.Fail(rule, key, "", fmt.Sprintf("%s: %s[%d] = %d but the independent implementation's %s[%d] = %d; encoder and decoder share this table, so round-trip tests cannot see the deviation", pr.what, pr.repo, at, a[at], pr.ref, at, b[at]))
			}
		}
	}
}

// relation checks a derived relation between repo tables.
func relation(c *Ctx, rule, key string, repo map[string][]int64, names []string, what string, f func(t [][]int64) (bool, string)) {
	var ts [][]int64
	for _, n := range names {
		t, ok := repo[n]
		if !ok {
			c.AnchorMissing(rule, "table "+n)
			return
		}
		ts = append(ts, t)
	}
	ok, why := f(ts)
	c.Check(ok, rule, key, "", what, what+" does not hold: "+why)
}
