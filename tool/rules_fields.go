package main

// Header field values of the container (C14, C16): V rules.
//
// The WebP container specification fixes how the ANMF frame header, the VP8X canvas size and the
// ANIM parameters are laid out: 24-bit little-endian fields, offsets stored halved, sizes stored
// minus one, two flag bits. The table below is that part of the specification.
//
// V2 reader fields: every value that a parser function of mux / internal/container stores into a
//    field named like one of the specified fields, and that the S8 lazy evaluator reduces to a
//    little-endian 24-bit read of three consecutive input bytes, must be the specified function of
//    those bytes (2*le24 for offsets, 1+le24 for widths and heights, le24 for the duration), and all
//    fields decoded from one byte slice in one function must lie at the specified distances from
//    each other (X, Y, W, H, duration, flags at +0 +3 +6 +9 +12 +15; canvas W, H at +4 +7 after
//    the flags byte). The dispose and blend fields must be decided by bit 0 / bit 1 of the flags
//    byte, the set bit selecting the "dispose to background" / "do not blend" constant.
// V3 field copies: where a value is copied from a field of one record into a field of another and
//    both field names are specified fields, they are the same field (X to X, never X to Y).
//
// What is decided is the decoding formula and layout, for every input; what the fields are used
// for afterwards is not.

import (
	"fmt"
	"go/constant"
	"go/token"
	"go/types"
	"regexp"
	"sort"
	"strconv"
	"strings"

	"golang.org/x/tools/go/ssa"
)

type specField struct {
	id          string
	names       []string
	off         int64 // byte offset inside the ANMF frame header
	scale, bias int64
}

var anmfFields = []specField{
	{"x", []string{"OffsetX", "XOffset"}, 0, 2, 0},
	{"y", []string{"OffsetY", "YOffset"}, 3, 2, 0},
	{"w", []string{"Width", "CanvasWidth"}, 6, 1, 1},
	{"h", []string{"Height", "CanvasHeight"}, 9, 1, 1},
	{"duration", []string{"Duration"}, 12, 1, 0},
}

type specFlag struct {
	id      string
	names   []string
	mask    int64
	setName *regexp.Regexp // the constant selected when the bit is set
}

var anmfFlags = []specFlag{
	{"dispose", []string{"DisposeMode", "DisposeMethod", "Dispose"}, 1, regexp.MustCompile(`(?i)background`)},
	{"blend", []string{"BlendMode", "BlendMethod", "Blend"}, 2, regexp.MustCompile(`(?i)none|noblend|overwrite`)},
}

func specFieldID(name string) string {
	for _, f := range anmfFields {
		for _, n := range f.names {
			if n == name {
				return f.id
			}
		}
	}
	for _, f := range anmfFlags {
		for _, n := range f.names {
			if n == name {
				return f.id
			}
		}
	}
	return ""
}

var inAtomRe = regexp.MustCompile(`^(.*)\((\-?\d+)\)$`)

// le24Shape: n = bias + k*(a(o) + 256*a(o+1) + 65536*a(o+2)) over input atoms of one root.
func le24Shape(n *knf) (root string, off, k, bias int64, ok bool) {
	if len(n.t) != 3 {
		return
	}
	type at struct {
		off, co int64
	}
	var ats []at
	for key, co := range n.t {
		m := inAtomRe.FindStringSubmatch(key)
		if m == nil || strings.ContainsAny(m[1], "(,") {
			return
		}
		if root != "" && root != m[1] {
			return
		}
		root = m[1]
		o, _ := strconv.ParseInt(m[2], 10, 64)
		ats = append(ats, at{o, co})
	}
	sort.Slice(ats, func(i, j int) bool { return ats[i].off < ats[j].off })
	if ats[1].off != ats[0].off+1 || ats[2].off != ats[0].off+2 {
		return
	}
	k = ats[0].co
	if k == 0 || ats[1].co != 256*k || ats[2].co != 65536*k {
		return
	}
	return root, ats[0].off, k, n.c, true
}

// byteRoots binds every []byte value that index/slice expressions start from to an input object,
// and every constant-low re-slice of it to the same object at its offset, so that lazy evaluation
// never has to evaluate where the bytes came from.
func bindByteRoots(x *kx, p *Program, f *kframe) {
	objs := map[string]*kobj{}
	var rootKey func(v ssa.Value, depth int) string
	rootKey = func(v ssa.Value, depth int) string {
		if depth > 6 {
			return v.Name()
		}
		switch t := v.(type) {
		case *ssa.Parameter:
			return t.Name()
		case *ssa.UnOp:
			if t.Op == token.MUL {
				if fa, ok := t.X.(*ssa.FieldAddr); ok {
					return rootKey(fa.X, depth+1) + "." + fieldNameOf(fa.X.Type(), fa.Field)
				}
			}
		case *ssa.Field:
			return rootKey(t.X, depth+1) + "." + fieldNameOf(t.X.Type(), t.Field)
		case *ssa.Extract:
			return fmt.Sprintf("%s#%d", rootKey(t.Tuple, depth+1), t.Index)
		case *ssa.Call:
			if cal := t.Common().StaticCallee(); cal != nil {
				return "call:" + cal.Name() + "@" + p.Pos(t.Pos())
			}
		}
		return v.Name()
	}
	isBytes := func(t types.Type) bool {
		s, ok := t.Underlying().(*types.Slice)
		if !ok {
			return false
		}
		b, ok := s.Elem().Underlying().(*types.Basic)
		return ok && b.Kind() == types.Uint8
	}
	var bind func(v ssa.Value) (kval, bool)
	bind = func(v ssa.Value) (kval, bool) {
		if r, ok := f.env[v]; ok {
			return r, r.kind == kvSlice
		}
		if !isBytes(v.Type()) {
			return kval{}, false
		}
		switch t := v.(type) {
		case *ssa.Slice:
			if !isBytes(t.X.Type()) {
				break
			}
			lo := int64(0)
			if t.Low != nil {
				c, ok := t.Low.(*ssa.Const)
				if !ok || c.Value == nil {
					break
				}
				lo, _ = constant.Int64Val(constant.ToInt(c.Value))
			}
			base, ok := bind(t.X)
			if !ok {
				break
			}
			r := kval{kind: kvSlice, obj: base.obj, off: base.off + lo, ln: base.ln - lo, cp: base.cp - lo}
			f.env[v] = r
			return r, true
		case *ssa.MakeSlice, *ssa.Alloc, *ssa.Const:
			return kval{}, false
		}
		key := rootKey(v, 0)
		o := objs[key]
		if o == nil {
			o = x.newObj(key)
			name := key
			o.input = func(off int64) (string, int64, int64, bool) {
				if off < 0 || off >= 1<<20 {
					return "", 0, 0, false
				}
				return fmt.Sprintf("%s(%d)", name, off), 0, 255, true
			}
			objs[key] = o
		}
		r := kval{kind: kvSlice, obj: o, ln: 1 << 20, cp: 1 << 20}
		f.env[v] = r
		return r, true
	}
	for _, b := range f.fn.Blocks {
		for _, in := range b.Instrs {
			switch t := in.(type) {
			case *ssa.IndexAddr:
				bind(t.X)
			case *ssa.Slice:
				bind(t)
			case *ssa.Call:
				for _, a := range t.Common().Args {
					bind(a)
				}
			}
		}
	}
}

func fieldNameOf(t types.Type, idx int) string {
	if pt, ok := t.Underlying().(*types.Pointer); ok {
		t = pt.Elem()
	}
	if st, ok := t.Underlying().(*types.Struct); ok && idx < st.NumFields() {
		return st.Field(idx).Name()
	}
	return fmt.Sprintf("f%d", idx)
}

type decodedField struct {
	id, name, pos     string
	root              string
	off, k, bias      int64
	fnName, structKey string
}

// bitTest: cond is  (v & mask) != 0  or  == 0 ; returns the tested value, the mask and whether the
// true branch means "bit set".
func bitTest(cond ssa.Value) (v ssa.Value, mask int64, setOnTrue, ok bool) {
	b, isB := cond.(*ssa.BinOp)
	if !isB || (b.Op != token.NEQ && b.Op != token.EQL) {
		return
	}
	and, zero := b.X, b.Y
	if c, isC := and.(*ssa.Const); isC && c.Value != nil {
		and, zero = b.Y, b.X
	}
	zc, isC := zero.(*ssa.Const)
	if !isC || zc.Value == nil {
		return
	}
	if z, _ := constant.Int64Val(constant.ToInt(zc.Value)); z != 0 {
		return
	}
	ab, isA := and.(*ssa.BinOp)
	if !isA || ab.Op != token.AND {
		return
	}
	val, mc := ab.X, ab.Y
	if c, isC := val.(*ssa.Const); isC && c.Value != nil {
		val, mc = ab.Y, ab.X
	}
	m, isM := mc.(*ssa.Const)
	if !isM || m.Value == nil {
		return
	}
	mask, _ = constant.Int64Val(constant.ToInt(m.Value))
	return val, mask, b.Op == token.NEQ, true
}

func constName(p *Program, t types.Type, val int64) string {
	nt, ok := t.(*types.Named)
	if !ok || nt.Obj().Pkg() == nil {
		return ""
	}
	sc := nt.Obj().Pkg().Scope()
	for _, n := range sc.Names() {
		if k, ok := sc.Lookup(n).(*types.Const); ok && types.Identical(k.Type(), t) {
			if v, ok := constant.Int64Val(constant.ToInt(k.Val())); ok && v == val {
				return n
			}
		}
	}
	return ""
}

func runReaderFields(c *Ctx, p *Program) {
	c.Rule("V2 reader fields: a parser function's stores into fields named like the ANMF / VP8X header fields whose values reduce (S8 lazy evaluation) to a 24-bit little-endian read of input bytes are the specified function of those bytes (offsets 2*le24, sizes 1+le24, duration le24), the fields decoded from one slice lie at the specified distances (+0 +3 +6 +9 +12, flags +15; canvas +4 +7), and dispose / blend are selected by bit 0 / bit 1 of the flags byte with the set bit meaning dispose-to-background / do-not-blend")
	c.Rule("V3 field copies: a specified header field is only ever copied into the same field of another record (X to X, never X to Y)")
	nRec, nCopy := 0, 0
	for _, rel := range []string{"mux", "internal/container", "animation", ""} {
		pk := p.SSAPkg(rel)
		if pk == nil {
			if rel == "mux" || rel == "internal/container" {
				c.AnchorMissing("V2-reader-fields", "package "+rel)
			}
			continue
		}
		for _, fn := range p.SrcFuncs() {
			if fn.Pkg != pk || fn.Blocks == nil {
				continue
			}
			type stv struct {
				name string
				ft   types.Type
				val  ssa.Value
				st   *ssa.Store
			}
			var stores []stv
			for _, b := range fn.Blocks {
				for _, in := range b.Instrs {
					st, ok := in.(*ssa.Store)
					if !ok {
						continue
					}
					fa, ok := st.Addr.(*ssa.FieldAddr)
					if !ok {
						continue
					}
					name := fieldNameOf(fa.X.Type(), fa.Field)
					if specFieldID(name) == "" {
						continue
					}
					stores = append(stores, stv{name, st.Val.Type(), st.Val, st})
				}
			}
			if len(stores) == 0 {
				continue
			}
			// V3: copies between records
			for _, s := range stores {
				var srcName string
				switch t := s.val.(type) {
				case *ssa.UnOp:
					if fa, ok := t.X.(*ssa.FieldAddr); ok && t.Op == token.MUL {
						srcName = fieldNameOf(fa.X.Type(), fa.Field)
					}
				case *ssa.Field:
					srcName = fieldNameOf(t.X.Type(), t.Field)
				}
				if srcName == "" || specFieldID(srcName) == "" {
					continue
				}
				nCopy++
				c.Func(FnName(fn))
				c.Check(specFieldID(srcName) == specFieldID(s.name), "V3-field-copy", FnName(fn)+":"+s.name, p.Pos(s.st.Pos()),
					"copied from the same header field ("+srcName+")",
					fmt.Sprintf("field %s is filled from field %s of another record: the %s of a frame is reported as its %s", s.name, srcName, specFieldID(srcName), specFieldID(s.name)))
			}
			if rel != "mux" && rel != "internal/container" {
				continue
			}
			// V2: decodes
			var dec []decodedField
			type flagDec struct {
				id, name, pos, root string
				off, mask           int64
				setConst            string
				bad                 string
			}
			var flags []flagDec
			err := kernelEval(func(x *kx) {
				f := &kframe{fn: fn, env: map[ssa.Value]kval{}}
				bindByteRoots(x, p, f)
				lazy := func(v ssa.Value) (r kval, ok bool) {
					defer func() {
						if e := recover(); e != nil {
							if _, isK := e.(kerr); isK {
								ok = false
								return
							}
							if _, isS := e.(ksplit); isS {
								ok = false
								return
							}
							panic(e)
						}
					}()
					return x.lazyVal(f, v, 0), true
				}
				for _, s := range stores {
					id := specFieldID(s.name)
					isFlag := id == "dispose" || id == "blend"
					if !isFlag {
						r, ok := lazy(s.val)
						if !ok || r.kind != kvNum {
							continue
						}
						root, off, k, bias, ok := le24Shape(r.n)
						if !ok {
							continue
						}
						dec = append(dec, decodedField{id: id, name: s.name, pos: p.Pos(s.st.Pos()), root: root, off: off, k: k, bias: bias})
						continue
					}
					// flag fields: a constant stored under a bit test, or a phi of two constants decided by one
					var cond ssa.Value
					var onTrue, onFalse *ssa.Const
					switch t := s.val.(type) {
					case *ssa.Const:
						blk := s.st.Block()
						if len(blk.Preds) == 1 {
							if iff, ok := blk.Preds[0].Instrs[len(blk.Preds[0].Instrs)-1].(*ssa.If); ok {
								cond = iff.Cond
								if blk.Preds[0].Succs[0] == blk {
									onTrue = t
								} else {
									onFalse = t
								}
							}
						}
					case *ssa.Phi:
						if len(t.Edges) == 2 {
							d := t.Block().Idom()
							if d != nil {
								if iff, ok := d.Instrs[len(d.Instrs)-1].(*ssa.If); ok {
									cond = iff.Cond
									for i, pr := range t.Block().Preds {
										k, isC := t.Edges[i].(*ssa.Const)
										if !isC {
											cond = nil
											break
										}
										switch {
										case pr == d && d.Succs[0] == t.Block(), pr == d.Succs[0] && pr != d:
											onTrue = k
										case pr == d && d.Succs[1] == t.Block(), pr == d.Succs[1] && pr != d:
											onFalse = k
										}
									}
								}
							}
						}
					}
					if cond == nil {
						continue
					}
					tv, mask, setOnTrue, ok := bitTest(cond)
					if !ok {
						continue
					}
					r, ok := lazy(tv)
					if !ok || r.kind != kvNum || len(r.n.t) != 1 || r.n.c != 0 {
						continue
					}
					var root string
					var off int64
					for key, co := range r.n.t {
						m := inAtomRe.FindStringSubmatch(key)
						if m == nil || co != 1 {
							root = ""
							break
						}
						root = m[1]
						off, _ = strconv.ParseInt(m[2], 10, 64)
					}
					if root == "" {
						continue
					}
					setC, clrC := onTrue, onFalse
					if !setOnTrue {
						setC, clrC = onFalse, onTrue
					}
					fd := flagDec{id: id, name: s.name, pos: p.Pos(s.st.Pos()), root: root, off: off, mask: mask}
					nameOf := func(k *ssa.Const) string {
						if k == nil || k.Value == nil {
							return ""
						}
						v, _ := constant.Int64Val(constant.ToInt(k.Value))
						return constName(p, s.ft, v)
					}
					if setC != nil {
						fd.setConst = nameOf(setC)
					} else if clrC != nil {
						// only the clear-bit value is stored here: the set-bit value is the record's other value
						fd.setConst = "!" + nameOf(clrC)
					}
					flags = append(flags, fd)
				}
			})
			if err != nil {
				continue
			}
			if len(dec) == 0 && len(flags) == 0 {
				continue
			}
			// group by root
			byRoot := map[string][]decodedField{}
			for _, d := range dec {
				byRoot[d.root] = append(byRoot[d.root], d)
			}
			roots := make([]string, 0, len(byRoot))
			for r := range byRoot {
				roots = append(roots, r)
			}
			sort.Strings(roots)
			for _, root := range roots {
				ds := byRoot[root]
				c.Func(FnName(fn))
				nRec++
				spec := map[string]specField{}
				for _, sf := range anmfFields {
					spec[sf.id] = sf
				}
				isFrame := false
				for _, d := range ds {
					if d.id == "x" || d.id == "y" || d.id == "duration" {
						isFrame = true
					}
				}
				// formula
				for _, d := range ds {
					sf := spec[d.id]
					c.Check(d.k == sf.scale && d.bias == sf.bias, "V2-reader-fields", FnName(fn)+":"+d.name, d.pos,
						fmt.Sprintf("%s = %d + %d*le24(%s[%d:%d]) as specified", d.name, d.bias, d.k, root, d.off, d.off+3),
						fmt.Sprintf("%s is decoded as %d + %d*le24(bytes %d..%d); the container format stores this field so that it reads %d + %d*le24: every file decodes to a different %s than the one written", d.name, d.bias, d.k, d.off, d.off+2, sf.bias, sf.scale, d.id))
				}
				// layout: one shift for the record
				want := func(id string) int64 {
					if isFrame {
						return spec[id].off
					}
					if id == "w" {
						return 4
					}
					return 7
				}
				shift := ds[0].off - want(ds[0].id)
				okLayout := true
				var lay []string
				for _, d := range ds {
					lay = append(lay, fmt.Sprintf("%s@%d", d.name, d.off))
					if d.off-want(d.id) != shift {
						okLayout = false
					}
				}
				kind := "VP8X canvas"
				if isFrame {
					kind = "ANMF frame header"
				}
				fl := ""
				for _, fd := range flags {
					if fd.root != root || !isFrame {
						continue
					}
					fl += fmt.Sprintf(" %s@%d&%d", fd.name, fd.off, fd.mask)
					var sfl specFlag
					for _, s := range anmfFlags {
						if s.id == fd.id {
							sfl = s
						}
					}
					if fd.off-15 != shift || fd.mask != sfl.mask {
						okLayout = false
					}
					pol := true
					if strings.HasPrefix(fd.setConst, "!") {
						pol = fd.setConst == "!" || !sfl.setName.MatchString(fd.setConst[1:])
					} else if fd.setConst != "" {
						pol = sfl.setName.MatchString(fd.setConst)
					}
					c.Check(pol, "V2-reader-fields", FnName(fn)+":"+fd.name+":polarity", fd.pos,
						fmt.Sprintf("bit %#x of the flags byte set selects %s", fd.mask, fd.setConst),
						fmt.Sprintf("bit %#x of the flags byte set selects %s for %s: the format defines the set bit as %s", fd.mask, fd.setConst, fd.name, map[string]string{"dispose": "dispose to background", "blend": "do not blend"}[fd.id]))
				}
				c.Check(okLayout, "V2-reader-fields", FnName(fn)+":layout:"+root, p.Pos(fn.Pos()),
					fmt.Sprintf("%s fields of %s are read at the specified distances (%s%s)", kind, root, strings.Join(lay, " "), fl),
					fmt.Sprintf("the %s fields read from %s are not at the distances the format specifies (found %s%s; specified X+0 Y+3 W+6 H+9 duration+12 flags+15 with dispose=bit0 blend=bit1, canvas W+4 H+7)", kind, root, strings.Join(lay, " "), fl))
			}
		}
	}
	c.Floor("V2-reader-fields", nRec, 4)
	c.Floor("V3-field-copy", nCopy, 3)
}
