package main

import (
	"fmt"
	"go/token"
	"go/types"

	"golang.org/x/tools/go/ssa"
)

// ---- M3: no output path bypasses the muxer while metadata is set ----
//
// The animation encoder hands ICC/EXIF/XMP to its muxer; only Muxer.Assemble writes them. A method of
// the encoder that writes bytes to the caller's writer which do not come out of Assemble (the
// single-frame "plain still image" shortcut) drops the metadata, unless that write is reached only
// under a condition that reads state the metadata setters maintain.
func c15Bypass(c *Ctx, p *Program) {
	pk := p.SSAPkg("animation")
	if pk == nil {
		c.AnchorMissing("M3-muxer-bypass", "package animation")
		return
	}
	enc, _ := pk.Members["AnimEncoder"].(*ssa.Type)
	if enc == nil {
		c.AnchorMissing("M3-muxer-bypass", "animation.AnimEncoder")
		return
	}
	st, _ := enc.Type().Underlying().(*types.Struct)
	muxIdx, wIdx := -1, -1
	for i := 0; st != nil && i < st.NumFields(); i++ {
		ft := st.Field(i).Type()
		if pt, ok := ft.(*types.Pointer); ok && shortType(pt.Elem()) == "mux.Muxer" {
			muxIdx = i
		}
		if types.TypeString(ft, nil) == "io.Writer" {
			wIdx = i
		}
	}
	if muxIdx < 0 || wIdx < 0 {
		c.AnchorMissing("M3-muxer-bypass", "AnimEncoder fields of type *mux.Muxer and io.Writer")
		return
	}
	mset := p.SSA.MethodSets.MethodSet(types.NewPointer(enc.Type()))
	var methods []*ssa.Function
	for i := 0; i < mset.Len(); i++ {
		if f := p.SSA.MethodValue(mset.At(i)); f != nil && f.Blocks != nil {
			methods = append(methods, f)
		}
	}
	recvField := func(fn *ssa.Function, v ssa.Value) int {
		// load of a field of the receiver
		ld, ok := v.(*ssa.UnOp)
		if !ok || ld.Op != token.MUL {
			return -1
		}
		fa, ok := ld.X.(*ssa.FieldAddr)
		if !ok || len(fn.Params) == 0 || fa.X != ssa.Value(fn.Params[0]) {
			return -1
		}
		return fa.Field
	}
	// metadata setters: methods that pass a []byte parameter to a method of the muxer field; the other
	// receiver fields they store are the encoder's own record of "metadata is set"
	metaState := map[int]bool{}
	nset := 0
	for _, fn := range methods {
		isSetter := false
		for _, b := range fn.Blocks {
			for _, in := range b.Instrs {
				call, ok := in.(*ssa.Call)
				if !ok || len(call.Call.Args) < 2 || recvField(fn, call.Call.Args[0]) != muxIdx {
					continue
				}
				for _, a := range call.Call.Args[1:] {
					if par, ok := a.(*ssa.Parameter); ok {
						if sl, ok := par.Type().Underlying().(*types.Slice); ok && types.TypeString(sl.Elem(), nil) == "byte" {
							isSetter = true
						}
					}
				}
			}
		}
		if !isSetter {
			continue
		}
		nset++
		for _, b := range fn.Blocks {
			for _, in := range b.Instrs {
				if s, ok := in.(*ssa.Store); ok {
					if fa, ok := s.Addr.(*ssa.FieldAddr); ok && fa.X == ssa.Value(fn.Params[0]) {
						metaState[fa.Field] = true
					}
				}
			}
		}
	}
	if nset == 0 {
		c.AnchorMissing("M3-muxer-bypass", "methods of AnimEncoder that hand a []byte to the muxer (metadata setters)")
		return
	}
	n := 0
	for _, fn := range methods {
		// buffers Assemble wrote into
		asm := map[ssa.Value]bool{}
		for _, b := range fn.Blocks {
			for _, in := range b.Instrs {
				call, ok := in.(*ssa.Call)
				if !ok || len(call.Call.Args) < 2 || recvField(fn, call.Call.Args[0]) != muxIdx {
					continue
				}
				for _, a := range call.Call.Args[1:] {
					asm[rootOfBuffer(a)] = true
				}
			}
		}
		for _, b := range fn.Blocks {
			for _, in := range b.Instrs {
				call, ok := in.(*ssa.Call)
				if !ok || !call.Call.IsInvoke() || call.Call.Method.Name() != "Write" || recvField(fn, call.Call.Value) != wIdx || len(call.Call.Args) != 1 {
					continue
				}
				n++
				key := fmt.Sprintf("%s#write%d", fn.Name(), n)
				c.Func(FnName(fn))
				data := call.Call.Args[0]
				if fromAssemble(data, asm, 0) {
					c.Pass("M3-muxer-bypass", key, p.Pos(call.Pos()), "the bytes written were assembled by the muxer, which holds the metadata")
					continue
				}
				// bypass: must be reached only under a test of the encoder's metadata state
				guarded := false
				for d := b; d != nil; d = d.Idom() {
					id := d.Idom()
					if id == nil {
						break
					}
					iff, ok := id.Instrs[len(id.Instrs)-1].(*ssa.If)
					if !ok {
						continue
					}
					if condReadsField(fn, iff.Cond, metaState, recvField, 0) {
						guarded = true
					}
				}
				c.Check(guarded, "M3-muxer-bypass", key, p.Pos(call.Pos()),
					"output that bypasses the muxer is written only under a test of the encoder's metadata state",
					fn.Name()+" writes bytes that were not assembled by the muxer (which alone writes ICC/EXIF/XMP) without testing whether metadata was set: the blobs given to the animation encoder are silently dropped on this path")
			}
		}
	}
	c.Floor("M3-muxer-bypass", n, 1)
}

// rootOfBuffer: the local buffer object behind &buf / buf.
func rootOfBuffer(v ssa.Value) ssa.Value {
	for i := 0; i < 6; i++ {
		switch x := v.(type) {
		case *ssa.MakeInterface:
			v = x.X
		case *ssa.ChangeInterface:
			v = x.X
		case *ssa.UnOp:
			if x.Op != token.MUL {
				return v
			}
			v = x.X
		default:
			return v
		}
	}
	return v
}

// fromAssemble: the written slice is obtained from a buffer that was handed to the muxer.
func fromAssemble(v ssa.Value, asm map[ssa.Value]bool, depth int) bool {
	if depth > 6 {
		return false
	}
	switch x := v.(type) {
	case *ssa.Call:
		// buf.Bytes()
		if len(x.Call.Args) >= 1 && asm[rootOfBuffer(x.Call.Args[0])] {
			return true
		}
	case *ssa.Slice:
		return fromAssemble(x.X, asm, depth+1)
	case *ssa.Phi:
		for _, e := range x.Edges {
			if !fromAssemble(e, asm, depth+1) {
				return false
			}
		}
		return len(x.Edges) > 0
	case *ssa.UnOp:
		if x.Op == token.MUL {
			if al, ok := x.X.(*ssa.Alloc); ok {
				n := 0
				for _, ref := range *al.Referrers() {
					if s, ok := ref.(*ssa.Store); ok && s.Addr == ssa.Value(al) {
						n++
						if !fromAssemble(s.Val, asm, depth+1) {
							return false
						}
					}
				}
				return n > 0
			}
		}
	}
	return asm[rootOfBuffer(v)]
}

// condReadsField: the condition depends on a load of one of the given receiver fields (directly or
// through a call of a method of the receiver that loads one).
func condReadsField(fn *ssa.Function, v ssa.Value, fields map[int]bool, recvField func(*ssa.Function, ssa.Value) int, depth int) bool {
	if depth > 6 || v == nil {
		return false
	}
	if f := recvField(fn, v); f >= 0 && fields[f] {
		return true
	}
	switch x := v.(type) {
	case *ssa.BinOp:
		return condReadsField(fn, x.X, fields, recvField, depth+1) || condReadsField(fn, x.Y, fields, recvField, depth+1)
	case *ssa.UnOp:
		return condReadsField(fn, x.X, fields, recvField, depth+1)
	case *ssa.Phi:
		for _, e := range x.Edges {
			if condReadsField(fn, e, fields, recvField, depth+1) {
				return true
			}
		}
		// short-circuit conditions: the blocks deciding the phi
		for _, pr := range x.Block().Preds {
			if iff, ok := pr.Instrs[len(pr.Instrs)-1].(*ssa.If); ok && condReadsField(fn, iff.Cond, fields, recvField, depth+1) {
				return true
			}
		}
	case *ssa.Call:
		if cal := x.Call.StaticCallee(); cal != nil && cal.Blocks != nil && len(x.Call.Args) > 0 && x.Call.Args[0] == ssa.Value(fn.Params[0]) {
			for _, b := range cal.Blocks {
				for _, in := range b.Instrs {
					if ld, ok := in.(*ssa.UnOp); ok {
						if f := recvField(cal, ld); f >= 0 && fields[f] {
							return true
						}
					}
				}
			}
		}
		for _, a := range x.Call.Args {
			if condReadsField(fn, a, fields, recvField, depth+1) {
				return true
			}
		}
	case *ssa.Convert:
		return condReadsField(fn, x.X, fields, recvField, depth+1)
	}
	return false
}
