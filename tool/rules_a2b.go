package main

// A2b: capacity-reuse agreement. For every `cap(X) >= n`-guarded reuse of a buffer
// (X[:n] on the reuse side, make(n) on the fresh side) the reuse side must establish what
// the fresh side gives - zero contents - before any element is read: clear, a full-range
// store loop, or no read at all before the buffer is fully overwritten.

import (
	"fmt"
	"go/token"
	"go/types"

	"golang.org/x/tools/go/ssa"
)

type addrKeyT struct {
	base  ssa.Value
	field int
	kind  int
}

func addrKey(v ssa.Value) (addrKeyT, bool) {
	switch x := v.(type) {
	case *ssa.UnOp:
		if x.Op == token.MUL {
			switch a := x.X.(type) {
			case *ssa.FieldAddr:
				// base may itself be re-loaded; normalise one level through loads of fields
				return addrKeyT{normBase(a.X), a.Field, 1}, true
			case *ssa.Alloc:
				return addrKeyT{a, 0, 2}, true
			case *ssa.Global:
				return addrKeyT{a, 0, 3}, true
			case *ssa.IndexAddr:
				if k, ok := addrKey(&ssa.UnOp{Op: token.MUL, X: a.X}); ok {
					k.kind += 10
					return k, true
				}
			}
		}
	case *ssa.Parameter, *ssa.FreeVar:
		return addrKeyT{v, 0, 4}, true
	case *ssa.Phi:
		for _, e := range x.Edges {
			if _, isMake := e.(*ssa.MakeSlice); isMake {
				continue
			}
			if k, ok := addrKey(e); ok {
				return k, true
			}
		}
	case *ssa.Slice:
		return addrKey(x.X)
	}
	return addrKeyT{}, false
}

func normBase(v ssa.Value) ssa.Value {
	// FieldAddr of FieldAddr (value sub-struct): identify by the chain's root + fields is overkill;
	// SSA re-creates FieldAddr instructions, so compare structurally for one level.
	if fa, ok := v.(*ssa.FieldAddr); ok {
		return fieldAddrCanon{fa.X, fa.Field}.canon()
	}
	return v
}

type fieldAddrCanon struct {
	x ssa.Value
	f int
}

var canonTab = map[fieldAddrCanon]ssa.Value{}

func (c fieldAddrCanon) canon() ssa.Value {
	if v, ok := canonTab[c]; ok {
		return v
	}
	// first FieldAddr seen with this (x, f) stands for all of them
	for _, u := range *c.x.Referrers() {
		if fa, ok := u.(*ssa.FieldAddr); ok && fa.Field == c.f {
			canonTab[c] = fa
			return fa
		}
	}
	return nil
}

func a2bReuse(c *Ctx, p *Program, rows []*reviewRow, pooled map[string]bool) {
	s := newS1(p)
	n := 0
	for _, fn := range p.SrcFuncs() {
		// cap() calls on slices
		var caps []*ssa.Call
		for _, b := range fn.Blocks {
			for _, in := range b.Instrs {
				if call, ok := in.(*ssa.Call); ok {
					if bi, ok := call.Call.Value.(*ssa.Builtin); ok && bi.Name() == "cap" {
						if _, isSlice := call.Call.Args[0].Type().Underlying().(*types.Slice); isSlice {
							caps = append(caps, call)
						}
					}
				}
			}
		}
		if len(caps) == 0 {
			continue
		}
		seenKey := map[addrKeyT]bool{}
		for _, cp := range caps {
			key, ok := addrKey(cp.Call.Args[0])
			if !ok || seenKey[key] {
				continue
			}
			// the cap result must steer a branch (reuse idiom), not plain arithmetic
			steers := false
			for _, u := range *cp.Referrers() {
				if bo, ok := u.(*ssa.BinOp); ok {
					switch bo.Op {
					case token.GEQ, token.LSS, token.GTR, token.LEQ:
						steers = true
					}
				}
			}
			if !steers {
				continue
			}
			seenKey[key] = true
			// reuse reslices of the same source: X[:n]
			roots := map[ssa.Value]string{}
			for _, b := range fn.Blocks {
				for _, in := range b.Instrs {
					sl, ok := in.(*ssa.Slice)
					if !ok {
						continue
					}
					if _, isSlice := sl.X.Type().Underlying().(*types.Slice); !isSlice {
						continue
					}
					if k2, ok := addrKey(sl.X); ok && k2 == key {
						if sl.High != nil && isZeroConst(sl.High) {
							continue // X[:0]: append-only reuse, no stale element is addressable
						}
						if sl.Low == nil || isZeroConst(sl.Low) {
							roots[sl] = "Y"
						}
					}
				}
			}
			name := describeKey(key)
			cons := FnName(fn) + ":cap(" + name + ")"
			n++
			// a slice field directly inside a pooled struct: rule A2a tracks its contents over the whole life
			if key.kind == 1 {
				if _, nested := key.base.(*ssa.FieldAddr); !nested {
					if pt, ok := key.base.Type().Underlying().(*types.Pointer); ok && pooled[shortType(pt.Elem())] {
						c.Pass("A2b-reuse", cons, p.Pos(cp.Pos()), "field of pooled type "+shortType(pt.Elem())+": contents tracked by rule A2a as "+name+"[]")
						continue
					}
				}
			}
			if len(roots) == 0 {
				c.Pass("A2b-reuse", cons, p.Pos(cp.Pos()), "capacity test without a reslice of the tested buffer (grow-only or append idiom)")
				continue
			}
			r := s.newRun(fn, types.NewStruct(nil, nil), false)
			r.roots = roots
			r.rootAddr = map[addrKeyT]string{}
			for _, b := range fn.Blocks {
				for _, in := range b.Instrs {
					if st, ok := in.(*ssa.Store); ok {
						if _, isRoot := roots[st.Val]; isRoot {
							if k, ok := addrKey(&ssa.UnOp{Op: token.MUL, X: st.Addr}); ok {
								r.rootAddr[k] = "Y"
							}
						} else if phi, ok := st.Val.(*ssa.Phi); ok {
							for _, e := range phi.Edges {
								if _, isRoot := roots[e]; isRoot {
									if k, ok := addrKey(&ssa.UnOp{Op: token.MUL, X: st.Addr}); ok {
										r.rootAddr[k] = "Y"
									}
								}
							}
						}
					}
				}
			}
			r.run(locSet{"⊤": true}.withRootsUnwritten(roots))
			site, exposed := r.ue["Y[]"]
			esc, escaped := r.rootEsc["Y"]
			c.Func(FnName(fn))
			if !exposed && !escaped {
				c.Pass("A2b-reuse", cons, p.Pos(cp.Pos()), "reused buffer is cleared or fully overwritten before any element is read in this function")
				continue
			}
			if row := findRow(rows, "reuse:"+FnName(fn), name); row != nil {
				row.used = true
				c.Pass("A2b-reuse", cons, p.Pos(cp.Pos()), "reviewed ("+row.class+"): "+row.reason)
				continue
			}
			if exposed {
				c.Fail("A2b-reuse", cons, p.Pos(site.pos), fmt.Sprintf("reuse branch differs from fresh branch: %s[:n] is reused without being cleared and an element is read (%s in %s) before the buffer is fully written; make() on the fresh branch gives zeros", name, site.note, site.via))
			} else {
				c.Fail("A2b-reuse", cons, p.Pos(cp.Pos()), fmt.Sprintf("reused buffer %s[:n] leaves this function through %s without having been cleared or fully written, and is not reviewed", name, esc))
			}
		}
	}
	c.Floor("A2b-reuse", n, 25)
	a2bExtend(c, p, rows)
}

// a2bExtend: a reslice that provably extends a slice beyond its length (x[:len(x)+k], x[:cap(x)])
// exposes whatever the backing array held before; unless the backing array was allocated in the
// same function, those bytes belong to an earlier use of the buffer.
func a2bExtend(c *Ctx, p *Program, rows []*reviewRow) {
	db := newProverDB(p)
	nsl := 0
	for _, fn := range p.SrcFuncs() {
		var pv *prover
		k := 0
		for _, b := range fn.Blocks {
			for _, in := range b.Instrs {
				sl, ok := in.(*ssa.Slice)
				if !ok || sl.High == nil {
					continue
				}
				if _, isSl := sl.X.Type().Underlying().(*types.Slice); !isSl {
					continue
				}
				nsl++
				// cheap syntactic pre-filter: High mentions len/cap of something or is an addition
				if !mentionsLenCap(sl.High, 0) {
					continue
				}
				if pv == nil {
					pv = db.proverFor(fn)
				}
				sl2 := sl
				extends := pv.proveAt(in, func(facts *[]cons) []lin {
					return []lin{gt(pv.toLin(sl2.High, facts), pv.lenLin(sl2.X, facts)).e}
				})
				if !extends {
					continue
				}
				k++
				cons := fmt.Sprintf("%s:extend#%d", FnName(fn), k)
				if freshHere(sl.X, 0) {
					c.Pass("A2b-extend", cons, p.Pos(sl.Pos()), "extends a buffer allocated in this function (contents are zero)")
					continue
				}
				if row := findRow(rows, "extend:"+FnName(fn), fmt.Sprint(k)); row != nil {
					row.used = true
					c.Pass("A2b-extend", cons, p.Pos(sl.Pos()), "reviewed ("+row.class+"): "+row.reason)
					continue
				}
				c.Fail("A2b-extend", cons, p.Pos(sl.Pos()), "reslice extends the slice beyond its length into capacity that was not allocated in this function: the exposed elements hold data from an earlier use of the buffer")
			}
		}
	}
	c.Check(nsl >= 300, "A2b-extend", "slices-scanned", "", fmt.Sprintf("%d reslices scanned", nsl), fmt.Sprintf("only %d reslices scanned", nsl))
}

func mentionsLenCap(v ssa.Value, d int) bool {
	if d > 4 {
		return false
	}
	switch x := v.(type) {
	case *ssa.Call:
		if b, ok := x.Call.Value.(*ssa.Builtin); ok && (b.Name() == "len" || b.Name() == "cap") {
			return true
		}
	case *ssa.BinOp:
		return mentionsLenCap(x.X, d+1) || mentionsLenCap(x.Y, d+1)
	case *ssa.Convert:
		return mentionsLenCap(x.X, d+1)
	}
	return false
}

func freshHere(v ssa.Value, d int) bool {
	if d > 6 {
		return false
	}
	switch x := v.(type) {
	case *ssa.MakeSlice:
		return true
	case *ssa.Slice:
		if _, ok := x.X.(*ssa.Alloc); ok {
			return true
		}
		return freshHere(x.X, d+1)
	case *ssa.Phi:
		for _, e := range x.Edges {
			if e != v && !freshHere(e, d+1) {
				return false
			}
		}
		return true
	case *ssa.Call:
		if b, ok := x.Call.Value.(*ssa.Builtin); ok && b.Name() == "append" {
			return freshHere(x.Call.Args[0], d+1)
		}
	}
	return false
}

func (w locSet) withRootsUnwritten(roots map[ssa.Value]string) locSet {
	// ⊤ would make every read "written": the run starts with nothing known about Y instead
	return locSet{}
}

func isZeroConst(v ssa.Value) bool {
	c, ok := v.(*ssa.Const)
	return ok && c.Value != nil && c.Int64() == 0
}

func describeKey(k addrKeyT) string {
	switch k.kind % 10 {
	case 1:
		if st := structOf(k.base.Type()); st != nil {
			s := st.Field(k.field).Name()
			if fa, ok := k.base.(*ssa.FieldAddr); ok {
				if st0 := structOf(fa.X.Type()); st0 != nil {
					s = st0.Field(fa.Field).Name() + "." + s
				}
			}
			if k.kind >= 10 {
				s += "[i]"
			}
			return s
		}
	case 2, 4:
		if k.base != nil {
			nm := k.base.Name()
			if a, ok := k.base.(*ssa.Alloc); ok && a.Comment != "" {
				nm = a.Comment
			}
			return nm
		}
	case 3:
		return k.base.Name()
	}
	return "buffer"
}
