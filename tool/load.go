package main

import (
	"fmt"
	"go/ast"
	"go/token"
	"go/types"
	"os"
	"path/filepath"
	"sort"
	"strings"

	"golang.org/x/tools/go/callgraph"
	"golang.org/x/tools/go/callgraph/cha"
	"golang.org/x/tools/go/callgraph/vta"
	"golang.org/x/tools/go/packages"
	"golang.org/x/tools/go/ssa"
	"golang.org/x/tools/go/ssa/ssautil"
)

const modPath = "github.com/deepteams/webp"

// Program is the resolved program for one build configuration.
type Program struct {
	Label  string
	Repo   string
	Pkgs   []*packages.Package // module packages only, sorted by path
	All    []*packages.Package
	ByPath map[string]*packages.Package
	Fset   *token.FileSet
	SSA    *ssa.Program
	cg     *callgraph.Graph
	// type errors of module packages
	Errors []string
	exprAt map[token.Pos]string
}

func goEnv(goos, goarch string) []string {
	env := []string{}
	for _, e := range os.Environ() {
		if strings.HasPrefix(e, "GOFLAGS=") || strings.HasPrefix(e, "GOWORK=") || strings.HasPrefix(e, "GOOS=") ||
			strings.HasPrefix(e, "GOARCH=") || strings.HasPrefix(e, "GOPROXY=") || strings.HasPrefix(e, "CGO_ENABLED=") ||
			strings.HasPrefix(e, "GOTOOLCHAIN=") || strings.HasPrefix(e, "GOSUMDB=") {
			continue
		}
		env = append(env, e)
	}
	env = append(env, "GOFLAGS=-mod=mod", "GOPROXY=off", "GOWORK=off", "CGO_ENABLED=0")
	if goos != "" {
		env = append(env, "GOOS="+goos, "GOARCH="+goarch)
	}
	return env
}

// loadProgram loads ./... of repo for goos/goarch ("" = host) from source.
func loadProgram(repo, goos, goarch string, withSSA bool) (*Program, error) {
	label := goos + "/" + goarch
	if goos == "" {
		label = "host"
	}
	cfg := &packages.Config{Mode: packages.LoadAllSyntax, Dir: repo, Env: goEnv(goos, goarch), Tests: false}
	all, err := packages.Load(cfg, "./...")
	if err != nil {
		return nil, fmt.Errorf("load %s: %v", label, err)
	}
	p := &Program{Label: label, Repo: repo, All: all, ByPath: map[string]*packages.Package{}}
	for _, pk := range all {
		if pk.PkgPath == modPath || strings.HasPrefix(pk.PkgPath, modPath+"/") {
			p.Pkgs = append(p.Pkgs, pk)
			p.ByPath[pk.PkgPath] = pk
			for _, e := range pk.Errors {
				p.Errors = append(p.Errors, fmt.Sprintf("%s: %s", pk.PkgPath, e.Error()))
			}
		}
	}
	sort.Slice(p.Pkgs, func(i, j int) bool { return p.Pkgs[i].PkgPath < p.Pkgs[j].PkgPath })
	if len(p.Pkgs) == 0 {
		return nil, fmt.Errorf("load %s: no module packages found under %s", label, repo)
	}
	p.Fset = all[0].Fset
	// errors in dependencies
	packages.Visit(all, nil, func(pk *packages.Package) {
		if _, mine := p.ByPath[pk.PkgPath]; !mine {
			for _, e := range pk.Errors {
				p.Errors = append(p.Errors, fmt.Sprintf("dep %s: %s", pk.PkgPath, e.Error()))
			}
		}
	})
	if withSSA && len(p.Errors) == 0 {
		prog, _ := ssautil.AllPackages(all, ssa.InstantiateGenerics)
		prog.Build()
		p.SSA = prog
	}
	return p, nil
}

func (p *Program) CallGraph() *callgraph.Graph {
	if p.cg == nil {
		p.cg = vta.CallGraph(ssautil.AllFunctions(p.SSA), cha.CallGraph(p.SSA))
	}
	return p.cg
}

// Pkg returns the module package with the given path relative to the module
// root ("" = root package, "internal/lossy", ...).
func (p *Program) Pkg(rel string) *packages.Package {
	if rel == "" || rel == "." {
		return p.ByPath[modPath]
	}
	return p.ByPath[modPath+"/"+rel]
}

func (p *Program) SSAPkg(rel string) *ssa.Package {
	pk := p.Pkg(rel)
	if pk == nil || p.SSA == nil {
		return nil
	}
	return p.SSA.Package(pk.Types)
}

// Fn finds a function or method: Fn("internal/lossy", "parseHeaders") or
// Fn("internal/lossy", "Decoder.parseHeaders") (pointer or value receiver).
func (p *Program) Fn(rel, name string) *ssa.Function {
	sp := p.SSAPkg(rel)
	if sp == nil {
		return nil
	}
	if i := strings.Index(name, "."); i >= 0 {
		tn, mn := name[:i], name[i+1:]
		obj := sp.Pkg.Scope().Lookup(tn)
		if obj == nil {
			return nil
		}
		named, ok := obj.Type().(*types.Named)
		if !ok {
			return nil
		}
		for _, t := range []types.Type{types.NewPointer(named), named} {
			ms := p.SSA.MethodSets.MethodSet(t)
			if sel := ms.Lookup(sp.Pkg, mn); sel != nil {
				if f := p.SSA.MethodValue(sel); f != nil && f.Synthetic == "" {
					return f
				}
				// wrapper: find declared method
				if fo, ok := sel.Obj().(*types.Func); ok {
					return p.SSA.FuncValue(fo)
				}
			}
		}
		return nil
	}
	return sp.Func(name)
}

// SrcFuncs returns every function with source in module packages (incl. closures,
// methods, init), sorted by position.
func (p *Program) SrcFuncs() []*ssa.Function {
	var out []*ssa.Function
	seen := map[*ssa.Function]bool{}
	var add func(f *ssa.Function)
	add = func(f *ssa.Function) {
		if f == nil || seen[f] {
			return
		}
		seen[f] = true
		if f.Blocks != nil {
			out = append(out, f)
		}
		for _, a := range f.AnonFuncs {
			add(a)
		}
	}
	for _, pk := range p.Pkgs {
		sp := p.SSA.Package(pk.Types)
		if sp == nil {
			continue
		}
		for _, m := range sp.Members {
			switch m := m.(type) {
			case *ssa.Function:
				add(m)
			case *ssa.Type:
				for _, t := range []types.Type{m.Type(), types.NewPointer(m.Type())} {
					ms := p.SSA.MethodSets.MethodSet(t)
					for i := 0; i < ms.Len(); i++ {
						if fo, ok := ms.At(i).Obj().(*types.Func); ok && fo.Pkg() == pk.Types {
							add(p.SSA.FuncValue(fo))
						}
					}
				}
			}
		}
	}
	sort.Slice(out, func(i, j int) bool {
		if out[i].Pos() != out[j].Pos() {
			return out[i].Pos() < out[j].Pos()
		}
		return out[i].String() < out[j].String()
	})
	return out
}

func (p *Program) Pos(pos token.Pos) string {
	if !pos.IsValid() {
		return "-"
	}
	q := p.Fset.Position(pos)
	rel, err := filepath.Rel(p.Repo, q.Filename)
	if err != nil || strings.HasPrefix(rel, "..") {
		rel = q.Filename
	}
	return fmt.Sprintf("%s:%d", rel, q.Line)
}

// IsModFunc reports whether f belongs to a module package.
func (p *Program) IsModFunc(f *ssa.Function) bool {
	if f == nil {
		return false
	}
	for f.Parent() != nil {
		f = f.Parent()
	}
	pk := f.Package()
	if pk == nil {
		// instantiated generic or wrapper: use object package
		if o := f.Object(); o != nil && o.Pkg() != nil {
			_, ok := p.ByPath[o.Pkg().Path()]
			return ok
		}
		if f.Origin() != nil {
			return p.IsModFunc(f.Origin())
		}
		return false
	}
	_, ok := p.ByPath[pk.Pkg.Path()]
	return ok
}

// FnName gives a stable short name: "lossy.(*Decoder).parseHeaders", closures "lossy.f$1".
func FnName(f *ssa.Function) string {
	if f == nil {
		return "<nil>"
	}
	s := f.String()
	s = strings.ReplaceAll(s, modPath+"/internal/", "")
	s = strings.ReplaceAll(s, modPath+"/", "")
	s = strings.ReplaceAll(s, modPath+".", "webp.")
	s = strings.ReplaceAll(s, modPath, "webp")
	return s
}

func shortType(t types.Type) string {
	s := types.TypeString(t, func(p *types.Package) string { return p.Name() })
	return s
}

// Reachable returns the set of functions reachable from roots in the call graph.
func (p *Program) Reachable(roots ...*ssa.Function) map[*ssa.Function]bool {
	cg := p.CallGraph()
	seen := map[*ssa.Function]bool{}
	var stack []*ssa.Function
	for _, r := range roots {
		if r != nil && !seen[r] {
			seen[r] = true
			stack = append(stack, r)
		}
	}
	for len(stack) > 0 {
		f := stack[len(stack)-1]
		stack = stack[:len(stack)-1]
		n := cg.Nodes[f]
		if n == nil {
			continue
		}
		for _, e := range n.Out {
			c := e.Callee.Func
			if !seen[c] {
				seen[c] = true
				stack = append(stack, c)
			}
		}
		// closures created in f are considered reachable (conservative)
		for _, a := range f.AnonFuncs {
			if !seen[a] {
				seen[a] = true
				stack = append(stack, a)
			}
		}
	}
	return seen
}

// FuncDecl finds the AST declaration of a function/method in a package.
func FuncDecl(pk *packages.Package, recv, name string) *ast.FuncDecl {
	for _, f := range pk.Syntax {
		for _, d := range f.Decls {
			fd, ok := d.(*ast.FuncDecl)
			if !ok || fd.Name.Name != name {
				continue
			}
			if recv == "" {
				if fd.Recv == nil {
					return fd
				}
				continue
			}
			if fd.Recv == nil || len(fd.Recv.List) == 0 {
				continue
			}
			t := fd.Recv.List[0].Type
			if s, ok := t.(*ast.StarExpr); ok {
				t = s.X
			}
			if id, ok := t.(*ast.Ident); ok && id.Name == recv {
				return fd
			}
		}
	}
	return nil
}

// ExprText returns the source text of the index or slice expression whose '[' is at pos
// ("" when there is none: range loops, synthesized code).
func (p *Program) ExprText(pos token.Pos) string {
	if !pos.IsValid() {
		return ""
	}
	if p.exprAt == nil {
		p.exprAt = map[token.Pos]string{}
		for _, pk := range p.Pkgs {
			for _, f := range pk.Syntax {
				ast.Inspect(f, func(n ast.Node) bool {
					switch x := n.(type) {
					case *ast.IndexExpr:
						p.exprAt[x.Lbrack] = types.ExprString(x)
					case *ast.SliceExpr:
						p.exprAt[x.Lbrack] = types.ExprString(x)
					}
					return true
				})
			}
		}
	}
	return p.exprAt[pos]
}
