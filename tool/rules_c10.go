package main

// A4: concurrency typestate (C10). Structural rules over goroutine spawns, the
// WaitGroup join discipline, writes performed by goroutine bodies, the
// condition-variable row pipeline, lock pairing and package-level state.

import (
	"fmt"
	"go/token"
	"go/types"
	"path/filepath"
	"sort"
	"strings"

	"golang.org/x/tools/go/ssa"
)

func init() { register("C10", runC10) }

func runC10(c *Ctx) {
	c.Rule("G1 join: every go statement is tied to a sync.WaitGroup whose Add dominates the spawn, whose Done runs on every path of the goroutine body (deferred, or as the last action of every exit) and whose Wait lies on every path from the spawn to a return of the spawning function - or the goroutine is the closer of a result channel that the spawner drains")
	c.Rule("G2 captured writes: code run by a goroutine stores only to its own locals, to memory it allocated or acquired itself, to per-worker objects handed to it, to elements of shared slices whose index depends on the goroutine's work assignment (its parameters, its partition loop variable or a ticket drawn from an atomic counter), through sync/atomic, or under a held mutex; a store to a captured variable or to a shared element at an index that does not depend on the work assignment is allowed only inside the wait..signal window of the row pipeline (G4)")
	c.Rule("G6 partition-local reads: a goroutine that writes S[i] at its own indices reads S[i+c] / S[i-c] (c != 0) only under a comparison of the index with one of its parameters (its partition bounds)")
	c.Rule("G3 wake-up protocol: in every type that pairs an atomic progress counter and an atomic waiter count with a mutex and a sync.Cond: Cond.Wait is called only inside a loop that re-reads the counter, with the mutex held and after the waiter count was incremented; the signaller stores the counter before it reads the waiter count and takes and releases the mutex before Broadcast")
	c.Rule("G4 row window: in the function that processes a claimed row, the wait on the row above precedes, and the signal of the own row follows, every access to the shared context arrays at indices that do not depend on the claimed row")
	c.Rule("G5 lock pairing: every Mutex.Lock is followed by Unlock on all paths (or deferred)")
	c.Rule("G7 package state: no package-level variable is stored to outside init functions, sync.Once bodies and functions only reachable from them")
	c.Rule("G9 atomic control: no goroutine body branches on a value loaded from an atomic variable that the goroutines of the same spawner also update (tickets obtained from Add are not loads; the wait/signal protocol type is checked by G3)")
	c.Assume("G8 accepts arg-min/arg-max selection by a message-carried key; this is order independent when the producers' keys are distinct (they are the work indices)")
	c.Rule("A2c (shared with C11): nothing derived from a pooled object is used, stored or returned after it was put back")
	c.NotCovered("element-wise disjointness of partitioned writes is checked only as 'the index depends on the work assignment', not proven; freedom from deadlock other than the lost wake-up pattern of G3")
	c.Rule("G8 arrival order: where several goroutines send to one channel, the receiving loop keeps from the messages only what does not depend on their order: stores to slots indexed by a value carried in the message, and variables folded with commutative-associative operators (+ * | & ^ min max) or set to constants; first-arrival / last-arrival selection and append are reported")
	rows, err := loadReview(filepath.Join(c.Verif, "tables", "concurrency.txt"))
	if err != nil {
		c.Fail("internal", "tables/concurrency.txt", "", err.Error())
		return
	}
	c.Table("tables/concurrency.txt")
	for _, cf := range c.configsFor() {
		p := c.load(cf[0], cf[1])
		if p == nil {
			continue
		}
		g := &a4{c: c, p: p, rows: rows}
		g.joins()
		g.capturedWrites()
		g.neighbourReads()
		g.arrivalOrder()
		g.atomicControl()
		g.wakeup()
		g.lockPairing()
		g.globals()
		a2cPut(c, p)
	}
	for _, r := range rows {
		if !r.used {
			c.SetConfig("tables")
			c.Stale("concurrency:" + r.typ + ":" + r.loc)
		}
	}
}

type a4 struct {
	c    *Ctx
	p    *Program
	rows []*reviewRow
	s1c  *s1
}

func (g *a4) s1() *s1 {
	if g.s1c == nil {
		g.s1c = newS1(g.p)
	}
	return g.s1c
}

func (g *a4) reviewed(kind, key string) *reviewRow {
	if r := findRow(g.rows, kind, key); r != nil {
		r.used = true
		return r
	}
	return nil
}

func isMethodOf(callee *ssa.Function, pkg, typ, name string) bool {
	if callee == nil || callee.Name() != name || callee.Signature.Recv() == nil {
		return false
	}
	t := callee.Signature.Recv().Type()
	if pt, ok := t.(*types.Pointer); ok {
		t = pt.Elem()
	}
	n, ok := t.(*types.Named)
	return ok && n.Obj().Pkg() != nil && n.Obj().Pkg().Path() == pkg && n.Obj().Name() == typ
}

// cellOf resolves a receiver value to the variable cell it denotes (alloc in the spawner,
// or the free variable of a closure bound to it).
func cellOf(v ssa.Value) ssa.Value {
	for i := 0; i < 6; i++ {
		switch x := v.(type) {
		case *ssa.FieldAddr:
			v = x.X
			continue
		case *ssa.UnOp:
			if x.Op == token.MUL {
				v = x.X
				continue
			}
		}
		break
	}
	return v
}

// bodyOf returns the function run by a go statement.
func bodyOf(gs *ssa.Go) *ssa.Function {
	switch v := gs.Call.Value.(type) {
	case *ssa.MakeClosure:
		return v.Fn.(*ssa.Function)
	case *ssa.Function:
		return v
	}
	return gs.Call.StaticCallee()
}

// bindingOf maps a free variable of the closure spawned by gs to the spawner's value.
func bindingOf(gs *ssa.Go, fv ssa.Value) ssa.Value {
	mc, ok := gs.Call.Value.(*ssa.MakeClosure)
	if !ok {
		return nil
	}
	fn := mc.Fn.(*ssa.Function)
	for i, f := range fn.FreeVars {
		if ssa.Value(f) == fv {
			return mc.Bindings[i]
		}
	}
	return nil
}

func (g *a4) goStmts() []*ssa.Go {
	var out []*ssa.Go
	for _, fn := range g.p.SrcFuncs() {
		for _, b := range fn.Blocks {
			for _, in := range b.Instrs {
				if gs, ok := in.(*ssa.Go); ok {
					out = append(out, gs)
				}
			}
		}
	}
	return out
}

// ---- G1 ----

func (g *a4) joins() {
	c, p := g.c, g.p
	gos := g.goStmts()
	perFn := map[*ssa.Function]int{}
	for _, gs := range gos {
		fn := gs.Parent()
		perFn[fn]++
		key := fmt.Sprintf("%s:go#%d", FnName(fn), perFn[fn])
		pos := p.Pos(gs.Pos())
		c.Func(FnName(fn))
		body := bodyOf(gs)
		if body == nil || body.Blocks == nil {
			c.Fail("G1-join", key, pos, "cannot resolve the function run by the go statement")
			continue
		}
		// WaitGroup methods called in the body
		var doneCalls []ssa.CallInstruction
		var waitInBody []ssa.CallInstruction
		for _, b := range body.Blocks {
			for _, in := range b.Instrs {
				ci, ok := in.(ssa.CallInstruction)
				if !ok {
					continue
				}
				callee := ci.Common().StaticCallee()
				if isMethodOf(callee, "sync", "WaitGroup", "Done") {
					doneCalls = append(doneCalls, ci)
				}
				if isMethodOf(callee, "sync", "WaitGroup", "Wait") {
					waitInBody = append(waitInBody, ci)
				}
			}
		}
		if len(doneCalls) == 0 {
			// closer idiom: body = wg.Wait(); close(ch); spawner ranges over ch
			if len(waitInBody) > 0 && closesChannel(body) && spawnerDrains(gs) {
				c.Pass("G1-join", key, pos, "closer goroutine: waits for the workers, then closes the result channel that the spawner drains")
				continue
			}
			c.Fail("G1-join", key, pos, "the goroutine never calls WaitGroup.Done and is not the closer of a drained channel: nothing orders its completion before the results are used")
			continue
		}
		// Done on every path: deferred Done, or every return block's last call is Done
		doneOK := false
		for _, d := range doneCalls {
			if _, isDefer := d.(*ssa.Defer); isDefer && d.Block() == body.Blocks[0] {
				doneOK = true
			}
		}
		if !doneOK {
			doneOK = true
			for _, b := range body.Blocks {
				if _, isRet := b.Instrs[len(b.Instrs)-1].(*ssa.Return); !isRet {
					continue
				}
				// the return must be preceded, in its block or in a dominating block on all paths, by Done
				found := false
				for _, d := range doneCalls {
					if _, isDefer := d.(*ssa.Defer); isDefer {
						continue
					}
					if d.Block() == b || d.Block().Dominates(b) {
						found = true
					}
				}
				if !found {
					doneOK = false
				}
			}
		}
		if !doneOK {
			c.Fail("G1-join", key, pos, "WaitGroup.Done is not reached on every exit of the goroutine body (neither deferred first nor before every return)")
			continue
		}
		// the WaitGroup cell in the spawner
		wgCell := cellOf(doneCalls[0].Common().Args[0])
		spCell := wgCell
		if _, isFV := wgCell.(*ssa.FreeVar); isFV {
			spCell = bindingOf(gs, wgCell)
		} else if par, isPar := wgCell.(*ssa.Parameter); isPar {
			// passed as argument
			for i, q := range body.Params {
				if q == par && i < len(gs.Call.Args) {
					spCell = cellOf(gs.Call.Args[i])
				}
			}
		}
		if spCell == nil {
			c.Fail("G1-join", key, pos, "cannot identify the WaitGroup of the spawning function")
			continue
		}
		// Add dominates the go; Wait on every path from go to return
		addOK, waitBlocks := false, map[*ssa.BasicBlock][]int{}
		for _, b := range fn.Blocks {
			for i, in := range b.Instrs {
				ci, ok := in.(ssa.CallInstruction)
				if !ok {
					continue
				}
				callee := ci.Common().StaticCallee()
				if isMethodOf(callee, "sync", "WaitGroup", "Add") && cellOf(ci.Common().Args[0]) == spCell {
					if b == gs.Block() || b.Dominates(gs.Block()) {
						addOK = true
					}
				}
				if isMethodOf(callee, "sync", "WaitGroup", "Wait") && cellOf(ci.Common().Args[0]) == spCell {
					if _, isGo := in.(*ssa.Go); !isGo {
						waitBlocks[b] = append(waitBlocks[b], i)
					}
				}
			}
		}
		// a closer goroutine waiting on the same group counts as the join when the spawner drains its channel
		closerJoin := false
		for _, g2 := range gos {
			if g2.Parent() == fn && g2 != gs {
				b2 := bodyOf(g2)
				if b2 != nil && closesChannel(b2) && spawnerDrains(g2) {
					for _, b := range b2.Blocks {
						for _, in := range b.Instrs {
							if ci, ok := in.(ssa.CallInstruction); ok && isMethodOf(ci.Common().StaticCallee(), "sync", "WaitGroup", "Wait") {
								if fv, ok := cellOf(ci.Common().Args[0]).(*ssa.FreeVar); ok && bindingOf(g2, fv) == spCell {
									closerJoin = true
								}
							}
						}
					}
				}
			}
		}
		if !addOK {
			c.Fail("G1-join", key, pos, "no WaitGroup.Add on the goroutine's WaitGroup dominates the go statement")
			continue
		}
		if closerJoin {
			c.Pass("G1-join", key, pos, "joined through the closer goroutine and the drained result channel")
			continue
		}
		if !allPathsHitWait(gs, waitBlocks) {
			c.Fail("G1-join", key, pos, "a path from the go statement to a return of "+FnName(fn)+" does not pass WaitGroup.Wait: results may be read before the goroutine has finished")
			continue
		}
		c.Pass("G1-join", key, pos, "Add dominates the spawn, Done runs on every exit of the body, Wait lies on every path to a return")
	}
	c.Floor("G1-join", len(gos), 10)
}

func closesChannel(fn *ssa.Function) bool {
	for _, b := range fn.Blocks {
		for _, in := range b.Instrs {
			if call, ok := in.(*ssa.Call); ok {
				if bi, ok := call.Call.Value.(*ssa.Builtin); ok && bi.Name() == "close" {
					return true
				}
			}
		}
	}
	return false
}

// spawnerDrains: the spawning function receives from a channel in a loop after the go statement.
func spawnerDrains(gs *ssa.Go) bool {
	for _, in := range instrsAfter(gs.Parent(), gs, gs.Call.Value) {
		if u, ok := in.(*ssa.UnOp); ok && u.Op == token.ARROW && u.CommaOk {
			return true
		}
		// the drain loop may live in a helper that is handed the channel (range over a parameter)
		if call, ok := in.(*ssa.Call); ok {
			cal := call.Common().StaticCallee()
			if cal == nil || cal.Blocks == nil {
				continue
			}
			args := call.Common().Args
			for i, a := range args {
				if _, isChan := a.Type().Underlying().(*types.Chan); !isChan || i >= len(cal.Params) {
					continue
				}
				for _, b := range cal.Blocks {
					for _, in2 := range b.Instrs {
						if u, ok := in2.(*ssa.UnOp); ok && u.Op == token.ARROW && u.CommaOk && u.X == ssa.Value(cal.Params[i]) {
							return true
						}
					}
				}
			}
		}
	}
	return false
}

func allPathsHitWait(gs *ssa.Go, waitBlocks map[*ssa.BasicBlock][]int) bool {
	// search from the go statement; a path that reaches a Return without crossing a Wait is a violation
	start := gs.Block()
	idx := 0
	for i, in := range start.Instrs {
		if in == ssa.Instruction(gs) {
			idx = i
		}
	}
	type st struct {
		b    *ssa.BasicBlock
		from int
	}
	seen := map[*ssa.BasicBlock]bool{}
	stack := []st{{start, idx + 1}}
	for len(stack) > 0 {
		s := stack[len(stack)-1]
		stack = stack[:len(stack)-1]
		hit := false
		for _, wi := range waitBlocks[s.b] {
			if wi >= s.from {
				hit = true
			}
		}
		if hit {
			continue
		}
		if _, isRet := s.b.Instrs[len(s.b.Instrs)-1].(*ssa.Return); isRet {
			return false
		}
		for _, n := range s.b.Succs {
			if !seen[n] {
				seen[n] = true
				stack = append(stack, st{n, 0})
			}
		}
	}
	return true
}

// ---- G2 / G4 ----

// gctx is the analysis of one function in goroutine context.
type gctx struct {
	g      *a4
	fn     *ssa.Function
	shared map[ssa.Value]bool // values denoting memory that other goroutines may access
	pdep   map[ssa.Value]bool // values that depend on the goroutine's work assignment
	perW   map[ssa.Value]bool // per-worker objects handed to this goroutine
}

func (g *a4) capturedWrites() {
	c, p := g.c, g.p
	gos := g.goStmts()
	perFn := map[*ssa.Function]int{}
	nst := 0
	for _, gs := range gos {
		fn := gs.Parent()
		perFn[fn]++
		body := bodyOf(gs)
		if body == nil || body.Blocks == nil {
			continue
		}
		key := fmt.Sprintf("%s:go#%d", FnName(fn), perFn[fn])
		// seeds
		shared := map[ssa.Value]bool{}
		pdep := map[ssa.Value]bool{}
		perW := map[ssa.Value]bool{}
		for _, fv := range body.FreeVars {
			shared[fv] = true
		}
		// parameters of the body: integers are the work assignment; pointers/slices computed from
		// a per-spawn index are per-worker objects, other pointer-like arguments are shared
		for i, par := range body.Params {
			if i >= len(gs.Call.Args) {
				continue
			}
			arg := gs.Call.Args[i]
			if isIntLike(par.Type()) {
				pdep[par] = true
				continue
			}
			if pointerLike(par.Type()) {
				if indexedBySpawnVar(arg) {
					perW[par] = true
				} else {
					shared[par] = true
				}
			}
		}
		seen := map[string]bool{}
		viol := g.checkGoroutineFn(body, shared, pdep, perW, 0, seen)
		nst++
		if len(viol) == 0 {
			c.Pass("G2-writes", key, p.Pos(gs.Pos()), "the goroutine stores only to locals, its own allocations, per-worker objects, work-indexed elements of shared slices, atomics, or inside the wait..signal window")
			continue
		}
		sort.Strings(viol)
		for i, v := range viol {
			k2 := fmt.Sprintf("%s:%s", key, strings.SplitN(v, " ", 2)[0])
			if r := g.reviewed("G2", k2); r != nil {
				c.Pass("G2-writes", k2, p.Pos(gs.Pos()), "reviewed: "+r.reason)
				continue
			}
			_ = i
			c.Fail("G2-writes", k2, p.Pos(gs.Pos()), "goroutine started at "+p.Pos(gs.Pos())+": "+strings.SplitN(v, " ", 2)[1])
		}
	}
	c.Floor("G2-writes", nst, 10)
}

// indexedBySpawnVar: &workers[wi] style argument: address of an element selected by a loop variable.
func indexedBySpawnVar(v ssa.Value) bool {
	for i := 0; i < 4; i++ {
		switch x := v.(type) {
		case *ssa.IndexAddr:
			_, isConst := x.Index.(*ssa.Const)
			return !isConst
		case *ssa.FieldAddr:
			v = x.X
		case *ssa.Slice:
			v = x.X
		default:
			return false
		}
	}
	return false
}

// checkGoroutineFn returns violations "site message" for stores in fn and its callees.
func (g *a4) checkGoroutineFn(fn *ssa.Function, shared, pdep, perW map[ssa.Value]bool, depth int, seen map[string]bool) []string {
	var viol []string
	if fn.Blocks == nil || depth > 5 {
		return nil
	}
	sig := FnName(fn) + "|"
	for _, par := range fn.Params {
		switch {
		case shared[par]:
			sig += "s"
		case pdep[par]:
			sig += "p"
		case perW[par]:
			sig += "w"
		default:
			sig += "-"
		}
	}
	if seen[sig] {
		return nil
	}
	seen[sig] = true
	g.c.Func(FnName(fn))
	// propagate classifications to a fixpoint
	for changed := true; changed; {
		changed = false
		mark := func(m map[ssa.Value]bool, v ssa.Value) {
			if !m[v] {
				m[v] = true
				changed = true
			}
		}
		for _, b := range fn.Blocks {
			for _, in := range b.Instrs {
				v, ok := in.(ssa.Value)
				if !ok {
					continue
				}
				switch x := in.(type) {
				case *ssa.FieldAddr:
					if shared[x.X] {
						mark(shared, v)
					}
					if perW[x.X] {
						mark(perW, v)
					}
					if pdep[x.X] {
						mark(pdep, v)
					}
				case *ssa.IndexAddr:
					if shared[x.X] {
						mark(shared, v)
					}
					if perW[x.X] {
						mark(perW, v)
					}
					if pdep[x.Index] || pdep[x.X] {
						mark(pdep, v) // an element selected by the work assignment
					}
				case *ssa.Slice:
					if shared[x.X] {
						mark(shared, v)
					}
					if perW[x.X] {
						mark(perW, v)
					}
					if pdep[x.Low] || pdep[x.High] {
						mark(pdep, v) // a window selected by the work assignment
					}
				case *ssa.UnOp:
					if x.Op == token.MUL {
						// loading a pointer/slice out of shared memory yields shared memory
						if pointerLike(x.Type()) {
							if shared[x.X] {
								mark(shared, v)
							}
							if perW[x.X] {
								mark(perW, v)
							}
						}
						// a value read from a slot selected by the work assignment is itself assignment-specific
						if pdep[x.X] {
							mark(pdep, v)
						}
						if al, ok := x.X.(*ssa.Alloc); ok {
							for _, u := range *al.Referrers() {
								if st, ok := u.(*ssa.Store); ok && st.Addr == ssa.Value(al) {
									if pdep[st.Val] {
										mark(pdep, v)
									}
									if shared[st.Val] && pointerLike(x.Type()) {
										mark(shared, v)
									}
									if perW[st.Val] && pointerLike(x.Type()) {
										mark(perW, v)
									}
								}
							}
						}
					} else if pdep[x.X] {
						mark(pdep, v)
					} else if x.Op == token.ARROW {
						// a value received from a channel is a unit of work handed to this goroutine alone:
						// each sent value is delivered to exactly one receiver
						mark(pdep, v)
					}
				case *ssa.BinOp:
					if pdep[x.X] || pdep[x.Y] {
						mark(pdep, v)
					}
				case *ssa.Convert:
					if pdep[x.X] {
						mark(pdep, v)
					}
				case *ssa.ChangeType:
					if pdep[x.X] {
						mark(pdep, v)
					}
					if shared[x.X] {
						mark(shared, v)
					}
				case *ssa.Phi:
					for _, e := range x.Edges {
						if pdep[e] {
							mark(pdep, v)
						}
						if shared[e] {
							mark(shared, v)
						}
						if perW[e] {
							mark(perW, v)
						}
					}
				case *ssa.Call:
					callee := x.Call.StaticCallee()
					// a ticket drawn from an atomic counter is a work assignment
					if callee != nil && callee.Pkg != nil && callee.Pkg.Pkg.Path() == "sync/atomic" && strings.HasPrefix(callee.Name(), "Add") {
						mark(pdep, v)
					}
					if bi, ok := x.Call.Value.(*ssa.Builtin); ok && (bi.Name() == "min" || bi.Name() == "max") {
						for _, a := range x.Call.Args {
							if pdep[a] {
								mark(pdep, v)
							}
						}
					}
					// results of small arithmetic helpers of partition-dependent arguments
					if callee != nil && isIntLike(x.Type()) {
						for _, a := range x.Call.Args {
							if pdep[a] {
								mark(pdep, v)
							}
						}
					}
				case *ssa.Extract:
					if pdep[x.Tuple] {
						mark(pdep, v)
					}
				}
			}
		}
	}
	// wait/signal windows (G4)
	win := g.windowFn(fn)
	mutexHeld := lockedBlocks(fn)
	nsite := 0
	for _, b := range fn.Blocks {
		for _, in := range b.Instrs {
			switch x := in.(type) {
			case *ssa.Store:
				if !shared[x.Addr] || perW[x.Addr] {
					continue
				}
				if mutexHeld[b] || win(in) {
					continue
				}
				nsite++
				site := fmt.Sprintf("%s:store#%d", FnName(fn), nsite)
				if pdep[x.Addr] {
					continue
				}
				if ia := elemIndex(x.Addr); ia != nil {
					if pdep[ia.Index] || pdep[ia.X] {
						continue
					}
					viol = append(viol, fmt.Sprintf("%s %s stores to element %s of shared memory at %s with an index that does not depend on the goroutine's work assignment: concurrent goroutines write the same elements", site, FnName(fn), describeAddr(x.Addr), g.p.Pos(x.Pos())))
				} else {
					viol = append(viol, fmt.Sprintf("%s %s stores to shared variable %s at %s without atomic, mutex or ordering window", site, FnName(fn), describeAddr(x.Addr), g.p.Pos(x.Pos())))
				}
			case ssa.CallInstruction:
				cc := x.Common()
				if bi, ok := cc.Value.(*ssa.Builtin); ok {
					if (bi.Name() == "copy" || bi.Name() == "clear") && shared[cc.Args[0]] && !perW[cc.Args[0]] && !pdep[cc.Args[0]] && !mutexHeld[b] && !win(in) {
						nsite++
						viol = append(viol, fmt.Sprintf("%s:store#%d %s overwrites shared slice with %s at %s outside any work-indexed window", FnName(fn), nsite, FnName(fn), bi.Name(), g.p.Pos(x.Pos())))
					}
					continue
				}
				var callees []*ssa.Function
				if sc := cc.StaticCallee(); sc != nil {
					callees = []*ssa.Function{sc}
				} else if mc, ok := cc.Value.(*ssa.MakeClosure); ok {
					callees = []*ssa.Function{mc.Fn.(*ssa.Function)}
				} else if n := g.p.CallGraph().Nodes[fn]; n != nil {
					for _, e := range n.Out {
						if e.Site == x {
							callees = append(callees, e.Callee.Func)
						}
					}
				}
				for _, callee := range callees {
					if callee.Blocks == nil {
						continue
					}
					if callee.Pkg != nil {
						switch callee.Pkg.Pkg.Path() {
						case "sync", "sync/atomic":
							continue
						}
					}
					if !g.p.IsModFunc(callee) {
						continue
					}
					if mutexHeld[b] || win(in) {
						continue
					}
					s2, p2, w2 := map[ssa.Value]bool{}, map[ssa.Value]bool{}, map[ssa.Value]bool{}
					args := cc.Args
					any := false
					for i, a := range args {
						if i >= len(callee.Params) {
							break
						}
						par := callee.Params[i]
						if pdep[a] {
							p2[par] = true
						}
						if perW[a] {
							w2[par] = true
							any = true
						} else if shared[a] && !pdep[a] {
							s2[par] = true
							any = true
						} else if shared[a] && pdep[a] {
							// a window of shared memory selected by the work assignment: exclusive
							w2[par] = true
						}
					}
					if mc, ok := cc.Value.(*ssa.MakeClosure); ok {
						for i, bnd := range mc.Bindings {
							fv := callee.FreeVars[i]
							if shared[bnd] {
								s2[fv] = true
								any = true
							}
							if pdep[bnd] {
								p2[fv] = true
							}
						}
					}
					if !any {
						continue
					}
					viol = append(viol, g.checkGoroutineFn(callee, s2, p2, w2, depth+1, seen)...)
				}
			}
		}
	}
	return viol
}

func elemIndex(addr ssa.Value) *ssa.IndexAddr {
	for i := 0; i < 4; i++ {
		switch x := addr.(type) {
		case *ssa.IndexAddr:
			return x
		case *ssa.FieldAddr:
			addr = x.X
		default:
			return nil
		}
	}
	return nil
}

// windowFn returns a predicate telling whether an instruction of fn lies, within one loop
// iteration, after a wait call on a cond-based progress object and before the signal call (G4).
func (g *a4) windowFn(fn *ssa.Function) func(in ssa.Instruction) bool {
	type site struct {
		b   *ssa.BasicBlock
		idx int
	}
	var waits, signals []site
	pos := map[ssa.Instruction]site{}
	for _, b := range fn.Blocks {
		for i, in := range b.Instrs {
			pos[in] = site{b, i}
			ci, ok := in.(ssa.CallInstruction)
			if !ok {
				continue
			}
			callee := ci.Common().StaticCallee()
			if callee == nil || callee.Blocks == nil {
				continue
			}
			if callsCond(callee, "Wait") {
				waits = append(waits, site{b, i})
			}
			if callsCond(callee, "Broadcast") || callsCond(callee, "Signal") {
				signals = append(signals, site{b, i})
			}
		}
	}
	if len(waits) == 0 || len(signals) == 0 {
		return func(ssa.Instruction) bool { return false }
	}
	loopHeader := func(b *ssa.BasicBlock) *ssa.BasicBlock {
		for d := b; d != nil; d = d.Idom() {
			for _, pr := range d.Preds {
				if d.Dominates(pr) {
					return d
				}
			}
		}
		return nil
	}
	reachAvoid := func(from, to, avoid *ssa.BasicBlock) bool {
		seen := map[*ssa.BasicBlock]bool{}
		st := append([]*ssa.BasicBlock{}, from.Succs...)
		for len(st) > 0 {
			x := st[len(st)-1]
			st = st[:len(st)-1]
			if seen[x] || x == avoid {
				continue
			}
			seen[x] = true
			if x == to {
				return true
			}
			st = append(st, x.Succs...)
		}
		return false
	}
	// a precedes b within one iteration of the loop with header h
	precedes := func(a, b site, h *ssa.BasicBlock) bool {
		if a.b == b.b {
			return a.idx < b.idx
		}
		return reachAvoid(a.b, b.b, h) && !reachAvoid(b.b, a.b, h)
	}
	return func(in ssa.Instruction) bool {
		p, ok := pos[in]
		if !ok {
			return false
		}
		after := false
		for _, w := range waits {
			if precedes(w, p, loopHeader(w.b)) {
				after = true
			}
		}
		if !after {
			return false
		}
		for _, s := range signals {
			h := loopHeader(s.b)
			if !precedes(p, s, h) {
				continue
			}
			// the signal must be unavoidable: from p's block every way back to the header or out passes it
			if p.b == s.b || !escapesBefore(p.b, s.b, h) {
				return true
			}
		}
		return false
	}
}

// escapesBefore: from block a one can reach the loop header h (next iteration) or a return without passing s.
func escapesBefore(a, s, h *ssa.BasicBlock) bool {
	seen := map[*ssa.BasicBlock]bool{}
	st := append([]*ssa.BasicBlock{}, a.Succs...)
	for len(st) > 0 {
		x := st[len(st)-1]
		st = st[:len(st)-1]
		if seen[x] || x == s {
			continue
		}
		seen[x] = true
		if x == h {
			return true
		}
		if _, isRet := x.Instrs[len(x.Instrs)-1].(*ssa.Return); isRet {
			return true
		}
		st = append(st, x.Succs...)
	}
	return false
}

func callsCond(fn *ssa.Function, method string) bool {
	for _, b := range fn.Blocks {
		for _, in := range b.Instrs {
			if ci, ok := in.(ssa.CallInstruction); ok && isMethodOf(ci.Common().StaticCallee(), "sync", "Cond", method) {
				return true
			}
		}
	}
	return false
}

// reachesWithout: every path from a leads to b's signal before leaving the loop iteration; approximated by
// "b is reachable from a and a does not reach a return without passing b".
func reachesWithout(a, b *ssa.BasicBlock, stop []*ssa.BasicBlock) bool {
	seen := map[*ssa.BasicBlock]bool{}
	var st []*ssa.BasicBlock
	st = append(st, a.Succs...)
	hit := false
	for len(st) > 0 {
		x := st[len(st)-1]
		st = st[:len(st)-1]
		if seen[x] {
			continue
		}
		seen[x] = true
		if x == b {
			hit = true
			continue
		}
		if _, isRet := x.Instrs[len(x.Instrs)-1].(*ssa.Return); isRet {
			return false
		}
		isStop := false
		for _, s := range stop {
			if s == x {
				isStop = true
			}
		}
		if isStop {
			return false // came back to the next iteration's wait without signalling
		}
		st = append(st, x.Succs...)
	}
	return hit
}

// lockedBlocks: blocks executed with some mutex held (between Lock and Unlock in the same function).
func lockedBlocks(fn *ssa.Function) map[*ssa.BasicBlock]bool {
	out := map[*ssa.BasicBlock]bool{}
	for _, b := range fn.Blocks {
		for _, in := range b.Instrs {
			ci, ok := in.(ssa.CallInstruction)
			if !ok {
				continue
			}
			if isMethodOf(ci.Common().StaticCallee(), "sync", "Mutex", "Lock") || isMethodOf(ci.Common().StaticCallee(), "sync", "RWMutex", "Lock") {
				// blocks dominated by the lock block until an unlock: approximate with dominated blocks
				for _, b2 := range fn.Blocks {
					if b.Dominates(b2) {
						out[b2] = true
					}
				}
			}
		}
	}
	return out
}

// ---- G3 ----

func (g *a4) wakeup() {
	c, p := g.c, g.p
	n := 0
	for _, fn := range p.SrcFuncs() {
		hasWait := len(callsTo(fn, "sync", "Cond", "Wait")) > 0
		hasBroadcast := len(callsTo(fn, "sync", "Cond", "Broadcast"))+len(callsTo(fn, "sync", "Cond", "Signal")) > 0
		// a helper method of the protocol (called by another method of the same receiver type that is
		// checked with the helper looked through) is not a protocol function by itself
		if hasWait || hasBroadcast {
			helper := false
			if nd := p.CallGraph().Nodes[fn]; nd != nil && fn.Signature.Recv() != nil {
				for _, e := range nd.In {
					if sameRecvHelper(e.Caller.Func, fn) {
						helper = true
					}
				}
			}
			if helper {
				continue
			}
		}
		if hasWait {
			n++
			c.Func(FnName(fn))
			bad := g.checkWaiter(fn)
			c.Check(bad == "", "G3-wakeup", FnName(fn)+":waiter", p.Pos(fn.Pos()), "Cond.Wait sits in a loop re-reading the atomic counter, under the mutex, after the waiter count was raised", bad)
		}
		if hasBroadcast {
			n++
			c.Func(FnName(fn))
			bad := g.checkSignaller(fn)
			c.Check(bad == "", "G3-wakeup", FnName(fn)+":signaller", p.Pos(fn.Pos()), "counter stored before the waiter count is read; mutex taken and released before Broadcast", bad)
		}
	}
	c.Floor("G3-wakeup", n, 2)
}

type callSite struct {
	b   *ssa.BasicBlock
	idx int
	ci  ssa.CallInstruction
}

// sameRecvHelper: callee is a method with the same receiver type as fn (a protocol split into
// helper methods: waitFor -> reached / waitSlow, signal -> wakeAll).
func sameRecvHelper(fn, callee *ssa.Function) bool {
	if callee == nil || callee.Blocks == nil || callee == fn || fn.Signature.Recv() == nil || callee.Signature.Recv() == nil {
		return false
	}
	return types.Identical(fn.Signature.Recv().Type(), callee.Signature.Recv().Type())
}

func containsCall(fn *ssa.Function, match func(*ssa.Function) bool, depth int) bool {
	if depth > 2 {
		return false
	}
	for _, b := range fn.Blocks {
		for _, in := range b.Instrs {
			if ci, ok := in.(ssa.CallInstruction); ok {
				cal := ci.Common().StaticCallee()
				if match(cal) {
					return true
				}
				if sameRecvHelper(fn, cal) && containsCall(cal, match, depth+1) {
					return true
				}
			}
		}
	}
	return false
}

func callsTo(fn *ssa.Function, pkg, typ, name string) []callSite {
	var out []callSite
	match := func(c *ssa.Function) bool { return isMethodOf(c, pkg, typ, name) }
	for _, b := range fn.Blocks {
		for i, in := range b.Instrs {
			if ci, ok := in.(ssa.CallInstruction); ok {
				cal := ci.Common().StaticCallee()
				if match(cal) || (sameRecvHelper(fn, cal) && containsCall(cal, match, 1)) {
					out = append(out, callSite{b, i, ci})
				}
			}
		}
	}
	return out
}

func before(a, b callSite) bool {
	if a.b == b.b {
		return a.idx < b.idx
	}
	return a.b.Dominates(b.b)
}

func atomicCalls(fn *ssa.Function, name string) []callSite {
	var out []callSite
	for _, b := range fn.Blocks {
		for i, in := range b.Instrs {
			ci, ok := in.(ssa.CallInstruction)
			if !ok {
				continue
			}
			callee := ci.Common().StaticCallee()
			match := func(c *ssa.Function) bool {
				return c != nil && c.Pkg != nil && c.Pkg.Pkg.Path() == "sync/atomic" && c.Name() == name
			}
			if match(callee) || (sameRecvHelper(fn, callee) && containsCall(callee, match, 1)) {
				out = append(out, callSite{b, i, ci})
			}
		}
	}
	return out
}

func (g *a4) checkWaiter(fn *ssa.Function) string {
	waits := callsTo(fn, "sync", "Cond", "Wait")
	locks := callsTo(fn, "sync", "Mutex", "Lock")
	unlocks := callsTo(fn, "sync", "Mutex", "Unlock")
	adds := atomicCalls(fn, "Add")
	loads := atomicCalls(fn, "Load")
	for _, w := range waits {
		// inside a loop: some block that w.b reaches also dominates w.b and has a back edge from a block w.b reaches
		var header *ssa.BasicBlock
		for _, h := range fn.Blocks {
			if !h.Dominates(w.b) {
				continue
			}
			for _, pr := range h.Preds {
				if h.Dominates(pr) && (pr == w.b || w.b.Dominates(pr) || reachable(w.b, pr)) {
					header = h
				}
			}
		}
		if header == nil {
			return "Cond.Wait at " + g.p.Pos(w.ci.Pos()) + " is not inside a loop: a wake-up must be followed by a re-check of the condition"
		}
		// the loop condition re-reads an atomic counter
		reread := false
		for _, l := range loads {
			if l.b == header || header.Dominates(l.b) && l.b.Dominates(w.b) {
				reread = true
			}
		}
		if !reread {
			return "the loop around Cond.Wait at " + g.p.Pos(w.ci.Pos()) + " does not re-read the atomic progress counter"
		}
		locked := false
		for _, l := range locks {
			if before(l, callSite{header, -1, nil}) || l.b.Dominates(header) {
				locked = true
			}
		}
		if !locked {
			return "no Mutex.Lock dominates the wait loop: Cond.Wait must be called with the lock held"
		}
		raised := false
		for _, a := range adds {
			for _, l := range locks {
				if before(a, l) {
					raised = true
				}
			}
		}
		if !raised {
			return "the waiter count is not incremented before the mutex is taken: the signaller's fast path could skip the Broadcast"
		}
		released := false
		for _, u := range unlocks {
			if reachable(w.b, u.b) || u.b == w.b {
				released = true
			}
		}
		if !released {
			return "no Mutex.Unlock after the wait loop"
		}
	}
	return ""
}

func reachable(a, b *ssa.BasicBlock) bool {
	seen := map[*ssa.BasicBlock]bool{}
	st := append([]*ssa.BasicBlock{}, a.Succs...)
	for len(st) > 0 {
		x := st[len(st)-1]
		st = st[:len(st)-1]
		if seen[x] {
			continue
		}
		seen[x] = true
		if x == b {
			return true
		}
		st = append(st, x.Succs...)
	}
	return false
}

func (g *a4) checkSignaller(fn *ssa.Function) string {
	bcs := append(callsTo(fn, "sync", "Cond", "Broadcast"), callsTo(fn, "sync", "Cond", "Signal")...)
	locks := callsTo(fn, "sync", "Mutex", "Lock")
	unlocks := callsTo(fn, "sync", "Mutex", "Unlock")
	stores := atomicCalls(fn, "Store")
	loads := atomicCalls(fn, "Load")
	if len(stores) == 0 {
		return "the signaller does not store the progress counter atomically"
	}
	for _, l := range loads {
		ok := false
		for _, s := range stores {
			if before(s, l) {
				ok = true
			}
		}
		if !ok {
			return "the waiter count is read at " + g.p.Pos(l.ci.Pos()) + " before the progress counter is stored: a waiter that has not yet registered would be missed"
		}
	}
	for _, b := range bcs {
		lockOK := false
		for _, l := range locks {
			for _, u := range unlocks {
				if before(l, u) && before(u, b) {
					lockOK = true
				}
			}
		}
		if !lockOK {
			return "Broadcast at " + g.p.Pos(b.ci.Pos()) + " is not preceded by Mutex.Lock and Mutex.Unlock: a waiter between its re-check and Cond.Wait would miss the wake-up (lost wake-up)"
		}
	}
	return ""
}

// ---- G5 ----

func (g *a4) lockPairing() {
	c, p := g.c, g.p
	n := 0
	for _, fn := range p.SrcFuncs() {
		locks := append(callsTo(fn, "sync", "Mutex", "Lock"), callsTo(fn, "sync", "RWMutex", "Lock")...)
		if len(locks) == 0 {
			continue
		}
		unlocks := append(callsTo(fn, "sync", "Mutex", "Unlock"), callsTo(fn, "sync", "RWMutex", "Unlock")...)
		for i, l := range locks {
			n++
			key := fmt.Sprintf("%s:lock#%d", FnName(fn), i+1)
			// every path from the lock to a return crosses an unlock (deferred unlock counts)
			deferred := false
			ub := map[*ssa.BasicBlock][]int{}
			for _, u := range unlocks {
				if _, isDefer := u.ci.(*ssa.Defer); isDefer {
					deferred = true
				}
				ub[u.b] = append(ub[u.b], u.idx)
			}
			ok := deferred
			if !ok {
				ok = true
				type st struct {
					b    *ssa.BasicBlock
					from int
				}
				seen := map[*ssa.BasicBlock]bool{}
				stack := []st{{l.b, l.idx + 1}}
				for len(stack) > 0 {
					s := stack[len(stack)-1]
					stack = stack[:len(stack)-1]
					hit := false
					for _, ui := range ub[s.b] {
						if ui >= s.from {
							hit = true
						}
					}
					if hit {
						continue
					}
					if _, isRet := s.b.Instrs[len(s.b.Instrs)-1].(*ssa.Return); isRet {
						ok = false
						break
					}
					for _, nx := range s.b.Succs {
						if !seen[nx] {
							seen[nx] = true
							stack = append(stack, st{nx, 0})
						}
					}
				}
			}
			c.Check(ok, "G5-locks", key, p.Pos(l.ci.Pos()), "Unlock on every path after Lock", "a path from Mutex.Lock to a return does not unlock")
		}
	}
	c.Check(n >= 1, "G5-locks", "instances", "", fmt.Sprintf("%d Lock sites", n), fmt.Sprintf("only %d Lock sites found", n))
}

// ---- G7 ----

func (g *a4) globals() {
	c, p := g.c, g.p
	// init-only functions: reachable only from package initialisers / sync.Once bodies
	var roots []*ssa.Function
	for _, pk := range p.Pkgs {
		if sp := p.SSA.Package(pk.Types); sp != nil {
			if f := sp.Func("init"); f != nil {
				roots = append(roots, f)
			}
		}
	}
	initReach := p.Reachable(roots...)
	// functions reachable from non-init entry points: every exported function/method and main
	var apiRoots []*ssa.Function
	for _, fn := range p.SrcFuncs() {
		if fn.Parent() != nil || fn.Synthetic != "" {
			continue
		}
		if strings.HasPrefix(fn.Name(), "init") {
			continue
		}
		if obj := fn.Object(); obj != nil && (obj.Exported() || fn.Name() == "main") {
			if obj.Pkg() != nil && strings.Contains(obj.Pkg().Path(), "/internal/") {
				continue // not callable from outside the module
			}
			apiRoots = append(apiRoots, fn)
		}
	}
	apiReach := p.Reachable(apiRoots...)
	// bodies passed to sync.Once.Do
	once := map[*ssa.Function]bool{}
	for _, fn := range p.SrcFuncs() {
		for _, b := range fn.Blocks {
			for _, in := range b.Instrs {
				if ci, ok := in.(ssa.CallInstruction); ok && isMethodOf(ci.Common().StaticCallee(), "sync", "Once", "Do") {
					switch v := ci.Common().Args[1].(type) {
					case *ssa.MakeClosure:
						once[v.Fn.(*ssa.Function)] = true
					case *ssa.Function:
						once[v] = true
					}
				}
			}
		}
	}
	onceReach := map[*ssa.Function]bool{}
	for f := range once {
		for r := range p.Reachable(f) {
			onceReach[r] = true
		}
	}
	n := 0
	perFn := map[*ssa.Function]int{}
	for _, fn := range p.SrcFuncs() {
		if !apiReach[fn] {
			continue // only reachable from init (or dead)
		}
		if once[fn] || (onceReach[fn] && !g.reachedOutsideOnce(fn, once)) {
			continue
		}
		_ = initReach
		for _, b := range fn.Blocks {
			for _, in := range b.Instrs {
				st, ok := in.(*ssa.Store)
				if !ok {
					continue
				}
				gl := globalOf(st.Addr)
				if gl == nil || !p.IsModFunc(fn) {
					continue
				}
				if _, mine := p.ByPath[gl.Pkg.Pkg.Path()]; !mine {
					continue
				}
				n++
				perFn[fn]++
				key := fmt.Sprintf("%s:global(%s)#%d", FnName(fn), gl.Name(), perFn[fn])
				if r := g.reviewed("G7", FnName(fn)+":"+gl.Name()); r != nil {
					c.Pass("G7-globals", key, p.Pos(st.Pos()), "reviewed: "+r.reason)
					continue
				}
				c.Fail("G7-globals", key, p.Pos(st.Pos()), "package-level variable "+gl.Name()+" is written by code reachable from the public API: concurrent calls race on it")
			}
		}
	}
	c.Pass("G7-globals", "scan", "", fmt.Sprintf("%d functions reachable from the public API scanned, %d stores to package-level variables examined", len(apiReach), n))
}

func (g *a4) reachedOutsideOnce(fn *ssa.Function, once map[*ssa.Function]bool) bool {
	// is fn called from anywhere that is not (transitively) a Once body?
	n := g.p.CallGraph().Nodes[fn]
	if n == nil {
		return false
	}
	for _, e := range n.In {
		caller := e.Caller.Func
		if once[caller] {
			continue
		}
		inOnce := false
		for o := range once {
			if g.p.Reachable(o)[caller] {
				inOnce = true
			}
		}
		if !inOnce {
			return true
		}
	}
	return false
}

func globalOf(addr ssa.Value) *ssa.Global {
	for i := 0; i < 6; i++ {
		switch x := addr.(type) {
		case *ssa.Global:
			return x
		case *ssa.FieldAddr:
			addr = x.X
		case *ssa.IndexAddr:
			addr = x.X
		default:
			return nil
		}
	}
	return nil
}

// ---- G6: partition-local reads ----
//
// A goroutine that writes S[i] for the i of its own partition must not read S[i-c] / S[i+c]
// (c != 0): at the edge of its partition that element belongs to another goroutine, which may or
// may not have written it yet. Allowed when the read is guarded by a comparison of the index with
// one of the goroutine's parameters (its partition bounds).
func (g *a4) neighbourReads() {
	c, p := g.c, g.p
	n := 0
	for _, gs := range g.goStmts() {
		fn := bodyOf(gs)
		if fn == nil || fn.Blocks == nil || !p.IsModFunc(fn) {
			continue
		}
		n++
		baseKey := func(v ssa.Value) ssa.Value {
			// the slice value: a captured variable (load of a free variable), a free variable, a parameter
			if ld, ok := v.(*ssa.UnOp); ok && ld.Op == token.MUL {
				if fv, ok := ld.X.(*ssa.FreeVar); ok {
					return fv
				}
			}
			switch v.(type) {
			case *ssa.FreeVar, *ssa.Parameter:
				return v
			}
			return nil
		}
		type wr struct{ idx ssa.Value }
		writes := map[ssa.Value][]wr{}
		for _, b := range fn.Blocks {
			for _, in := range b.Instrs {
				st, ok := in.(*ssa.Store)
				if !ok {
					continue
				}
				ia, ok := st.Addr.(*ssa.IndexAddr)
				if !ok {
					continue
				}
				if k := baseKey(ia.X); k != nil {
					writes[k] = append(writes[k], wr{ia.Index})
				}
			}
		}
		bad := ""
		for _, b := range fn.Blocks {
			for _, in := range b.Instrs {
				ld, ok := in.(*ssa.UnOp)
				if !ok || ld.Op != token.MUL {
					continue
				}
				ia, ok := ld.X.(*ssa.IndexAddr)
				if !ok {
					continue
				}
				k := baseKey(ia.X)
				if k == nil || len(writes[k]) == 0 {
					continue
				}
				bin, ok := ia.Index.(*ssa.BinOp)
				if !ok || (bin.Op != token.ADD && bin.Op != token.SUB) {
					continue
				}
				kc, ok := bin.Y.(*ssa.Const)
				if !ok || kc.Value == nil {
					continue
				}
				if cv, okc := constantInt(kc); !okc || cv == 0 {
					continue
				}
				neighbour := false
				for _, w := range writes[k] {
					if w.idx == bin.X {
						neighbour = true
					}
				}
				if !neighbour {
					continue
				}
				// guarded by a comparison of the index with a parameter (partition bound)?
				guarded := false
				for _, d := range fn.Blocks {
					iff, ok := d.Instrs[len(d.Instrs)-1].(*ssa.If)
					if !ok || !d.Dominates(b) || d == b {
						continue
					}
					cb, ok := iff.Cond.(*ssa.BinOp)
					if !ok {
						continue
					}
					// the comparison must bound the index on the side of the neighbour that is read:
					// below (i-c): i > start / i-c >= start;  above (i+c): i+c < end
					isIdx := func(v ssa.Value) bool { return v == bin.X || v == ssa.Value(bin) }
					_, px := cb.X.(*ssa.Parameter)
					_, py := cb.Y.(*ssa.Parameter)
					trueEdge := len(d.Succs) == 2 && d.Succs[0].Dominates(b) && d.Succs[0] != d.Succs[1]
					falseEdge := len(d.Succs) == 2 && d.Succs[1].Dominates(b) && !trueEdge
					op := cb.Op
					if falseEdge {
						op = negOp(op)
					} else if !trueEdge {
						continue
					}
					below := bin.Op == token.SUB
					switch {
					case isIdx(cb.X) && py: // idx op param
						if below && (op == token.GTR || op == token.GEQ) || !below && (op == token.LSS || op == token.LEQ) {
							guarded = true
						}
					case px && isIdx(cb.Y): // param op idx
						if below && (op == token.LSS || op == token.LEQ) || !below && (op == token.GTR || op == token.GEQ) {
							guarded = true
						}
					}
				}
				if !guarded && bad == "" {
					bad = p.Pos(ld.Pos())
				}
			}
		}
		// the whole shared slice handed to a function that reads its elements: the callee can look at
		// elements other goroutines are writing (neighbouring tiles, rows of another chunk)
		if bad == "" {
			s1x := g.s1()
			for _, b := range fn.Blocks {
				for _, in := range b.Instrs {
					call, ok := in.(*ssa.Call)
					if !ok {
						continue
					}
					callee := call.Call.StaticCallee()
					if callee == nil || callee.Blocks == nil || !p.IsModFunc(callee) {
						continue
					}
					for ai, a := range call.Call.Args {
						k := baseKey(a)
						if k == nil || len(writes[k]) == 0 || ai >= len(callee.Params) {
							continue
						}
						if _, isSl := a.Type().Underlying().(*types.Slice); !isSl {
							continue
						}
						if s1x.sliceSummary(callee, ai).reads && bad == "" {
							bad = p.Pos(call.Pos()) + " (passed to " + callee.Name() + ", which reads it)"
						}
					}
				}
			}
		}
		key := fmt.Sprintf("%s#go@%s", FnName(fn), p.Pos(gs.Pos()))
		c.Check(bad == "", "G6-neighbour-read", key, p.Pos(gs.Pos()), "the goroutine reads shared elements only at the indices it writes",
			fmt.Sprintf("the goroutine started at %s writes the elements of a shared slice at its own indices but reads a neighbouring element at %s without comparing the index with its partition bounds: at the edge of its partition it reads an element that another goroutine writes, so the result depends on scheduling and on how many workers there are", p.Pos(gs.Pos()), bad))
	}
	c.Floor("G6-neighbour-read", n, 10)
}
