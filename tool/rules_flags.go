package main

// X3 monotone flag: a boolean that a loop accumulates ("does any element have ...") - it is set to
// the constant true somewhere in the loop and is still used after the loop - must never be
// overwritten inside the loop by a value that can be false once it has been true. Every
// non-constant value that reaches the loop-carried variable must be assigned under a test that the
// flag is still false (`if !flag { flag = f() }`, `flag = flag || f()`).
// Two seeded changes (one per round, two independent authors) made the demuxer's per-frame
// HasAlpha depend on the order of the ALPH and VP8 sub-chunks this way.

import (
	"fmt"
	"go/constant"
	"go/token"
	"go/types"
	"os"

	"golang.org/x/tools/go/ssa"
)

func constBool(v ssa.Value) (bool, bool) {
	k, ok := v.(*ssa.Const)
	if !ok || k.Value == nil || k.Value.Kind() != constant.Bool {
		return false, false
	}
	return constant.BoolVal(k.Value), true
}

func runMonotoneFlags(c *Ctx, p *Program, rels ...string) {
	c.Rule("X3 monotone flag: a loop-carried boolean that is still used after the loop and that the loop either sets to the constant true on some path or computes by two different definitions for different kinds of elements (an 'any element has ...' accumulator) is never overwritten in the loop by a value that may be false: every non-constant value flowing into it is assigned only where the flag is known to be still false")
	n := 0
	for _, rel := range rels {
		pk := p.SSAPkg(rel)
		if pk == nil {
			continue
		}
		for _, fn := range p.SrcFuncs() {
			if fn.Pkg != pk || fn.Blocks == nil {
				continue
			}
			for _, b := range fn.Blocks {
				li := loopOf(b)
				if li == nil {
					continue
				}
				inLoop := func(x *ssa.BasicBlock) bool { return li.body[x] }
				for _, in := range b.Instrs {
					phi, ok := in.(*ssa.Phi)
					if !ok {
						break
					}
					bt, ok := phi.Type().Underlying().(*types.Basic)
					if !ok || bt.Kind() != types.Bool {
						continue
					}
					// leaves flowing in along the back edges
					type leaf struct {
						v    ssa.Value
						from *ssa.BasicBlock // predecessor block the value arrives from
					}
					var leaves []leaf
					seen := map[*ssa.Phi]bool{phi: true}
					var expand func(v ssa.Value, from *ssa.BasicBlock)
					expand = func(v ssa.Value, from *ssa.BasicBlock) {
						if q, ok := v.(*ssa.Phi); ok && inLoop(q.Block()) {
							if q == phi || seen[q] {
								return
							}
							seen[q] = true
							for i, e := range q.Edges {
								expand(e, q.Block().Preds[i])
							}
							return
						}
						leaves = append(leaves, leaf{v, from})
					}
					for i, e := range phi.Edges {
						if inLoop(b.Preds[i]) {
							expand(e, b.Preds[i])
						}
					}
					if os.Getenv("VERIF_DEBUG") != "" {
						fmt.Fprintf(os.Stderr, "X3 cand %s %s leaves=%d\n", fn.Name(), phi.Comment, len(leaves))
					}
					hasTrue := false
					nonConst := map[ssa.Value]bool{}
					for _, l := range leaves {
						if v, ok := constBool(l.v); ok {
							if v {
								hasTrue = true
							}
							continue
						}
						nonConst[l.v] = true
					}
					// an accumulator: set to true for some elements, or computed by different definitions
					// for different kinds of elements
					if len(nonConst) == 0 || (!hasTrue && len(nonConst) < 2) {
						continue
					}
					// used after the loop?
					usedAfter := false
					var walk func(v ssa.Value, depth int)
					vis := map[ssa.Value]bool{}
					walk = func(v ssa.Value, depth int) {
						if vis[v] || depth > 6 {
							return
						}
						vis[v] = true
						if v.Referrers() == nil {
							return
						}
						for _, r := range *v.Referrers() {
							if !inLoop(r.Block()) {
								usedAfter = true
								return
							}
							if q, ok := r.(*ssa.Phi); ok {
								walk(q, depth+1)
							}
						}
					}
					walk(phi, 0)
					if !usedAfter {
						continue
					}
					n++
					c.Func(FnName(fn))
					// aliases of "the flag is true": the phi itself and in-loop phis merging it
					isFlag := func(v ssa.Value) bool {
						if v == ssa.Value(phi) {
							return true
						}
						q, ok := v.(*ssa.Phi)
						return ok && seen[q]
					}
					guardedFalse := func(blk *ssa.BasicBlock) bool {
						// blk is dominated by the branch of an If on the flag where the flag is false
						for d := blk; d != nil; d = d.Idom() {
							id := d.Idom()
							if id == nil || len(id.Instrs) == 0 {
								continue
							}
							iff, ok := id.Instrs[len(id.Instrs)-1].(*ssa.If)
							if !ok {
								continue
							}
							cond := iff.Cond
							neg := false
							if u, ok := cond.(*ssa.UnOp); ok && u.Op == token.NOT {
								cond, neg = u.X, true
							}
							if !isFlag(cond) {
								continue
							}
							falseSucc := id.Succs[1]
							if neg {
								falseSucc = id.Succs[0]
							}
							if falseSucc == d && len(d.Preds) == 1 {
								return true
							}
						}
						return false
					}
					bad := ""
					for _, l := range leaves {
						if _, isC := constBool(l.v); isC {
							continue
						}
						if isFlag(l.v) {
							continue
						}
						blk := l.from
						if guardedFalse(blk) {
							continue
						}
						if vi, ok := l.v.(ssa.Instruction); ok && guardedFalse(vi.Block()) {
							continue
						}
						bad = fmt.Sprintf("the flag is overwritten with %s (%s) on a path where it may already be true", l.v.Name(), p.ExprText(l.v.Pos()))
						if l.v.Pos() == token.NoPos {
							bad = fmt.Sprintf("the flag is overwritten with the non-constant value %s on a path where it may already be true", l.v.Name())
						}
					}
					name := phi.Comment
					if name == "" {
						name = phi.Name()
					}
					c.Check(bad == "", "X3-monotone-flag", FnName(fn)+":"+name, p.Pos(b.Instrs[len(b.Instrs)-1].Pos()),
						"every value that can clear the accumulated flag is assigned only while the flag is false",
						fmt.Sprintf("the loop sets %s to true for some elements, and %s: an element handled later silently withdraws what an earlier one established (the result depends on the order of the elements)", name, bad))
				}
			}
		}
	}
	if n == 0 {
		c.Note("X3 monotone flag: no loop-carried accumulator flag exists in the analysed packages on this tree (the rule has no instance; its self-tests are the two seeded changes)")
	}
}
