package main

import (
	"fmt"
	"go/token"
	"go/types"

	"golang.org/x/tools/go/ssa"
)

// W5 (C14, C15): the container writers never extend a byte slice they were given. append(x, ...) on a
// slice that comes from a parameter or from a field of the muxer (the caller's frame data and metadata
// blobs are stored there) writes into the caller's backing array when it has spare capacity - bytes
// that may belong to another input of the same muxer - and Assemble would modify caller memory.
func c14NoAppendToInput(c *Ctx, p *Program) {
	n := 0
	for _, fn := range p.SrcFuncs() {
		if fn.Blocks == nil || fn.Pkg == nil {
			continue
		}
		path := fn.Pkg.Pkg.Path()
		file := p.Pos(fn.Pos())
		inMux := path == modPath+"/mux" && !startsWith(file, "mux/demux.go")
		inRoot := path == modPath && (startsWith(file, "encode.go"))
		if !inMux && !inRoot {
			continue
		}
		for _, b := range fn.Blocks {
			for _, in := range b.Instrs {
				call, ok := in.(*ssa.Call)
				if !ok {
					continue
				}
				arg0 := 0
				if bi, ok := call.Call.Value.(*ssa.Builtin); ok {
					if bi.Name() != "append" || len(call.Call.Args) == 0 {
						continue
					}
				} else if cal := call.Call.StaticCallee(); cal != nil && cal.Pkg != nil && cal.Pkg.Pkg.Path() == "encoding/binary" && startsWith(cal.Name(), "AppendUint") && len(call.Call.Args) >= 2 {
					arg0 = 1 // receiver first
				} else {
					continue
				}
				sl, ok := call.Call.Args[arg0].Type().Underlying().(*types.Slice)
				if !ok || types.TypeString(sl.Elem(), nil) != "byte" {
					continue
				}
				n++
				src := inputOrigin(p, call.Call.Args[arg0], 0)
				key := fmt.Sprintf("%s:append#%d", FnName(fn), n)
				c.Func(FnName(fn))
				c.Check(src == "", "W5-no-append-to-input", key, p.Pos(call.Pos()), "append extends a buffer the function owns",
					fmt.Sprintf("append extends %s, a byte slice the writer was given: with spare capacity the appended bytes overwrite the caller's memory (possibly another input of the same file)", src))
			}
		}
	}
	if n == 0 {
		// expected on the pinned tree: the writers build their output in pre-sized buffers; the rule is
		// exercised by the self-test patches (append to a parameter must fire, append to an own buffer not)
		c.Pass("W5-no-append-to-input", "writers", "", "no append to a byte slice occurs in the container writers")
	}
}

func startsWith(s, pre string) bool { return len(s) >= len(pre) && s[:len(pre)] == pre }

// inputOrigin: "" when the slice is a buffer of the function's own (nil, make, a literal, a previous
// append to such a buffer), otherwise a description of the parameter or field it comes from.
func inputOrigin(p *Program, v ssa.Value, depth int) string {
	if depth > 8 {
		return ""
	}
	switch x := v.(type) {
	case *ssa.Parameter:
		// the buffer parameter of an unexported append-style helper: what its callers hand it
		fn := x.Parent()
		if fn != nil && fn.Object() != nil && !fn.Object().Exported() && fn.Parent() == nil {
			idx := -1
			for i, q := range fn.Params {
				if q == x {
					idx = i
				}
			}
			if nd := p.CallGraph().Nodes[fn]; nd != nil && len(nd.In) > 0 && idx >= 0 {
				for _, e := range nd.In {
					if e.Site == nil || idx >= len(e.Site.Common().Args) {
						return "parameter " + x.Name()
					}
					if s := inputOrigin(p, e.Site.Common().Args[idx], depth+2); s != "" {
						return s
					}
				}
				return ""
			}
		}
		return "parameter " + x.Name()
	case *ssa.Const, *ssa.MakeSlice:
		return ""
	case *ssa.Slice:
		// a reslice of an own array (stack buffer) is owned; of an input is not
		return inputOrigin(p, x.X, depth+1)
	case *ssa.Alloc:
		return ""
	case *ssa.Call:
		if bi, ok := x.Call.Value.(*ssa.Builtin); ok && bi.Name() == "append" {
			return inputOrigin(p, x.Call.Args[0], depth+1)
		}
		if cal := x.Call.StaticCallee(); cal != nil && cal.Pkg != nil && cal.Pkg.Pkg.Path() == "encoding/binary" && startsWith(cal.Name(), "AppendUint") && len(x.Call.Args) >= 2 {
			return inputOrigin(p, x.Call.Args[1], depth+1)
		}
		return ""
	case *ssa.Phi:
		for _, e := range x.Edges {
			if s := inputOrigin(p, e, depth+1); s != "" {
				return s
			}
		}
	case *ssa.UnOp:
		if x.Op == token.MUL {
			if fa, ok := x.X.(*ssa.FieldAddr); ok {
				if st := structOf(fa.X.Type()); st != nil {
					return "field " + st.Field(fa.Field).Name()
				}
			}
			if al, ok := x.X.(*ssa.Alloc); ok {
				for _, ref := range *al.Referrers() {
					if s, ok := ref.(*ssa.Store); ok && s.Addr == ssa.Value(al) {
						if o := inputOrigin(p, s.Val, depth+1); o != "" {
							return o
						}
					}
				}
			}
		}
	case *ssa.Field:
		return "field of " + x.X.Name()
	}
	return ""
}

// X2 (C14): a field of the muxer that caches something computed from its frame list stays coherent.
// If some method stores a scalar field C under a condition (or with a value) that reads another field S
// of the receiver, C is derived from S; every method that then modifies S - the field itself or memory
// reached through it (m.frames[i].opts.Duration = ...) - must store C as well (directly or through a
// method it calls). A setter that forgets the cache makes the file layout depend on the call history.
func c14CacheCoherence(c *Ctx, p *Program) {
	pk := p.SSAPkg("mux")
	if pk == nil {
		c.AnchorMissing("X2-cache-coherence", "package mux")
		return
	}
	mt, _ := pk.Members["Muxer"].(*ssa.Type)
	if mt == nil {
		c.AnchorMissing("X2-cache-coherence", "mux.Muxer")
		return
	}
	st, _ := mt.Type().Underlying().(*types.Struct)
	mset := p.SSA.MethodSets.MethodSet(types.NewPointer(mt.Type()))
	var methods []*ssa.Function
	for i := 0; i < mset.Len(); i++ {
		if f := p.SSA.MethodValue(mset.At(i)); f != nil && f.Blocks != nil {
			methods = append(methods, f)
		}
	}
	recvFieldOfAddr := func(fn *ssa.Function, addr ssa.Value) (field int, direct bool) {
		// field of the receiver that addr lies in; direct: addr is the field itself
		direct = true
		for i := 0; i < 8; i++ {
			switch x := addr.(type) {
			case *ssa.FieldAddr:
				if x.X == ssa.Value(fn.Params[0]) {
					return x.Field, direct
				}
				direct = false
				addr = x.X
			case *ssa.IndexAddr:
				direct = false
				addr = x.X
			case *ssa.UnOp:
				if x.Op != token.MUL {
					return -1, false
				}
				direct = false
				addr = x.X
			default:
				return -1, false
			}
		}
		return -1, false
	}
	readsField := func(fn *ssa.Function, v ssa.Value, depth int) map[int]bool {
		out := map[int]bool{}
		var walk func(v ssa.Value, d int)
		seen := map[ssa.Value]bool{}
		walk = func(v ssa.Value, d int) {
			if d > 8 || v == nil || seen[v] {
				return
			}
			seen[v] = true
			if ld, ok := v.(*ssa.UnOp); ok && ld.Op == token.MUL {
				if f, _ := recvFieldOfAddr(fn, ld.X); f >= 0 {
					out[f] = true
				}
			}
			if in, ok := v.(ssa.Instruction); ok {
				for _, op := range in.Operands(nil) {
					if *op != nil {
						walk(*op, d+1)
					}
				}
			}
		}
		walk(v, 0)
		return out
	}
	// derived fields
	dep := map[int]map[int]bool{} // C -> sources
	writes := map[*ssa.Function]map[int]bool{}
	touches := map[*ssa.Function]map[int]bool{} // S modified (directly or through)
	for _, fn := range methods {
		writes[fn] = map[int]bool{}
		touches[fn] = map[int]bool{}
		for _, b := range fn.Blocks {
			for _, in := range b.Instrs {
				s, ok := in.(*ssa.Store)
				if !ok {
					continue
				}
				f, direct := recvFieldOfAddr(fn, s.Addr)
				if f < 0 {
					continue
				}
				touches[fn][f] = true
				if !direct {
					continue
				}
				writes[fn][f] = true
				bt, isBasic := st.Field(f).Type().Underlying().(*types.Basic)
				if !isBasic || bt.Info()&(types.IsBoolean|types.IsInteger) == 0 {
					continue
				}
				src := readsField(fn, s.Val, 0)
				// conditions controlling the store
				for d := b; d != nil; d = d.Idom() {
					id := d.Idom()
					if id == nil {
						break
					}
					if iff, ok := id.Instrs[len(id.Instrs)-1].(*ssa.If); ok && !(id.Succs[0].Dominates(b) && id.Succs[1].Dominates(b)) {
						for k := range readsField(fn, iff.Cond, 0) {
							src[k] = true
						}
					}
				}
				for k := range src {
					if k == f {
						continue
					}
					if _, isSl := st.Field(k).Type().Underlying().(*types.Slice); !isSl {
						continue // derived from a list-like field only
					}
					if dep[f] == nil {
						dep[f] = map[int]bool{}
					}
					dep[f][k] = true
				}
			}
		}
	}
	// transitive: methods called on the receiver
	for changed := true; changed; {
		changed = false
		for _, fn := range methods {
			for _, b := range fn.Blocks {
				for _, in := range b.Instrs {
					call, ok := in.(*ssa.Call)
					if !ok || len(call.Call.Args) == 0 || call.Call.Args[0] != ssa.Value(fn.Params[0]) {
						continue
					}
					if cal := call.Call.StaticCallee(); cal != nil && writes[cal] != nil {
						for k := range writes[cal] {
							if !writes[fn][k] {
								writes[fn][k] = true
								changed = true
							}
						}
					}
				}
			}
		}
	}
	n := 0
	for cf, srcs := range dep {
		for sf := range srcs {
			for _, fn := range methods {
				if !touches[fn][sf] {
					continue
				}
				n++
				key := fmt.Sprintf("Muxer.%s<-%s@%s", st.Field(cf).Name(), st.Field(sf).Name(), fn.Name())
				c.Check(writes[fn][cf], "X2-cache-coherence", key, p.Pos(fn.Pos()),
					"the method that modifies "+st.Field(sf).Name()+" also refreshes "+st.Field(cf).Name(),
					fmt.Sprintf("Muxer.%s is computed from Muxer.%s, but %s modifies %s (or what it holds) without storing %s: the cached value goes stale and the written file depends on the order of the calls", st.Field(cf).Name(), st.Field(sf).Name(), fn.Name(), st.Field(sf).Name(), st.Field(cf).Name()))
			}
		}
	}
	if n == 0 {
		c.Pass("X2-cache-coherence", "Muxer", "", "no field of the muxer is derived from its frame list (nothing is cached); exercised by the self-test patches")
	}
}
