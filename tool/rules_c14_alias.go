package main

import (
	"fmt"
	"go/token"
	"go/types"

	"golang.org/x/tools/go/ssa"
)

// W5 (C14, C15): the container writers never extend a byte slice they were given. append(x, ...) on a
// slice that comes from a parameter or from a field of the muxer (the caller's frame data and metadata
// blobs are stored there) writes into the caller's backing array when it has spare capacity - bytes
// that may belong to another input of the same muxer - and Assemble would modify caller memory.
func c14NoAppendToInput(c *Ctx, p *Program) {
	n := 0
	for _, fn := range p.SrcFuncs() {
		if fn.Blocks == nil || fn.Pkg == nil {
			continue
		}
		path := fn.Pkg.Pkg.Path()
		file := p.Pos(fn.Pos())
		inMux := path == modPath+"/mux" && !startsWith(file, "mux/demux.go")
		inRoot := path == modPath && (startsWith(file, "encode.go"))
		if !inMux && !inRoot {
			continue
		}
		for _, b := range fn.Blocks {
			for _, in := range b.Instrs {
				call, ok := in.(*ssa.Call)
				if !ok {
					continue
				}
				arg0 := 0
				if bi, ok := call.Call.Value.(*ssa.Builtin); ok {
					if bi.Name() != "append" || len(call.Call.Args) == 0 {
						continue
					}
				} else if cal := call.Call.StaticCallee(); cal != nil && cal.Pkg != nil && cal.Pkg.Pkg.Path() == "encoding/binary" && startsWith(cal.Name(), "AppendUint") && len(call.Call.Args) >= 2 {
					arg0 = 1 // receiver first
				} else {
					continue
				}
				sl, ok := call.Call.Args[arg0].Type().Underlying().(*types.Slice)
				if !ok || types.TypeString(sl.Elem(), nil) != "byte" {
					continue
				}
				n++
				src := inputOrigin(call.Call.Args[arg0], 0)
				key := fmt.Sprintf("%s:append#%d", FnName(fn), n)
				c.Func(FnName(fn))
				c.Check(src == "", "W5-no-append-to-input", key, p.Pos(call.Pos()), "append extends a buffer the function owns",
					fmt.Sprintf("append extends %s, a byte slice the writer was given: with spare capacity the appended bytes overwrite the caller's memory (possibly another input of the same file)", src))
			}
		}
	}
	if n == 0 {
		// expected on the pinned tree: the writers build their output in pre-sized buffers; the rule is
		// exercised by the self-test patches (append to a parameter must fire, append to an own buffer not)
		c.Pass("W5-no-append-to-input", "writers", "", "no append to a byte slice occurs in the container writers")
	}
}

func startsWith(s, pre string) bool { return len(s) >= len(pre) && s[:len(pre)] == pre }

// inputOrigin: "" when the slice is a buffer of the function's own (nil, make, a literal, a previous
// append to such a buffer), otherwise a description of the parameter or field it comes from.
func inputOrigin(v ssa.Value, depth int) string {
	if depth > 8 {
		return ""
	}
	switch x := v.(type) {
	case *ssa.Parameter:
		return "parameter " + x.Name()
	case *ssa.Const, *ssa.MakeSlice:
		return ""
	case *ssa.Slice:
		// a reslice of an own array (stack buffer) is owned; of an input is not
		return inputOrigin(x.X, depth+1)
	case *ssa.Alloc:
		return ""
	case *ssa.Call:
		if bi, ok := x.Call.Value.(*ssa.Builtin); ok && bi.Name() == "append" {
			return inputOrigin(x.Call.Args[0], depth+1)
		}
		if cal := x.Call.StaticCallee(); cal != nil && cal.Pkg != nil && cal.Pkg.Pkg.Path() == "encoding/binary" && startsWith(cal.Name(), "AppendUint") && len(x.Call.Args) >= 2 {
			return inputOrigin(x.Call.Args[1], depth+1)
		}
		return ""
	case *ssa.Phi:
		for _, e := range x.Edges {
			if s := inputOrigin(e, depth+1); s != "" {
				return s
			}
		}
	case *ssa.UnOp:
		if x.Op == token.MUL {
			if fa, ok := x.X.(*ssa.FieldAddr); ok {
				if st := structOf(fa.X.Type()); st != nil {
					return "field " + st.Field(fa.Field).Name()
				}
			}
			if al, ok := x.X.(*ssa.Alloc); ok {
				for _, ref := range *al.Referrers() {
					if s, ok := ref.(*ssa.Store); ok && s.Addr == ssa.Value(al) {
						if o := inputOrigin(s.Val, depth+1); o != "" {
							return o
						}
					}
				}
			}
		}
	case *ssa.Field:
		return "field of " + x.X.Name()
	}
	return ""
}
