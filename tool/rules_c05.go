package main

// A6: bounds, progress, caps, recursion (C05) and the publication rules (C17).

import (
	"fmt"
	"go/token"
	"go/types"
	"os"
	"path/filepath"
	"sort"
	"strings"

	"golang.org/x/tools/go/ssa"
)

func init() { register("C05", runC05) }

// a6Scope: the code that handles declared sizes. Whole packages, or single functions.
var a6Packages = []string{"internal/container", "mux"}
var a6Funcs = map[string][]string{
	"":                  {"readAll", "decodeBytes", "Decode", "DecodeConfig", "GetFeatures", "decodeLossy", "decodeLossless", "decodeFrameForAnimation"},
	"internal/lossy":    {"Decoder.parseHeaders", "Decoder.parsePartitions", "Decoder.parseSegmentHeader", "Decoder.parseFilterHeader", "ParseQuant", "DecodeAlpha"},
	"internal/lossless": {"Decoder.decodeHeader"},
}

// animation decode side: everything in package animation reachable from these
var a6AnimEntries = []string{"Decode", "DecodeBytes", "Animation.DecodeFrames", "Animation.DecodeFramesParallel", "NewAnimDecoder", "AnimDecoder.NextFrame", "AnimDecoder.Reset", "AnimDecoder.HasNext", "AnimDecoder.Canvas"}

type a6 struct {
	c    *Ctx
	p    *Program
	db   *proverDB
	rows []*reviewRow
	// preconditions lifted from helpers: function -> list
	pre     map[*ssa.Function][]preCond
	preDone map[*ssa.Function]bool
	nObl    int
	onlyPkg string // restrict the bounds scope to one package (C17)
	rule    string // rule name override
	// generalisation: other obligation generators over another scope (field widths, C02)
	oblOf   func(fn *ssa.Function) []a6obl
	scope   []*ssa.Function
	rowKind string // kind of the reviewed lines in the table ("bounds" by default)
	peel    bool   // prove on unconverted values (field-width goals)
	failMsg func(o a6obl, fn *ssa.Function) string
}

func (a *a6) obligations(fn *ssa.Function) []a6obl {
	if a.oblOf != nil {
		return a.oblOf(fn)
	}
	return obligationsOf(fn)
}

func (a *a6) ruleName() string {
	if a.rule != "" {
		return a.rule
	}
	return "A6-bounds"
}

// preCond: an obligation of a helper expressed over its parameters only; proven at call sites.
type preCond struct {
	desc string
	pos  token.Pos
	mk   func(pv *prover, args []ssa.Value, facts *[]cons) []lin
}

func runC05(c *Ctx) {
	c.Rule("A6-bounds: every index, slice and fixed-width binary read in the RIFF/container layer, the demuxer, the root decode entry points and the codec header parsers is proven in bounds (0 <= lo <= hi <= len) by a linear-arithmetic prover from dominating branch conditions, earlier successful accesses, type ranges, callee postconditions on success paths and inductive phi bounds; obligations of small helpers over their parameters are proven at every call site instead")
	c.Rule("A6-progress: every chunk-walking loop strictly advances its cursor on the back edge")
	c.Rule("A6-caps: every allocation reachable from a decode entry point whose size is neither constant nor the length of existing data is dominated by a comparison of its size (or of all its factors) with a constant")
	c.Rule("A6-recursion: every call-graph cycle reachable from a decode entry point increments a depth counter that is compared with a constant before recursing")
	c.Rule("A6-clamp: in animation compositing, every rectangle used to address canvas pixels is the result of Intersect with the canvas bounds")
	c.NotCovered("panics inside the codecs' inner loops (Huffman table indexing, coefficient parsing, prediction buffers): their safety rests on numeric invariants of decoded symbols that the linear prover does not model")
	c.NotCovered("time and memory proportionality beyond the allocation caps; deadlock freedom (C10)")
	c.Assume("int is 64 bits wide; sums of lengths and 32-bit header fields do not overflow int64/uint64")
	rows, err := loadReview(filepath.Join(c.Verif, "tables", "bounds.txt"))
	if err != nil {
		c.Fail("internal", "tables/bounds.txt", "", err.Error())
		return
	}
	c.Table("tables/bounds.txt")
	cfgs := c.configsFor()
	if c.Tier == "thorough" || os.Getenv("VERIF_C05_32") != "" {
		// a 32-bit configuration: int is 32 bits wide there, so a declared 32-bit size converted to int
		// can be negative
		cfgs = append(cfgs, [2]string{"linux", "386"})
	}
	for _, cf := range cfgs {
		p := c.load(cf[0], cf[1])
		if p == nil {
			continue
		}
		proverWordBits = wordBitsOf(cf[1])
		a := &a6{c: c, p: p, db: newProverDB(p), rows: rows, pre: map[*ssa.Function][]preCond{}, preDone: map[*ssa.Function]bool{}}
		a.bounds()
		a.progress()
		a.caps()
		a.recursion()
		proverWordBits = 64
	}
	ran32 := false
	for _, cf := range cfgs {
		if wordBitsOf(cf[1]) == 32 {
			ran32 = true
		}
	}
	for _, r := range rows {
		if strings.HasSuffix(r.typ, "32") && !ran32 {
			continue
		}
		if !r.used {
			c.SetConfig("tables")
			c.Stale("bounds:" + r.typ + ":" + r.loc)
		}
	}
}

func (a *a6) scopeFuncs() []*ssa.Function {
	if a.scope != nil {
		return a.scope
	}
	if a.onlyPkg != "" {
		var out []*ssa.Function
		pk := a.p.Pkg(a.onlyPkg)
		if pk == nil {
			a.c.AnchorMissing(a.ruleName(), "package "+a.onlyPkg)
			return nil
		}
		for _, f := range a.p.SrcFuncs() {
			root := f
			for root.Parent() != nil {
				root = root.Parent()
			}
			if root.Pkg != nil && root.Pkg.Pkg.Path() == pk.PkgPath {
				out = append(out, f)
			}
		}
		return out
	}
	var out []*ssa.Function
	seen := map[*ssa.Function]bool{}
	add := func(f *ssa.Function) {
		if f == nil || seen[f] || f.Blocks == nil {
			return
		}
		seen[f] = true
		out = append(out, f)
		for _, an := range f.AnonFuncs {
			if !seen[an] {
				seen[an] = true
				out = append(out, an)
			}
		}
	}
	inPkg := map[string]bool{}
	for _, rel := range a6Packages {
		if pk := a.p.Pkg(rel); pk != nil {
			inPkg[pk.PkgPath] = true
		} else {
			a.c.AnchorMissing("A6-bounds", "package "+rel)
		}
	}
	for _, f := range a.p.SrcFuncs() {
		root := f
		for root.Parent() != nil {
			root = root.Parent()
		}
		if root.Pkg != nil && inPkg[root.Pkg.Pkg.Path()] {
			if root.Pkg.Pkg.Name() == "mux" {
				file := filepath.Base(a.p.Fset.Position(root.Pos()).Filename)
				if file != "demux.go" && file != "chunk.go" {
					continue // the muxer (writer side) is not input handling
				}
			}
			add(f)
		}
	}
	var rels []string
	for rel := range a6Funcs {
		rels = append(rels, rel)
	}
	sort.Strings(rels)
	for _, rel := range rels {
		for _, name := range a6Funcs[rel] {
			f := a.p.Fn(rel, name)
			if f == nil {
				a.c.AnchorMissing("A6-bounds", rel+"."+name)
				continue
			}
			add(f)
		}
	}
	var roots []*ssa.Function
	for _, name := range a6AnimEntries {
		f := a.p.Fn("animation", name)
		if f == nil {
			a.c.AnchorMissing("A6-bounds", "animation."+name)
			continue
		}
		roots = append(roots, f)
	}
	animPkg := a.p.Pkg("animation")
	var reach []*ssa.Function
	for f := range a.p.Reachable(roots...) {
		root := f
		for root.Parent() != nil {
			root = root.Parent()
		}
		if animPkg != nil && root.Pkg != nil && root.Pkg.Pkg.Path() == animPkg.PkgPath {
			reach = append(reach, f)
		}
	}
	sort.Slice(reach, func(i, j int) bool { return FnName(reach[i]) < FnName(reach[j]) })
	for _, f := range reach {
		add(f)
	}
	sort.Slice(out, func(i, j int) bool { return out[i].Pos() < out[j].Pos() })
	return out
}

// obligation of one instruction: goals built against the prover's facts.
type a6obl struct {
	kind string
	in   ssa.Instruction
	mk   func(pv *prover, facts *[]cons) []lin
}

func obligationsOf(fn *ssa.Function) []a6obl {
	var out []a6obl
	for _, b := range fn.Blocks {
		for _, ins := range b.Instrs {
			switch x := ins.(type) {
			case *ssa.IndexAddr:
				x2 := x
				out = append(out, a6obl{"index", ins, func(pv *prover, facts *[]cons) []lin {
					idx := pv.toLin(x2.Index, facts)
					ln := pv.lenOfOperand(x2.X, facts)
					return []lin{idx, gt(ln, idx).e}
				}})
			case *ssa.Index:
				x2 := x
				out = append(out, a6obl{"index", ins, func(pv *prover, facts *[]cons) []lin {
					idx := pv.toLin(x2.Index, facts)
					ln := pv.lenOfOperand(x2.X, facts)
					return []lin{idx, gt(ln, idx).e}
				}})
			case *ssa.Slice:
				x2 := x
				out = append(out, a6obl{"slice", ins, func(pv *prover, facts *[]cons) []lin {
					// bound is cap for slices; we require the stronger hi <= len unless the operand is resliced to grow
					ln := pv.lenOfOperand(x2.X, facts)
					lo := konst(0)
					if x2.Low != nil {
						lo = pv.toLin(x2.Low, facts)
					}
					hi := ln
					if x2.High != nil {
						hi = pv.toLin(x2.High, facts)
					}
					goals := []lin{lo, ge(hi, lo).e}
					if x2.High != nil {
						if _, isSl := x2.X.Type().Underlying().(*types.Slice); isSl {
							goals = append(goals, ge(pv.capLin(x2.X, facts), hi).e)
						} else {
							goals = append(goals, ge(ln, hi).e)
						}
					}
					return goals
				}})
			case *ssa.Call:
				if callee := x.Call.StaticCallee(); callee != nil {
					if n := binaryNeed(callee); n > 0 && len(x.Call.Args) >= 2 {
						x2 := x
						nn := int64(n)
						out = append(out, a6obl{"binary." + callee.Name(), ins, func(pv *prover, facts *[]cons) []lin {
							return []lin{ge(pv.lenLin(x2.Call.Args[1], facts), konst(nn)).e}
						}})
					}
				}
			}
		}
	}
	return out
}

func ordinalIn(fn *ssa.Function, target ssa.Instruction, kind string) int {
	n := 0
	for _, o := range obligationsOf(fn) {
		if o.kind == kind {
			n++
		}
		if o.in == target {
			return n
		}
	}
	return n
}

// paramOnly: the goal mentions only parameters of fn (values or lengths).
func paramOnly(fn *ssa.Function, gs []lin) bool {
	for _, g := range gs {
		for k := range g.t {
			if k.fld != 0 && k.fld != -1 {
				return false
			}
			par, ok := k.v.(*ssa.Parameter)
			if !ok || par.Parent() != fn {
				return false
			}
		}
	}
	return true
}

func (a *a6) liftable(fn *ssa.Function) bool {
	if fn.Parent() != nil {
		return false
	}
	obj := fn.Object()
	if obj == nil {
		return false
	}
	// callable from outside the module? exported function of a non-internal package
	if obj.Exported() && obj.Pkg() != nil && !strings.Contains(obj.Pkg().Path(), "/internal/") {
		if fn.Signature.Recv() == nil {
			return false
		}
		// exported method on an exported type of a public package
		return false
	}
	n := a.p.CallGraph().Nodes[fn]
	return n != nil && len(n.In) > 0
}

func (a *a6) bounds() {
	c, p := a.c, a.p
	fns := a.scopeFuncs()
	inScope := map[*ssa.Function]bool{}
	for _, f := range fns {
		inScope[f] = true
	}
	total := 0
	type pendingFail struct{ key, pos, rk, msg string }
	var pending []pendingFail
	var work []*ssa.Function
	work = append(work, fns...)
	done := map[*ssa.Function]bool{}
	for len(work) > 0 {
		fn := work[0]
		work = work[1:]
		if done[fn] {
			continue
		}
		done[fn] = true
		c.Func(FnName(fn))
		// functions of internal packages nobody in the module calls cannot receive input
		if fn.Parent() == nil && fn.Object() != nil && fn.Object().Pkg() != nil && strings.Contains(fn.Object().Pkg().Path(), "/internal/") {
			if n := p.CallGraph().Nodes[fn]; n == nil || len(n.In) == 0 {
				c.Pass(a.ruleName(), FnName(fn)+":unreachable", p.Pos(fn.Pos()), "internal-package function without any caller in the module")
				continue
			}
		}
		pv := a.db.proverFor(fn)
		pv.peelConv = a.peel
		counts := map[string]int{}
		for _, o := range a.obligations(fn) {
			counts[o.kind]++
			total++
			okey := fmt.Sprintf("%s:%s#%d", FnName(fn), o.kind, counts[o.kind])
			// index and slice obligations are keyed by the source text of the expression, so that a
			// reviewed line cannot drift to a different expression when code is inserted before it
			if o.kind == "index" || o.kind == "slice" {
				if txt := p.ExprText(o.in.Pos()); txt != "" {
					counts[o.kind]--
					tk := o.kind + "(" + strings.ReplaceAll(txt, " ", "") + ")"
					counts[tk]++
					okey = fmt.Sprintf("%s:%s", FnName(fn), tk)
					if counts[tk] > 1 {
						okey = fmt.Sprintf("%s#%d", okey, counts[tk])
					}
				}
			}
			pos := p.Pos(o.in.Pos())
			o2 := o
			var goals []lin
			proverDebug = os.Getenv("VERIF_DEBUG") == okey
			ok := pv.proveAt(o.in, func(facts *[]cons) []lin {
				goals = o2.mk(pv, facts)
				return goals
			})
			if ok {
				c.Pass(a.ruleName(), okey, pos, "proved: entailed by dominating checks, type ranges and callee postconditions")
				continue
			}
			// lift to a precondition over the parameters?
			var f0 []cons
			g0 := o2.mk(pv, &f0)
			if a.liftable(fn) && paramOnly(fn, g0) {
				a.pre[fn] = append(a.pre[fn], preCond{desc: okey, pos: o.in.Pos(), mk: func(pv2 *prover, args []ssa.Value, facts *[]cons) []lin {
					sub := &prover{db: pv2.db, fn: fn, canon: map[ssa.Value]ssa.Value{}, env: map[ssa.Value]lin{}, lenEnv: map[ssa.Value]lin{}, capEnv: map[ssa.Value]lin{}, depth: pv2.depth + 1, peelConv: pv2.peelConv}
					for i, par := range fn.Params {
						if i >= len(args) {
							break
						}
						if isIntLike(par.Type()) {
							sub.env[par] = pv2.toLin(args[i], facts)
						} else {
							sub.lenEnv[par] = pv2.lenOfOperand(args[i], facts)
							if _, isSl := par.Type().Underlying().(*types.Slice); isSl {
								sub.capEnv[par] = pv2.capLin(args[i], facts)
							}
						}
					}
					var tmp []cons
					return o2.mk(sub, &tmp)
				}})
				continue
			}
			// weaker lift: assume len(P) >= k for a slice parameter the goal mentions
			if a.liftable(fn) {
				if par, k, found := a.searchLenPre(pv, fn, o2, g0); found {
					kk := k
					pp := par
					a.pre[fn] = append(a.pre[fn], preCond{desc: fmt.Sprintf("%s[len(%s)>=%d]", okey, par.Name(), k), pos: o.in.Pos(), mk: func(pv2 *prover, args []ssa.Value, facts *[]cons) []lin {
						for i, q := range fn.Params {
							if q == pp && i < len(args) {
								return []lin{ge(pv2.lenOfOperand(args[i], facts), konst(kk)).e}
							}
						}
						return []lin{konst(-1)}
					}})
					continue
				}
			}
			rk := "bounds"
			if a.rowKind != "" {
				rk = a.rowKind
			}
			if r := findRow(a.rows, rk, okey); r != nil {
				r.used = true
				c.Pass(a.ruleName(), okey, pos, "reviewed: "+r.reason)
				continue
			}
			if proverWordBits == 32 {
				// obligations that are open only where int is 32 bits wide have their own lines
				if r := findRow(a.rows, rk+"32", okey); r != nil {
					r.used = true
					c.Pass(a.ruleName(), okey, pos, "reviewed (32-bit int): "+r.reason)
					continue
				}
			}
			msg := fmt.Sprintf("cannot prove %s in bounds in %s: no dominating check implies 0 <= lo <= hi <= len", o.kind, FnName(fn))
			if a.failMsg != nil {
				msg = a.failMsg(o2, fn)
			}
			pending = append(pending, pendingFail{okey, pos, rk, msg})
		}
	}
	// obligations left open: the same expression (or the same kind and ordinal) of the same package under
	// another function name whose reviewed line matches nothing else is code that was moved into a
	// helper; it keeps its reviewed line (the reason is repeated in the evidence for re-reading)
	for _, pf := range pending {
		if i := strings.LastIndex(pf.key, ":"); i > 0 {
			if r := findMovedRow(a.rows, pf.rk, pkgOfKey(pf.key), pf.key[i:]); r != nil {
				r.used = true
				c.Pass(a.ruleName(), pf.key, pf.pos, "reviewed (moved from "+r.loc[:strings.LastIndex(r.loc, ":")]+"): "+r.reason)
				continue
			}
		}
		c.Fail(a.ruleName(), pf.key, pf.pos, pf.msg)
	}
	// call-site obligations for lifted preconditions (iterate: proving a precondition may lift again)
	for round := 0; round < 4; round++ {
		var fs []*ssa.Function
		for f := range a.pre {
			if !a.preDone[f] {
				fs = append(fs, f)
			}
		}
		if len(fs) == 0 {
			break
		}
		sort.Slice(fs, func(i, j int) bool { return FnName(fs[i]) < FnName(fs[j]) })
		for _, f := range fs {
			a.preDone[f] = true
			n := p.CallGraph().Nodes[f]
			var sites []ssa.CallInstruction
			for _, e := range n.In {
				if e.Site != nil && p.IsModFunc(e.Caller.Func) {
					sites = append(sites, e.Site)
				}
			}
			sort.Slice(sites, func(i, j int) bool { return sites[i].Pos() < sites[j].Pos() })
			siteNo := map[*ssa.Function]int{}
			for _, site := range sites {
				caller := site.Parent()
				siteNo[caller]++
				pv := a.db.proverFor(caller)
				pv.peelConv = a.peel
				c.Func(FnName(caller))
				for _, pc := range a.pre[f] {
					total++
					okey := fmt.Sprintf("%s@%s#%d", pc.desc, FnName(caller), siteNo[caller])
					pc2 := pc
					in := site.(ssa.Instruction)
					var goals []lin
					ok := pv.proveAt(in, func(facts *[]cons) []lin {
						goals = pc2.mk(pv, site.Common().Args, facts)
						return goals
					})
					if ok {
						c.Pass(a.ruleName(), okey, p.Pos(site.Pos()), "helper precondition holds at this call site")
						continue
					}
					var f0 []cons
					g0 := pc2.mk(pv, site.Common().Args, &f0)
					if a.liftable(caller) && paramOnly(caller, g0) && round < 3 {
						args0 := site.Common().Args
						a.pre[caller] = append(a.pre[caller], preCond{desc: okey, pos: site.Pos(), mk: func(pv2 *prover, args []ssa.Value, facts *[]cons) []lin {
							sub := &prover{db: pv2.db, fn: caller, canon: map[ssa.Value]ssa.Value{}, env: map[ssa.Value]lin{}, lenEnv: map[ssa.Value]lin{}, capEnv: map[ssa.Value]lin{}, depth: pv2.depth + 1, peelConv: pv2.peelConv}
							for i, par := range caller.Params {
								if i >= len(args) {
									break
								}
								if isIntLike(par.Type()) {
									sub.env[par] = pv2.toLin(args[i], facts)
								} else {
									sub.lenEnv[par] = pv2.lenOfOperand(args[i], facts)
									if _, isSl := par.Type().Underlying().(*types.Slice); isSl {
										sub.capEnv[par] = pv2.capLin(args[i], facts)
									}
								}
							}
							var tmp []cons
							return pc2.mk(sub, args0, &tmp)
						}})
						a.preDone[caller] = false
						continue
					}
					rk2 := "bounds"
					if a.rowKind != "" {
						rk2 = a.rowKind
					}
					if r := findRow(a.rows, rk2, okey); r != nil {
						r.used = true
						c.Pass(a.ruleName(), okey, p.Pos(site.Pos()), "reviewed: "+r.reason)
						continue
					}
					c.Fail(a.ruleName(), okey, p.Pos(site.Pos()), fmt.Sprintf("helper %s needs %s of its argument to be in bounds (at %s); this call site does not establish it", FnName(f), pc.desc, p.Pos(pc.pos)))
				}
			}
		}
	}
	switch {
	case a.oblOf != nil:
		a.nObl = total
	case a.onlyPkg != "":
		c.Floor(a.ruleName(), total, 60)
	default:
		c.Floor(a.ruleName(), total, 250)
	}
}

// progress: every loop of the scope whose exit test depends on a cursor (an integer or slice
// phi of the loop header) strictly advances that cursor on every back edge.
func (a *a6) progress() {
	c, p := a.c, a.p
	n := 0
	for _, fn := range a.scopeFuncs() {
		pv := a.db.proverFor(fn)
		k := 0
		for _, h := range fn.Blocks {
			var back []int
			for i, pr := range h.Preds {
				if h.Dominates(pr) {
					back = append(back, i)
				}
			}
			if len(back) == 0 {
				continue
			}
			k++
			n++
			okey := fmt.Sprintf("%s:loop#%d", FnName(fn), k)
			pos := p.Pos(h.Instrs[len(h.Instrs)-1].Pos())
			if pos == "-" {
				for _, in := range h.Instrs {
					if in.Pos().IsValid() {
						pos = p.Pos(in.Pos())
						break
					}
				}
			}
			// candidate cursors: phis of the header
			var phis []*ssa.Phi
			for _, in := range h.Instrs {
				if phi, ok := in.(*ssa.Phi); ok {
					phis = append(phis, phi)
				} else {
					break
				}
			}
			// range-over-integer / range-over-slice loops generated by the compiler always advance
			proved := ""
			for _, phi := range phis {
				_, isSl := phi.Type().Underlying().(*types.Slice)
				if !isSl && !isIntLike(phi.Type()) {
					continue
				}
				inc, dec := true, true
				for _, i := range back {
					pr := h.Preds[i]
					var facts []cons
					facts = append(facts, pv.phiInv...)
					pv.domFacts(pr, nil, &facts)
					var cur, next lin
					if isSl {
						cur = atomLin(atom{v: phi, isLen: true})
						next = pv.lenLin(phi.Edges[i], &facts)
					} else {
						cur = atomLin(atom{v: phi})
						next = pv.toLin(phi.Edges[i], &facts)
					}
					if !entails(facts, gt(next, cur).e) {
						inc = false
					}
					if !entails(facts, gt(cur, next).e) {
						dec = false
					}
				}
				if inc || dec {
					proved = phi.Comment
					if proved == "" {
						proved = phi.Name()
					}
					break
				}
			}
			if proved != "" {
				c.Pass("A6-progress", okey, pos, "cursor "+proved+" strictly advances on every back edge")
				continue
			}
			// range over a channel: each iteration consumes one message; the loop ends when the channel is closed
			chanLoop := false
			for _, in := range h.Instrs {
				if u, ok := in.(*ssa.UnOp); ok && u.Op == token.ARROW && u.CommaOk {
					chanLoop = true
				}
			}
			if chanLoop {
				c.Pass("A6-progress", okey, pos, "range over a channel: every iteration consumes a message; termination needs the channel to be closed, which the goroutine-join rule of C10 covers")
				continue
			}
			if r := findRow(a.rows, "progress", okey); r != nil {
				r.used = true
				c.Pass("A6-progress", okey, pos, "reviewed: "+r.reason)
				continue
			}
			c.Fail("A6-progress", okey, pos, "no loop variable provably advances on every back edge: the loop may not terminate on crafted input")
		}
	}
	c.Floor("A6-progress", n, 15)
}

// searchLenPre: find the smallest constant k of the function such that assuming len(P) >= k for a
// slice parameter P occurring in the goal makes the obligation provable.
func (a *a6) searchLenPre(pv *prover, fn *ssa.Function, o a6obl, g0 []lin) (*ssa.Parameter, int64, bool) {
	pars := map[*ssa.Parameter]bool{}
	for _, g := range g0 {
		for k := range g.t {
			if par, ok := k.v.(*ssa.Parameter); ok && par.Parent() == fn && (k.isLen || k.fld == -1) {
				pars[par] = true
			}
		}
	}
	if len(pars) == 0 {
		return nil, 0, false
	}
	kset := map[int64]bool{}
	for _, b := range fn.Blocks {
		for _, in := range b.Instrs {
			for _, op := range in.Operands(nil) {
				if *op == nil {
					continue
				}
				if k, ok := intConst(*op); ok && k > 0 && k <= 1<<20 {
					kset[k] = true
					kset[k+1] = true
				}
			}
		}
	}
	var ks []int64
	for k := range kset {
		ks = append(ks, k)
	}
	sort.Slice(ks, func(i, j int) bool { return ks[i] < ks[j] })
	var ps []*ssa.Parameter
	for par := range pars {
		ps = append(ps, par)
	}
	sort.Slice(ps, func(i, j int) bool { return ps[i].Name() < ps[j].Name() })
	for _, par := range ps {
		for _, k := range ks {
			hyp := ge(atomLin(atom{v: par, isLen: true}), konst(k))
			saved := pv.phiInv
			pv.phiInv = append(append([]cons{}, saved...), hyp)
			ok := pv.proveAt(o.in, func(facts *[]cons) []lin { return o.mk(pv, facts) })
			pv.phiInv = saved
			if ok {
				return par, k, true
			}
		}
	}
	return nil, 0, false
}

func pkgOfKey(key string) string {
	k := strings.TrimLeft(key, "(*")
	if i := strings.Index(k, "."); i > 0 {
		return k[:i]
	}
	return ""
}

func findMovedRow(rows []*reviewRow, typ, pkg, suffix string) *reviewRow {
	var found *reviewRow
	for _, r := range rows {
		if r.typ != typ || r.used || !strings.HasSuffix(r.loc, suffix) || pkgOfKey(r.loc) != pkg {
			continue
		}
		if found != nil {
			return nil // ambiguous
		}
		found = r
	}
	return found
}
