package main

// C17: container-level all-or-nothing on truncated input.

import (
	"fmt"
	"go/token"
	"go/types"
	"path/filepath"
	"sort"
	"strings"

	"golang.org/x/tools/go/ssa"
)

func init() { register("C17", runC17) }

func runC17(c *Ctx) {
	c.Rule("P1 publication (A6-bounds on internal/container): every payload slice published in a FrameInfo is proven to lie inside the buffer it was cut from, so a chunk whose declared size exceeds the available bytes can never be published; a clamp instead of an error breaks the proof")
	c.Rule("P2 truncation-is-an-error: in the container parser every branch taken when a declared chunk size exceeds the remaining bytes ends in a return of a non-nil error (no clamp, break or continue)")
	c.Rule("P3 success-implies-frame: every success return of the methods of container.Parser reachable from parse is reached only through a block that appends to Parser.frames or through a branch whose condition tests len(Parser.frames) or the animation flag")
	c.Rule("P4 single reader: Decode, DecodeConfig and GetFeatures hand the input bytes to container.NewParser only")
	c.Rule("P6 short reads are not hidden: a pre-sized buffer filled by io.ReadFull is returned only together with ReadFull's own error value (or re-sliced to the count read)")
	c.Rule("P7 parses the input only: every byte slice a function of the container parser hands to another one is a re-slice of what it received, never a buffer it allocated or extended itself")
	c.Rule("P5 input untouched: the container parser never appends to, stores into, copies over or clears its input slice or anything re-sliced from it")
	c.NotCovered("behaviour of the VP8/VP8L/ALPH decoders on a payload that is shorter than its own internal structure needs (bit-reader end-of-stream handling): value-level, needs execution")
	c.NotCovered("files cut inside the image chunk whose remaining bytes still satisfy the container checks are rejected by P1 only because the declared chunk size no longer fits; prefixes cut exactly at a chunk boundary after the image chunk parse to the same frames")
	rows, err := loadReview(filepath.Join(c.Verif, "tables", "bounds.txt"))
	if err != nil {
		c.Fail("internal", "tables/bounds.txt", "", err.Error())
		return
	}
	for _, cf := range c.configsFor() {
		p := c.load(cf[0], cf[1])
		if p == nil {
			continue
		}
		a := &a6{c: c, p: p, db: newProverDB(p), rows: rows, pre: map[*ssa.Function][]preCond{}, preDone: map[*ssa.Function]bool{}, onlyPkg: "internal/container", rule: "P1-bounds"}
		a.bounds()
		c17Truncation(c, p)
		c17SuccessFrame(c, p)
		c17SingleReader(c, p)
		c17InputUntouched(c, p)
		c17ParsesInputOnly(c, p)
		c17ShortReads(c, p)
	}
}

// P6 short reads are not hidden: a buffer of a size chosen before reading (make([]byte, n)) that is
// filled with io.ReadFull is handed on as the file's bytes only together with ReadFull's own error
// value, or re-sliced to the count read. Replacing the error (for example turning io.ErrUnexpectedEOF
// into nil) hands a zero-extended file of the announced size to the parser, whose length checks then
// cannot see the truncation.
func c17ShortReads(c *Ctx, p *Program) {
	root := p.SSAPkg("")
	if root == nil {
		c.AnchorMissing("P6-short-read", "root package")
		return
	}
	n := 0
	for _, fn := range p.SrcFuncs() {
		if fn.Pkg != root || fn.Blocks == nil {
			continue
		}
		for _, b := range fn.Blocks {
			for _, ins := range b.Instrs {
				call, ok := ins.(*ssa.Call)
				if !ok {
					continue
				}
				cal := call.Call.StaticCallee()
				if cal == nil || cal.Pkg == nil || cal.Pkg.Pkg.Path() != "io" || cal.Name() != "ReadFull" || len(call.Call.Args) != 2 {
					continue
				}
				// the buffer: a make([]byte, n) (possibly re-sliced)
				buf := call.Call.Args[1]
				base := buf
				for {
					if sl, ok := base.(*ssa.Slice); ok {
						base = sl.X
						continue
					}
					break
				}
				if _, isMake := base.(*ssa.MakeSlice); !isMake {
					continue // fixed-size header arrays etc. are not returned as the file
				}
				n++
				key := fmt.Sprintf("%s:ReadFull#%d", fn.Name(), n)
				var errVal, cnt ssa.Value
				for _, u := range *call.Referrers() {
					if ex, ok := u.(*ssa.Extract); ok {
						if ex.Index == 1 {
							errVal = ex
						} else {
							cnt = ex
						}
					}
				}
				bad := ""
				for _, rb := range fn.Blocks {
					ret, ok := rb.Instrs[len(rb.Instrs)-1].(*ssa.Return)
					if !ok || len(ret.Results) != 2 || !call.Block().Dominates(rb) {
						continue
					}
					if ret.Results[0] != base {
						// re-sliced to the count read?
						if sl, ok := ret.Results[0].(*ssa.Slice); ok && sl.X == base && sl.High != nil && sl.High == cnt {
							continue
						}
						if k, isK := ret.Results[0].(*ssa.Const); isK && k.IsNil() {
							continue
						}
						if ret.Results[0] != base {
							continue
						}
					}
					if ret.Results[1] != errVal {
						bad = p.Pos(ret.Pos())
					}
				}
				c.Func(FnName(fn))
				c.Check(bad == "", "P6-short-read", key, p.Pos(call.Pos()), "the pre-sized buffer is returned only together with ReadFull's own error",
					fmt.Sprintf("%s fills a buffer whose size was chosen before reading and returns it at %s with an error value that is not ReadFull's own: after a short read the caller receives a zero-extended buffer of the announced size and no error, so a truncated file can parse", fn.Name(), bad))
			}
		}
	}
	c.Floor("P6-short-read", n, 1)
}

// P5: the parsers decide on the bytes they were given and nothing else: the input slice of
// container.NewParser / (*Parser).parse (and everything re-sliced from it, through calls) is never
// extended (append), overwritten (element store, copy destination) or cleared. A parser that pads
// or patches its input can turn a truncated file into one that parses.
func c17InputUntouched(c *Ctx, p *Program) {
	pk := p.SSAPkg("internal/container")
	if pk == nil {
		c.AnchorMissing("P5-input-untouched", "package internal/container")
		return
	}
	in := map[ssa.Value]bool{}
	var roots int
	for _, name := range []string{"NewParser", "Parser.parse"} {
		fn := p.Fn("internal/container", name)
		if fn == nil {
			continue
		}
		for _, prm := range fn.Params {
			if isByteSlice(prm.Type()) {
				in[prm] = true
				roots++
			}
		}
	}
	if roots == 0 {
		c.AnchorMissing("P5-input-untouched", "byte-slice parameters of container.NewParser / (*Parser).parse")
		return
	}
	funcs := p.SrcFuncs()
	for changed := true; changed; {
		changed = false
		mark := func(v ssa.Value) {
			if !in[v] {
				in[v] = true
				changed = true
			}
		}
		for _, fn := range funcs {
			if fn.Pkg != pk {
				continue
			}
			for _, b := range fn.Blocks {
				for _, ins := range b.Instrs {
					switch x := ins.(type) {
					case *ssa.Slice:
						if in[x.X] {
							mark(x)
						}
					case *ssa.Phi:
						for _, e := range x.Edges {
							if in[e] {
								mark(x)
							}
						}
					case *ssa.Call:
						cal := x.Call.StaticCallee()
						if cal == nil || cal.Pkg != pk || cal.Blocks == nil {
							continue
						}
						for i, a := range x.Call.Args {
							if in[a] && i < len(cal.Params) {
								mark(cal.Params[i])
							}
						}
					}
				}
			}
		}
	}
	bad, n := 0, 0
	for _, fn := range funcs {
		if fn.Pkg != pk {
			continue
		}
		for _, b := range fn.Blocks {
			for _, ins := range b.Instrs {
				switch x := ins.(type) {
				case *ssa.Store:
					if ia, ok := x.Addr.(*ssa.IndexAddr); ok && in[ia.X] {
						bad++
						c.Fail("P5-input-untouched", fmt.Sprintf("%s:store#%d", fn.Name(), bad), p.Pos(x.Pos()), fn.Name()+" writes into the input buffer it is parsing")
					}
				case *ssa.Call:
					bi, ok := x.Call.Value.(*ssa.Builtin)
					if !ok || len(x.Call.Args) == 0 {
						continue
					}
					n++
					switch bi.Name() {
					case "append":
						if in[x.Call.Args[0]] {
							bad++
							c.Fail("P5-input-untouched", fmt.Sprintf("%s:append#%d", fn.Name(), bad), p.Pos(x.Pos()), fn.Name()+" appends to the input it is parsing: bytes that are not in the file take part in the decision whether (and as what) the file parses, so a truncated prefix can be accepted")
						}
					case "copy", "clear":
						if in[x.Call.Args[0]] {
							bad++
							c.Fail("P5-input-untouched", fmt.Sprintf("%s:%s#%d", fn.Name(), bi.Name(), bad), p.Pos(x.Pos()), fn.Name()+" overwrites the input buffer it is parsing")
						}
					}
				}
			}
		}
	}
	if bad == 0 {
		c.Pass("P5-input-untouched", "container-input", "", fmt.Sprintf("no append, store, copy or clear targets the parser's input or a slice of it (%d values followed)", len(in)))
	}
	c.Floor("P5-input-untouched", len(in), 10)
}

// parseFamily: methods of container.Parser with an error result, reachable from parse,
// plus the package-level helpers they call that return an error.
func parseFamily(c *Ctx, p *Program) []*ssa.Function {
	root := p.Fn("internal/container", "Parser.parse")
	if root == nil {
		c.AnchorMissing("P3", "container.Parser.parse")
		return nil
	}
	pk := p.Pkg("internal/container")
	var out []*ssa.Function
	for f := range p.Reachable(root) {
		if f.Pkg == nil || f.Pkg.Pkg.Path() != pk.PkgPath || f.Blocks == nil {
			continue
		}
		if _, has := hasErrorResult(f); !has {
			continue
		}
		out = append(out, f)
	}
	sort.Slice(out, func(i, j int) bool { return FnName(out[i]) < FnName(out[j]) })
	return out
}

// sizeVsLen: the condition compares something derived from a declared size with a length.
func sizeVsLen(cond ssa.Value) bool {
	// look through negation and boolean helpers
	if u, ok := cond.(*ssa.UnOp); ok && u.Op == token.NOT {
		return sizeVsLen(u.X)
	}
	if call, ok := cond.(*ssa.Call); ok {
		if callee := call.Call.StaticCallee(); callee != nil && callee.Blocks != nil {
			hasU32, hasSl := false, false
			for _, a := range call.Call.Args {
				if bits, uns, ok := intBits(a.Type()); ok && uns && bits == 32 {
					hasU32 = true
				}
				if _, ok := a.Type().Underlying().(*types.Slice); ok {
					hasSl = true
				}
			}
			if hasU32 && hasSl {
				for _, b := range callee.Blocks {
					for _, in := range b.Instrs {
						if bo, ok := in.(*ssa.BinOp); ok {
							switch bo.Op {
							case token.LSS, token.LEQ, token.GTR, token.GEQ:
								if mentionsLenCap(bo.X, 0) || mentionsLenCap(bo.Y, 0) {
									return true
								}
							}
						}
					}
				}
			}
		}
		return false
	}
	bo, ok := cond.(*ssa.BinOp)
	if !ok {
		return false
	}
	hasLen, hasSize := false, false
	var walk func(v ssa.Value, d int)
	walk = func(v ssa.Value, d int) {
		if d > 8 || v == nil {
			return
		}
		switch x := v.(type) {
		case *ssa.Call:
			if b, ok := x.Call.Value.(*ssa.Builtin); ok && b.Name() == "len" {
				hasLen = true
				return
			}
		case *ssa.Extract:
			if _, ok := x.Tuple.(*ssa.Call); ok {
				if bits, uns, ok := intBits(x.Type()); ok && uns && bits == 32 {
					hasSize = true
				}
			}
		case *ssa.BinOp:
			walk(x.X, d+1)
			walk(x.Y, d+1)
		case *ssa.Convert:
			walk(x.X, d+1)
		case *ssa.Phi:
			for _, e := range x.Edges {
				walk(e, d+1)
			}
		}
	}
	walk(bo.X, 0)
	walk(bo.Y, 0)
	return hasLen && hasSize
}

func c17Truncation(c *Ctx, p *Program) {
	n := 0
	for _, fn := range parseFamily(c, p) {
		c.Func(FnName(fn))
		errIdx, _ := hasErrorResult(fn)
		k := 0
		for _, b := range fn.Blocks {
			iff, ok := b.Instrs[len(b.Instrs)-1].(*ssa.If)
			if !ok || !sizeVsLen(iff.Cond) {
				continue
			}
			k++
			n++
			okey := fmt.Sprintf("%s:sizecheck#%d", FnName(fn), k)
			// one of the two successors must be an immediate error return
			good := false
			for _, s := range b.Succs {
				if len(s.Preds) != 1 {
					continue
				}
				if ret, isRet := s.Instrs[len(s.Instrs)-1].(*ssa.Return); isRet && len(ret.Results) > errIdx {
					if k, isC := ret.Results[errIdx].(*ssa.Const); !isC || !k.IsNil() {
						// only loads/conversions before the return
						pure := true
						for _, in := range s.Instrs[:len(s.Instrs)-1] {
							switch in.(type) {
							case *ssa.Store, *ssa.Call:
								if call, isCall := in.(*ssa.Call); isCall {
									if cal := call.Call.StaticCallee(); cal != nil && cal.Pkg != nil && (cal.Pkg.Pkg.Path() == "fmt" || cal.Pkg.Pkg.Path() == "errors") {
										continue
									}
								}
								pure = false
							}
						}
						if pure {
							good = true
						}
					}
				}
			}
			c.Check(good, "P2-truncation", okey, p.Pos(iff.Cond.Pos()), "the branch for a declared size that exceeds the available bytes returns an error", "a comparison of a declared chunk size with the available length does not lead to an immediate error return: truncated input may be clamped or skipped")
		}
	}
	c.Floor("P2-truncation", n, 1)
}

func c17SuccessFrame(c *Ctx, p *Program) {
	pk := p.Pkg("internal/container")
	if pk == nil {
		return
	}
	obj := pk.Types.Scope().Lookup("Parser")
	if obj == nil {
		c.AnchorMissing("P3", "container.Parser")
		return
	}
	pst, _ := obj.Type().Underlying().(*types.Struct)
	framesIdx, featIdx := -1, -1
	for i := 0; pst != nil && i < pst.NumFields(); i++ {
		switch pst.Field(i).Name() {
		case "frames":
			framesIdx = i
		case "features":
			featIdx = i
		}
	}
	if framesIdx < 0 || featIdx < 0 {
		c.AnchorMissing("P3", "container.Parser.frames/features")
		return
	}
	isParserPtr := func(t types.Type) bool {
		pt, ok := t.Underlying().(*types.Pointer)
		return ok && types.Identical(pt.Elem(), obj.Type())
	}
	// values that carry the animation flag or the frame count
	mentionsEvidence := func(cond ssa.Value) bool {
		found := false
		seen := map[ssa.Value]bool{}
		var walk func(v ssa.Value, d int)
		walk = func(v ssa.Value, d int) {
			if d > 10 || v == nil || seen[v] || found {
				return
			}
			seen[v] = true
			switch x := v.(type) {
			case *ssa.UnOp:
				if fa, ok := x.X.(*ssa.FieldAddr); ok {
					if isParserPtr(fa.X.Type()) && fa.Field == framesIdx {
						found = true
						return
					}
					// p.features.HasAnim
					if inner, ok := fa.X.(*ssa.FieldAddr); ok && isParserPtr(inner.X.Type()) && inner.Field == featIdx {
						if st := structOf(fa.X.Type()); st != nil && st.Field(fa.Field).Name() == "HasAnim" {
							found = true
							return
						}
					}
				}
				walk(x.X, d+1)
			case *ssa.Call:
				for _, a := range x.Call.Args {
					walk(a, d+1)
				}
			case *ssa.BinOp:
				walk(x.X, d+1)
				walk(x.Y, d+1)
			case *ssa.Phi:
				for i, e := range x.Edges {
					walk(e, d+1)
					// short-circuit operands live in the predecessors' branch conditions
					pred := x.Block().Preds[i]
					if iff, ok := pred.Instrs[len(pred.Instrs)-1].(*ssa.If); ok {
						walk(iff.Cond, d+1)
					}
				}
			case *ssa.Convert:
				walk(x.X, d+1)
			}
		}
		walk(cond, 0)
		return found
	}
	n := 0
	for _, fn := range parseFamily(c, p) {
		if fn.Signature.Recv() == nil || !isParserPtr(fn.Signature.Recv().Type()) {
			continue
		}
		errIdx, _ := hasErrorResult(fn)
		// blocks that append to p.frames
		appends := map[*ssa.BasicBlock]bool{}
		for _, b := range fn.Blocks {
			for _, in := range b.Instrs {
				if st, ok := in.(*ssa.Store); ok {
					if fa, ok := st.Addr.(*ssa.FieldAddr); ok && isParserPtr(fa.X.Type()) && fa.Field == framesIdx {
						if call, ok := st.Val.(*ssa.Call); ok {
							if bi, ok := call.Call.Value.(*ssa.Builtin); ok && bi.Name() == "append" {
								appends[b] = true
							}
						}
					}
				}
			}
		}
		k := 0
		for _, b := range fn.Blocks {
			ret, ok := b.Instrs[len(b.Instrs)-1].(*ssa.Return)
			if !ok || len(ret.Results) <= errIdx {
				continue
			}
			kc, isC := ret.Results[errIdx].(*ssa.Const)
			if !isC || !kc.IsNil() {
				continue
			}
			k++
			n++
			okey := fmt.Sprintf("%s:success#%d", FnName(fn), k)
			// all paths from entry to b cross an appending block or an evidence branch
			state := map[*ssa.BasicBlock]int{}
			var ok2 func(x *ssa.BasicBlock, d int) bool
			ok2 = func(x *ssa.BasicBlock, d int) bool {
				if appends[x] {
					return true
				}
				switch state[x] {
				case 1, 2:
					return true
				case 3:
					return false
				}
				if len(x.Preds) == 0 || d > 300 {
					state[x] = 3
					return false
				}
				state[x] = 1
				res := true
				for _, pr := range x.Preds {
					if iff, isIf := pr.Instrs[len(pr.Instrs)-1].(*ssa.If); isIf && mentionsEvidence(iff.Cond) {
						continue
					}
					if !ok2(pr, d+1) {
						res = false
						break
					}
				}
				if res {
					state[x] = 2
				} else {
					state[x] = 3
				}
				return res
			}
			c.Check(ok2(b, 0), "P3-success-frame", okey, p.Pos(ret.Pos()), "success is returned only after a frame was published or after a test of the frame count / animation flag",
				"a success return of the container parser can be reached without publishing a frame and without testing the frame count or the animation flag: a header-only prefix of a still file would parse successfully with zero frames")
		}
	}
	c.Floor("P3-success-frame", n, 2)
}

func c17SingleReader(c *Ctx, p *Program) {
	// forwardsOnly: every call in fn that is handed a byte slice goes to container.NewParser or to a
	// function of the root package that itself only forwards (helpers such as parseReader /
	// parseContainer shared by the entry points); returns the offending call and the number of uses
	var forwardsOnly func(fn *ssa.Function, depth int, seen map[*ssa.Function]bool) (bad string, nuse int)
	forwardsOnly = func(fn *ssa.Function, depth int, seen map[*ssa.Function]bool) (string, int) {
		if seen[fn] || depth > 4 {
			return "", 0
		}
		seen[fn] = true
		bad := ""
		nuse := 0
		for _, b := range fn.Blocks {
			for _, in := range b.Instrs {
				ci, ok := in.(ssa.CallInstruction)
				if !ok {
					continue
				}
				if _, isB := ci.Common().Value.(*ssa.Builtin); isB {
					continue
				}
				callee := ci.Common().StaticCallee()
				hasBytes := false
				for _, a := range ci.Common().Args {
					sl, isSl := a.Type().Underlying().(*types.Slice)
					if !isSl {
						continue
					}
					if bt, ok := sl.Elem().Underlying().(*types.Basic); ok && bt.Kind() == types.Uint8 {
						hasBytes = true
					}
				}
				isParser := callee != nil && strings.HasSuffix(callee.String(), "container.NewParser")
				local := callee != nil && callee.Blocks != nil && callee.Pkg == fn.Pkg && callee.Parent() == nil
				switch {
				case hasBytes && isParser:
					nuse++
				case hasBytes && callee != nil && callee.Name() == "decodeBytes":
					nuse++
				case local && (hasBytes || (takesReader(callee) && returnsParser(callee))):
					// a helper of the package that is handed the bytes (or the reader they come from)
					b2, n2 := forwardsOnly(callee, depth+1, seen)
					if hasBytes {
						nuse++
					}
					nuse += n2
					if b2 != "" && bad == "" {
						bad = b2
					}
					if hasBytes && n2 == 0 && b2 == "" && !returnsParser(callee) {
						bad = fmt.Sprintf("input bytes are passed to %v at %s", ci.Common().Value, p.Pos(in.Pos()))
					}
				case hasBytes:
					nuse++
					if bad == "" {
						bad = fmt.Sprintf("input bytes are passed to %v at %s", ci.Common().Value, p.Pos(in.Pos()))
					}
				}
			}
		}
		return bad, nuse
	}
	for _, name := range []string{"decodeBytes", "DecodeConfig", "GetFeatures"} {
		fn := p.Fn("", name)
		if fn == nil {
			c.AnchorMissing("P4", "webp."+name)
			continue
		}
		c.Func(FnName(fn))
		bad, nuse := forwardsOnly(fn, 0, map[*ssa.Function]bool{})
		c.Check(bad == "" && nuse > 0, "P4-single-reader", "webp."+name, p.Pos(fn.Pos()), "the input bytes reach only container.NewParser", "the entry point reads the input outside the container parser: "+bad)
	}
}

func takesReader(fn *ssa.Function) bool {
	for _, prm := range fn.Params {
		if types.TypeString(prm.Type(), nil) == "io.Reader" {
			return true
		}
	}
	return false
}

func returnsParser(fn *ssa.Function) bool {
	res := fn.Signature.Results()
	for i := 0; i < res.Len(); i++ {
		if strings.HasSuffix(types.TypeString(res.At(i).Type(), nil), "container.Parser") {
			return true
		}
	}
	return false
}

// ---- P7: the parser parses the input, not a buffer of its own ----
//
// Every byte slice one function of the container parser hands to another is a re-slice of what it
// received itself. A buffer the parser allocates (make, append, a padded copy) contains bytes the file
// does not have: a prefix then parses like a longer file.
func c17ParsesInputOnly(c *Ctx, p *Program) {
	fam := map[*ssa.Function]bool{}
	for _, f := range parseFamily(c, p) {
		fam[f] = true
	}
	n := 0
	for fn := range fam {
		for _, b := range fn.Blocks {
			for _, in := range b.Instrs {
				call, ok := in.(*ssa.Call)
				if !ok {
					continue
				}
				cal := call.Call.StaticCallee()
				if cal == nil || !fam[cal] {
					continue
				}
				for ai, a := range call.Call.Args {
					sl, ok := a.Type().Underlying().(*types.Slice)
					if !ok || types.TypeString(sl.Elem(), nil) != "byte" {
						continue
					}
					n++
					own := ownBuffer(a, 0)
					key := fmt.Sprintf("%s->%s#arg%d", fn.Name(), cal.Name(), ai)
					c.Check(own == "", "P7-parses-input", key, p.Pos(call.Pos()), "the bytes handed on are a re-slice of the bytes received",
						fmt.Sprintf("%s hands %s a buffer it built itself (%s) instead of a re-slice of its input: bytes the file does not contain are parsed, so a truncated file can parse like a complete one", fn.Name(), cal.Name(), own))
				}
			}
		}
	}
	c.Floor("P7-parses-input", n, 3)
}

// ownBuffer: "" when the slice is a re-slice of a parameter or field; otherwise what allocated it.
func ownBuffer(v ssa.Value, depth int) string {
	if depth > 8 {
		return ""
	}
	switch x := v.(type) {
	case *ssa.MakeSlice:
		return "make"
	case *ssa.Slice:
		return ownBuffer(x.X, depth+1)
	case *ssa.Call:
		if bi, ok := x.Call.Value.(*ssa.Builtin); ok && bi.Name() == "append" {
			return "append"
		}
	case *ssa.Phi:
		for _, e := range x.Edges {
			if s := ownBuffer(e, depth+1); s != "" {
				return s
			}
		}
	case *ssa.UnOp:
		if al, ok := x.X.(*ssa.Alloc); ok && x.Op == token.MUL {
			for _, ref := range *al.Referrers() {
				if s, ok := ref.(*ssa.Store); ok && s.Addr == ssa.Value(al) {
					if o := ownBuffer(s.Val, depth+1); o != "" {
						return o
					}
				}
			}
		}
	}
	return ""
}
