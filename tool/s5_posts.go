package main

// Callee postconditions for the S5 prover (Houdini style): a fixed template set is
// instantiated with the constants of the callee; a candidate is kept only if it is
// entailed at every success return of the callee.

import (
	"go/token"
	"go/types"
	"math/big"
	"sort"

	"golang.org/x/tools/go/ssa"
)

type post struct {
	kind    string
	i, j    int   // result index, parameter index
	f, g    int   // struct field indices
	k       int64 // constant
	success bool  // holds only when the error result is nil
}

var errorType = types.Universe.Lookup("error").Type()

func hasErrorResult(fn *ssa.Function) (int, bool) {
	res := fn.Signature.Results()
	if res.Len() == 0 {
		return 0, false
	}
	last := res.At(res.Len() - 1)
	if types.Identical(last.Type(), errorType) {
		return res.Len() - 1, true
	}
	return 0, false
}

// retField finds the value stored into field f of the struct value v built in the callee.
func retField(v ssa.Value, f int) ssa.Value {
	ld, ok := v.(*ssa.UnOp)
	if !ok || ld.Op != token.MUL {
		return nil
	}
	al, ok := ld.X.(*ssa.Alloc)
	if !ok {
		return nil
	}
	var val ssa.Value
	n := 0
	for _, u := range *al.Referrers() {
		if fa, ok := u.(*ssa.FieldAddr); ok && fa.Field == f {
			for _, u2 := range *fa.Referrers() {
				if st, ok := u2.(*ssa.Store); ok && st.Addr == ssa.Value(fa) {
					val = st.Val
					n++
				}
			}
		}
	}
	if n == 1 {
		return val
	}
	return nil
}

func (db *proverDB) postsOf(fn *ssa.Function) []post {
	if ps, ok := db.posts[fn]; ok {
		return ps
	}
	if db.postsIP[fn] || fn.Blocks == nil || !db.p.IsModFunc(fn) {
		return nil
	}
	db.postsIP[fn] = true
	defer delete(db.postsIP, fn)
	pv := db.proverFor(fn)
	errIdx, hasErr := hasErrorResult(fn)
	// success returns
	var rets []*ssa.Return
	for _, b := range fn.Blocks {
		if len(b.Instrs) == 0 {
			continue
		}
		ret, ok := b.Instrs[len(b.Instrs)-1].(*ssa.Return)
		if !ok {
			continue
		}
		if hasErr {
			c, isC := ret.Results[errIdx].(*ssa.Const)
			if !isC || !c.IsNil() {
				continue
			}
		}
		rets = append(rets, ret)
	}
	if len(rets) == 0 {
		db.posts[fn] = nil
		return nil
	}
	// constants of the function
	kset := map[int64]bool{0: true, 1: true}
	for _, b := range fn.Blocks {
		for _, in := range b.Instrs {
			if bo, ok := in.(*ssa.BinOp); ok {
				for _, o := range []ssa.Value{bo.X, bo.Y} {
					if c, ok := intConst(o); ok && c >= 0 && c < 1<<40 {
						kset[c] = true
					}
				}
			}
		}
	}
	var ks []int64
	for k := range kset {
		ks = append(ks, k)
	}
	sort.Slice(ks, func(i, j int) bool { return ks[i] > ks[j] })
	if len(ks) > 24 {
		ks = ks[:24]
	}
	var cands []post
	res := fn.Signature.Results()
	isSliceLike := func(t types.Type) bool {
		switch u := t.Underlying().(type) {
		case *types.Slice:
			return true
		case *types.Basic:
			return u.Info()&types.IsString != 0
		}
		return false
	}
	for j, par := range fn.Params {
		if isSliceLike(par.Type()) {
			for _, k := range ks {
				if k > 0 {
					cands = append(cands, post{kind: "lenparam>=k", j: j, k: k})
				}
			}
		}
	}
	for i := 0; i < res.Len(); i++ {
		t := res.At(i).Type()
		switch {
		case isIntLike(t):
			for _, k := range ks {
				cands = append(cands, post{kind: "res>=k", i: i, k: k})
				cands = append(cands, post{kind: "res<=k", i: i, k: k})
			}
			for j, par := range fn.Params {
				if isSliceLike(par.Type()) {
					cands = append(cands, post{kind: "res<=lenparam", i: i, j: j})
				}
			}
		case isSliceLike(t):
			for j, par := range fn.Params {
				if isSliceLike(par.Type()) {
					cands = append(cands, post{kind: "lenres<=lenparam", i: i, j: j})
				}
			}
			// the length of a slice result equals an integer result (payload, payloadSize)
			for g := 0; g < res.Len(); g++ {
				if g != i && isIntLike(res.At(g).Type()) {
					cands = append(cands, post{kind: "lenres==res", i: i, g: g})
				}
			}
			// ... or an integer parameter (chunkPayload(buf, size) returns buf[8 : 8+size])
			for j, par := range fn.Params {
				if isIntLike(par.Type()) {
					cands = append(cands, post{kind: "lenres==param", i: i, j: j})
				}
			}
			for _, k := range ks {
				if k > 0 {
					cands = append(cands, post{kind: "lenres>=k", i: i, k: k})
				}
			}
		default:
			if st, ok := t.Underlying().(*types.Struct); ok {
				for f := 0; f < st.NumFields(); f++ {
					ft := st.Field(f).Type()
					if isSliceLike(ft) {
						for g := 0; g < st.NumFields(); g++ {
							if isIntLike(st.Field(g).Type()) {
								cands = append(cands, post{kind: "lenresfld==resfld", i: i, f: f, g: g})
							}
						}
						for j, par := range fn.Params {
							if isSliceLike(par.Type()) {
								cands = append(cands, post{kind: "lenresfld<=lenparam", i: i, f: f, j: j})
							}
						}
					} else if isIntLike(ft) {
						for _, k := range ks {
							cands = append(cands, post{kind: "resfld>=k", i: i, f: f, k: k})
						}
					}
				}
			}
		}
	}
	var kept []post
	for _, c := range cands {
		c.success = hasErr
		ok := true
		for _, ret := range rets {
			var facts []cons
			facts = append(facts, pv.phiInv...)
			pv.domFacts(ret.Block(), ret, &facts)
			goals, valid := pv.postGoalAtReturn(c, ret, &facts)
			if !valid {
				ok = false
				break
			}
			for _, g := range goals {
				if !entails(facts, g) && !pv.caseSplit(ret, g, facts, 0) {
					ok = false
					break
				}
			}
			if !ok {
				break
			}
		}
		if ok {
			kept = append(kept, c)
		}
	}
	// keep only the strongest constant per (kind, i/j/f)
	best := map[string]post{}
	var order []string
	for _, c := range kept {
		key := c.kind + string(rune('a'+c.i)) + string(rune('a'+c.j)) + string(rune('a'+c.f)) + string(rune('a'+c.g))
		old, seen := best[key]
		if !seen {
			best[key] = c
			order = append(order, key)
			continue
		}
		switch c.kind {
		case "res<=k":
			if c.k < old.k {
				best[key] = c
			}
		default:
			if c.k > old.k {
				best[key] = c
			}
		}
	}
	kept = kept[:0]
	for _, k := range order {
		kept = append(kept, best[k])
	}
	db.posts[fn] = kept
	return kept
}

// postGoalAtReturn expresses candidate c over the values returned by ret (callee side).
func (p *prover) postGoalAtReturn(c post, ret *ssa.Return, facts *[]cons) ([]lin, bool) {
	fn := p.fn
	switch c.kind {
	case "lenparam>=k":
		return []lin{ge(p.lenLin(fn.Params[c.j], facts), konst(c.k)).e}, true
	case "res>=k":
		return []lin{ge(p.toLin(ret.Results[c.i], facts), konst(c.k)).e}, true
	case "res<=k":
		return []lin{ge(konst(c.k), p.toLin(ret.Results[c.i], facts)).e}, true
	case "res<=lenparam":
		return []lin{ge(p.lenLin(fn.Params[c.j], facts), p.toLin(ret.Results[c.i], facts)).e}, true
	case "lenres<=lenparam":
		return []lin{ge(p.lenLin(fn.Params[c.j], facts), p.lenLin(ret.Results[c.i], facts)).e}, true
	case "lenres>=k":
		return []lin{ge(p.lenLin(ret.Results[c.i], facts), konst(c.k)).e}, true
	case "lenres==res":
		a, b := p.lenLin(ret.Results[c.i], facts), p.toLin(ret.Results[c.g], facts)
		return []lin{ge(a, b).e, ge(b, a).e}, true
	case "lenres==param":
		a, b := p.lenLin(ret.Results[c.i], facts), p.toLin(fn.Params[c.j], facts)
		return []lin{ge(a, b).e, ge(b, a).e}, true
	case "lenresfld==resfld":
		fv, gv := retField(ret.Results[c.i], c.f), retField(ret.Results[c.i], c.g)
		if fv == nil || gv == nil {
			return nil, false
		}
		a, b := p.lenLin(fv, facts), p.toLin(gv, facts)
		return []lin{ge(a, b).e, ge(b, a).e}, true
	case "lenresfld<=lenparam":
		fv := retField(ret.Results[c.i], c.f)
		if fv == nil {
			return nil, false
		}
		return []lin{ge(p.lenLin(fn.Params[c.j], facts), p.lenLin(fv, facts)).e}, true
	case "resfld>=k":
		fv := retField(ret.Results[c.i], c.f)
		if fv == nil {
			return nil, false
		}
		return []lin{ge(p.toLin(fv, facts), konst(c.k)).e}, true
	}
	return nil, false
}

// resultValue finds the caller-side value of result i of call.
func resultValue(call *ssa.Call, i int) ssa.Value {
	if call.Call.Signature().Results().Len() == 1 {
		return call
	}
	for _, u := range *call.Referrers() {
		if ex, ok := u.(*ssa.Extract); ok && ex.Index == i {
			return ex
		}
	}
	return nil
}

// callFacts adds the callee's postconditions for a call executed on this path.
func (p *prover) callFacts(call *ssa.Call, facts *[]cons, success bool) {
	callee := call.Call.StaticCallee()
	if callee == nil {
		return
	}
	// encoding/binary fixed-width accessors did not panic: the slice was long enough
	if n := binaryNeed(callee); n > 0 && len(call.Call.Args) >= 2 {
		*facts = append(*facts, ge(p.lenLin(call.Call.Args[1], facts), konst(int64(n))))
		return
	}
	if !p.db.p.IsModFunc(callee) || p.depth > 2 {
		return
	}
	// calls with constant arguments: postconditions specialised to those constants (e.g. clip(v, 127))
	p.specialisedFacts(callee, call, facts)
	for _, c := range p.db.postsOf(callee) {
		if c.success && !success {
			continue
		}
		args := call.Call.Args
		switch c.kind {
		case "lenparam>=k":
			if c.j < len(args) {
				*facts = append(*facts, ge(p.lenLin(args[c.j], facts), konst(c.k)))
			}
		case "res>=k", "res<=k", "res<=lenparam":
			rv := resultValue(call, c.i)
			if rv == nil {
				continue
			}
			at := atomLin(atom{v: p.rep(rv)})
			switch c.kind {
			case "res>=k":
				*facts = append(*facts, ge(at, konst(c.k)))
			case "res<=k":
				*facts = append(*facts, ge(konst(c.k), at))
			default:
				if c.j < len(args) {
					*facts = append(*facts, ge(p.lenLin(args[c.j], facts), at))
				}
			}
		case "lenres<=lenparam", "lenres>=k":
			rv := resultValue(call, c.i)
			if rv == nil {
				continue
			}
			at := atomLin(atom{v: p.rep(rv), isLen: true})
			*facts = append(*facts, cons{at.clone()})
			if c.kind == "lenres>=k" {
				*facts = append(*facts, ge(at, konst(c.k)))
			} else if c.j < len(args) {
				*facts = append(*facts, ge(p.lenLin(args[c.j], facts), at))
			}
		case "lenres==param":
			rv := resultValue(call, c.i)
			if rv == nil || c.j >= len(args) {
				continue
			}
			a := atomLin(atom{v: p.rep(rv), isLen: true})
			b := p.toLin(args[c.j], facts)
			*facts = append(*facts, ge(a, b), ge(b, a), cons{a.clone()})
		case "lenres==res":
			rv, gv := resultValue(call, c.i), resultValue(call, c.g)
			if rv == nil || gv == nil {
				continue
			}
			a := atomLin(atom{v: p.rep(rv), isLen: true})
			b := atomLin(atom{v: p.rep(gv)})
			*facts = append(*facts, ge(a, b), ge(b, a), cons{a.clone()})
		case "lenresfld==resfld", "lenresfld<=lenparam", "resfld>=k":
			rv := resultValue(call, c.i)
			if rv == nil {
				continue
			}
			s := p.rep(rv)
			switch c.kind {
			case "lenresfld==resfld":
				a := atomLin(atom{v: s, fld: c.f + 1, isLen: true})
				b := atomLin(atom{v: s, fld: c.g + 1})
				*facts = append(*facts, ge(a, b), ge(b, a), cons{a.clone()})
			case "lenresfld<=lenparam":
				if c.j < len(args) {
					a := atomLin(atom{v: s, fld: c.f + 1, isLen: true})
					*facts = append(*facts, ge(p.lenLin(args[c.j], facts), a), cons{a.clone()})
				}
			case "resfld>=k":
				*facts = append(*facts, ge(atomLin(atom{v: s, fld: c.f + 1}), konst(c.k)))
			}
		}
	}
}

// errNilFacts: one of x, y is the nil constant and the other the error result of a call
// that therefore succeeded on this path.
func (p *prover) errNilFacts(x, y ssa.Value, facts *[]cons) {
	var e ssa.Value
	if c, ok := y.(*ssa.Const); ok && c.IsNil() {
		e = x
	} else if c, ok := x.(*ssa.Const); ok && c.IsNil() {
		e = y
	}
	if e == nil || !types.Identical(e.Type(), errorType) {
		return
	}
	switch v := e.(type) {
	case *ssa.Extract:
		if call, ok := v.Tuple.(*ssa.Call); ok {
			p.callFacts(call, facts, true)
		}
	case *ssa.Call:
		p.callFacts(v, facts, true)
	}
}

// binaryNeed: number of bytes an encoding/binary ByteOrder accessor needs.
func binaryNeed(callee *ssa.Function) int {
	if callee.Pkg == nil || callee.Pkg.Pkg.Path() != "encoding/binary" {
		return 0
	}
	switch callee.Name() {
	case "Uint16", "PutUint16":
		return 2
	case "Uint32", "PutUint32":
		return 4
	case "Uint64", "PutUint64":
		return 8
	}
	return 0
}

// specialisedFacts: for an int-returning callee without error result called with at least one
// constant argument, prove `0 <= res`, `res <= K` and `res >= K` for each constant argument K at
// every return with the parameters bound to the constants, and add what holds.
func (p *prover) specialisedFacts(callee *ssa.Function, call *ssa.Call, facts *[]cons) {
	if callee.Signature.Results().Len() != 1 || !isIntLike(callee.Signature.Results().At(0).Type()) || p.depth > 1 {
		return
	}
	consts := map[int]int64{}
	for i, a := range call.Call.Args {
		if k, ok := intConst(a); ok {
			consts[i] = k
		}
	}
	if len(consts) == 0 {
		return
	}
	key := callee.String()
	var idxs []int
	for i := range consts {
		idxs = append(idxs, i)
	}
	sort.Ints(idxs)
	for _, i := range idxs {
		key += "|" + string(rune('a'+i)) + "=" + big64(consts[i])
	}
	res, ok := p.db.spec[key]
	if !ok {
		sub := p.db.proverFor(callee)
		type cand struct {
			lo bool
			k  int64
		}
		cands := []cand{{true, 0}}
		for _, i := range idxs {
			cands = append(cands, cand{false, consts[i]}, cand{true, consts[i]})
		}
		for _, cd := range cands {
			holds := true
			for _, b := range callee.Blocks {
				ret, isRet := b.Instrs[len(b.Instrs)-1].(*ssa.Return)
				if !isRet {
					continue
				}
				var f []cons
				for _, i := range idxs {
					if i < len(callee.Params) {
						pa := atomLin(atom{v: callee.Params[i]})
						f = append(f, ge(pa, konst(consts[i])), ge(konst(consts[i]), pa))
					}
				}
				f = append(f, sub.phiInv...)
				sub.domFacts(b, ret, &f)
				rv := sub.toLin(ret.Results[0], &f)
				var g lin
				if cd.lo {
					g = ge(rv, konst(cd.k)).e
				} else {
					g = ge(konst(cd.k), rv).e
				}
				if !entails(f, g) && !sub.caseSplit(ret, g, f, 0) {
					holds = false
					break
				}
			}
			if holds {
				res = append(res, specFact{cd.lo, cd.k})
			}
		}
		p.db.spec[key] = res
	}
	at := atomLin(atom{v: p.rep(call)})
	for _, sf := range res {
		if sf.lo {
			*facts = append(*facts, ge(at, konst(sf.k)))
		} else {
			*facts = append(*facts, ge(konst(sf.k), at))
		}
	}
}

type specFact struct {
	lo bool
	k  int64
}

func big64(i int64) string { return big.NewInt(i).String() }
