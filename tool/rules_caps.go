package main

// A6-caps and A6-recursion (C05).

import (
	"fmt"
	"go/token"
	"go/types"
	"os"
	"sort"

	"golang.org/x/tools/go/callgraph"
	"golang.org/x/tools/go/ssa"
)

var decodeEntries = [][2]string{
	{"", "Decode"}, {"", "DecodeConfig"}, {"", "GetFeatures"}, {"", "decodeFrameForAnimation"}, {"", "decodeBytes"},
	{"animation", "Decode"}, {"animation", "DecodeBytes"}, {"animation", "Animation.DecodeFrames"}, {"animation", "Animation.DecodeFramesParallel"},
	{"animation", "NewAnimDecoder"}, {"animation", "AnimDecoder.NextFrame"}, {"animation", "AnimDecoder.Reset"},
	{"mux", "NewDemuxer"},
}

func (a *a6) decodeReach() map[*ssa.Function]bool {
	var roots []*ssa.Function
	for _, e := range decodeEntries {
		f := a.p.Fn(e[0], e[1])
		if f == nil {
			a.c.AnchorMissing("A6-caps", e[0]+"."+e[1])
			continue
		}
		roots = append(roots, f)
	}
	out := map[*ssa.Function]bool{}
	for f := range a.p.Reachable(roots...) {
		if a.p.IsModFunc(f) && f.Blocks != nil {
			out[f] = true
		}
	}
	return out
}

type capCtx struct {
	a       *a6
	reach   map[*ssa.Function]bool
	memoP   map[*ssa.Parameter]int // 0 unknown, 1 in progress, 2 capped, 3 not
	memoF   map[string]int
	memoR   map[*ssa.Function]int
	phiBusy map[*ssa.Phi]bool
	why     string
	cut     bool // the depth limit was hit somewhere below: a negative answer is not a fact and is not memoised
}

// boundedLeaf: value is bounded by construction.
func boundedLeaf(v ssa.Value) bool {
	if _, ok := v.(*ssa.Const); ok {
		return true
	}
	if bits, _, ok := intBits(v.Type()); ok && bits <= 16 {
		return true
	}
	switch x := v.(type) {
	case *ssa.Call:
		if b, ok := x.Call.Value.(*ssa.Builtin); ok && (b.Name() == "len" || b.Name() == "cap" || b.Name() == "min") {
			return true
		}
		// extent of the bounds of an existing image
		if callee := x.Call.StaticCallee(); callee != nil && callee.Signature.Recv() != nil && len(x.Call.Args) > 0 {
			if shortType(callee.Signature.Recv().Type()) == "image.Rectangle" && (callee.Name() == "Dx" || callee.Name() == "Dy") {
				if rectOfExisting(x.Call.Args[0]) {
					return true
				}
			}
		}
	case *ssa.UnOp:
		if x.Op == token.MUL && constTableLoad(x) {
			return true
		}
	case *ssa.BinOp:
		if x.Op == token.AND {
			if _, ok := x.X.(*ssa.Const); ok {
				return true
			}
			if _, ok := x.Y.(*ssa.Const); ok {
				return true
			}
			for _, o := range []ssa.Value{x.X, x.Y} {
				if ld, ok := o.(*ssa.UnOp); ok && ld.Op == token.MUL && constTableLoad(ld) {
					return true
				}
			}
		}
		if x.Op == token.REM {
			if _, ok := x.Y.(*ssa.Const); ok {
				return true
			}
		}
	case *ssa.Convert:
		if bits, _, ok := intBits(x.X.Type()); ok && bits <= 16 {
			return true
		}
	}
	return false
}

// magBits: an upper bound on the bit length of v derived from types and constant arithmetic only
// (-1 = unknown).
func magBits(v ssa.Value, depth int) int {
	if v == nil || depth > 10 {
		return -1
	}
	if c, ok := v.(*ssa.Const); ok {
		if k, ok := intConst(c); ok {
			if k < 0 {
				return 0
			}
			n := 0
			for k > 0 {
				n++
				k >>= 1
			}
			return n
		}
		return -1
	}
	if boundedLeaf(v) {
		if bits, _, ok := intBits(v.Type()); ok && bits <= 16 {
			return bits
		}
		if cv, ok := v.(*ssa.Convert); ok {
			if bits, _, ok := intBits(cv.X.Type()); ok && bits <= 16 {
				return bits
			}
		}
		if bo, ok := v.(*ssa.BinOp); ok && bo.Op == token.AND {
			for _, o := range []ssa.Value{bo.X, bo.Y} {
				if k, ok := intConst(o); ok && k >= 0 {
					n := 0
					for k > 0 {
						n++
						k >>= 1
					}
					return n
				}
			}
			return 32
		}
		return 0 // len/cap/Dx of existing data: bounded by memory that already exists
	}
	switch x := v.(type) {
	case *ssa.Convert:
		m := magBits(x.X, depth+1)
		if bits, _, ok := intBits(x.Type()); ok && bits <= 32 && (m < 0 || m > bits) {
			if bits <= 16 {
				return bits
			}
		}
		return m
	case *ssa.ChangeType:
		return magBits(x.X, depth+1)
	case *ssa.BinOp:
		a, b := magBits(x.X, depth+1), magBits(x.Y, depth+1)
		switch x.Op {
		case token.OR, token.XOR:
			if a >= 0 && b >= 0 {
				if a > b {
					return a
				}
				return b
			}
		case token.ADD:
			if a >= 0 && b >= 0 {
				if a > b {
					return a + 1
				}
				return b + 1
			}
		case token.MUL:
			if a >= 0 && b >= 0 {
				return a + b
			}
		case token.SHL:
			if k, ok := intConst(x.Y); ok && a >= 0 && k >= 0 && k < 64 {
				return a + int(k)
			}
		case token.SHR, token.QUO:
			return a
		case token.AND:
			if a >= 0 && (b < 0 || a < b) {
				return a
			}
			return b
		}
	}
	return -1
}

// leavesOf decomposes a size expression into its open leaves. A sub-expression whose magnitude is
// known from types alone counts as bounded only up to 16 bits; wider assembled header fields
// (24/32-bit little-endian values) are open leaves that need a comparison with a constant.
func leavesOf(v ssa.Value, out map[ssa.Value]bool, depth int) {
	if v == nil || depth > 12 {
		return
	}
	if boundedLeaf(v) {
		if m := magBits(v, 0); m <= 16 {
			return
		}
		out[v] = true // bounded only by a wide mask: needs a comparison
		return
	}
	if m := magBits(v, 0); m >= 0 {
		if m <= 16 {
			return
		}
		if _, isBin := v.(*ssa.BinOp); isBin {
			if bo := v.(*ssa.BinOp); bo.Op == token.OR || bo.Op == token.SHL {
				out[v] = true // an assembled multi-byte field
				return
			}
		}
	}
	switch x := v.(type) {
	case *ssa.BinOp:
		switch x.Op {
		case token.ADD, token.SUB, token.MUL, token.SHL, token.SHR, token.QUO, token.OR:
			leavesOf(x.X, out, depth+1)
			if x.Op != token.SHR && x.Op != token.QUO {
				leavesOf(x.Y, out, depth+1)
			}
			return
		}
	case *ssa.Convert:
		leavesOf(x.X, out, depth+1)
		return
	case *ssa.ChangeType:
		leavesOf(x.X, out, depth+1)
		return
	case *ssa.Call:
		// builtin min / max: bounded when every operand is
		if bi, ok := x.Call.Value.(*ssa.Builtin); ok && (bi.Name() == "max" || bi.Name() == "min") {
			for _, a := range x.Call.Args {
				leavesOf(a, out, depth+1)
			}
			return
		}
	}
	out[v] = true
}

// cappedHere: a dominating comparison with a constant bounds leaf from above on the path to `at`.
func (cc *capCtx) cappedHere(leaf ssa.Value, at *ssa.BasicBlock) bool {
	pv := cc.a.db.proverFor(at.Parent())
	lrep := pv.rep(leaf)
	mentions := func(v ssa.Value) bool {
		ls := map[ssa.Value]bool{}
		leavesOf(v, ls, 0)
		for l := range ls {
			if pv.rep(l) == lrep {
				return true
			}
		}
		return pv.rep(v) == lrep
	}
	// every path from the entry to `at` must cross an edge whose branch condition bounds the leaf
	visited := map[*ssa.BasicBlock]int{}
	var capAt func(b *ssa.BasicBlock, depth int) bool
	capAt = func(b *ssa.BasicBlock, depth int) bool {
		switch visited[b] {
		case 1:
			return true // cycle: decided by the loop's entry paths
		case 2:
			return true
		case 3:
			return false
		}
		if len(b.Preds) == 0 || depth > 200 {
			visited[b] = 3
			return false
		}
		visited[b] = 1
		ok := true
		for _, pr := range b.Preds {
			capped := false
			if iff, isIf := pr.Instrs[len(pr.Instrs)-1].(*ssa.If); isIf && pr.Succs[0] != pr.Succs[1] {
				capped = cc.condCaps(iff.Cond, pr.Succs[0] == b, mentions, 0)
			}
			if !capped && !capAt(pr, depth+1) {
				ok = false
				break
			}
		}
		if ok {
			visited[b] = 2
		} else {
			visited[b] = 3
		}
		return ok
	}
	// the leaf must be defined before the capping comparison can refer to it; comparisons mentioning it are necessarily after its definition
	return capAt(at, 0)
}

// edgeCaps: the branch that ends pred, taken towards succ, bounds every leaf of v.
func (cc *capCtx) edgeCaps(v ssa.Value, pred, succ *ssa.BasicBlock) bool {
	iff, ok := pred.Instrs[len(pred.Instrs)-1].(*ssa.If)
	if !ok || pred.Succs[0] == pred.Succs[1] {
		return false
	}
	leaves := map[ssa.Value]bool{}
	leavesOf(v, leaves, 0)
	if len(leaves) == 0 {
		return true
	}
	pv := cc.a.db.proverFor(pred.Parent())
	for l := range leaves {
		lrep := pv.rep(l)
		mentions := func(w ssa.Value) bool {
			ls := map[ssa.Value]bool{}
			leavesOf(w, ls, 0)
			for k := range ls {
				if pv.rep(k) == lrep {
					return true
				}
			}
			return pv.rep(w) == lrep
		}
		if !cc.condCaps(iff.Cond, pred.Succs[0] == succ, mentions, 0) && !cc.cappedHere(l, pred) {
			return false
		}
	}
	return true
}

func (cc *capCtx) condCaps(cond ssa.Value, truth bool, mentions func(ssa.Value) bool, depth int) bool {
	if depth > 4 {
		return false
	}
	switch c := cond.(type) {
	case *ssa.BinOp:
		op := c.Op
		if !truth {
			op = negOp(op)
		}
		_, xc := c.X.(*ssa.Const)
		_, yc := c.Y.(*ssa.Const)
		switch {
		case yc && (op == token.LSS || op == token.LEQ || op == token.EQL) && mentions(c.X):
			return true
		case xc && (op == token.GTR || op == token.GEQ || op == token.EQL) && mentions(c.Y):
			return true
		}
		// x > C / y (overflow-safe product bound): caps both x and y
		for _, pr := range [][2]ssa.Value{{c.X, c.Y}, {c.Y, c.X}} {
			if q, ok := pr[1].(*ssa.BinOp); ok && q.Op == token.QUO {
				if _, isC := q.X.(*ssa.Const); isC && (mentions(pr[0]) || mentions(q.Y)) {
					if (pr[0] == c.X && (op == token.LSS || op == token.LEQ)) || (pr[0] == c.Y && (op == token.GTR || op == token.GEQ)) {
						return true
					}
				}
			}
		}
		// comparison against another bounded quantity (len of existing data)
		if (op == token.LSS || op == token.LEQ) && mentions(c.X) && boundedLeaf(c.Y) {
			return true
		}
		if (op == token.GTR || op == token.GEQ) && mentions(c.Y) && boundedLeaf(c.X) {
			return true
		}
	case *ssa.UnOp:
		if c.Op == token.NOT {
			return cc.condCaps(c.X, !truth, mentions, depth+1)
		}
	case *ssa.Phi:
		// a || b false => both false; a && b true => both true
		for i, e := range c.Edges {
			if k, ok := e.(*ssa.Const); ok && k.Value != nil {
				pred := c.Block().Preds[i]
				if iff, ok := pred.Instrs[len(pred.Instrs)-1].(*ssa.If); ok {
					if cc.condCaps(iff.Cond, pred.Succs[0] != c.Block(), mentions, depth+1) {
						return true
					}
				}
			} else if cc.condCaps(e, truth, mentions, depth+1) {
				return true
			}
		}
	}
	return false
}

func (cc *capCtx) valueCapped(v ssa.Value, at *ssa.BasicBlock, depth int) bool {
	leaves := map[ssa.Value]bool{}
	leavesOf(v, leaves, 0)
	var ls []ssa.Value
	for l := range leaves {
		ls = append(ls, l)
	}
	sort.Slice(ls, func(i, j int) bool { return ls[i].Name() < ls[j].Name() })
	for _, l := range ls {
		if !cc.leafCapped(l, at, depth) {
			return false
		}
	}
	return true
}

func (cc *capCtx) leafCapped(l ssa.Value, at *ssa.BasicBlock, depth int) (res bool) {
	if os.Getenv("VERIF_DEBUG_CAPS") != "" {
		defer func() {
			fmt.Fprintf(os.Stderr, "%*sleaf %s = %s in %s @%s -> %v\n", depth*2, "", l.Name(), l.String(), FnName(at.Parent()), cc.a.p.Pos(l.Pos()), res)
		}()
	}
	if cc.cappedHere(l, at) {
		if os.Getenv("VERIF_DEBUG_CAPS") != "" {
			fmt.Fprintf(os.Stderr, "%*s  (capped here)\n", depth*2, "")
		}
		return true
	}
	if depth > 14 {
		cc.cut = true
		cc.why = "call depth exceeded while looking for a cap of " + l.Name()
		return false
	}
	pv := cc.a.db.proverFor(at.Parent())
	switch x := pv.rep(l).(type) {
	case *ssa.Phi:
		if cc.phiBusy[x] {
			return true // loop-carried: decided by the other edges
		}
		cc.phiBusy[x] = true
		defer delete(cc.phiBusy, x)
		for i, e := range x.Edges {
			if e == ssa.Value(x) {
				continue
			}
			pred := x.Block().Preds[i]
			if cc.edgeCaps(e, pred, x.Block()) {
				continue
			}
			if !cc.valueCapped(e, pred, depth) {
				return false
			}
		}
		return true
	case *ssa.Parameter:
		switch cc.memoP[x] {
		case 1, 2:
			return true
		case 3:
			return false
		}
		cc.memoP[x] = 1
		fn := x.Parent()
		idx := -1
		for i, q := range fn.Params {
			if q == x {
				idx = i
			}
		}
		n := cc.a.p.CallGraph().Nodes[fn]
		ok := n != nil && len(n.In) > 0
		if n != nil {
			// the call graph's edge order is not stable between runs: visit the callers in source order
			ins := append([]*callgraph.Edge{}, n.In...)
			sort.SliceStable(ins, func(i, j int) bool {
				pi, pj := token.NoPos, token.NoPos
				if ins[i].Site != nil {
					pi = ins[i].Site.Pos()
				}
				if ins[j].Site != nil {
					pj = ins[j].Site.Pos()
				}
				return pi < pj
			})
			for _, e := range ins {
				caller := e.Caller.Func
				if e.Site == nil || !cc.reach[caller] {
					continue
				}
				args := e.Site.Common().Args
				if e.Site.Common().IsInvoke() {
					args = append([]ssa.Value{e.Site.Common().Value}, args...)
				}
				if idx >= len(args) {
					continue
				}
				if !cc.valueCapped(args[idx], e.Site.Block(), depth+1) {
					cc.why = fmt.Sprintf("argument %s of the call at %s is not bounded", x.Name(), cc.a.p.Pos(e.Site.Pos()))
					ok = false
					break
				}
			}
		}
		if ok {
			cc.memoP[x] = 2
		} else if cc.cut {
			delete(cc.memoP, x) // failed because of the depth limit on this route: ask again from a shallower one
		} else {
			cc.memoP[x] = 3
		}
		return ok
	case *ssa.UnOp:
		if x.Op == token.MUL {
			if fa, isFA := x.X.(*ssa.FieldAddr); isFA {
				return cc.fieldCapped(fa, depth)
			}
		}
	case *ssa.Field:
		// field of a struct value returned by a call or loaded: treat via the struct type's stores
		if st, ok := x.X.Type().Underlying().(*types.Struct); ok {
			return cc.fieldCappedByType(x.X.Type(), st, x.Field, depth)
		}
	case *ssa.Call:
		if callee := x.Call.StaticCallee(); callee != nil && cc.a.p.IsModFunc(callee) && callee.Blocks != nil {
			// reviewed axiom: a bit reader called with a constant width n returns a value below 1<<n
			if r := findRow(cc.a.rows, "caps-axiom", FnName(callee)); r != nil {
				for _, arg := range x.Call.Args {
					if k, ok := intConst(arg); ok && k >= 0 && k <= 16 {
						r.used = true
						return true
					}
				}
			}
			return cc.resultCapped(callee, 0, x, depth)
		}
	case *ssa.Extract:
		if call, ok := x.Tuple.(*ssa.Call); ok {
			if callee := call.Call.StaticCallee(); callee != nil && cc.a.p.IsModFunc(callee) && callee.Blocks != nil {
				return cc.resultCapped(callee, x.Index, call, depth)
			}
		}
	}
	cc.why = "size depends on " + l.Name() + " (" + l.String() + "), for which no bounding comparison with a constant was found"
	return false
}

func (cc *capCtx) resultCapped(callee *ssa.Function, idx int, call *ssa.Call, depth int) bool {
	key := callee
	switch cc.memoR[key] {
	case 1, 2:
		return true
	case 3:
		return false
	}
	cc.memoR[key] = 1
	ok := true
	for _, b := range callee.Blocks {
		ret, isRet := b.Instrs[len(b.Instrs)-1].(*ssa.Return)
		if !isRet || idx >= len(ret.Results) {
			continue
		}
		if !cc.valueCapped(ret.Results[idx], b, depth+1) {
			ok = false
			break
		}
	}
	if ok {
		cc.memoR[key] = 2
	} else if cc.cut {
		delete(cc.memoR, key)
	} else {
		cc.memoR[key] = 3
	}
	return ok
}

func (cc *capCtx) fieldCapped(fa *ssa.FieldAddr, depth int) bool {
	st := structOf(fa.X.Type())
	if st == nil {
		return false
	}
	return cc.fieldCappedByType(fa.X.Type().Underlying().(*types.Pointer).Elem(), st, fa.Field, depth)
}

// fieldCappedByType: field invariant - every store to the field in the module stores a capped value.
func (cc *capCtx) fieldCappedByType(t types.Type, st *types.Struct, field int, depth int) bool {
	key := shortType(t) + "." + st.Field(field).Name()
	switch cc.memoF[key] {
	case 1, 2:
		return true
	case 3:
		return false
	}
	if r := findRow(cc.a.rows, "caps-field", key); r != nil {
		r.used = true
		cc.memoF[key] = 2
		return true
	}
	cc.memoF[key] = 1
	ok := true
	nstores := 0
	for _, fn := range cc.a.p.SrcFuncs() {
		for _, b := range fn.Blocks {
			for _, in := range b.Instrs {
				s, isSt := in.(*ssa.Store)
				if !isSt {
					continue
				}
				fa, isFA := s.Addr.(*ssa.FieldAddr)
				if !isFA || fa.Field != field {
					continue
				}
				st2 := structOf(fa.X.Type())
				if st2 == nil || !types.Identical(st2, st) {
					continue
				}
				nstores++
				if !cc.valueCapped(s.Val, b, depth+1) {
					cc.why = fmt.Sprintf("field %s is assigned an unbounded value at %s", key, cc.a.p.Pos(s.Pos()))
					ok = false
				}
			}
		}
	}
	if nstores == 0 {
		// only set through composite literals of a caller-provided struct: not decided here
		cc.why = "field " + key + " has no store in the module"
		ok = false
	}
	if ok {
		cc.memoF[key] = 2
	} else if cc.cut {
		delete(cc.memoF, key)
	} else {
		cc.memoF[key] = 3
	}
	return ok
}

func (a *a6) caps() {
	c, p := a.c, a.p
	reach := a.decodeReach()
	cc := &capCtx{a: a, reach: reach, memoP: map[*ssa.Parameter]int{}, memoF: map[string]int{}, memoR: map[*ssa.Function]int{}, phiBusy: map[*ssa.Phi]bool{}}
	var fns []*ssa.Function
	for f := range reach {
		fns = append(fns, f)
	}
	sort.Slice(fns, func(i, j int) bool { return FnName(fns[i]) < FnName(fns[j]) })
	n := 0
	for _, fn := range fns {
		k := 0
		for _, b := range fn.Blocks {
			for _, in := range b.Instrs {
				var sizes []ssa.Value
				what := ""
				switch x := in.(type) {
				case *ssa.MakeSlice:
					sizes = []ssa.Value{x.Len, x.Cap}
					what = "make"
				case *ssa.MakeChan:
					sizes = []ssa.Value{x.Size}
					what = "make(chan)"
				case *ssa.Call:
					callee := x.Call.StaticCallee()
					if callee != nil && callee.Pkg != nil && callee.Pkg.Pkg.Path() == "image" {
						switch callee.Name() {
						case "NewNRGBA", "NewRGBA", "NewYCbCr", "NewGray", "NewAlpha", "NewPaletted", "NewNRGBA64", "NewRGBA64", "NewNYCbCrA":
							what = "image." + callee.Name()
							// the rectangle argument: find the image.Rect call or struct it comes from
							sizes = rectSizes(x.Call.Args[0])
						}
					}
				}
				if what == "" {
					continue
				}
				allConst := true
				for _, s := range sizes {
					if _, ok := s.(*ssa.Const); !ok {
						allConst = false
					}
				}
				if allConst {
					continue
				}
				k++
				n++
				okey := fmt.Sprintf("%s:alloc#%d", FnName(fn), k)
				cc.why = ""
				cc.cut = false
				good := true
				for _, s := range sizes {
					if !cc.valueCapped(s, b, 0) {
						good = false
						break
					}
				}
				if good {
					c.Pass("A6-caps", okey, p.Pos(in.Pos()), what+": every factor of the size is bounded by construction or by a dominating comparison with a constant (in this function, at every call site, or as a field invariant)")
					continue
				}
				if r := findRow(a.rows, "caps", okey); r != nil {
					r.used = true
					c.Pass("A6-caps", okey, p.Pos(in.Pos()), "reviewed: "+r.reason)
					continue
				}
				c.Fail("A6-caps", okey, p.Pos(in.Pos()), what+" with an input-dependent size that is not capped: "+cc.why)
			}
		}
	}
	c.Floor("A6-caps", n, 20)
}

// rectSizes: the extents of an image.Rectangle value.
func rectSizes(v ssa.Value) []ssa.Value {
	switch x := v.(type) {
	case *ssa.Call:
		if callee := x.Call.StaticCallee(); callee != nil && callee.Name() == "Rect" && len(x.Call.Args) == 4 {
			return x.Call.Args
		}
		// Bounds() of an existing image: bounded by existing data
		if callee := x.Call.StaticCallee(); callee != nil && callee.Name() == "Bounds" {
			return nil
		}
		if x.Call.IsInvoke() && x.Call.Method.Name() == "Bounds" {
			return nil
		}
	case *ssa.UnOp:
		if x.Op == token.MUL {
			// rectangle loaded from a field of an existing image or struct
			if fa, ok := x.X.(*ssa.FieldAddr); ok {
				if st := structOf(fa.X.Type()); st != nil && st.Field(fa.Field).Name() == "Rect" {
					return nil
				}
			}
		}
	}
	return []ssa.Value{v}
}

// recursion: every call-graph cycle reachable from a decode entry point has a depth guard.
func (a *a6) recursion() {
	c, p := a.c, a.p
	reach := a.decodeReach()
	cg := p.CallGraph()
	// Tarjan SCC over reachable module functions
	index := map[*ssa.Function]int{}
	low := map[*ssa.Function]int{}
	on := map[*ssa.Function]bool{}
	var stack []*ssa.Function
	var sccs [][]*ssa.Function
	idx := 0
	var fns []*ssa.Function
	for f := range reach {
		fns = append(fns, f)
	}
	sort.Slice(fns, func(i, j int) bool { return FnName(fns[i]) < FnName(fns[j]) })
	var strong func(v *ssa.Function)
	strong = func(v *ssa.Function) {
		idx++
		index[v], low[v] = idx, idx
		stack = append(stack, v)
		on[v] = true
		if n := cg.Nodes[v]; n != nil {
			for _, e := range n.Out {
				w := e.Callee.Func
				if !reach[w] {
					continue
				}
				if index[w] == 0 {
					strong(w)
					if low[w] < low[v] {
						low[v] = low[w]
					}
				} else if on[w] && index[w] < low[v] {
					low[v] = index[w]
				}
			}
		}
		if low[v] == index[v] {
			var comp []*ssa.Function
			for {
				w := stack[len(stack)-1]
				stack = stack[:len(stack)-1]
				on[w] = false
				comp = append(comp, w)
				if w == v {
					break
				}
			}
			sccs = append(sccs, comp)
		}
	}
	for _, f := range fns {
		if index[f] == 0 {
			strong(f)
		}
	}
	ncyc := 0
	for _, comp := range sccs {
		self := false
		if len(comp) == 1 {
			if n := cg.Nodes[comp[0]]; n != nil {
				for _, e := range n.Out {
					if e.Callee.Func == comp[0] {
						self = true
					}
				}
			}
			if !self {
				continue
			}
		}
		ncyc++
		sort.Slice(comp, func(i, j int) bool { return FnName(comp[i]) < FnName(comp[j]) })
		var names []string
		in := map[*ssa.Function]bool{}
		for _, f := range comp {
			names = append(names, FnName(f))
			in[f] = true
		}
		okey := "cycle:" + names[0]
		guard := ""
		for _, f := range comp {
			if g := depthGuard(p, f, in); g != "" {
				guard = g
				break
			}
		}
		if guard != "" {
			c.Pass("A6-recursion", okey, p.Pos(comp[0].Pos()), fmt.Sprintf("cycle %v is depth-guarded: %s", names, guard))
			continue
		}
		if r := findRow(a.rows, "recursion", okey); r != nil {
			r.used = true
			c.Pass("A6-recursion", okey, p.Pos(comp[0].Pos()), "reviewed: "+r.reason)
			continue
		}
		c.Fail("A6-recursion", okey, p.Pos(comp[0].Pos()), fmt.Sprintf("call-graph cycle %v reachable from a decode entry point has no depth counter compared with a constant before the recursive call", names))
	}
	c.Check(ncyc >= 1, "A6-recursion", "cycles-found", "", fmt.Sprintf("%d cycles among %d reachable functions", ncyc, len(fns)), "no recursion cycle found: the lossless sub-image recursion is expected")
}

// depthGuard: f increments a field, compares the field with a constant, returns on the exceeding
// branch, and the comparison dominates every call of f into the cycle.
func depthGuard(p *Program, f *ssa.Function, cycle map[*ssa.Function]bool) string {
	pvv := &prover{fn: f}
	pvv.canonLoads()
	rep := pvv.rep
	type fk struct {
		base  ssa.Value
		field int
	}
	incremented := map[fk]bool{}
	for _, b := range f.Blocks {
		for _, in := range b.Instrs {
			st, ok := in.(*ssa.Store)
			if !ok {
				continue
			}
			fa, ok := st.Addr.(*ssa.FieldAddr)
			if !ok {
				continue
			}
			bo, ok := st.Val.(*ssa.BinOp)
			if !ok || bo.Op != token.ADD {
				continue
			}
			if _, isC := bo.Y.(*ssa.Const); !isC {
				continue
			}
			if ld, ok := bo.X.(*ssa.UnOp); ok && ld.Op == token.MUL {
				if fa2, ok := ld.X.(*ssa.FieldAddr); ok && rep(fa2.X) == rep(fa.X) && fa2.Field == fa.Field {
					incremented[fk{rep(fa.X), fa.Field}] = true
				}
			}
		}
	}
	if len(incremented) == 0 {
		return ""
	}
	for _, b := range f.Blocks {
		iff, ok := b.Instrs[len(b.Instrs)-1].(*ssa.If)
		if !ok {
			continue
		}
		cmp, ok := iff.Cond.(*ssa.BinOp)
		if !ok || (cmp.Op != token.GTR && cmp.Op != token.GEQ) {
			continue
		}
		if _, isC := cmp.Y.(*ssa.Const); !isC {
			continue
		}
		ld, ok := cmp.X.(*ssa.UnOp)
		if !ok || ld.Op != token.MUL {
			continue
		}
		fa, ok := ld.X.(*ssa.FieldAddr)
		if !ok || !incremented[fk{rep(fa.X), fa.Field}] {
			continue
		}
		// exceeding branch returns
		exc := b.Succs[0]
		if _, isRet := exc.Instrs[len(exc.Instrs)-1].(*ssa.Return); !isRet {
			continue
		}
		cont := b.Succs[1]
		// every call into the cycle is dominated by the continuing branch
		all := true
		for _, b2 := range f.Blocks {
			for _, in := range b2.Instrs {
				ci, ok := in.(ssa.CallInstruction)
				if !ok {
					continue
				}
				callee := ci.Common().StaticCallee()
				if callee != nil && cycle[callee] && !cont.Dominates(b2) {
					all = false
				}
			}
		}
		if all {
			st := structOf(fa.X.Type())
			name := "field"
			if st != nil {
				name = st.Field(fa.Field).Name()
			}
			return fmt.Sprintf("%s increments %s and returns when it exceeds %s", FnName(f), name, cmp.Y.Name())
		}
	}
	return ""
}

// constTableLoad: load of an element of a package-level array of integers (constant table).
func constTableLoad(ld *ssa.UnOp) bool {
	ia, ok := ld.X.(*ssa.IndexAddr)
	if !ok {
		return false
	}
	g, ok := ia.X.(*ssa.Global)
	if !ok {
		return false
	}
	arr, ok := g.Type().(*types.Pointer).Elem().Underlying().(*types.Array)
	if !ok {
		return false
	}
	_, _, isInt := intBits(arr.Elem())
	return isInt
}

// rectOfExisting: the rectangle is the bounds of an image that already exists.
func rectOfExisting(v ssa.Value) bool {
	switch x := v.(type) {
	case *ssa.Call:
		if callee := x.Call.StaticCallee(); callee != nil && callee.Name() == "Bounds" {
			return true
		}
		if x.Call.IsInvoke() && x.Call.Method.Name() == "Bounds" {
			return true
		}
	case *ssa.UnOp:
		if x.Op == token.MUL {
			if fa, ok := x.X.(*ssa.FieldAddr); ok {
				if st := structOf(fa.X.Type()); st != nil && st.Field(fa.Field).Name() == "Rect" {
					return true
				}
			}
			if a, ok := x.X.(*ssa.Alloc); ok {
				for _, u := range *a.Referrers() {
					if st, ok := u.(*ssa.Store); ok && st.Addr == ssa.Value(a) && !rectOfExisting(st.Val) {
						return false
					}
				}
				return true
			}
		}
	case *ssa.Phi:
		for _, e := range x.Edges {
			if e != v && !rectOfExisting(e) {
				return false
			}
		}
		return true
	}
	return false
}
