package main

// Kernel agreement rules built on the S8 normal-form evaluator:
//   K1 (C04): every VP8 intra predictor of the repository has, for every sample of its block, the same
//       normal form as the predictor of the independent RFC 6386 implementation golang.org/x/image/vp8
//       (normal forms extracted once, by this same evaluator, into ref/ximage_kernels.json).
//   K2 (C04): the inverse DCT, its DC-only and 3-coefficient shortcuts and the inverse WHT agree with
//       that implementation (the shortcuts also with the repository's own full transform on inputs
//       whose other coefficients are zero).
//   K3 (C06): the encoder's reconstruction transform is the decoder's inverse transform.

import (
	"encoding/json"
	"fmt"
	"go/constant"
	"go/types"
	"os"
	"path/filepath"
	"sort"
	"strings"

	"golang.org/x/tools/go/packages"
	"golang.org/x/tools/go/ssa"
	"golang.org/x/tools/go/ssa/ssautil"
)

type kernOut map[string]string // output sample -> normal form

type kernRef struct {
	Source string                        `json:"source"`
	Method string                        `json:"method"`
	Kern   map[string]map[string]kernOut `json:"kernels"` // family -> slot -> outputs
}

func kernelEval(body func(x *kx)) (err error) {
	defer func() {
		if r := recover(); r != nil {
			switch e := r.(type) {
			case kerr:
				err = fmt.Errorf("%s", e.msg)
			case ksplit:
				err = fmt.Errorf("case split outside of a function body on %s", e.subj.key())
			default:
				panic(r)
			}
		}
	}()
	body(newKX())
	return nil
}

const kOrigin = 8 // block origin row/column inside the pixel window

// pixel window object: a flat plane with the given stride; samples are named p(r,c) relative to the
// block origin.
func (x *kx) pixelPlane(name string, stride, rows int64, input bool) (*kobj, int64) {
	o := x.newObj(name)
	origin := kOrigin*stride + kOrigin
	if input {
		o.input = func(off int64) (string, int64, int64, bool) {
			if off < 0 || off >= stride*rows {
				return "", 0, 0, false
			}
			d := off - origin
			r := floorDiv(d+kOrigin, stride)
			c := d - r*stride
			return fmt.Sprintf("%s(%d,%d)", name, r, c), 0, 255, true
		}
	}
	return o, origin
}

func planeOutputs(x *kx, o *kobj, stride int64, name string) kernOut {
	origin := kOrigin*stride + kOrigin
	out := kernOut{}
	for off, v := range x.st.mem[o] {
		d := off - origin
		r := floorDiv(d+kOrigin, stride)
		c := d - r*stride
		if v.kind != kvNum {
			out[fmt.Sprintf("%s(%d,%d)", name, r, c)] = "?non-numeric"
			continue
		}
		out[fmt.Sprintf("%s(%d,%d)", name, r, c)] = v.n.key()
	}
	return out
}

func coeffInput(x *kx, name string, n int64, lo, hi int64, zeroExcept map[int64]bool) *kobj {
	o := x.newObj(name)
	o.input = func(off int64) (string, int64, int64, bool) {
		if off < 0 || off >= n {
			return "", 0, 0, false
		}
		return fmt.Sprintf("%s(%d)", name, off), lo, hi, true
	}
	if zeroExcept != nil {
		for i := int64(0); i < n; i++ {
			if !zeroExcept[i] {
				x.store(o, i, kint(0))
			}
		}
	}
	return o
}

func constOf(pk *packages.Package, name string) (int64, bool) {
	if pk == nil {
		return 0, false
	}
	c, ok := pk.Types.Scope().Lookup(name).(*types.Const)
	if !ok {
		return 0, false
	}
	v, ok := constInt64(c.Val())
	return v, ok
}

// ---- repository side ----

// repoPredictor evaluates fn(dst []byte, off int) (with a leading mode argument when mode >= 0).
func repoPredictor(fn *ssa.Function, bps int64, mode int64) (kernOut, error) {
	var out kernOut
	err := kernelEval(func(x *kx) {
		rows := int64(40)
		o, origin := x.pixelPlane("p", bps, rows, true)
		args := []kval{{kind: kvSlice, obj: o, ln: bps * rows, cp: bps * rows}, kint(origin)}
		if mode >= 0 {
			args = append([]kval{kint(mode)}, args...)
		}
		if len(fn.Params) != len(args) {
			kfail("%s has %d parameters, expected %d", fn.Name(), len(fn.Params), len(args))
		}
		x.call(fn, args, nil)
		out = planeOutputs(x, o, bps, "p")
	})
	return out, err
}

// repoTransform evaluates fn(in []int16, dst []byte [, doTwo bool]) on a pixel plane; zeroExcept limits
// the non-zero coefficients (nil = all 16 symbolic).
func repoTransform(fn *ssa.Function, bps int64, zeroExcept map[int64]bool, extra ...kval) (kernOut, error) {
	var out kernOut
	err := kernelEval(func(x *kx) {
		rows := int64(24)
		o, origin := x.pixelPlane("p", bps, rows, true)
		co := coeffInput(x, "c", 32, -2048, 2047, zeroExcept)
		args := []kval{{kind: kvSlice, obj: co, ln: 32, cp: 32}, {kind: kvSlice, obj: o, off: origin, ln: bps*rows - origin, cp: bps*rows - origin}}
		args = append(args, extra...)
		if len(fn.Params) != len(args) {
			kfail("%s has %d parameters, expected %d", fn.Name(), len(fn.Params), len(args))
		}
		x.call(fn, args, nil)
		out = planeOutputs(x, o, bps, "p")
	})
	return out, err
}

// repoEncTransform evaluates fn(ref []byte, in []int16, dst []byte [, doTwo bool]); the outputs are named
// like the decoder's (p(r,c)), the reference block provides the input samples p(r,c).
func repoEncTransform(fn *ssa.Function, bps int64, extra ...kval) (kernOut, error) {
	var out kernOut
	err := kernelEval(func(x *kx) {
		rows := int64(24)
		ro, origin := x.pixelPlane("p", bps, rows, true)
		do, _ := x.pixelPlane("p", bps, rows, false)
		co := coeffInput(x, "c", 32, -2048, 2047, nil)
		n := bps*rows - origin
		args := []kval{{kind: kvSlice, obj: ro, off: origin, ln: n, cp: n}, {kind: kvSlice, obj: co, ln: 32, cp: 32}, {kind: kvSlice, obj: do, off: origin, ln: n, cp: n}}
		args = append(args, extra...)
		if len(fn.Params) != len(args) {
			kfail("%s has %d parameters, expected %d", fn.Name(), len(fn.Params), len(args))
		}
		x.call(fn, args, nil)
		out = planeOutputs(x, do, bps, "p")
	})
	return out, err
}

// repoWHT evaluates fn(in []int16, out []int16): out[16*k] = k-th DC.
func repoWHT(fn *ssa.Function) (kernOut, error) {
	var out kernOut
	err := kernelEval(func(x *kx) {
		co := coeffInput(x, "c", 16, -2048, 2047, nil)
		oo := x.newObj("out")
		args := []kval{{kind: kvSlice, obj: co, ln: 16, cp: 16}, {kind: kvSlice, obj: oo, ln: 256, cp: 256}}
		if len(fn.Params) != len(args) {
			kfail("%s has %d parameters, expected 2", fn.Name(), len(fn.Params))
		}
		x.call(fn, args, nil)
		out = kernOut{}
		for off, v := range x.st.mem[oo] {
			if v.kind == kvNum {
				out[fmt.Sprintf("dc(%d)", off)] = v.n.key()
			}
		}
	})
	return out, err
}

// slotFuncs reads "G[i] = f" stores of function values into the package-level array G from the
// package's functions (init or an explicit initialiser).
func slotFuncs(pk *ssa.Package, global string) map[int64]*ssa.Function {
	out := map[int64]*ssa.Function{}
	g, _ := pk.Members[global].(*ssa.Global)
	if g == nil {
		return out
	}
	// several functions may fill the table (the portable initialiser, then an architecture-specific
	// init that overrides some slots with assembly wrappers). The map of package members has no
	// stable order, so the choice is made explicit: the portable Go kernel - the one every other
	// platform runs - is preferred over a function defined in a GOARCH-specific file.
	var names []string
	for n, m := range pk.Members {
		if _, ok := m.(*ssa.Function); ok {
			names = append(names, n)
		}
	}
	sort.Strings(names)
	archFile := func(f *ssa.Function) bool {
		if f == nil || f.Prog == nil {
			return false
		}
		fname := f.Prog.Fset.Position(f.Pos()).Filename
		for _, a := range []string{"_amd64", "_arm64", "_386", "_arm.", "_riscv64", "_ppc64", "_s390x", "_wasm", "_loong64", "_mips"} {
			if strings.Contains(fname, a) {
				return true
			}
		}
		return false
	}
	set := func(i int64, f *ssa.Function) {
		if old, ok := out[i]; ok && !archFile(old) && archFile(f) {
			return // keep the portable kernel
		}
		out[i] = f
	}
	for _, mn := range names {
		fn := pk.Members[mn].(*ssa.Function)
		for _, b := range fn.Blocks {
			for _, in := range b.Instrs {
				st, ok := in.(*ssa.Store)
				if !ok {
					continue
				}
				ia, ok := st.Addr.(*ssa.IndexAddr)
				if !ok {
					continue
				}
				if ia.X != ssa.Value(g) {
					// G = [...]T{f0, f1, ...}: the literal is built in a local array that is then copied to G
					al, isAlloc := ia.X.(*ssa.Alloc)
					if !isAlloc || !copiedTo(al, g) {
						continue
					}
				}
				idx, okc := ia.Index.(*ssa.Const)
				if !okc {
					continue
				}
				i, _ := constantInt(idx)
				switch v := st.Val.(type) {
				case *ssa.Function:
					set(i, v)
				case *ssa.MakeClosure:
					set(i, v.Fn.(*ssa.Function))
				case *ssa.ChangeType:
					if f, ok := v.X.(*ssa.Function); ok {
						set(i, f)
					}
				}
			}
		}
	}
	return out
}

// ---- reference side (golang.org/x/image/vp8) ----

func genKernRef(ximage, out string) error {
	tmp, err := os.MkdirTemp("", "ximage-")
	if err != nil {
		return err
	}
	defer os.RemoveAll(tmp)
	for _, dir := range []string{"vp8", "vp8l", "riff", "webp"} {
		ents, err := os.ReadDir(filepath.Join(ximage, dir))
		if err != nil {
			return err
		}
		if err := os.MkdirAll(filepath.Join(tmp, dir), 0o755); err != nil {
			return err
		}
		for _, e := range ents {
			if !strings.HasSuffix(e.Name(), ".go") || strings.HasSuffix(e.Name(), "_test.go") {
				continue
			}
			b, err := os.ReadFile(filepath.Join(ximage, dir, e.Name()))
			if err != nil {
				return err
			}
			if err := os.WriteFile(filepath.Join(tmp, dir, e.Name()), b, 0o644); err != nil {
				return err
			}
		}
	}
	if err := os.WriteFile(filepath.Join(tmp, "go.mod"), []byte("module golang.org/x/image\n\ngo 1.21\n"), 0o644); err != nil {
		return err
	}
	cfg := &packages.Config{Mode: packages.LoadAllSyntax, Dir: tmp, Env: goEnv("", "")}
	pkgs, err := packages.Load(cfg, "./vp8", "./webp")
	if err != nil {
		return err
	}
	for _, q := range pkgs {
		if len(q.Errors) > 0 {
			return fmt.Errorf("loading %s: %v", q.PkgPath, q.Errors)
		}
	}
	prog, _ := ssautil.AllPackages(pkgs, ssa.InstantiateGenerics)
	prog.Build()
	var pk, wpk *ssa.Package
	for _, q := range prog.AllPackages() {
		switch q.Pkg.Path() {
		case "golang.org/x/image/vp8":
			pk = q
		case "golang.org/x/image/webp":
			wpk = q
		}
	}
	if pk == nil || wpk == nil {
		return fmt.Errorf("x/image: packages vp8 and webp not loaded")
	}
	dec, _ := pk.Members["Decoder"].(*ssa.Type)
	if dec == nil {
		return fmt.Errorf("x/image/vp8: no Decoder type")
	}
	st := dec.Type().Underlying().(*types.Struct)
	fieldAt := func(name string) (off, n, stride int64, err error) {
		for i := 0; i < st.NumFields(); i++ {
			if st.Field(i).Name() == name {
				ft := st.Field(i).Type()
				off = fieldOffset(st, i)
				n = flatSize(ft)
				if a, ok := ft.Underlying().(*types.Array); ok {
					stride = flatSize(a.Elem())
				}
				return off, n, stride, nil
			}
		}
		return 0, 0, 0, fmt.Errorf("x/image/vp8.Decoder has no field %s", name)
	}
	ybrOff, ybrN, ybrStride, err := fieldAt("ybr")
	if err != nil {
		return err
	}
	cfOff, cfN, _, err := fieldAt("coeff")
	if err != nil {
		return err
	}
	const y0, x0 = 4, 8
	type setup struct {
		coeffBase int64
		zeroCoeff bool
	}
	run := func(fn *ssa.Function, coeffBase int64, coeffOut bool, args ...kval) (kernOut, error) {
		var res kernOut
		err := kernelEval(func(x *kx) {
			z := x.newObj("z")
			z.input = func(off int64) (string, int64, int64, bool) {
				switch {
				case off >= ybrOff && off < ybrOff+ybrN:
					d := off - ybrOff
					return fmt.Sprintf("p(%d,%d)", d/ybrStride-y0, d%ybrStride-x0), 0, 255, true
				case off >= cfOff && off < cfOff+cfN:
					return fmt.Sprintf("c(%d)", off-cfOff-coeffBase), -2048, 2047, true
				}
				return "", 0, 0, false
			}
			all := append([]kval{{kind: kvPtr, obj: z}}, args...)
			if len(fn.Params) != len(all) {
				kfail("%s has %d parameters, expected %d", fn.Name(), len(fn.Params), len(all))
			}
			x.call(fn, all, nil)
			res = kernOut{}
			for off, v := range x.st.mem[z] {
				if v.kind != kvNum {
					continue
				}
				switch {
				case off >= ybrOff && off < ybrOff+ybrN:
					d := off - ybrOff
					res[fmt.Sprintf("p(%d,%d)", d/ybrStride-y0, d%ybrStride-x0)] = v.n.key()
				case coeffOut && off >= cfOff && off < cfOff+cfN:
					res[fmt.Sprintf("dc(%d)", off-cfOff)] = v.n.key()
				}
			}
		})
		return res, err
	}
	ref := kernRef{
		Source: "golang.org/x/image v0.0.0-20190802002840-cff245a6509b (vp8), BSD-3-Clause, see ref/XIMAGE_LICENSE",
		Method: "normal forms computed by the S8 kernel evaluator from the SSA form of the package; no code was executed",
		Kern:   map[string]map[string]kernOut{},
	}
	for fam, g := range map[string]string{"pred4": "predFunc4", "pred8": "predFunc8", "pred16": "predFunc16"} {
		ref.Kern[fam] = map[string]kernOut{}
		slots := slotFuncs(pk, g)
		if len(slots) == 0 {
			return fmt.Errorf("x/image/vp8: no functions found in %s", g)
		}
		for i, fn := range slots {
			o, err := run(fn, 0, false, kint(y0), kint(x0))
			if err != nil {
				return fmt.Errorf("%s[%d] %s: %v", g, i, fn.Name(), err)
			}
			ref.Kern[fam][fmt.Sprint(i)] = o
		}
	}
	meth := func(name string) *ssa.Function {
		return prog.LookupMethod(types.NewPointer(dec.Type()), pk.Pkg, name)
	}
	ref.Kern["transform"] = map[string]kernOut{}
	for slot, name := range map[string]string{"idct": "inverseDCT4", "idct-dc": "inverseDCT4DCOnly"} {
		fn := meth(name)
		if fn == nil {
			return fmt.Errorf("x/image/vp8: no method %s", name)
		}
		o, err := run(fn, 100, false, kint(y0), kint(x0), kint(100))
		if err != nil {
			return fmt.Errorf("%s: %v", name, err)
		}
		ref.Kern["transform"][slot] = o
	}
	if fn := meth("inverseWHT16"); fn != nil {
		o, err := run(fn, 384, true)
		if err != nil {
			return fmt.Errorf("inverseWHT16: %v", err)
		}
		ref.Kern["transform"]["wht"] = o
	} else {
		return fmt.Errorf("x/image/vp8: no method inverseWHT16")
	}
	uf := wpk.Func("unfilterAlpha")
	if uf == nil {
		return fmt.Errorf("x/image/webp: no function unfilterAlpha")
	}
	ref.Kern["alpha-unfilter"] = map[string]kernOut{}
	for _, sz := range alphaSizes {
		alphaW, alphaH = sz[0], sz[1]
		for k := int64(1); k <= 3; k++ {
			var res kernOut
			err := kernelEval(func(x *kx) {
				o := alphaPlane(x, "f", true)
				x.call(uf, []kval{{kind: kvSlice, obj: o, ln: alphaW * alphaH, cp: alphaW * alphaH}, kint(alphaW), kint(k)}, nil)
				res = alphaOutputs(x, o)
			})
			if err != nil {
				return fmt.Errorf("unfilterAlpha(filter=%d, %dx%d): %v", k, alphaW, alphaH, err)
			}
			ref.Kern["alpha-unfilter"][fmt.Sprintf("%d@%dx%d", k, alphaW, alphaH)] = res
		}
	}
	alphaW, alphaH = alphaSizes[0][0], alphaSizes[0][1]
	b, _ := json.MarshalIndent(ref, "", " ")
	return os.WriteFile(out, b, 0o644)
}

// ---- alpha prediction filters (fixed plane size) ----

// plane size used by the alpha-filter rules (set per evaluated size)
var alphaW, alphaH int64 = 5, 4

// alphaSizes: quick tier uses the first; the thorough tier all (single row, single column, 1x1, 2x2, wide)
var alphaSizes = [][2]int64{{5, 4}, {1, 1}, {1, 5}, {5, 1}, {2, 2}, {9, 3}}

func alphaPlane(x *kx, name string, input bool) *kobj {
	o := x.newObj(name)
	if input {
		o.input = func(off int64) (string, int64, int64, bool) {
			if off < 0 || off >= alphaW*alphaH {
				return "", 0, 0, false
			}
			return fmt.Sprintf("%s(%d,%d)", name, off/alphaW, off%alphaW), 0, 255, true
		}
	}
	return o
}

func alphaOutputs(x *kx, o *kobj) kernOut {
	res := kernOut{}
	for off, v := range x.st.mem[o] {
		if v.kind == kvNum {
			res[fmt.Sprintf("a(%d,%d)", off/alphaW, off%alphaW)] = v.n.key()
		} else {
			res[fmt.Sprintf("a(%d,%d)", off/alphaW, off%alphaW)] = "?non-numeric"
		}
	}
	return res
}

func loadKernRef(path string) (*kernRef, error) {
	b, err := os.ReadFile(path)
	if err != nil {
		return nil, err
	}
	var r kernRef
	if err := json.Unmarshal(b, &r); err != nil {
		return nil, err
	}
	return &r, nil
}

// diffKern describes the first difference between two output tables ("" = equal).
func diffKern(got, want kernOut) string {
	keys := map[string]bool{}
	for k := range got {
		keys[k] = true
	}
	for k := range want {
		keys[k] = true
	}
	var ks []string
	for k := range keys {
		ks = append(ks, k)
	}
	sort.Strings(ks)
	for _, k := range ks {
		g, okg := got[k]
		w, okw := want[k]
		switch {
		case !okg:
			return fmt.Sprintf("sample %s is not written (reference: %s)", k, short(w))
		case !okw:
			return fmt.Sprintf("sample %s is written (%s) but not by the reference", k, short(g))
		case g != w:
			return fmt.Sprintf("sample %s = %s, reference %s", k, short(g), short(w))
		}
	}
	return ""
}

func short(s string) string {
	if len(s) > 160 {
		return s[:160] + "..."
	}
	return s
}

// ---- the rules ----

var predFamilies = []struct {
	fam, global, direct string
	size                int
	slots               map[int64]string // repository slot -> reference slot
}{
	{"pred4", "PredLuma4", "PredLuma4Direct", 4, map[int64]string{0: "0", 1: "1", 2: "2", 3: "3", 4: "4", 5: "5", 6: "6", 7: "7", 8: "8", 9: "9"}},
	{"pred16", "PredLuma16", "PredLuma16Direct", 16, map[int64]string{0: "0", 1: "1", 2: "2", 3: "3", 4: "10", 5: "11", 6: "12"}},
	{"pred8", "PredChroma8", "PredChroma8Direct", 8, map[int64]string{0: "0", 1: "1", 2: "2", 3: "3", 4: "10", 5: "11", 6: "12"}},
}

func kernelPredictors(c *Ctx, p *Program, ref *kernRef) {
	pk := p.SSAPkg("internal/dsp")
	bps, okb := constOf(p.Pkg("internal/dsp"), "BPS")
	if pk == nil || !okb {
		c.AnchorMissing("K1-predictors", "package internal/dsp with constant BPS")
		return
	}
	n := 0
	for _, fam := range predFamilies {
		slots := slotFuncs(pk, fam.global)
		if len(slots) == 0 {
			c.AnchorMissing("K1-predictors", "dsp."+fam.global+" filled with function values")
			continue
		}
		for i, refSlot := range fam.slots {
			want := ref.Kern[fam.fam][refSlot]
			key := fmt.Sprintf("dsp.%s[%d]", fam.global, i)
			fn := slots[i]
			if fn == nil {
				c.Fail("K1-predictors", key, "", "no function is stored in this slot")
				continue
			}
			n++
			c.Func(FnName(fn))
			got, err := repoPredictor(fn, bps, -1)
			if err != nil {
				if notGo(err) {
					c.Pass("K1-predictors", key, p.Pos(fn.Pos()), "assembly implementation on this configuration: not analysed (see not covered)")
					continue
				}
				c.Fail("K1-predictors", key, p.Pos(fn.Pos()), "the predictor could not be reduced to a normal form: "+err.Error())
				continue
			}
			d := diffKern(got, want)
			c.Check(d == "", "K1-predictors", key, p.Pos(fn.Pos()),
				fmt.Sprintf("%s: all %d samples have the reference normal form", fn.Name(), len(want)),
				fmt.Sprintf("%s differs from the RFC 6386 reference predictor: %s", fn.Name(), d))
		}
		// the direct dispatcher must reach the same kernels
		if dfn := pk.Func(fam.direct); dfn != nil {
			for i, refSlot := range fam.slots {
				key := fmt.Sprintf("dsp.%s(mode=%d)", fam.direct, i)
				got, err := repoPredictor(dfn, bps, i)
				if err != nil {
					if notGo(err) {
						c.Pass("K1-predictors", key, p.Pos(dfn.Pos()), "dispatches to assembly on this configuration: not analysed")
						continue
					}
					c.Fail("K1-predictors", key, p.Pos(dfn.Pos()), "could not be reduced to a normal form: "+err.Error())
					continue
				}
				n++
				d := diffKern(got, ref.Kern[fam.fam][refSlot])
				c.Check(d == "", "K1-predictors", key, p.Pos(dfn.Pos()),
					"the dispatcher runs the reference predictor for this mode",
					fmt.Sprintf("mode %d of %s differs from the RFC 6386 reference predictor: %s", i, fam.direct, d))
			}
		}
	}
	c.Floor("K1-predictors", n, 24)
}

func kernelTransforms(c *Ctx, p *Program, ref *kernRef) {
	pk := p.SSAPkg("internal/dsp")
	bps, okb := constOf(p.Pkg("internal/dsp"), "BPS")
	if pk == nil || !okb {
		c.AnchorMissing("K2-transforms", "package internal/dsp with constant BPS")
		return
	}
	n := 0
	check := func(name, slot string, got kernOut, err error, want kernOut, fn *ssa.Function, what string) {
		key := "dsp." + name + "~" + slot
		if err != nil {
			c.Fail("K2-transforms", key, p.Pos(fn.Pos()), name+" could not be reduced to a normal form: "+err.Error())
			return
		}
		n++
		d := diffKern(got, want)
		c.Check(d == "", "K2-transforms", key, p.Pos(fn.Pos()),
			fmt.Sprintf("%s: all %d output samples have the normal form of %s", name, len(want), what),
			fmt.Sprintf("%s differs from %s: %s", name, what, d))
	}
	full := pk.Func("transformOne")
	if full == nil {
		c.AnchorMissing("K2-transforms", "dsp.transformOne")
		return
	}
	c.Func(FnName(full))
	gotFull, err := repoTransform(full, bps, nil)
	check("transformOne", "idct", gotFull, err, ref.Kern["transform"]["idct"], full, "the reference inverse DCT")
	if fn := pk.Func("transformDC"); fn != nil {
		c.Func(FnName(fn))
		got, err := repoTransform(fn, bps, nil)
		check("transformDC", "idct-dc", got, err, ref.Kern["transform"]["idct-dc"], fn, "the reference DC-only inverse DCT")
		z, err2 := repoTransform(full, bps, map[int64]bool{0: true})
		if err2 == nil {
			check("transformDC", "transformOne[c0]", got, err, z, fn, "transformOne with only coefficient 0 non-zero")
		}
	}
	if fn := pk.Func("transformAC3"); fn != nil {
		c.Func(FnName(fn))
		got, err := repoTransform(fn, bps, nil)
		z, err2 := repoTransform(full, bps, map[int64]bool{0: true, 1: true, 4: true})
		if err2 == nil {
			check("transformAC3", "transformOne[c0,c1,c4]", got, err, z, fn, "transformOne with only coefficients 0, 1 and 4 non-zero")
		}
	}
	if fn := pk.Func("transformWHT"); fn != nil {
		c.Func(FnName(fn))
		got, err := repoWHT(fn)
		check("transformWHT", "wht", got, err, ref.Kern["transform"]["wht"], fn, "the reference inverse WHT")
	} else {
		c.AnchorMissing("K2-transforms", "dsp.transformWHT")
	}
	c.Floor("K2-transforms", n, 4)
}

// kernelEncoderTransform (C06): the encoder reconstructs with the decoder's inverse transform.
func kernelEncoderTransform(c *Ctx, p *Program) {
	pk := p.SSAPkg("internal/dsp")
	bps, okb := constOf(p.Pkg("internal/dsp"), "BPS")
	if pk == nil || !okb {
		c.AnchorMissing("K3-enc-transform", "package internal/dsp with constant BPS")
		return
	}
	dec := pk.Func("transformOne")
	enc := pk.Func("iTransformOne")
	if dec == nil || enc == nil {
		c.AnchorMissing("K3-enc-transform", "dsp.transformOne and dsp.iTransformOne")
		return
	}
	want, err := repoTransform(dec, bps, nil)
	if err != nil {
		c.Fail("K3-enc-transform", "dsp.transformOne", p.Pos(dec.Pos()), "could not be reduced to a normal form: "+err.Error())
		return
	}
	n := 0
	for _, name := range []string{"iTransformOne", "iTransform", "ITransformDirect"} {
		fn := pk.Func(name)
		if fn == nil {
			continue
		}
		c.Func(FnName(fn))
		var extra []kval
		if len(fn.Params) == 4 {
			extra = []kval{kboolv(false)}
		}
		got, err := repoEncTransform(fn, bps, extra...)
		key := "dsp." + name + "~transformOne"
		if err != nil {
			if notGo(err) {
				c.Pass("K3-enc-transform", key, p.Pos(fn.Pos()), "assembly implementation on this configuration: not analysed")
				continue
			}
			c.Fail("K3-enc-transform", key, p.Pos(fn.Pos()), name+" could not be reduced to a normal form: "+err.Error())
			continue
		}
		n++
		d := diffKern(got, want)
		c.Check(d == "", "K3-enc-transform", key, p.Pos(fn.Pos()),
			name+" reconstructs every sample with the normal form of the decoder's transformOne",
			fmt.Sprintf("the encoder's %s differs from the decoder's transformOne: %s", name, d))
	}
	c.Floor("K3-enc-transform", n, 1)
}

func constInt64(v constant.Value) (int64, bool) {
	if v == nil || v.Kind() != constant.Int {
		return 0, false
	}
	return constant.Int64Val(v)
}

func notGo(err error) bool { return strings.Contains(err.Error(), "no Go body") }

// dispatchTable finds, in the package, calls to functions of the given signature that are guarded by
// an equality test of one value with an integer constant: constant -> callee.
func dispatchTable(p *Program, pk *ssa.Package, isMember func(*ssa.Function) bool) map[int64]*ssa.Function {
	out := map[int64]*ssa.Function{}
	for _, fn := range p.SrcFuncs() {
		if fn.Pkg != pk {
			continue
		}
		for _, b := range fn.Blocks {
			for _, in := range b.Instrs {
				call, ok := in.(*ssa.Call)
				if !ok {
					continue
				}
				cal := call.Call.StaticCallee()
				if cal == nil || !isMember(cal) {
					continue
				}
				// nearest dominating "v == k" whose true edge dominates this block
				for d := b; d != nil; d = d.Idom() {
					id := d.Idom()
					if id == nil {
						break
					}
					iff, ok := id.Instrs[len(id.Instrs)-1].(*ssa.If)
					if !ok || id.Succs[0] != d || len(d.Preds) != 1 {
						continue
					}
					cmp, ok := iff.Cond.(*ssa.BinOp)
					if !ok || cmp.Op.String() != "==" {
						continue
					}
					var kc *ssa.Const
					if k, ok := cmp.Y.(*ssa.Const); ok {
						kc = k
					} else if k, ok := cmp.X.(*ssa.Const); ok {
						kc = k
					}
					if kc == nil {
						continue
					}
					if v, ok := constantInt(kc); ok {
						if old, dup := out[v]; dup && old != cal {
							out[v] = nil // ambiguous
						} else if !dup {
							out[v] = cal
						}
					}
					break
				}
			}
		}
	}
	return out
}

func sigIs(fn *ssa.Function, params ...string) bool {
	sg := fn.Signature
	if sg.Recv() != nil || sg.Results().Len() != 0 || sg.Params().Len() != len(params) {
		return false
	}
	for i, want := range params {
		if types.TypeString(sg.Params().At(i).Type(), nil) != want {
			return false
		}
	}
	return true
}

// kernelAlphaFilters (C07): the inverse alpha filters agree with the reference implementation and
// invert the forward filters, on a 5x4 plane (every class of cell: first, first row, first column,
// interior), for all sample values.
func kernelAlphaFilters(c *Ctx, p *Program, ref *kernRef) {
	pk := p.SSAPkg("internal/lossy")
	if pk == nil {
		c.AnchorMissing("K4-alpha-filters", "package internal/lossy")
		return
	}
	unf := dispatchTable(p, pk, func(f *ssa.Function) bool { return f.Pkg == pk && sigIs(f, "[]byte", "int", "int") })
	fwd := dispatchTable(p, pk, func(f *ssa.Function) bool { return f.Pkg == pk && sigIs(f, "[]byte", "int", "int", "[]byte") })
	n := 0
	sizes := alphaSizes[:1]
	if c.Tier == "thorough" {
		sizes = alphaSizes
	}
	defer func() { alphaW, alphaH = alphaSizes[0][0], alphaSizes[0][1] }()
	for _, sz := range sizes {
		alphaW, alphaH = sz[0], sz[1]
		for k := int64(1); k <= 3; k++ {
			key := fmt.Sprintf("alpha-filter[%d]", k)
			if sz != alphaSizes[0] {
				key = fmt.Sprintf("alpha-filter[%d]@%dx%d", k, alphaW, alphaH)
			}
			u, f := unf[k], fwd[k]
			if u == nil || f == nil {
				c.Fail("K4-alpha-filters", key, "", fmt.Sprintf("no unique inverse/forward filter function is dispatched on filter value %d (inverse: %v, forward: %v)", k, u, f))
				continue
			}
			c.Func(FnName(u))
			c.Func(FnName(f))
			var got kernOut
			err := kernelEval(func(x *kx) {
				o := alphaPlane(x, "f", true)
				x.call(u, []kval{{kind: kvSlice, obj: o, ln: alphaW * alphaH, cp: alphaW * alphaH}, kint(alphaW), kint(alphaH)}, nil)
				got = alphaOutputs(x, o)
			})
			if err != nil {
				c.Fail("K4-alpha-filters", key+":inverse", p.Pos(u.Pos()), u.Name()+" could not be reduced to a normal form: "+err.Error())
				continue
			}
			n++
			d := diffKern(got, ref.Kern["alpha-unfilter"][fmt.Sprintf("%d@%dx%d", k, alphaW, alphaH)])
			c.Check(d == "", "K4-alpha-filters", key+":inverse", p.Pos(u.Pos()),
				fmt.Sprintf("%s reconstructs every cell of a %dx%d plane with the normal form of the reference inverse filter %d", u.Name(), alphaW, alphaH, k),
				fmt.Sprintf("%s differs from the reference inverse filter %d: %s", u.Name(), k, d))
			// round trip
			var rt kernOut
			err = kernelEval(func(x *kx) {
				in := alphaPlane(x, "a", true)
				mid := alphaPlane(x, "m", false)
				sz := int64(alphaW * alphaH)
				x.call(f, []kval{{kind: kvSlice, obj: in, ln: sz, cp: sz}, kint(alphaW), kint(alphaH), {kind: kvSlice, obj: mid, ln: sz, cp: sz}}, nil)
				if len(x.st.mem[in]) != 0 {
					kfail("the forward filter writes its input plane")
				}
				x.call(u, []kval{{kind: kvSlice, obj: mid, ln: sz, cp: sz}, kint(alphaW), kint(alphaH)}, nil)
				rt = alphaOutputs(x, mid)
			})
			if err != nil {
				c.Fail("K4-alpha-filters", key+":round-trip", p.Pos(f.Pos()), f.Name()+" followed by "+u.Name()+" could not be reduced to a normal form: "+err.Error())
				continue
			}
			n++
			want := kernOut{}
			for r := int64(0); r < alphaH; r++ {
				for cc := int64(0); cc < alphaW; cc++ {
					want[fmt.Sprintf("a(%d,%d)", r, cc)] = fmt.Sprintf("0+1*a(%d,%d)", r, cc)
				}
			}
			d = diffKern(rt, want)
			c.Check(d == "", "K4-alpha-filters", key+":round-trip", p.Pos(f.Pos()),
				fmt.Sprintf("%s followed by %s is the identity on every cell of a %dx%d plane, for all sample values", f.Name(), u.Name(), alphaW, alphaH),
				fmt.Sprintf("%s followed by %s does not reproduce the plane: %s", f.Name(), u.Name(), d))
		}
	}
	c.Floor("K4-alpha-filters", n, 6)
}

// copiedTo: the whole local array al is stored into the package variable g.
func copiedTo(al *ssa.Alloc, g *ssa.Global) bool {
	for _, ref := range *al.Referrers() {
		ld, ok := ref.(*ssa.UnOp)
		if !ok {
			continue
		}
		for _, r2 := range *ld.Referrers() {
			if st, ok := r2.(*ssa.Store); ok && st.Addr == ssa.Value(g) && st.Val == ssa.Value(ld) {
				return true
			}
		}
	}
	return false
}

// K5 (C04): RFC 6386 section 15.1 - the inner edges of a macroblock are loop-filtered only when the
// macroblock uses 4x4 prediction or has at least one non-zero coefficient. The per-macroblock flag that
// enables inner-edge filtering must therefore depend on the decoder's non-zero-coefficient summary, not
// only on the skip flag read from the bitstream.
func kernelInnerFilterGate(c *Ctx, p *Program) {
	pk := p.SSAPkg("internal/lossy")
	if pk == nil {
		c.AnchorMissing("K5-inner-filter-gate", "package internal/lossy")
		return
	}
	// the flag: a bool field of the per-macroblock filter-info struct that guards calls of the inner-edge
	// filters. Found by shape: a struct with exactly one bool field next to the byte-sized strength fields,
	// stored with a value computed from "|| !x" in a function that also calls the residual parser.
	n := 0
	for _, fn := range p.SrcFuncs() {
		if fn.Pkg != pk {
			continue
		}
		for _, b := range fn.Blocks {
			for _, in := range b.Instrs {
				st, ok := in.(*ssa.Store)
				if !ok {
					continue
				}
				fa, ok := st.Addr.(*ssa.FieldAddr)
				if !ok {
					continue
				}
				stt, ok := fa.X.Type().Underlying().(*types.Pointer).Elem().Underlying().(*types.Struct)
				if !ok || !isFilterInfoStruct(stt) {
					continue
				}
				if bt, ok := stt.Field(fa.Field).Type().Underlying().(*types.Basic); !ok || bt.Info()&types.IsBoolean == 0 {
					continue
				}
				// only per-macroblock decisions: the stored value is not a plain parameter-free constant
				// table fill (precomputeFilterStrengths stores "i4x4 != 0")
				if !dependsOnCallOrLoadOfMBData(st.Val, 0) {
					continue
				}
				n++
				key := fmt.Sprintf("%s:%s", FnName(fn), stt.Field(fa.Field).Name())
				c.Func(FnName(fn))
				ok2 := dependsOnNonZeroSummary(st.Val, map[ssa.Value]bool{}, 0)
				c.Check(ok2, "K5-inner-filter-gate", key, p.Pos(st.Pos()),
					"the inner-edge filtering flag depends on the non-zero-coefficient summary of the macroblock",
					"the flag that enables inner-edge loop filtering is computed from the bitstream skip flag only: a macroblock whose skip flag is 0 but whose coefficients are all zero gets its inner edges filtered, unlike RFC 6386 15.1 / libwebp / x/image (decoded samples differ)")
			}
		}
	}
	c.Floor("K5-inner-filter-gate", n, 1)
}

func isFilterInfoStruct(st *types.Struct) bool {
	nb, nbool := 0, 0
	for i := 0; i < st.NumFields(); i++ {
		switch t := st.Field(i).Type().Underlying().(type) {
		case *types.Basic:
			if t.Info()&types.IsBoolean != 0 {
				nbool++
			} else if t.Kind() == types.Uint8 {
				nb++
			} else {
				return false
			}
		default:
			return false
		}
	}
	return nbool == 1 && nb >= 2 && nb <= 6
}

func dependsOnCallOrLoadOfMBData(v ssa.Value, depth int) bool {
	if depth > 8 {
		return false
	}
	switch x := v.(type) {
	case *ssa.Phi:
		for _, e := range x.Edges {
			if dependsOnCallOrLoadOfMBData(e, depth+1) {
				return true
			}
		}
		// short-circuit: the deciding conditions
		for _, pr := range x.Block().Preds {
			if iff, ok := pr.Instrs[len(pr.Instrs)-1].(*ssa.If); ok && dependsOnCallOrLoadOfMBData(iff.Cond, depth+1) {
				return true
			}
		}
	case *ssa.UnOp:
		if x.Op.String() == "*" {
			if fa, ok := x.X.(*ssa.FieldAddr); ok {
				if _, isPar := fa.X.(*ssa.Parameter); !isPar {
					return true // a field of a per-macroblock record
				}
			}
			return false
		}
		return dependsOnCallOrLoadOfMBData(x.X, depth+1)
	case *ssa.BinOp:
		return dependsOnCallOrLoadOfMBData(x.X, depth+1) || dependsOnCallOrLoadOfMBData(x.Y, depth+1)
	case *ssa.Call:
		return true
	}
	return false
}

// dependsOnNonZeroSummary: the value depends on an integer field of a per-macroblock record that is
// compared with zero (the non-zero masks), or on the result of a call.
func dependsOnNonZeroSummary(v ssa.Value, seen map[ssa.Value]bool, depth int) bool {
	if depth > 10 || seen[v] {
		return false
	}
	seen[v] = true
	switch x := v.(type) {
	case *ssa.Phi:
		for _, e := range x.Edges {
			if dependsOnNonZeroSummary(e, seen, depth+1) {
				return true
			}
		}
		for _, pr := range x.Block().Preds {
			if iff, ok := pr.Instrs[len(pr.Instrs)-1].(*ssa.If); ok && dependsOnNonZeroSummary(iff.Cond, seen, depth+1) {
				return true
			}
		}
	case *ssa.UnOp:
		if x.Op.String() == "*" {
			if fa, ok := x.X.(*ssa.FieldAddr); ok {
				if bt, ok := x.Type().Underlying().(*types.Basic); ok && bt.Info()&types.IsInteger != 0 && bt.Kind() != types.Uint8 {
					_ = fa
					return true // a wide integer mask of the macroblock record (non-zero bits)
				}
			}
			return false
		}
		return dependsOnNonZeroSummary(x.X, seen, depth+1)
	case *ssa.BinOp:
		return dependsOnNonZeroSummary(x.X, seen, depth+1) || dependsOnNonZeroSummary(x.Y, seen, depth+1)
	case *ssa.Call:
		// the residual parser reporting "no coefficients"
		if x.Call.Signature().Results().Len() > 0 {
			return true
		}
	case *ssa.Extract:
		return dependsOnNonZeroSummary(x.Tuple, seen, depth+1)
	}
	return false
}

// K6 (C07): the inverse alpha filter is reached on every successful decode path. The function that
// dispatches on the filter code (and, level by level, every caller inside the package) returns
// successfully only through that dispatch; the only accepted bypass is a branch on the filter code
// itself (filter 0 = nothing to undo). A decoder that returns a raw (uncompressed) plane before the
// dispatch forgets that the encoder stores filtered planes uncompressed when compression does not pay.
func kernelUnfilterReached(c *Ctx, p *Program) {
	pk := p.SSAPkg("internal/lossy")
	if pk == nil {
		c.AnchorMissing("K6-unfilter-reached", "package internal/lossy")
		return
	}
	unf := dispatchTable(p, pk, func(f *ssa.Function) bool { return f.Pkg == pk && sigIs(f, "[]byte", "int", "int") })
	targets := map[*ssa.Function]bool{}
	for k := int64(1); k <= 3; k++ {
		if unf[k] != nil {
			targets[unf[k]] = true
		}
	}
	if len(targets) == 0 {
		c.AnchorMissing("K6-unfilter-reached", "inverse alpha filters dispatched on the filter code")
		return
	}
	n := 0
	done := map[*ssa.Function]bool{}
	for level := 0; level < 4 && len(targets) > 0; level++ {
		next := map[*ssa.Function]bool{}
		for _, fn := range p.SrcFuncs() {
			if fn.Pkg != pk || fn.Blocks == nil || done[fn] || targets[fn] {
				continue
			}
			var tb []*ssa.BasicBlock
			for _, b := range fn.Blocks {
				for _, in := range b.Instrs {
					if call, ok := in.(*ssa.Call); ok {
						if cal := call.Call.StaticCallee(); cal != nil && targets[cal] {
							tb = append(tb, b)
						}
					}
				}
			}
			if len(tb) == 0 {
				continue
			}
			done[fn] = true
			n++
			c.Func(FnName(fn))
			// nearest common dominator of the call blocks
			h := tb[0]
			for _, b := range tb[1:] {
				for !h.Dominates(b) {
					h = h.Idom()
				}
			}
			// walk up through the branches on the dispatched value
			var v ssa.Value
			if level == 0 {
				if iff, ok := h.Instrs[len(h.Instrs)-1].(*ssa.If); ok {
					if cmp, ok := iff.Cond.(*ssa.BinOp); ok {
						v = cmp.X
						if _, isC := v.(*ssa.Const); isC {
							v = cmp.Y
						}
					}
				}
				for id := h.Idom(); id != nil && v != nil; id = id.Idom() {
					iff, ok := id.Instrs[len(id.Instrs)-1].(*ssa.If)
					if !ok {
						break
					}
					cmp, ok := iff.Cond.(*ssa.BinOp)
					if !ok || (stripConv(cmp.X) != stripConv(v) && stripConv(cmp.Y) != stripConv(v)) {
						break
					}
					h = id
				}
			}
			bad := ""
			for _, b := range fn.Blocks {
				ret, ok := b.Instrs[len(b.Instrs)-1].(*ssa.Return)
				if !ok || !successReturn(ret) {
					continue
				}
				if !h.Dominates(b) {
					bad = p.Pos(ret.Pos())
				}
			}
			key := fn.Name() + ":success-through-unfilter"
			c.Check(bad == "", "K6-unfilter-reached", key, p.Pos(fn.Pos()),
				"every successful return passes the dispatch on the filter code",
				fmt.Sprintf("%s returns successfully at %s without passing the inverse-filter dispatch: a plane stored with a prediction filter is handed back still filtered (the encoder stores filtered planes uncompressed when compression does not pay)", fn.Name(), bad))
			if bad == "" && fn.Object() != nil && !fn.Object().Exported() {
				next[fn] = true
			}
		}
		targets = next
	}
	c.Floor("K6-unfilter-reached", n, 1)
}

func stripConv(v ssa.Value) ssa.Value {
	for {
		switch x := v.(type) {
		case *ssa.Convert:
			v = x.X
		case *ssa.ChangeType:
			v = x.X
		default:
			return v
		}
	}
}

// ---- K7 (C16): header dimension readers agree ----
//
// The container parser (DecodeConfig, GetFeatures), the demuxer / muxer (frame records, canvas) and the
// VP8 decoder itself each extract width and height from the bitstream header. The extracted values are
// straight-line expressions of the header bytes; S8 reduces each to a normal form over the bytes h(i)
// (shifts and ors of bytes become sums, "& 0x3fff" a reduction mod 2^14) and the forms must be equal.
func kernelHeaderDims(c *Ctx, p *Program) {
	type reader struct {
		name string
		pos  string
		vals []string // normal forms: width, height[, alpha]
	}
	evalRet := func(fn *ssa.Function, nres int) ([]string, error) {
		var out []string
		err := kernelEval(func(x *kx) {
			in := x.newObj("h")
			in.input = func(off int64) (string, int64, int64, bool) {
				if off < 0 || off >= 64 {
					return "", 0, 0, false
				}
				return fmt.Sprintf("h(%d)", off), 0, 255, true
			}
			f := &kframe{fn: fn, env: map[ssa.Value]kval{}}
			f.env[fn.Params[0]] = kval{kind: kvSlice, obj: in, ln: 64, cp: 64}
			for _, b := range fn.Blocks {
				ret, ok := b.Instrs[len(b.Instrs)-1].(*ssa.Return)
				if !ok || len(ret.Results) != nres+1 {
					continue
				}
				if k, isC := ret.Results[nres].(*ssa.Const); !isC || !k.IsNil() {
					continue
				}
				if _, isC := ret.Results[0].(*ssa.Const); isC {
					continue
				}
				for i := 0; i < nres; i++ {
					v := x.lazyVal(f, ret.Results[i], 0)
					switch v.kind {
					case kvNum:
						out = append(out, v.n.key())
					case kvBool:
						out = append(out, fmt.Sprint(v.b))
					default:
						kfail("result %d is not a number", i)
					}
				}
				return
			}
			kfail("no successful return with computed results found")
		})
		return out, err
	}
	var vp8, vp8l []reader
	for _, rel := range []string{"internal/container", "mux"} {
		pk := p.SSAPkg(rel)
		if pk == nil {
			c.AnchorMissing("K8-header-dims", "package "+rel)
			continue
		}
		for _, fn := range p.SrcFuncs() {
			if fn.Pkg != pk || fn.Blocks == nil || fn.Signature.Recv() != nil || fn.Signature.Params().Len() != 1 {
				continue
			}
			if types.TypeString(fn.Signature.Params().At(0).Type(), nil) != "[]byte" {
				continue
			}
			res := fn.Signature.Results()
			sig := ""
			for i := 0; i < res.Len(); i++ {
				sig += types.TypeString(res.At(i).Type(), nil) + ","
			}
			switch sig {
			case "int,int,error,":
				vals, err := evalRet(fn, 2)
				if err != nil {
					c.Fail("K8-header-dims", FnName(fn), p.Pos(fn.Pos()), "cannot be reduced to a normal form: "+err.Error())
					continue
				}
				vp8 = append(vp8, reader{FnName(fn), p.Pos(fn.Pos()), vals})
			case "int,int,bool,error,":
				vals, err := evalRet(fn, 3)
				if err != nil {
					// the alpha flag is a comparison: evaluate width and height only
					vals, err = evalRet2(fn)
				}
				if err != nil {
					c.Fail("K8-header-dims", FnName(fn), p.Pos(fn.Pos()), "cannot be reduced to a normal form: "+err.Error())
					continue
				}
				vp8l = append(vp8l, reader{FnName(fn), p.Pos(fn.Pos()), vals})
			}
		}
	}
	// the VP8 decoder: the values stored into the picture header's Width / Height
	if pk := p.SSAPkg("internal/lossy"); pk != nil {
		for _, fn := range p.SrcFuncs() {
			if fn.Pkg != pk || fn.Blocks == nil {
				continue
			}
			var wv, hv ssa.Value
			for _, b := range fn.Blocks {
				for _, in := range b.Instrs {
					st, ok := in.(*ssa.Store)
					if !ok {
						continue
					}
					fa, ok := st.Addr.(*ssa.FieldAddr)
					if !ok {
						continue
					}
					stt := structOf(fa.X.Type())
					if stt == nil || !hasFields(stt, "Width", "Height", "XScale", "YScale") {
						continue
					}
					switch stt.Field(fa.Field).Name() {
					case "Width":
						wv = st.Val
					case "Height":
						hv = st.Val
					}
				}
			}
			if wv == nil || hv == nil {
				continue
			}
			var sl *ssa.Parameter
			for _, par := range fn.Params {
				if types.TypeString(par.Type(), nil) == "[]byte" {
					sl = par
				}
			}
			if sl == nil {
				continue
			}
			var vals []string
			err := kernelEval(func(x *kx) {
				in := x.newObj("h")
				in.input = func(off int64) (string, int64, int64, bool) {
					if off < 0 || off >= 64 {
						return "", 0, 0, false
					}
					return fmt.Sprintf("h(%d)", off), 0, 255, true
				}
				f := &kframe{fn: fn, env: map[ssa.Value]kval{}}
				f.env[sl] = kval{kind: kvSlice, obj: in, ln: 64, cp: 64}
				for _, v := range []ssa.Value{wv, hv} {
					r := x.lazyVal(f, v, 0)
					if r.kind != kvNum {
						kfail("stored value is not a number")
					}
					vals = append(vals, r.n.key())
				}
			})
			if err != nil {
				c.Fail("K8-header-dims", FnName(fn), p.Pos(fn.Pos()), "the stored picture dimensions cannot be reduced to a normal form: "+err.Error())
				continue
			}
			vp8 = append(vp8, reader{FnName(fn), p.Pos(fn.Pos()), vals})
		}
	}
	n := 0
	cmp := func(kind string, rs []reader, min int) {
		if len(rs) < min {
			c.Fail("K8-header-dims", kind+":readers", "", fmt.Sprintf("only %d readers of the %s header dimensions were found (expected at least %d)", len(rs), kind, min))
			return
		}
		for _, r := range rs[1:] {
			n++
			same := len(r.vals) >= 2 && len(rs[0].vals) >= 2 && r.vals[0] == rs[0].vals[0] && r.vals[1] == rs[0].vals[1]
			if same && len(r.vals) > 2 && len(rs[0].vals) > 2 {
				same = r.vals[2] == rs[0].vals[2]
			}
			c.Func(r.name)
			c.Check(same, "K8-header-dims", kind+":"+r.name+"~"+rs[0].name, r.pos,
				"width and height are the same function of the header bytes as in "+rs[0].name+" ("+short(rs[0].vals[0])+" / "+short(rs[0].vals[1])+")",
				fmt.Sprintf("%s extracts %v from the %s header, %s extracts %v: the header queries and the decoder disagree on the picture size for some headers", r.name, r.vals, kind, rs[0].name, rs[0].vals))
		}
	}
	sort.Slice(vp8, func(i, j int) bool { return vp8[i].name < vp8[j].name })
	sort.Slice(vp8l, func(i, j int) bool { return vp8l[i].name < vp8l[j].name })
	cmp("VP8", vp8, 3)
	cmp("VP8L", vp8l, 2)
	c.Floor("K8-header-dims", n, 3)
}

func hasFields(st *types.Struct, names ...string) bool {
	have := map[string]bool{}
	for i := 0; i < st.NumFields(); i++ {
		have[st.Field(i).Name()] = true
	}
	for _, n := range names {
		if !have[n] {
			return false
		}
	}
	return true
}

// evalRet2: width and height of a VP8L header reader (the alpha result is a comparison).
func evalRet2(fn *ssa.Function) ([]string, error) {
	var out []string
	err := kernelEval(func(x *kx) {
		in := x.newObj("h")
		in.input = func(off int64) (string, int64, int64, bool) {
			if off < 0 || off >= 64 {
				return "", 0, 0, false
			}
			return fmt.Sprintf("h(%d)", off), 0, 255, true
		}
		f := &kframe{fn: fn, env: map[ssa.Value]kval{}}
		f.env[fn.Params[0]] = kval{kind: kvSlice, obj: in, ln: 64, cp: 64}
		for _, b := range fn.Blocks {
			ret, ok := b.Instrs[len(b.Instrs)-1].(*ssa.Return)
			if !ok || len(ret.Results) != 4 {
				continue
			}
			if k, isC := ret.Results[3].(*ssa.Const); !isC || !k.IsNil() {
				continue
			}
			if _, isC := ret.Results[0].(*ssa.Const); isC {
				continue
			}
			for i := 0; i < 2; i++ {
				v := x.lazyVal(f, ret.Results[i], 0)
				if v.kind != kvNum {
					kfail("result %d is not a number", i)
				}
				out = append(out, v.n.key())
			}
			return
		}
		kfail("no successful return with computed results found")
	})
	return out, err
}
