package main

// C02: every successful Encode emits a conformant file.
//
// W-layout (S7): webp.writeRIFF (simple and extended) and the streaming lossless writer
//    (lossless.EncodeToWriter with the header callback of webp.encodeLosslessToWriter): RIFF size,
//    chunk grammar, padding, flags, order - as for C14.
// F1 field-width: every value written into a field narrower than its type - a 24-bit little-endian
//    triple (byte(v), byte(v>>8), byte(v>>16) / putLE24), the components OR-ed into such a field
//    (x<<s), a value passed to a bit writer with a constant bit count (PutBits/WriteBits(v, n)) in the
//    bitstream header writers - is proven to fit (0 <= v < 2^n) by the S5 linear prover from
//    dominating checks, type ranges and callee postconditions; goals over parameters are lifted to
//    the call sites. A value that does not fit is silently truncated and the file cannot be decoded
//    although Encode reports success.

import (
	"fmt"
	"go/constant"
	"go/token"
	"go/types"
	"path/filepath"
	"sort"
	"strings"

	"golang.org/x/tools/go/ssa"
)

func init() { register("C02", runC02) }

func runC02(c *Ctx) {
	c.Rule("W-layout (S7) for webp.writeRIFF and for the streaming lossless writer (lossless.EncodeToWriter driven by the header callback of webp.encodeLosslessToWriter): W1 RIFF size, W2 chunk grammar and padding, W3 order/flags, in every input class")
	c.Rule("A1 ALPH header vs payload (S7, as C07): in every class of method/filter/fallback the ALPH header byte describes the payload that follows it")
	c.Rule("F1 field-width: in the container and bitstream-header writers, every value stored into a field narrower than its type (24-bit little-endian triples, components OR-ed into them, values given to a bit writer with a constant bit count) is proven by the linear prover to fit the field; unprovable sites are failures unless reviewed one line each in tables/fieldwidth.txt")
	c.NotCovered("the entropy-coded payloads (tokens, Huffman codes, LZ77) and their conformance to RFC 6386 / the VP8L specification beyond the constant tables (C03, C04); acceptance by an independent decoder; dimensions and alpha flag matching the source image")
	rows, err := loadReview(filepath.Join(c.Verif, "tables", "fieldwidth.txt"))
	if err != nil {
		c.Fail("internal", "tables/fieldwidth.txt", "", err.Error())
		return
	}
	c.Table("tables/fieldwidth.txt")
	max := 300000
	cfgs := c.configsFor()
	for i, cf := range cfgs {
		p := c.load(cf[0], cf[1])
		if p == nil {
			continue
		}
		if i == 0 {
			checkWriter(c, p, writerSpec{rel: "", name: "writeRIFF"}, max)
			c02Streaming(c, p, max)
			alphHeaderRule(c, p, "A1-alph-header")
		}
		c02FieldWidth(c, p, rows)
	}
	for _, r := range rows {
		if !r.used {
			c.SetConfig("tables")
			c.Stale("fieldwidth:" + r.typ + ":" + r.loc)
		}
	}
}

// ---- streaming lossless writer ----

func c02Streaming(c *Ctx, p *Program, max int) {
	etw := p.Fn("internal/lossless", "EncodeToWriter")
	caller := p.Fn("", "encodeLosslessToWriter")
	if etw == nil || caller == nil {
		c.AnchorMissing("W-layout", "lossless.EncodeToWriter / webp.encodeLosslessToWriter")
		return
	}
	// the header callback: the closure passed to EncodeToWriter
	var clo *ssa.MakeClosure
	for _, b := range caller.Blocks {
		for _, in := range b.Instrs {
			call, ok := in.(*ssa.Call)
			if !ok || call.Call.StaticCallee() != etw {
				continue
			}
			for _, a := range call.Call.Args {
				if mc, ok := a.(*ssa.MakeClosure); ok {
					clo = mc
				}
			}
		}
	}
	if clo == nil {
		c.AnchorMissing("W-layout", "header callback passed to lossless.EncodeToWriter")
		return
	}
	cfn := clo.Fn.(*ssa.Function)
	c.Func(FnName(cfn))
	var opq []string
	// everything EncodeToWriter calls except the callback is the encoder proper: not followed
	for _, b := range etw.Blocks {
		for _, in := range b.Instrs {
			if call, ok := in.(*ssa.Call); ok {
				if cal := call.Call.StaticCallee(); cal != nil && p.IsModFunc(cal) {
					opq = append(opq, cal.Name())
				}
			}
		}
	}
	spec := writerSpec{rel: "internal/lossless", name: "EncodeToWriter", opaque: opq}
	spec.args = func(s *sx) []SV {
		var args []SV
		for _, prm := range etw.Params {
			if _, isSig := prm.Type().Underlying().(*types.Signature); isSig {
				// bind the callback's captured variables: the writer is the same output, the rest are inputs
				var binds []SV
				for _, fv := range cfn.FreeVars {
					el := fv.Type()
					if pt, ok := el.(*types.Pointer); ok {
						v := s.valueAtPath(fv.Name(), pt.Elem())
						binds = append(binds, SV{K: kCell, Cell: &cell{v: v, set: true, typ: pt.Elem()}, Typ: pt.Elem()})
					} else {
						binds = append(binds, s.valueAtPath(fv.Name(), el))
					}
				}
				args = append(args, SV{K: kFunc, Fn: cfn, Binds: binds})
				continue
			}
			args = append(args, s.valueAtPath(prm.Name(), prm.Type()))
		}
		return args
	}
	checkWriter(c, p, spec, max)
}

// ---- F1 ----

func pow2(n int64) int64 { return int64(1) << uint(n) }

// orTerms flattens an OR/ADD tree of shifted components: value = OR_i (x_i << s_i).
type orTerm struct {
	x     ssa.Value
	shift int64
	konst *int64
}

func flattenOr(v ssa.Value, shift int64, out *[]orTerm, depth int) bool {
	if depth > 12 {
		return false
	}
	if k, ok := v.(*ssa.Const); ok && k.Value != nil && k.Value.Kind() == constant.Int {
		kv, _ := constant.Int64Val(k.Value)
		*out = append(*out, orTerm{shift: shift, konst: &kv})
		return true
	}
	switch x := v.(type) {
	case *ssa.BinOp:
		switch x.Op {
		case token.OR:
			return flattenOr(x.X, shift, out, depth+1) && flattenOr(x.Y, shift, out, depth+1)
		case token.SHL:
			if k, ok := x.Y.(*ssa.Const); ok && k.Value != nil {
				s, _ := constant.Int64Val(k.Value)
				return flattenOr(x.X, shift+s, out, depth+1)
			}
		}
	case *ssa.Convert:
		// widening conversions inside the packing expression
		if bt, ok := x.Type().Underlying().(*types.Basic); ok && bt.Info()&types.IsInteger != 0 {
			if _, isBin := x.X.(*ssa.BinOp); isBin {
				return flattenOr(x.X, shift, out, depth+1)
			}
		}
	}
	*out = append(*out, orTerm{x: v, shift: shift})
	return true
}

func fieldObl(kind string, in ssa.Instruction, v ssa.Value, bits int64) a6obl {
	return a6obl{kind, in, func(pv *prover, facts *[]cons) []lin {
		l := pv.toLin(v, facts)
		return []lin{l, ge(konst(pow2(bits)-1), l).e}
	}}
}

// packed: obligations for a value written into a field of `bits` bits.
func packedObls(kind string, in ssa.Instruction, v ssa.Value, bits int64) []a6obl {
	var terms []orTerm
	if !flattenOr(v, 0, &terms, 0) || len(terms) <= 1 {
		return []a6obl{fieldObl(kind, in, v, bits)}
	}
	sort.SliceStable(terms, func(i, j int) bool { return terms[i].shift < terms[j].shift })
	var out []a6obl
	for i, t := range terms {
		w := bits - t.shift
		for j := i + 1; j < len(terms); j++ {
			if terms[j].shift > t.shift {
				w = terms[j].shift - t.shift
				break
			}
		}
		if w <= 0 {
			w = 0
		}
		if t.konst != nil {
			kv, ww := *t.konst, w
			out = append(out, a6obl{kind, in, func(pv *prover, facts *[]cons) []lin {
				if kv >= 0 && kv < pow2(ww) {
					return []lin{konst(0)}
				}
				return []lin{konst(-1)}
			}})
			continue
		}
		out = append(out, fieldObl(kind, in, t.x, w))
	}
	return out
}

func isBitWriterCall(call *ssa.Call) (val ssa.Value, nbits int64, ok bool) {
	cal := call.Call.StaticCallee()
	if cal == nil || cal.Signature.Recv() == nil {
		return nil, 0, false
	}
	switch cal.Name() {
	case "PutBits", "WriteBits":
	default:
		return nil, 0, false
	}
	if len(call.Call.Args) != 3 {
		return nil, 0, false
	}
	k, isK := call.Call.Args[2].(*ssa.Const)
	if !isK || k.Value == nil {
		return nil, 0, false
	}
	n, _ := constant.Int64Val(k.Value)
	if _, isConst := call.Call.Args[1].(*ssa.Const); isConst {
		return nil, 0, false // constant values are checked by folding below
	}
	return call.Call.Args[1], n, true
}

func fieldWidthObls(fn *ssa.Function) []a6obl {
	var out []a6obl
	for _, b := range fn.Blocks {
		for _, ins := range b.Instrs {
			switch x := ins.(type) {
			case *ssa.Convert:
				// byte(v >> 16) without a byte(v >> 24) sibling: the top byte of a 24-bit field
				bt, ok := x.Type().Underlying().(*types.Basic)
				if !ok || bt.Kind() != types.Uint8 {
					continue
				}
				sh, ok := x.X.(*ssa.BinOp)
				if !ok || sh.Op != token.SHR {
					continue
				}
				k, ok := sh.Y.(*ssa.Const)
				if !ok || k.Value == nil {
					continue
				}
				if s, _ := constant.Int64Val(k.Value); s != 16 {
					continue
				}
				if hasShiftSibling(fn, sh.X, 24) {
					continue
				}
				out = append(out, packedObls("le24", ins, sh.X, 24)...)
			case *ssa.Call:
				// size/dimension-like fields only (>= 14 bits); small enumerations and flags are not covered
				if v, n, ok := isBitWriterCall(x); ok && n >= 14 {
					out = append(out, packedObls(fmt.Sprintf("bits%d", n), ins, v, n)...)
				}
				// PutUint16(buf, uint16(x & mask)): the mask truncates silently
				if cal := x.Call.StaticCallee(); cal != nil && cal.Name() == "PutUint16" && len(x.Call.Args) == 3 {
					if cv, ok := x.Call.Args[2].(*ssa.Convert); ok {
						// PutUint16(buf, uint16(x)) of a wider x without a mask: x must fit 16 bits, otherwise
						// the high part is dropped silently (a 24-bit size written with the 16-bit idiom)
						if _, isAnd := cv.X.(*ssa.BinOp); !isAnd || cv.X.(*ssa.BinOp).Op != token.AND {
							if sb, _, okb := intBits(cv.X.Type()); okb && sb > 16 {
								out = append(out, fieldObl("le16", ins, cv.X, 16))
							}
						}
						if and, ok := cv.X.(*ssa.BinOp); ok && and.Op == token.AND {
							if k, ok := and.Y.(*ssa.Const); ok && k.Value != nil {
								m, _ := constant.Int64Val(k.Value)
								if m > 0 && (m+1)&m == 0 {
									bits := int64(0)
									for mm := m; mm > 0; mm >>= 1 {
										bits++
									}
									out = append(out, fieldObl(fmt.Sprintf("mask%d", bits), ins, and.X, bits))
								}
							}
						}
					}
				}
			}
		}
	}
	return out
}

func hasShiftSibling(fn *ssa.Function, v ssa.Value, by int64) bool {
	for _, b := range fn.Blocks {
		for _, ins := range b.Instrs {
			sh, ok := ins.(*ssa.BinOp)
			if !ok || sh.Op != token.SHR || sh.X != v {
				continue
			}
			if k, ok := sh.Y.(*ssa.Const); ok && k.Value != nil {
				if s, _ := constant.Int64Val(k.Value); s == by {
					return true
				}
			}
		}
	}
	return false
}

// writerScope: the container writers and the bitstream header writers.
func writerScope(p *Program) []*ssa.Function {
	var out []*ssa.Function
	files := map[string]bool{
		"encode.go": true, "webp.go": true, // root package writers
		"internal/lossy/encode_syntax.go": true,
		"internal/lossy/alpha.go":         true,
	}
	for _, fn := range p.SrcFuncs() {
		pos := p.Pos(fn.Pos())
		file := pos
		if i := strings.LastIndex(pos, ":"); i >= 0 {
			file = pos[:i]
		}
		if files[file] {
			out = append(out, fn)
			continue
		}
		// VP8L stream header: the function that writes the signature byte
		if strings.HasPrefix(file, "internal/lossless/encode.go") {
			for _, b := range fn.Blocks {
				for _, in := range b.Instrs {
					if call, ok := in.(*ssa.Call); ok {
						if cal := call.Call.StaticCallee(); cal != nil && cal.Name() == "WriteBits" && len(call.Call.Args) == 3 {
							if k, ok := call.Call.Args[1].(*ssa.Const); ok && k.Value != nil {
								if kv, _ := constant.Int64Val(k.Value); kv == 0x2f {
									out = append(out, fn)
								}
							}
						}
					}
				}
			}
		}
	}
	// a helper nobody calls any more (left over after a refactoring) writes nothing
	var live []*ssa.Function
	for _, fn := range uniqFuncs(out) {
		if fn.Object() != nil && !fn.Object().Exported() && fn.Parent() == nil && fn.Name() != "init" {
			if n := p.CallGraph().Nodes[fn]; n == nil || len(n.In) == 0 {
				continue
			}
		}
		live = append(live, fn)
	}
	return live
}

func uniqFuncs(fs []*ssa.Function) []*ssa.Function {
	seen := map[*ssa.Function]bool{}
	var out []*ssa.Function
	for _, f := range fs {
		if !seen[f] {
			seen[f] = true
			out = append(out, f)
		}
	}
	return out
}

func c02FieldWidth(c *Ctx, p *Program, rows []*reviewRow) {
	a := &a6{c: c, p: p, db: newProverDB(p), rows: rows, pre: map[*ssa.Function][]preCond{}, preDone: map[*ssa.Function]bool{},
		rule: "F1-field-width", peel: true, oblOf: fieldWidthObls, scope: writerScope(p), rowKind: "width",
		failMsg: func(o a6obl, fn *ssa.Function) string {
			return fmt.Sprintf("cannot prove that the value written by %s into a %s field fits: nothing before the write bounds it, so a larger value is silently truncated and the stream is corrupt while Encode reports success", FnName(fn), strings.Replace(strings.Replace(o.kind, "bits", "bit-writer field of width ", 1), "le24", "24-bit little-endian", 1))
		}}
	a.bounds()
	c.Floor("F1-field-width", a.nObl, 8)
}
