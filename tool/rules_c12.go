package main

// A3: GOMAXPROCS invariance (C12). Taint from runtime.GOMAXPROCS/NumCPU with
// use classification: the worker count may steer only work partitioning and
// goroutine plumbing, never an algorithm choice, stored data or per-item state.

import (
	"fmt"
	"go/token"
	"go/types"
	"os"
	"sort"
	"strings"

	"golang.org/x/tools/go/ssa"
)

func init() { register("C12", runC12) }

type a3 struct {
	c        *Ctx
	p        *Program
	fns      []*ssa.Function
	lab      map[ssa.Value]uint64  // dependence labels: bit0 = internal GOMAXPROCS source, bit k = k-th param/freevar of the enclosing function
	parSrc   map[ssa.Value]bool    // parameter / free variable receives a really tainted value from some call site
	cells    map[*ssa.Alloc]uint64 // local cells holding labelled values
	perW     map[ssa.Value]bool    // addresses / slices selected by a tainted index (per-worker memory)
	cut      map[*ssa.Phi]bool     // partition-loop induction variables (never tainted)
	retL     map[*ssa.Function]uint64
	sources  []*ssa.Call
	cd       map[*ssa.Function]*cdInfo
	changed  bool
	rows     []*reviewRow
	noExpand bool
	cbBind   map[*ssa.Parameter][]*ssa.Function // callback parameters bound to the functions one call site passes
	s1       *s1
}

type cdInfo struct {
	ipdom  map[*ssa.BasicBlock]*ssa.BasicBlock
	region map[*ssa.BasicBlock]map[*ssa.BasicBlock]bool // If-block -> control dependent blocks
}

// postdominators by the simple iterative set algorithm (functions are small).
func buildCD(fn *ssa.Function) *cdInfo {
	n := len(fn.Blocks)
	exit := n // virtual exit
	succs := make([][]int, n+1)
	for _, b := range fn.Blocks {
		if len(b.Succs) == 0 {
			succs[b.Index] = []int{exit}
		}
		for _, s := range b.Succs {
			succs[b.Index] = append(succs[b.Index], s.Index)
		}
	}
	// pdom sets as bitsets ([]bool)
	pd := make([][]bool, n+1)
	for i := range pd {
		pd[i] = make([]bool, n+1)
		for j := range pd[i] {
			pd[i][j] = true
		}
	}
	for j := range pd[exit] {
		pd[exit][j] = j == exit
	}
	for changed := true; changed; {
		changed = false
		for i := n - 1; i >= 0; i-- {
			nw := make([]bool, n+1)
			first := true
			for _, s := range succs[i] {
				if first {
					copy(nw, pd[s])
					first = false
				} else {
					for j := range nw {
						nw[j] = nw[j] && pd[s][j]
					}
				}
			}
			if first {
				// infinite loop block without exit: only itself
				for j := range nw {
					nw[j] = false
				}
			}
			nw[i] = true
			for j := range nw {
				if nw[j] != pd[i][j] {
					pd[i] = nw
					changed = true
					break
				}
			}
		}
	}
	info := &cdInfo{ipdom: map[*ssa.BasicBlock]*ssa.BasicBlock{}, region: map[*ssa.BasicBlock]map[*ssa.BasicBlock]bool{}}
	count := func(s []bool) int {
		k := 0
		for _, x := range s {
			if x {
				k++
			}
		}
		return k
	}
	for _, d := range fn.Blocks {
		if len(d.Succs) < 2 {
			continue
		}
		// immediate postdominator: the strict postdominator whose own postdominator set is all the others
		want := count(pd[d.Index]) - 1
		var ip *ssa.BasicBlock
		for _, b := range fn.Blocks {
			if b != d && pd[d.Index][b.Index] && count(pd[b.Index]) == want {
				ip = b
			}
		}
		info.ipdom[d] = ip
		// influence region: blocks reachable from the successors without passing through the immediate postdominator
		reg := map[*ssa.BasicBlock]bool{}
		var st []*ssa.BasicBlock
		st = append(st, d.Succs...)
		for len(st) > 0 {
			b := st[len(st)-1]
			st = st[:len(st)-1]
			if b == ip || reg[b] {
				continue
			}
			reg[b] = true
			st = append(st, b.Succs...)
		}
		info.region[d] = reg
	}
	return info
}

func unusedOldCD(fn *ssa.Function, pd [][]bool, info *cdInfo) *cdInfo {
	// control dependence: B is CD on D (with successors s) iff B postdominates some successor s of D (or B == s) and B does not strictly postdominate D
	for _, d := range fn.Blocks {
		if len(d.Succs) < 2 {
			continue
		}
		reg := map[*ssa.BasicBlock]bool{}
		for _, s := range d.Succs {
			for _, b := range fn.Blocks {
				if pd[s.Index][b.Index] && !(pd[d.Index][b.Index] && b != d) {
					reg[b] = true
				}
			}
		}
		info.region[d] = reg
	}
	return info
}

func (a *a3) cdOf(fn *ssa.Function) *cdInfo {
	if ci, ok := a.cd[fn]; ok {
		return ci
	}
	ci := buildCD(fn)
	a.cd[fn] = ci
	return ci
}

// add merges labels into v.
func (a *a3) add(v ssa.Value, l uint64) {
	if v == nil || l == 0 {
		return
	}
	if phi, ok := v.(*ssa.Phi); ok && a.cut[phi] {
		return
	}
	if a.lab[v]|l != a.lab[v] {
		a.lab[v] |= l
		a.changed = true
	}
}

func (a *a3) L(v ssa.Value) uint64 {
	if v == nil {
		return 0
	}
	return a.lab[v]
}

// paramBit gives the label bit of a parameter or free variable of its function.
func paramBit(v ssa.Value) uint64 {
	switch x := v.(type) {
	case *ssa.Parameter:
		for i, p := range x.Parent().Params {
			if p == x {
				if i+1 > 40 {
					return 1 << 63
				}
				return 1 << uint(i+1)
			}
		}
	case *ssa.FreeVar:
		for i, p := range x.Parent().FreeVars {
			if p == x {
				if 41+i > 62 {
					return 1 << 63
				}
				return 1 << uint(41+i)
			}
		}
	}
	return 0
}

// srcMask: the label bits of fn that stand for really tainted inputs, plus bit 0.
func (a *a3) srcMask(fn *ssa.Function) uint64 {
	m := uint64(1)
	for _, p := range fn.Params {
		if a.parSrc[p] {
			m |= paramBit(p)
		}
	}
	for _, p := range fn.FreeVars {
		if a.parSrc[p] {
			m |= paramBit(p)
		}
	}
	return m
}

// T: v really depends on GOMAXPROCS in some calling context.
func (a *a3) T(v ssa.Value) bool {
	if v == nil {
		return false
	}
	l := a.lab[v]
	if l == 0 {
		return false
	}
	var fn *ssa.Function
	switch x := v.(type) {
	case ssa.Instruction:
		fn = x.Parent()
	case *ssa.Parameter:
		fn = x.Parent()
	case *ssa.FreeVar:
		fn = x.Parent()
	}
	if fn == nil {
		return l&1 != 0
	}
	return l&a.srcMask(fn) != 0
}

func (a *a3) markSrc(v ssa.Value) {
	if !a.parSrc[v] {
		a.parSrc[v] = true
		a.changed = true
	}
}

func isGOMAXPROCS(call *ssa.Call) bool {
	callee := call.Call.StaticCallee()
	if callee == nil || callee.Pkg == nil || callee.Pkg.Pkg.Path() != "runtime" {
		return false
	}
	return callee.Name() == "GOMAXPROCS" || callee.Name() == "NumCPU"
}

// inductionOf: if v is (a conversion of) a loop-header phi stepping by a constant, return it.
func inductionOf(v ssa.Value, header *ssa.BasicBlock) *ssa.Phi {
	for i := 0; i < 4; i++ {
		switch x := v.(type) {
		case *ssa.Convert:
			v = x.X
			continue
		case *ssa.ChangeType:
			v = x.X
			continue
		case *ssa.BinOp:
			// rangeint form: k+1 compared
			if c, ok := x.Y.(*ssa.Const); ok && c.Value != nil && (x.Op == token.ADD || x.Op == token.SUB) {
				v = x.X
				continue
			}
		case *ssa.Phi:
			if x.Block() != header || len(x.Edges) != 2 {
				return nil
			}
			for _, e := range x.Edges {
				if bo, ok := e.(*ssa.BinOp); ok && (bo.Op == token.ADD || bo.Op == token.SUB) {
					if under(bo.X) == ssa.Value(x) {
						if _, ok := bo.Y.(*ssa.Const); ok {
							return x
						}
					}
				}
			}
			return nil
		}
		break
	}
	return nil
}

func under(v ssa.Value) ssa.Value {
	for {
		switch x := v.(type) {
		case *ssa.Convert:
			v = x.X
		case *ssa.ChangeType:
			v = x.X
		default:
			return v
		}
	}
}

func regionHasGo(reg map[*ssa.BasicBlock]bool) bool {
	for b := range reg {
		for _, in := range b.Instrs {
			if _, ok := in.(*ssa.Go); ok {
				return true
			}
		}
	}
	return false
}

// propagate runs one pass of label propagation over fn.
func (a *a3) propagate(fn *ssa.Function) {
	ci := a.cdOf(fn)
	for _, p := range fn.Params {
		a.add(p, paramBit(p))
	}
	for _, p := range fn.FreeVars {
		a.add(p, paramBit(p))
	}
	for _, b := range fn.Blocks {
		for _, in := range b.Instrs {
			switch x := in.(type) {
			case *ssa.Call:
				if isGOMAXPROCS(x) {
					a.add(x, 1)
					continue
				}
				a.callFlow(fn, x.Common(), x)
			case *ssa.Go:
				a.callFlow(fn, x.Common(), nil)
			case *ssa.Defer:
				a.callFlow(fn, x.Common(), nil)
			case *ssa.BinOp:
				a.add(x, a.L(x.X)|a.L(x.Y))
			case *ssa.UnOp:
				if x.Op == token.MUL {
					if al, ok := x.X.(*ssa.Alloc); ok {
						a.add(x, a.cells[al])
					}
					// loads through a captured cell
					if fv, ok := x.X.(*ssa.FreeVar); ok {
						a.add(x, a.L(fv))
					}
				} else {
					a.add(x, a.L(x.X))
				}
			case *ssa.Convert:
				a.add(x, a.L(x.X))
			case *ssa.ChangeType:
				a.add(x, a.L(x.X))
			case *ssa.Phi:
				for _, e := range x.Edges {
					a.add(x, a.L(e))
				}
			case *ssa.Extract:
				a.add(x, a.L(x.Tuple))
			case *ssa.Store:
				if l := a.L(x.Val); l != 0 {
					if al, ok := x.Addr.(*ssa.Alloc); ok && a.cells[al]|l != a.cells[al] {
						a.cells[al] |= l
						a.changed = true
					}
				}
			case *ssa.IndexAddr:
				if (a.T(x.Index) || a.perW[x.X]) && !a.perW[x] {
					a.perW[x] = true
					a.changed = true
				}
			case *ssa.Slice:
				if (a.T(x.Low) || a.perW[x.X]) && !a.perW[x] {
					a.perW[x] = true
					a.changed = true
				}
			case *ssa.FieldAddr:
				if a.perW[x.X] && !a.perW[x] {
					a.perW[x] = true
					a.changed = true
				}
			case *ssa.MakeClosure:
				f := x.Fn.(*ssa.Function)
				for i, bnd := range x.Bindings {
					if a.T(bnd) {
						a.markSrc(f.FreeVars[i])
					}
					if al, ok := bnd.(*ssa.Alloc); ok && a.cells[al]&a.srcMask(fn) != 0 {
						a.markSrc(f.FreeVars[i]) // captured cell holding a tainted value
					}
					if a.perW[bnd] && !a.perW[f.FreeVars[i]] {
						a.perW[f.FreeVars[i]] = true
						a.changed = true
					}
				}
			case *ssa.Return:
				for _, r := range x.Results {
					if l := a.L(r); a.retL[fn]|l != a.retL[fn] {
						a.retL[fn] |= l
						a.changed = true
					}
				}
			}
		}
	}
	// implicit flows: phis at the merge points of labelled, non-partition branches
	for d, reg := range ci.region {
		ifi, ok := d.Instrs[len(d.Instrs)-1].(*ssa.If)
		if !ok || a.L(ifi.Cond) == 0 {
			continue
		}
		if a.partitionTest(ifi, reg) != nil {
			continue
		}
		if findRow(a.rows, "V2", FnName(fn)) != nil {
			continue // reviewed: both arms compute the same result
		}
		cl := a.L(ifi.Cond)
		for _, b := range fn.Blocks {
			if reg[b] && b != d {
				continue
			}
			fromRegion := false
			for _, p := range b.Preds {
				if reg[p] || p == d {
					fromRegion = true
				}
			}
			if !fromRegion {
				continue
			}
			for _, in := range b.Instrs {
				phi, ok := in.(*ssa.Phi)
				if !ok {
					break
				}
				a.add(phi, cl)
			}
		}
		// a return under labelled control makes the result depend on the condition
		for b := range reg {
			if len(b.Instrs) > 0 {
				if ret, ok := b.Instrs[len(b.Instrs)-1].(*ssa.Return); ok && len(ret.Results) > 0 && a.retL[fn]|cl != a.retL[fn] {
					a.retL[fn] |= cl
					a.changed = true
				}
			}
		}
	}
}

func hasPredOutside(b *ssa.BasicBlock, reg map[*ssa.BasicBlock]bool, d *ssa.BasicBlock) bool {
	for _, p := range b.Preds {
		if !reg[p] && p != d {
			return true
		}
	}
	return false
}

// partitionTest: the If is the exit test of a loop over work items whose bounds are tainted
// (`for i := lo; i < hi; i++`), and the loop does not spawn goroutines. Returns the induction phi.
func (a *a3) partitionTest(ifi *ssa.If, reg map[*ssa.BasicBlock]bool) *ssa.Phi {
	cmp, ok := ifi.Cond.(*ssa.BinOp)
	if !ok {
		return nil
	}
	switch cmp.Op {
	case token.LSS, token.LEQ, token.GTR, token.GEQ, token.NEQ:
	default:
		return nil
	}
	h := ifi.Block()
	phi := inductionOf(cmp.X, h)
	if phi == nil {
		phi = inductionOf(cmp.Y, h)
	}
	if phi == nil {
		return nil
	}
	if regionHasGo(reg) {
		return nil
	}
	return phi
}

func (a *a3) callFlow(fn *ssa.Function, c *ssa.CallCommon, res *ssa.Call) {
	var callees []*ssa.Function
	if sc := c.StaticCallee(); sc != nil {
		callees = []*ssa.Function{sc}
	} else if mc, ok := c.Value.(*ssa.MakeClosure); ok {
		callees = []*ssa.Function{mc.Fn.(*ssa.Function)}
	} else {
		cg := a.p.CallGraph()
		if n := cg.Nodes[fn]; n != nil {
			for _, e := range n.Out {
				if e.Site != nil && e.Site.Common() == c {
					callees = append(callees, e.Callee.Func)
				}
			}
		}
	}
	args := c.Args
	if c.IsInvoke() {
		args = append([]ssa.Value{c.Value}, c.Args...)
	}
	for _, callee := range callees {
		if !a.p.IsModFunc(callee) {
			continue
		}
		for i, arg := range args {
			if i >= len(callee.Params) {
				break
			}
			if a.T(arg) {
				a.markSrc(callee.Params[i])
			}
			if a.perW[arg] && !a.perW[callee.Params[i]] {
				a.perW[callee.Params[i]] = true
				a.changed = true
			}
		}
		if res != nil {
			rl := a.retL[callee]
			out := rl & 1
			for i, arg := range args {
				if i >= len(callee.Params) {
					break
				}
				if rl&paramBit(callee.Params[i]) != 0 {
					out |= a.L(arg)
				}
			}
			// results depending on the callee's free variables: the closure value carries them
			if mc, ok := c.Value.(*ssa.MakeClosure); ok {
				for i, bnd := range mc.Bindings {
					if rl&paramBit(callee.FreeVars[i]) != 0 {
						out |= a.L(bnd)
						if al, ok := bnd.(*ssa.Alloc); ok {
							out |= a.cells[al]
						}
					}
				}
			}
			a.add(res, out)
		}
	}
	// builtins: min/max/len of per-worker propagate
	if b, ok := c.Value.(*ssa.Builtin); ok && res != nil {
		switch b.Name() {
		case "min", "max":
			for _, arg := range c.Args {
				a.add(res, a.L(arg))
			}
		}
	}
}

func runC12(c *Ctx) {
	c.Rule("A3-source: every call of runtime.GOMAXPROCS / runtime.NumCPU in the module is a taint source; taint flows through arithmetic, phis (incl. implicit flow at the merge of a tainted branch), local variables, closure bindings, call arguments and results (interprocedural, context-insensitive)")
	c.Rule("A3-V1 stored: a tainted value is never stored to memory other than local variables and per-worker slots (elements selected by a tainted index), returned out of the module, or passed to non-plumbing external functions")
	c.Rule("A3-V2 selection: a branch on a tainted condition may control only partition arithmetic, goroutine spawning and sync plumbing; if its control-dependent region calls module functions or stores data, both arms must reach the same set of leaf kernels through pure plumbing (range-split idiom), else it is an algorithm choice by worker count")
	c.Rule("A3-V3 partition leak: in a loop over work items with tainted bounds (the induction variable itself is the item index, not tainted) no other loop-carried value may reach a store, call or branch, except an integer accumulator that is only added to and handed to an atomic add / per-worker slot after the loop")
	c.NotCovered("that differently partitioned executions of the same kernel compute the same values (e.g. that partitions tile the range without gap or overlap)")
	c.NotCovered("order of merging per-worker partial results in a serial loop over workers; dynamic row claiming (schedule dependence is C10)")
	rows, err := loadReview(c.Verif + "/tables/gomaxprocs.txt")
	if err != nil {
		c.Fail("internal", "tables/gomaxprocs.txt", "", err.Error())
		return
	}
	c.Table("tables/gomaxprocs.txt")
	for _, cf := range c.configsFor() {
		p := c.load(cf[0], cf[1])
		if p == nil {
			continue
		}
		a := &a3{c: c, p: p, fns: p.SrcFuncs(), lab: map[ssa.Value]uint64{}, parSrc: map[ssa.Value]bool{}, cells: map[*ssa.Alloc]uint64{}, perW: map[ssa.Value]bool{},
			cut: map[*ssa.Phi]bool{}, retL: map[*ssa.Function]uint64{}, cd: map[*ssa.Function]*cdInfo{}, rows: rows}
		a.run()
	}
	for _, r := range rows {
		if !r.used {
			c.SetConfig("tables")
			c.Stale("gomaxprocs:" + r.typ + ":" + r.loc)
		}
	}
}

func (a *a3) run() {
	c, p := a.c, a.p
	// fixpoint; partition-loop induction variables are cut as soon as their test becomes tainted
	for iter := 0; iter < 50; iter++ {
		a.changed = false
		for _, fn := range a.fns {
			a.propagate(fn)
		}
		// discover cuts: un-taint induction variables of partition loops and restart if any appeared
		newCut := false
		for _, fn := range a.fns {
			ci := a.cdOf(fn)
			for d, reg := range ci.region {
				ifi, ok := d.Instrs[len(d.Instrs)-1].(*ssa.If)
				if !ok || !a.T(ifi.Cond) {
					continue
				}
				if phi := a.partitionTest(ifi, reg); phi != nil && !a.cut[phi] {
					a.cut[phi] = true
					newCut = true
				}
			}
		}
		if newCut {
			// restart taint from scratch with the enlarged cut set (taint is monotone in the cut set's complement)
			a.lab = map[ssa.Value]uint64{}
			a.parSrc = map[ssa.Value]bool{}
			a.cells = map[*ssa.Alloc]uint64{}
			a.perW = map[ssa.Value]bool{}
			a.retL = map[*ssa.Function]uint64{}
			continue
		}
		if !a.changed {
			break
		}
	}
	// sources
	nsrc := 0
	for _, fn := range a.fns {
		for _, b := range fn.Blocks {
			for _, in := range b.Instrs {
				if call, ok := in.(*ssa.Call); ok && isGOMAXPROCS(call) {
					nsrc++
					c.Pass("A3-source", fmt.Sprintf("%s#%d", FnName(fn), ordinalOf(fn, call)), p.Pos(call.Pos()), "taint source")
				}
			}
		}
	}
	c.Floor("A3-source", nsrc, 8)
	touched := map[*ssa.Function]bool{}
	for v := range a.lab {
		if !a.T(v) {
			continue
		}
		if in, ok := v.(ssa.Instruction); ok && in.Parent() != nil {
			touched[in.Parent()] = true
		} else if par, ok := v.(*ssa.Parameter); ok {
			touched[par.Parent()] = true
		}
	}
	var tf []*ssa.Function
	for f := range touched {
		tf = append(tf, f)
	}
	sort.Slice(tf, func(i, j int) bool { return FnName(tf[i]) < FnName(tf[j]) })
	for _, fn := range tf {
		c.Func(FnName(fn))
		a.classify(fn)
	}
}

func ordinalOf(fn *ssa.Function, call *ssa.Call) int {
	n := 0
	for _, b := range fn.Blocks {
		for _, in := range b.Instrs {
			if cl, ok := in.(*ssa.Call); ok && isGOMAXPROCS(cl) {
				n++
				if cl == call {
					return n
				}
			}
		}
	}
	return n
}

func isPlumbingCallee(f *ssa.Function) bool {
	if f == nil || f.Pkg == nil {
		return false
	}
	switch f.Pkg.Pkg.Path() {
	case "sync", "sync/atomic", "runtime":
		return true
	}
	return false
}

// effectsIn lists non-plumbing effects of the blocks: module calls (incl. through closures
// created or spawned there) and stores to non-local, non-per-worker memory.
type effects struct {
	calls  map[*ssa.Function]token.Pos
	sites  map[*ssa.Function][]ssa.CallInstruction
	stores []token.Pos
}

func (a *a3) effectsOf(blocks map[*ssa.BasicBlock]bool, skip *ssa.BasicBlock) effects {
	ef := effects{calls: map[*ssa.Function]token.Pos{}, sites: map[*ssa.Function][]ssa.CallInstruction{}}
	var visitFn func(f *ssa.Function, pos token.Pos, depth int)
	scan := func(b *ssa.BasicBlock, depth int) {
		for _, in := range b.Instrs {
			switch x := in.(type) {
			case *ssa.Store:
				if _, ok := x.Addr.(*ssa.Alloc); ok {
					continue
				}
				if a.perW[x.Addr] {
					continue
				}
				if a.localAddr(x.Addr) {
					continue
				}
				ef.stores = append(ef.stores, x.Pos())
			case ssa.CallInstruction:
				cc := x.Common()
				if bi, ok := cc.Value.(*ssa.Builtin); ok {
					if (bi.Name() == "copy" || bi.Name() == "clear") && !a.perW[cc.Args[0]] {
						ef.stores = append(ef.stores, x.Pos())
					}
					continue
				}
				var callees []*ssa.Function
				if sc := cc.StaticCallee(); sc != nil {
					callees = []*ssa.Function{sc}
				} else if mc, ok := cc.Value.(*ssa.MakeClosure); ok {
					callees = []*ssa.Function{mc.Fn.(*ssa.Function)}
				} else if par := funcParamOf(cc.Value); par != nil && a.cbBind[par] != nil {
					// a callback parameter of a plumbing wrapper that is being expanded for one call
					// site: what that call site passes, not every function the call graph knows
					callees = a.cbBind[par]
				} else {
					if n := a.p.CallGraph().Nodes[b.Parent()]; n != nil {
						for _, e := range n.Out {
							if e.Site == x {
								callees = append(callees, e.Callee.Func)
							}
						}
					}
				}
				for _, callee := range callees {
					if isPlumbingCallee(callee) {
						continue
					}
					if !a.p.IsModFunc(callee) {
						ef.calls[callee] = x.Pos()
						continue
					}
					// the function run by a go statement is a goroutine body whether it is written as a
					// closure or as a named worker function
					_, spawned := x.(*ssa.Go)
					if (callee.Parent() != nil || spawned) && a.noExpand {
						continue
					}
					if callee.Parent() != nil || spawned {
						// closure body: its contents count as being here
						visitFn(callee, x.Pos(), depth+1)
					} else {
						ef.calls[callee] = x.Pos()
						ef.sites[callee] = append(ef.sites[callee], x)
					}
				}
			}
		}
	}
	seen := map[*ssa.Function]bool{}
	visitFn = func(f *ssa.Function, pos token.Pos, depth int) {
		if seen[f] || depth > 3 {
			return
		}
		seen[f] = true
		for _, b := range f.Blocks {
			scan(b, depth)
		}
	}
	for b := range blocks {
		if b == skip {
			continue
		}
		scan(b, 0)
	}
	return ef
}

// localAddr: address inside a local (non-escaping or closure-captured) variable of the function.
func (a *a3) localAddr(v ssa.Value) bool {
	for i := 0; i < 6; i++ {
		switch x := v.(type) {
		case *ssa.Alloc:
			return true
		case *ssa.FieldAddr:
			v = x.X
		case *ssa.IndexAddr:
			if _, ok := x.X.Type().Underlying().(*types.Pointer); ok {
				v = x.X // index into a local array
			} else {
				return false
			}
		case *ssa.FreeVar:
			return true // captured local of the enclosing function
		default:
			return false
		}
	}
	return false
}

// kernelsOf expands plumbing wrappers one level: a callee that receives a tainted argument and whose
// own effects are calls only is replaced by what it calls.
func (a *a3) kernelsOf(ef effects, depth int) (map[string]bool, bool) {
	out := map[string]bool{}
	pure := len(ef.stores) == 0
	for f := range ef.calls {
		expanded := false
		if depth < 3 && a.p.IsModFunc(f) {
			hasT := false
			for _, par := range f.Params {
				if a.T(par) {
					hasT = true
				}
			}
			if hasT && spawnsGoroutines(f) {
				all := map[*ssa.BasicBlock]bool{}
				for _, b := range f.Blocks {
					all[b] = true
				}
				// bind function-typed parameters to what the call sites of this arm pass
				saved := a.cbBind
				a.cbBind = map[*ssa.Parameter][]*ssa.Function{}
				for k, v := range saved {
					a.cbBind[k] = v
				}
				for _, site := range ef.sites[f] {
					args := site.Common().Args
					for i, par := range f.Params {
						if _, isFn := par.Type().Underlying().(*types.Signature); !isFn || i >= len(args) {
							continue
						}
						switch av := args[i].(type) {
						case *ssa.MakeClosure:
							a.cbBind[par] = append(a.cbBind[par], av.Fn.(*ssa.Function))
						case *ssa.Function:
							a.cbBind[par] = append(a.cbBind[par], av)
						}
					}
				}
				sub := a.effectsOf(all, nil)
				a.cbBind = saved
				ks, p2 := a.kernelsOf(sub, depth+1)
				if !p2 {
					pure = false
				}
				for k := range ks {
					out[k] = true
				}
				expanded = true
			}
		}
		if !expanded {
			out[FnName(f)] = true
		}
	}
	return out, pure
}

func setStr(m map[string]bool) string {
	var s []string
	for k := range m {
		s = append(s, k)
	}
	sort.Strings(s)
	return "{" + strings.Join(s, ", ") + "}"
}

func (a *a3) reviewed(kind, fnName string) *reviewRow {
	if r := findRow(a.rows, kind, fnName); r != nil {
		r.used = true
		return r
	}
	return nil
}

func (a *a3) classify(fn *ssa.Function) {
	c, p := a.c, a.p
	ci := a.cdOf(fn)
	name := FnName(fn)
	// V2 / V3 per tainted branch
	var ds []*ssa.BasicBlock
	for d := range ci.region {
		ds = append(ds, d)
	}
	sort.Slice(ds, func(i, j int) bool { return ds[i].Index < ds[j].Index })
	nIf := 0
	for _, d := range ds {
		reg := ci.region[d]
		ifi, ok := d.Instrs[len(d.Instrs)-1].(*ssa.If)
		if !ok || !a.T(ifi.Cond) {
			continue
		}
		nIf++
		cons := fmt.Sprintf("%s:if#%d", name, nIf)
		pos := p.Pos(ifi.Cond.Pos())
		if phi := a.partitionTest(ifi, reg); phi != nil {
			// V3: other loop-carried values at this header
			bad := a.partitionLeak(d, phi, reg)
			if bad == "" {
				c.Pass("A3-V3", cons, pos, "partition loop over work items: induction variable "+phi.Name()+" is the item index; no other loop-carried state reaches an effect")
			} else if r := a.reviewed("V3", name); r != nil {
				c.Pass("A3-V3", cons, pos, "reviewed: "+r.reason)
			} else {
				c.Fail("A3-V3", cons, pos, "partition leak: "+bad)
			}
			continue
		}
		// effects per arm
		arm := func(s *ssa.BasicBlock) map[*ssa.BasicBlock]bool {
			out := map[*ssa.BasicBlock]bool{}
			// blocks of the region reachable from s without leaving the region
			var st []*ssa.BasicBlock
			if reg[s] {
				st = append(st, s)
			}
			for len(st) > 0 {
				b := st[len(st)-1]
				st = st[:len(st)-1]
				if out[b] || b == d {
					continue
				}
				out[b] = true
				for _, n := range b.Succs {
					if reg[n] {
						st = append(st, n)
					}
				}
			}
			return out
		}
		if regionHasGo(reg) {
			{
				// spawn loop: one goroutine per worker; the loop itself may only do plumbing
				a.noExpand = true
				es := a.effectsOf(reg, d)
				a.noExpand = false
				if len(es.calls)+len(es.stores) == 0 {
					c.Pass("A3-V2", cons, pos, "spawn control: the branch decides only how many per-worker goroutines are started and with which bounds; outside the goroutine bodies it does partition arithmetic and sync plumbing only")
					continue
				}
			}
		}
		e0 := a.effectsOf(arm(d.Succs[0]), d)
		e1 := a.effectsOf(arm(d.Succs[1]), d)
		if len(e0.calls)+len(e0.stores)+len(e1.calls)+len(e1.stores) == 0 {
			c.Pass("A3-V2", cons, pos, "tainted branch controls only partition arithmetic / spawning / sync plumbing")
			continue
		}
		k0, p0 := a.kernelsOf(e0, 0)
		k1, p1 := a.kernelsOf(e1, 0)
		if p0 && p1 && len(k0) > 0 && setStr(k0) == setStr(k1) {
			c.Pass("A3-V2", cons, pos, "range-split idiom: both arms reach the same kernels "+setStr(k0)+" through plumbing only")
			continue
		}
		if r := a.reviewed("V2", name); r != nil {
			c.Pass("A3-V2", cons, pos, "reviewed: "+r.reason)
			continue
		}
		what := fmt.Sprintf("the worker count selects what is executed: true arm: %s; false arm: %s", a.describeEffects(e0), a.describeEffects(e1))
		c.Fail("A3-V2", cons, pos, what)
	}
	// V1: tainted values stored / leaving
	nst := 0
	for _, b := range fn.Blocks {
		for _, in := range b.Instrs {
			switch x := in.(type) {
			case *ssa.Store:
				if !a.T(x.Val) {
					continue
				}
				if _, ok := x.Addr.(*ssa.Alloc); ok || a.perW[x.Addr] || a.localAddr(x.Addr) {
					continue
				}
				nst++
				cons := fmt.Sprintf("%s:store#%d(%s)", name, nst, describeAddr(x.Addr))
				if r := a.reviewed("V1", name+":"+describeAddr(x.Addr)); r != nil {
					c.Pass("A3-V1", cons, p.Pos(x.Pos()), "reviewed: "+r.reason)
				} else {
					c.Fail("A3-V1", cons, p.Pos(x.Pos()), "a value that depends on GOMAXPROCS is stored into "+describeAddr(x.Addr))
				}
			case ssa.CallInstruction:
				cc := x.Common()
				callee := cc.StaticCallee()
				if callee == nil || a.p.IsModFunc(callee) || isPlumbingCallee(callee) {
					continue
				}
				for _, arg := range cc.Args {
					if a.T(arg) {
						nst++
						cons := fmt.Sprintf("%s:extcall#%d(%s)", name, nst, callee.Name())
						c.Fail("A3-V1", cons, p.Pos(x.Pos()), "a value that depends on GOMAXPROCS is passed to "+callee.String())
					}
				}
			}
		}
	}
	// exported results
	if a.retL[fn]&a.srcMask(fn) != 0 && fn.Object() != nil && fn.Object().Exported() && fn.Parent() == nil {
		if fo, ok := fn.Object().(*types.Func); ok && fo.Pkg() != nil && !strings.Contains(fo.Pkg().Path(), "/internal/") {
			c.Fail("A3-V1", name+":result", p.Pos(fn.Pos()), "an exported function returns a value that depends on GOMAXPROCS")
		}
	}
	if nIf == 0 && nst == 0 {
		c.Pass("A3-V1", name+":flow", p.Pos(fn.Pos()), "tainted values are used for arithmetic and argument passing only")
	}
}

func boolInt(b bool) int {
	if b {
		return 1
	}
	return 0
}

// memoryCarried: inside a partition loop, an element of a shared array written at index i+c1 and
// read at index i+c2 (c1 != c2) carries data from one work item to the next through memory.
func (a *a3) memoryCarried(ind *ssa.Phi, reg map[*ssa.BasicBlock]bool) string {
	type acc struct {
		off int64
		pos token.Pos
	}
	norm := func(idx ssa.Value) (int64, bool) {
		off := int64(0)
		v := idx
		for i := 0; i < 8; i++ {
			switch x := v.(type) {
			case *ssa.Convert:
				v = x.X
				continue
			case *ssa.ChangeType:
				v = x.X
				continue
			case *ssa.BinOp:
				if c, ok := intConst(x.Y); ok && (x.Op == token.ADD || x.Op == token.SUB) {
					if x.Op == token.ADD {
						off += c
					} else {
						off -= c
					}
					v = x.X
					continue
				}
			}
			break
		}
		return off, v == ssa.Value(ind)
	}
	rootOf := func(x ssa.Value) (addrKeyT, bool) {
		if k, ok := addrKey(x); ok {
			return k, true
		}
		return addrKeyT{}, false
	}
	stores := map[addrKeyT][]acc{}
	loads := map[addrKeyT][]acc{}
	for b := range reg {
		for _, in := range b.Instrs {
			ia, ok := in.(*ssa.IndexAddr)
			if !ok || a.perW[ia.X] {
				continue
			}
			off, isInd := norm(ia.Index)
			if !isInd {
				continue
			}
			k, ok := rootOf(ia.X)
			if !ok {
				continue
			}
			for _, u := range *ia.Referrers() {
				switch y := u.(type) {
				case *ssa.Store:
					if y.Addr == ssa.Value(ia) {
						stores[k] = append(stores[k], acc{off, y.Pos()})
					}
				case *ssa.UnOp:
					if y.Op == token.MUL {
						loads[k] = append(loads[k], acc{off, ia.Pos()})
					}
				}
			}
		}
	}
	for k, ss := range stores {
		for _, s := range ss {
			for _, l := range loads[k] {
				if l.off != s.off {
					return fmt.Sprintf("element %s[i%+d] is read at %s while %s[i%+d] is written at %s in the same loop over work items: data is carried from item to item through memory, so results depend on where a partition starts", describeKey(k), l.off, a.p.Pos(l.pos), describeKey(k), s.off, a.p.Pos(s.pos))
				}
			}
		}
	}
	return ""
}

// partitionLeak checks the other phis of a partition-loop header.
func (a *a3) partitionLeak(h *ssa.BasicBlock, ind *ssa.Phi, reg map[*ssa.BasicBlock]bool) string {
	if s := a.memoryCarried(ind, reg); s != "" {
		return s
	}
	body := reg
	if li := loopOf(h); li != nil {
		body = li.body // the whole loop body, nested blocks included
	}
	if os.Getenv("VERIF_DEBUG") != "" {
		fmt.Fprintf(os.Stderr, "V3obj loop %s header %d reg=%d body=%d\n", h.Parent().Name(), h.Index, len(reg), len(body))
	}
	if s := a.objectCarried(body); s != "" {
		return s
	}
	for _, in := range h.Instrs {
		phi, ok := in.(*ssa.Phi)
		if !ok {
			break
		}
		if phi == ind {
			continue
		}
		// loop-carried: some edge comes from inside the loop and is not the phi itself
		carried := false
		for i, e := range phi.Edges {
			if reg[h.Preds[i]] && e != ssa.Value(phi) {
				if _, isConst := e.(*ssa.Const); !isConst {
					carried = true
				}
			}
		}
		if !carried {
			continue
		}
		// allowed: integer accumulator
		if a.isIntAccumulator(phi, reg) {
			continue
		}
		// allowed: derived induction variable (phi = phi +/- loop-invariant): a function of the item index
		if derivedInduction(phi, h, reg) {
			continue
		}
		// does its forward slice inside the loop reach an effect?
		if where := a.sliceReachesEffect(phi, reg); where != "" {
			return fmt.Sprintf("loop-carried value %s (%s) flows to %s; its value at the first item of each partition depends on where the partition starts", phi.Name(), phi.Comment, where)
		}
	}
	return ""
}

func (a *a3) isIntAccumulator(phi *ssa.Phi, reg map[*ssa.BasicBlock]bool) bool {
	b, ok := phi.Type().Underlying().(*types.Basic)
	if !ok || b.Info()&types.IsInteger == 0 {
		return false
	}
	// every use inside the loop is an ADD whose result flows (through phis/adds) back to phi
	seen := map[ssa.Value]bool{}
	var ok2 func(v ssa.Value) bool
	ok2 = func(v ssa.Value) bool {
		if seen[v] {
			return true
		}
		seen[v] = true
		refs := v.Referrers()
		if refs == nil {
			return true
		}
		for _, u := range *refs {
			if _, dbg := u.(*ssa.DebugRef); dbg {
				continue
			}
			if !reg[u.Block()] && u.Block() != phi.Block() {
				continue // use after the loop: merged by the caller-visible plumbing
			}
			switch x := u.(type) {
			case *ssa.BinOp:
				if x.Op != token.ADD {
					return false
				}
				if !ok2(x) {
					return false
				}
			case *ssa.Phi:
				if !ok2(x) {
					return false
				}
			case *ssa.Convert:
				if !ok2(x) {
					return false
				}
			default:
				return false
			}
		}
		return true
	}
	return ok2(phi)
}

func (a *a3) sliceReachesEffect(phi *ssa.Phi, reg map[*ssa.BasicBlock]bool) string {
	seen := map[ssa.Value]bool{}
	var walk func(v ssa.Value) string
	walk = func(v ssa.Value) string {
		if seen[v] {
			return ""
		}
		seen[v] = true
		refs := v.Referrers()
		if refs == nil {
			return ""
		}
		for _, u := range *refs {
			if !reg[u.Block()] && u.Block() != phi.Block() {
				continue
			}
			switch x := u.(type) {
			case *ssa.DebugRef:
			case *ssa.Store:
				if x.Val == v {
					if _, ok := x.Addr.(*ssa.Alloc); !ok {
						return "a store at " + a.p.Pos(x.Pos())
					}
				}
				if x.Addr == v {
					return "a store address at " + a.p.Pos(x.Pos())
				}
			case ssa.CallInstruction:
				if _, isB := x.Common().Value.(*ssa.Builtin); !isB {
					return "a call argument at " + a.p.Pos(x.Pos())
				}
			case *ssa.If:
				return "a branch condition at " + a.p.Pos(v.Pos())
			case ssa.Value:
				if s := walk(x); s != "" {
					return s
				}
			}
		}
		return ""
	}
	return walk(phi)
}

func (a *a3) describeEffects(e effects) string {
	ks := map[string]bool{}
	for f := range e.calls {
		ks[FnName(f)] = true
	}
	var st []string
	for _, p := range e.stores {
		st = append(st, a.p.Pos(p))
	}
	sort.Strings(st)
	if len(st) > 4 {
		st = append(st[:4], "...")
	}
	return fmt.Sprintf("calls %s, stores at [%s]", setStr(ks), strings.Join(st, " "))
}

func spawnsGoroutines(f *ssa.Function) bool { return spawnsWithin(f, 2) }

// spawnsWithin: f contains a go statement, or hands its work to a module function that does
// (a parallel driver that delegates the fan-out to a shared helper).
func spawnsWithin(f *ssa.Function, depth int) bool {
	for _, b := range f.Blocks {
		for _, in := range b.Instrs {
			switch x := in.(type) {
			case *ssa.Go:
				return true
			case *ssa.Call:
				if depth > 0 {
					if cal := x.Call.StaticCallee(); cal != nil && cal.Blocks != nil && cal.Pkg == f.Pkg && cal != f && spawnsWithin(cal, depth-1) {
						return true
					}
				}
			}
		}
	}
	return false
}

func derivedInduction(phi *ssa.Phi, h *ssa.BasicBlock, reg map[*ssa.BasicBlock]bool) bool {
	for i, e := range phi.Edges {
		if !reg[h.Preds[i]] {
			continue
		}
		bo, ok := e.(*ssa.BinOp)
		if !ok || (bo.Op != token.ADD && bo.Op != token.SUB) || under(bo.X) != ssa.Value(phi) {
			return false
		}
		// step defined outside the loop (or constant)
		if in, ok := bo.Y.(ssa.Instruction); ok && (reg[in.Block()] || in.Block() == h) {
			return false
		}
	}
	return true
}

// funcParamOf: the function-typed parameter a called value denotes - the parameter itself, or a load
// of the captured cell that holds it inside a closure of the same function.
func funcParamOf(v ssa.Value) *ssa.Parameter {
	for i := 0; i < 4; i++ {
		switch x := v.(type) {
		case *ssa.Parameter:
			return x
		case *ssa.UnOp:
			if x.Op != token.MUL {
				return nil
			}
			v = x.X
		case *ssa.FreeVar:
			fn := x.Parent()
			par := fn.Parent()
			if par == nil {
				return nil
			}
			var bound ssa.Value
			for _, b := range par.Blocks {
				for _, in := range b.Instrs {
					if mc, ok := in.(*ssa.MakeClosure); ok && mc.Fn == ssa.Value(fn) {
						for k, fv := range fn.FreeVars {
							if fv == x {
								bound = mc.Bindings[k]
							}
						}
					}
				}
			}
			if bound == nil {
				return nil
			}
			v = bound
		case *ssa.Alloc:
			// a parameter spilled into a cell because a closure captures it
			var val ssa.Value
			n := 0
			for _, ref := range *x.Referrers() {
				if st, ok := ref.(*ssa.Store); ok && st.Addr == ssa.Value(x) {
					n++
					val = st.Val
				}
			}
			if n != 1 {
				return nil
			}
			v = val
		default:
			return nil
		}
	}
	return nil
}

// objectCarried: inside a partition loop a call hands on a pointer to a struct that lives across the
// items (it is not created inside the loop) and the callee reads a scalar field of it that it also
// writes (S1 summaries: upward-exposed read and may-write of the same location): sequential state
// - a random generator, a running predictor - advances from item to item, so what an item sees
// depends on which items the same worker handled before, i.e. on the partition.
func (a *a3) objectCarried(reg map[*ssa.BasicBlock]bool) string {
	if a.s1 == nil {
		a.s1 = newS1(a.p)
	}
	for b := range reg {
		for _, in := range b.Instrs {
			call, ok := in.(*ssa.Call)
			if !ok {
				continue
			}
			cal := call.Call.StaticCallee()
			if cal == nil || cal.Blocks == nil || !a.p.IsModFunc(cal) {
				continue
			}
			for i, arg := range call.Call.Args {
				if structOf(arg.Type()) == nil {
					continue
				}
				// created inside the loop: fresh per item
				if ai, ok := arg.(ssa.Instruction); ok && reg[ai.Block()] {
					continue
				}
				if i >= len(cal.Params) {
					continue
				}
				sm := a.s1.summary(cal, i, false)
				if os.Getenv("VERIF_DEBUG") != "" {
					fmt.Fprintf(os.Stderr, "V3obj %s arg %d ue=%v mayW=%v\n", cal.Name(), i, len(sm.ue), sm.mayW.sorted())
				}
				var locs []string
				for loc := range sm.ue {
					if strings.HasSuffix(loc, "[]") || loc == "*" {
						continue
					}
					if !sm.mayW[loc] {
						continue
					}
					// sequential state is a scalar (a position, a counter, a running value); arrays and
					// slices are scratch memory whose element-wise fills S1 cannot see as overwrites
					st := structOf(arg.Type())
					scalar := false
					for fi := 0; fi < st.NumFields(); fi++ {
						if st.Field(fi).Name() == loc {
							if bt, ok := st.Field(fi).Type().Underlying().(*types.Basic); ok && bt.Info()&(types.IsNumeric|types.IsBoolean) != 0 {
								scalar = true
							}
						}
					}
					if scalar {
						locs = append(locs, loc)
					}
				}
				if len(locs) == 0 {
					continue
				}
				sort.Strings(locs)
				return fmt.Sprintf("%s is handed the object %s, which outlives the work item, and both reads and updates its field(s) %s: the object carries state from item to item inside one worker, so what an item sees depends on where the partition starts (%s)", cal.Name(), arg.Name(), strings.Join(locs, ", "), a.p.Pos(call.Pos()))
			}
		}
	}
	return ""
}
