package main

// A7: in-place safety of the VP8L inverse transforms (C01, C03, C07).
//
// Kernels = functions called from lossless.inverseTransform with its (in, out) slice
// pair. A kernel is in-place safe when every element it loads from `in` is loaded at
// the position it is about to store in `out` (cursors that advance in lock step), or
// when it starts with copy(out, in) and then works on `out` only. Every other kernel
// needs disjoint buffers; inverseTransform then needs disjoint buffers, and every
// call of it must pass buffers with provably different roots (relational root-tuple
// analysis over the loop of the caller, so that a two-buffer ping-pong is accepted
// and a reused single buffer is not).

import (
	"fmt"
	"go/token"
	"go/types"
	"sort"
	"strings"

	"golang.org/x/tools/go/ssa"
)

// sliceParamIdx returns the indices of the last two []uint32 parameters (in, out).
func inOutParams(fn *ssa.Function) (int, int, bool) {
	var idx []int
	for i, p := range fn.Params {
		if sl, ok := p.Type().Underlying().(*types.Slice); ok {
			if b, ok := sl.Elem().Underlying().(*types.Basic); ok && b.Kind() == types.Uint32 {
				idx = append(idx, i)
			}
		}
	}
	if len(idx) < 2 {
		return 0, 0, false
	}
	return idx[len(idx)-2], idx[len(idx)-1], true
}

// derivedSlices: values that are (reslices of) v, with the accumulated start offset value chain.
type sliceInfo struct {
	root ssa.Value   // in or out
	offs []ssa.Value // start offsets added by reslicing (nil entries = 0)
}

func collectDerived(fn *ssa.Function, roots ...ssa.Value) map[ssa.Value]sliceInfo {
	der := map[ssa.Value]sliceInfo{}
	for _, r := range roots {
		der[r] = sliceInfo{root: r}
	}
	for changed := true; changed; {
		changed = false
		for _, b := range fn.Blocks {
			for _, in := range b.Instrs {
				switch x := in.(type) {
				case *ssa.Slice:
					if si, ok := der[x.X]; ok {
						if _, done := der[x]; !done {
							offs := append(append([]ssa.Value{}, si.offs...), x.Low)
							der[x] = sliceInfo{si.root, offs}
							changed = true
						}
					}
				case *ssa.Phi:
					if _, done := der[x]; done {
						continue
					}
					for _, e := range x.Edges {
						if si, ok := der[e]; ok {
							der[x] = sliceInfo{root: si.root, offs: []ssa.Value{x}} // unknown offset: the phi itself marks it
							changed = true
							break
						}
					}
				}
			}
		}
	}
	return der
}

// cursor normal form: sum of terms (SSA values) plus a constant.
type idxForm struct {
	terms []string
	k     int64
	ok    bool
}

type congr struct {
	fn    *ssa.Function
	class map[ssa.Value]string // congruence class names for loop phis
	busy  map[*ssa.Phi]bool
}

// newCongr computes congruence classes of integer loop phis: two phis of the same header are
// congruent when their entry values are congruent and each advances by the same amount in a
// block that executes on every iteration.
func newCongr(fn *ssa.Function) *congr {
	c := &congr{fn: fn, class: map[ssa.Value]string{}}
	type sig struct {
		blk  int
		init string
		step string
	}
	bySig := map[sig][]*ssa.Phi{}
	for _, b := range fn.Blocks {
		// loop header?
		var backs []int
		for i, pr := range b.Preds {
			if b.Dominates(pr) {
				backs = append(backs, i)
			}
		}
		if len(backs) == 0 {
			continue
		}
		for _, in := range b.Instrs {
			phi, ok := in.(*ssa.Phi)
			if !ok {
				break
			}
			if !isIntLike(phi.Type()) {
				continue
			}
			// entry value
			init := ""
			step := ""
			good := true
			for i, e := range phi.Edges {
				isBack := false
				for _, bi := range backs {
					if bi == i {
						isBack = true
					}
				}
				if !isBack {
					s := c.form(e).String()
					if init != "" && init != s {
						good = false
					}
					init = s
					continue
				}
				// phi + step, with the increment executed unconditionally in the iteration
				st, ok := c.stepOf(phi, e, b, 0)
				if !ok {
					good = false
					break
				}
				if step != "" && step != st {
					good = false
				}
				step = st
			}
			if good && step != "" {
				k := sig{b.Index, init, step}
				bySig[k] = append(bySig[k], phi)
			}
		}
	}
	n := 0
	var keys []sig
	for k := range bySig {
		keys = append(keys, k)
	}
	sort.Slice(keys, func(i, j int) bool {
		if keys[i].blk != keys[j].blk {
			return keys[i].blk < keys[j].blk
		}
		return keys[i].init+keys[i].step < keys[j].init+keys[j].step
	})
	for _, k := range keys {
		n++
		for _, phi := range bySig[k] {
			c.class[phi] = fmt.Sprintf("cur%d", n)
		}
	}
	return c
}

// stepOf: e == phi + s along a chain of unconditional additions; returns the textual step.
func (c *congr) stepOf(phi *ssa.Phi, e ssa.Value, header *ssa.BasicBlock, depth int) (string, bool) {
	if depth > 4 {
		return "", false
	}
	bo, ok := e.(*ssa.BinOp)
	if !ok || (bo.Op != token.ADD && bo.Op != token.SUB) {
		// inner-loop phi that merges phi-derived values: conditional advance
		return "", false
	}
	// the addition must execute on every iteration: its block dominates every back-edge source
	for _, pr := range header.Preds {
		if header.Dominates(pr) && !(bo.Block() == pr || bo.Block().Dominates(pr)) {
			return "", false
		}
	}
	sign := ""
	if bo.Op == token.SUB {
		sign = "-"
	}
	if bo.X == ssa.Value(phi) {
		return sign + c.form(bo.Y).String(), true
	}
	// (phi + a) + b
	if s, ok := c.stepOf(phi, bo.X, header, depth+1); ok {
		return s + "+" + sign + c.form(bo.Y).String(), true
	}
	return "", false
}

func (f idxForm) String() string {
	if !f.ok {
		return "?"
	}
	t := append([]string{}, f.terms...)
	sort.Strings(t)
	return strings.Join(t, "+") + fmt.Sprintf("%+d", f.k)
}

// form normalises an integer value into terms + constant, replacing congruent phis by their class.
func (c *congr) form(v ssa.Value) idxForm {
	switch x := v.(type) {
	case nil:
		return idxForm{ok: true}
	case *ssa.Const:
		if k, ok := intConst(x); ok {
			return idxForm{k: k, ok: true}
		}
	case *ssa.BinOp:
		if x.Op == token.ADD || x.Op == token.SUB {
			a, b := c.form(x.X), c.form(x.Y)
			if a.ok && b.ok {
				if x.Op == token.SUB {
					if len(b.terms) > 0 {
						return idxForm{terms: []string{"(" + x.Name() + ")"}, ok: true}
					}
					return idxForm{terms: a.terms, k: a.k - b.k, ok: true}
				}
				return idxForm{terms: append(append([]string{}, a.terms...), b.terms...), k: a.k + b.k, ok: true}
			}
		}
	case *ssa.Convert:
		return c.form(x.X)
	case *ssa.Phi:
		if cl, ok := c.class[x]; ok {
			return idxForm{terms: []string{cl}, ok: true}
		}
		// merge phi (not a loop header): congruent when the incoming values are, edge by edge
		isHeader := false
		for _, pr := range x.Block().Preds {
			if x.Block().Dominates(pr) {
				isHeader = true
			}
		}
		if !isHeader && !c.busy[x] {
			if c.busy == nil {
				c.busy = map[*ssa.Phi]bool{}
			}
			c.busy[x] = true
			var parts []string
			for _, e := range x.Edges {
				parts = append(parts, c.form(e).String())
			}
			delete(c.busy, x)
			return idxForm{terms: []string{fmt.Sprintf("phi@%d[%s]", x.Block().Index, strings.Join(parts, ","))}, ok: true}
		}
	}
	return idxForm{terms: []string{v.Name()}, ok: true}
}

// kernelInPlaceSafe decides a kernel with parameters in (index i) and out (index o).
func kernelInPlaceSafe(p *Program, fn *ssa.Function, i, o int, depth int) (bool, string) {
	if fn.Blocks == nil {
		return false, "no body"
	}
	in, out := fn.Params[i], fn.Params[o]
	der := collectDerived(fn, in, out)
	cg := newCongr(fn)
	// position of an element access: offsets of the reslices + index
	posOf := func(ia *ssa.IndexAddr) (ssa.Value, string, bool) {
		si, ok := der[ia.X]
		if !ok {
			return nil, "", false
		}
		f := cg.form(ia.Index)
		for _, off := range si.offs {
			g := cg.form(off)
			f = idxForm{terms: append(append([]string{}, f.terms...), g.terms...), k: f.k + g.k, ok: f.ok && g.ok}
		}
		return si.root, f.String(), true
	}
	storePos := map[string]bool{}
	type ld struct {
		pos  string
		site token.Pos
	}
	var inLoads []ld
	copiedFirst := false
	for _, b := range fn.Blocks {
		for _, ins := range b.Instrs {
			switch x := ins.(type) {
			case *ssa.Store:
				if ia, ok := x.Addr.(*ssa.IndexAddr); ok {
					if root, pos, ok := posOf(ia); ok && root == ssa.Value(out) {
						storePos[pos] = true
					}
				}
			case *ssa.UnOp:
				if x.Op == token.MUL && !deadValue(x) {
					if ia, ok := x.X.(*ssa.IndexAddr); ok {
						if root, pos, ok := posOf(ia); ok && root == ssa.Value(in) {
							inLoads = append(inLoads, ld{pos, x.Pos()})
						}
					}
				}
			case ssa.CallInstruction:
				cc := x.Common()
				if bi, ok := cc.Value.(*ssa.Builtin); ok {
					if bi.Name() == "copy" {
						d, okd := der[cc.Args[0]]
						s, oks := der[cc.Args[1]]
						if okd && oks && d.root == ssa.Value(out) && s.root == ssa.Value(in) {
							copiedFirst = true // Go's copy handles overlap
							continue
						}
						if oks && s.root == ssa.Value(in) {
							inLoads = append(inLoads, ld{"copy-source", x.Pos()})
						}
					}
					continue
				}
				callee := cc.StaticCallee()
				// passing both buffers on: the callee decides
				var ai, ao = -1, -1
				for k, a := range cc.Args {
					if si, ok := der[a]; ok {
						if si.root == ssa.Value(in) {
							ai = k
						} else {
							ao = k
						}
					}
				}
				if ai >= 0 && ao >= 0 && callee != nil && depth < 3 {
					// reslices passed with equal offsets keep the pairing
					fi, fo := der[cc.Args[ai]], der[cc.Args[ao]]
					same := len(fi.offs) == len(fo.offs)
					for k := 0; same && k < len(fi.offs); k++ {
						if cg.form(fi.offs[k]).String() != cg.form(fo.offs[k]).String() {
							same = false
						}
					}
					ok, why := kernelInPlaceSafe(p, callee, ai, ao, depth+1)
					if !ok || !same {
						if !same {
							why = "passes differently offset windows of in and out to " + callee.Name()
						}
						return false, why
					}
					continue
				}
				if ai >= 0 && callee != nil {
					// in alone handed to a callee: reads we cannot place
					inLoads = append(inLoads, ld{"passed to " + callee.Name(), x.Pos()})
				}
			}
		}
	}
	if copiedFirst && len(inLoads) == 0 {
		return true, "copies in to out (overlap-safe) and otherwise works on out only"
	}
	for _, l := range inLoads {
		if !storePos[l.pos] {
			return false, fmt.Sprintf("loads in[%s] at %s, a position it does not store in the same step (out is written at %s): with in == out earlier stores overwrite input that is still to be read", l.pos, p.Pos(l.site), strings.Join(keysOf(storePos), " | "))
		}
	}
	return true, "every load from in is at the position stored to out in the same step"
}

func keysOf(m map[string]bool) []string {
	var r []string
	for k := range m {
		r = append(r, k)
	}
	sort.Strings(r)
	if len(r) > 3 {
		r = r[:3]
	}
	return r
}

// ---- root tuples at the call sites ----

// rootName gives a symbolic root for a slice value under an environment for header phis.
func rootName(p *Program, v ssa.Value, env map[*ssa.Phi]string, depth int) []string {
	if depth > 10 {
		return []string{"?"}
	}
	switch x := v.(type) {
	case *ssa.Slice:
		return rootName(p, x.X, env, depth+1)
	case *ssa.MakeSlice:
		return []string{"make@" + p.Pos(x.Pos())}
	case *ssa.Parameter:
		// resolve through the module's call sites when all of them are known
		fn := x.Parent()
		idx := -1
		for i, q := range fn.Params {
			if q == x {
				idx = i
			}
		}
		if n := p.CallGraph().Nodes[fn]; n != nil && len(n.In) > 0 && idx >= 0 && depth < 6 {
			var out []string
			for _, e := range n.In {
				if e.Site == nil || idx >= len(e.Site.Common().Args) {
					return []string{"?"}
				}
				out = append(out, rootName(p, e.Site.Common().Args[idx], nil, depth+3)...)
			}
			return out
		}
		return []string{"param:" + x.Name()}
	case *ssa.UnOp:
		if x.Op == token.MUL {
			if fa, ok := x.X.(*ssa.FieldAddr); ok {
				if st := structOf(fa.X.Type()); st != nil {
					// distinct fields are distinct memory only if each is assigned nothing but its own allocations
					if ownedSliceFields(p, st)[st.Field(fa.Field).Name()] {
						return []string{"field:" + st.Field(fa.Field).Name()}
					}
					return []string{"?"}
				}
			}
		}
	case *ssa.Phi:
		if r, ok := env[x]; ok {
			return []string{r}
		}
		var out []string
		for _, e := range x.Edges {
			if e == ssa.Value(x) {
				continue
			}
			out = append(out, rootName(p, e, env, depth+1)...)
		}
		return out
	case *ssa.Const:
		return []string{"nil"}
	}
	return []string{"?"}
}

// a7InPlace is the rule entry point; prop only labels the obligations' origin.
func a7InPlace(c *Ctx, p *Program, prop string) {
	it := p.Fn("internal/lossless", "inverseTransform")
	if it == nil {
		c.AnchorMissing("A7-inplace", "lossless.inverseTransform")
		return
	}
	ii, io, ok := inOutParams(it)
	if !ok {
		c.AnchorMissing("A7-inplace", "lossless.inverseTransform (in, out) parameters")
		return
	}
	c.Func(FnName(it))
	// kernels called with both buffers
	needsDisjoint := ""
	nk := 0
	in, out := it.Params[ii], it.Params[io]
	for _, b := range it.Blocks {
		for _, ins := range b.Instrs {
			ci, ok := ins.(ssa.CallInstruction)
			if !ok {
				continue
			}
			callee := ci.Common().StaticCallee()
			if callee == nil || !p.IsModFunc(callee) {
				continue
			}
			ai, ao := -1, -1
			for k, a := range ci.Common().Args {
				if a == ssa.Value(in) {
					ai = k
				}
				if a == ssa.Value(out) {
					ao = k
				}
			}
			if ai < 0 || ao < 0 {
				continue
			}
			nk++
			c.Func(FnName(callee))
			safe, why := kernelInPlaceSafe(p, callee, ai, ao, 0)
			if safe {
				c.Pass("A7-kernel", FnName(callee), p.Pos(callee.Pos()), "in-place safe: "+why)
			} else {
				c.Pass("A7-kernel", FnName(callee), p.Pos(callee.Pos()), "needs disjoint buffers: "+why)
				if needsDisjoint == "" {
					needsDisjoint = FnName(callee) + " (" + why + ")"
				}
			}
		}
	}
	c.Floor("A7-kernel", nk, 3)
	// call sites of inverseTransform
	n := p.CallGraph().Nodes[it]
	ns := 0
	if n != nil {
		for _, e := range n.In {
			caller := e.Caller.Func
			if e.Site == nil || !p.IsModFunc(caller) {
				continue
			}
			ns++
			key := fmt.Sprintf("%s->inverseTransform#%d", FnName(caller), callOrdinal(caller, e.Site))
			args := e.Site.Common().Args
			a, b := args[ii], args[io]
			tuples, exact := rootTuples(p, caller, a, b)
			aliased := ""
			for _, t := range tuples {
				if t[0] == t[1] || t[0] == "?" || t[1] == "?" {
					aliased = fmt.Sprintf("(%s, %s)", t[0], t[1])
				}
			}
			c.Func(FnName(caller))
			switch {
			case needsDisjoint == "":
				c.Pass("A7-inplace", key, p.Pos(e.Site.Pos()), "every kernel is in-place safe; buffer roots "+fmt.Sprint(tuples))
			case aliased == "" && exact:
				c.Pass("A7-inplace", key, p.Pos(e.Site.Pos()), "input and output always have different roots: "+fmt.Sprint(tuples))
			default:
				c.Fail("A7-inplace", key, p.Pos(e.Site.Pos()), fmt.Sprintf("inverseTransform may be called with overlapping input and output %s, but kernel %s; pixels are corrupted when such a transform is not the first one applied", aliased, needsDisjoint))
			}
		}
	}
	c.Floor("A7-inplace", ns, 1)
}

// rootTuples enumerates the possible (root(a), root(b)) pairs at a call inside a loop whose
// header phis carry the two buffers (relational fixpoint over the header phis).
func rootTuples(p *Program, fn *ssa.Function, a, b ssa.Value) ([][2]string, bool) {
	// header phis involved
	var phis []*ssa.Phi
	var collect func(v ssa.Value, d int)
	seen := map[ssa.Value]bool{}
	collect = func(v ssa.Value, d int) {
		if d > 8 || seen[v] {
			return
		}
		seen[v] = true
		switch x := v.(type) {
		case *ssa.Phi:
			isHeader := false
			for _, pr := range x.Block().Preds {
				if x.Block().Dominates(pr) {
					isHeader = true
				}
			}
			if isHeader {
				phis = append(phis, x)
			}
			for _, e := range x.Edges {
				collect(e, d+1)
			}
		case *ssa.Slice:
			collect(x.X, d+1)
		}
	}
	collect(a, 0)
	collect(b, 0)
	sort.Slice(phis, func(i, j int) bool { return phis[i].Name() < phis[j].Name() })
	if len(phis) == 0 {
		var out [][2]string
		for _, ra := range rootName(p, a, nil, 0) {
			for _, rb := range rootName(p, b, nil, 0) {
				out = append(out, [2]string{ra, rb})
			}
		}
		return out, true
	}
	// states: assignment of a root to every header phi
	type state []string
	key := func(s state) string { return strings.Join(s, "|") }
	var states []state
	seenS := map[string]bool{}
	// entry states: product of entry-edge roots
	var entry [][]string
	for _, phi := range phis {
		var rs []string
		for i, e := range phi.Edges {
			if !phi.Block().Dominates(phi.Block().Preds[i]) {
				rs = append(rs, rootName(p, e, nil, 0)...)
			}
		}
		entry = append(entry, rs)
	}
	var build func(i int, cur state)
	var work []state
	build = func(i int, cur state) {
		if i == len(phis) {
			s := append(state{}, cur...)
			if !seenS[key(s)] {
				seenS[key(s)] = true
				states = append(states, s)
				work = append(work, s)
			}
			return
		}
		for _, r := range entry[i] {
			build(i+1, append(cur, r))
		}
	}
	build(0, nil)
	exact := true
	for len(work) > 0 && len(states) < 64 {
		s := work[0]
		work = work[1:]
		env := map[*ssa.Phi]string{}
		for i, phi := range phis {
			env[phi] = s[i]
		}
		// next state through each back edge (all header phis share the header's predecessors)
		var choices [][]string
		for _, phi := range phis {
			var rs []string
			for i, e := range phi.Edges {
				if phi.Block().Dominates(phi.Block().Preds[i]) {
					rs = append(rs, rootName(p, e, env, 0)...)
				}
			}
			if len(rs) == 0 {
				rs = []string{env[phi]}
			}
			choices = append(choices, rs)
		}
		// same back edge for all phis: pair choices index-wise when counts agree, else product
		same := true
		for _, ch := range choices {
			if len(ch) != len(choices[0]) {
				same = false
			}
		}
		if same {
			for k := range choices[0] {
				var ns state
				for i := range phis {
					ns = append(ns, choices[i][k])
				}
				if !seenS[key(ns)] {
					seenS[key(ns)] = true
					states = append(states, ns)
					work = append(work, ns)
				}
			}
		} else {
			exact = false
		}
	}
	if len(states) >= 64 {
		exact = false
	}
	var out [][2]string
	dedup := map[[2]string]bool{}
	for _, s := range states {
		env := map[*ssa.Phi]string{}
		for i, phi := range phis {
			env[phi] = s[i]
		}
		for _, ra := range rootName(p, a, env, 0) {
			for _, rb := range rootName(p, b, env, 0) {
				t := [2]string{ra, rb}
				if !dedup[t] {
					dedup[t] = true
					out = append(out, t)
				}
			}
		}
	}
	sort.Slice(out, func(i, j int) bool { return out[i][0]+out[i][1] < out[j][0]+out[j][1] })
	return out, exact
}
