package main

// S8: normal-form evaluator for fixed-size pixel kernels.
//
// A kernel (an intra predictor, an inverse transform) is a function whose control flow does not
// depend on pixel values except through clamps, and whose loop bounds are constants. S8 interprets
// the SSA form of such a function abstractly: integers that do not depend on the input are kept as
// constants, input samples are symbols, and every computed sample is kept in a normal form
//
//	nf ::= c0 + sum ci * atom_i
//	atom ::= in(name) | shr(k; nf) | mul(nf, nf) | and(mask; nf) | wrap(bits; nf) | div(c; nf)
//	       | pw(subject nf; [lo,hi] -> nf; ...)
//
// with these normalisations: linear arithmetic is folded; (K*a)>>k has the multiples of 2^k taken out
// (so ((a*20091)>>16)+a and (a*85627)>>16 are the same form); conversions and typed arithmetic are
// the identity when an interval analysis shows the value fits; a comparison whose outcome the intervals
// do not decide splits the value range of its subject, both sides are evaluated up to the immediate
// post-dominator and the states are merged into piecewise (pw) forms with adjacent equal pieces
// fused. Two kernels that have the same normal form for every output sample compute the same
// function of their inputs; a different normal form is reported as a disagreement.
//
// Nothing is executed: no concrete pixel value ever exists, the result is a table of formulas.

import (
	"fmt"
	"go/constant"
	"go/token"
	"go/types"
	"sort"
	"strings"

	"golang.org/x/tools/go/ssa"
)

const kInf = int64(1) << 60

func satAdd(a, b int64) int64 {
	if a >= kInf || b >= kInf {
		if a <= -kInf || b <= -kInf {
			return 0
		}
		return kInf
	}
	if a <= -kInf || b <= -kInf {
		return -kInf
	}
	r := a + b
	if r >= kInf {
		return kInf
	}
	if r <= -kInf {
		return -kInf
	}
	return r
}

func satMul(a, b int64) int64 {
	if a == 0 || b == 0 {
		return 0
	}
	neg := (a < 0) != (b < 0)
	ua, ub := a, b
	if ua < 0 {
		ua = -ua
	}
	if ub < 0 {
		ub = -ub
	}
	if ua >= kInf || ub >= kInf || ua > kInf/ub {
		if neg {
			return -kInf
		}
		return kInf
	}
	if neg {
		return -(ua * ub)
	}
	return ua * ub
}

func floorDiv(a, b int64) int64 {
	q := a / b
	if (a%b != 0) && ((a < 0) != (b < 0)) {
		q--
	}
	return q
}

// ---- normal forms ----

type knf struct {
	c int64
	t map[string]int64
	k string // cached key
}

func kconst(c int64) *knf { return &knf{c: c} }

func (n *knf) isConst() bool { return len(n.t) == 0 }

func (n *knf) key() string {
	if n.k != "" {
		return n.k
	}
	ks := make([]string, 0, len(n.t))
	for a := range n.t {
		ks = append(ks, a)
	}
	sort.Strings(ks)
	var sb strings.Builder
	fmt.Fprintf(&sb, "%d", n.c)
	for _, a := range ks {
		fmt.Fprintf(&sb, "%+d*%s", n.t[a], a)
	}
	n.k = sb.String()
	return n.k
}

func (n *knf) comb(o *knf, k int64) *knf {
	r := &knf{c: n.c + k*o.c, t: map[string]int64{}}
	for a, v := range n.t {
		r.t[a] = v
	}
	for a, v := range o.t {
		r.t[a] += k * v
		if r.t[a] == 0 {
			delete(r.t, a)
		}
	}
	return r
}

func (n *knf) scale(k int64) *knf {
	r := &knf{c: n.c * k, t: map[string]int64{}}
	if k == 0 {
		return r
	}
	for a, v := range n.t {
		r.t[a] = v * k
	}
	return r
}

type kreg struct {
	lo, hi int64
	v      *knf
}

type katom struct {
	kind   string
	key    string
	args   []*knf
	k      int64
	regs   []kreg
	lo, hi int64
}

type kerr struct{ msg string }

func kfail(format string, a ...any) { panic(kerr{fmt.Sprintf(format, a...)}) }

// ksplit asks the block executor to split the value range of subj at the given cut points.
type ksplit struct {
	subj *knf
	cuts []int64
}

// ---- values, memory ----

const (
	kvNone = iota
	kvNum
	kvBool
	kvPtr
	kvSlice
	kvFunc
	kvTuple
	kvAgg
	kvNil
)

type kobj struct {
	id    int
	name  string
	input func(off int64) (name string, lo, hi int64, ok bool) // non-nil: unwritten cells are input symbols
}

type kval struct {
	kind     int
	n        *knf
	b        bool
	obj      *kobj
	off      int64
	ln, cp   int64
	fn       *ssa.Function
	bind, el []kval
}

func knum(n *knf) kval   { return kval{kind: kvNum, n: n} }
func kint(c int64) kval  { return kval{kind: kvNum, n: kconst(c)} }
func kboolv(b bool) kval { return kval{kind: kvBool, b: b} }
func (v kval) num() *knf {
	if v.kind != kvNum {
		kfail("numeric value expected, got kind %d", v.kind)
	}
	return v.n
}

func sameKval(a, b kval) bool {
	if a.kind != b.kind {
		return false
	}
	switch a.kind {
	case kvNum:
		return a.n.key() == b.n.key()
	case kvBool:
		return a.b == b.b
	case kvPtr:
		return a.obj == b.obj && a.off == b.off
	case kvSlice:
		return a.obj == b.obj && a.off == b.off && a.ln == b.ln && a.cp == b.cp
	case kvFunc:
		return a.fn == b.fn
	case kvTuple, kvAgg:
		if len(a.el) != len(b.el) {
			return false
		}
		for i := range a.el {
			if !sameKval(a.el[i], b.el[i]) {
				return false
			}
		}
		return true
	}
	return true
}

type kstate struct {
	mem    map[*kobj]map[int64]kval
	assume map[string][2]int64
}

func (s *kstate) clone() *kstate {
	r := &kstate{mem: map[*kobj]map[int64]kval{}, assume: map[string][2]int64{}}
	for o, m := range s.mem {
		mm := make(map[int64]kval, len(m))
		for k, v := range m {
			mm[k] = v
		}
		r.mem[o] = mm
	}
	for k, v := range s.assume {
		r.assume[k] = v
	}
	return r
}

type kframe struct {
	fn  *ssa.Function
	env map[ssa.Value]kval
}

func (f *kframe) clone() *kframe {
	r := &kframe{fn: f.fn, env: make(map[ssa.Value]kval, len(f.env))}
	for k, v := range f.env {
		r.env[k] = v
	}
	return r
}

// kx is one evaluation.
type kx struct {
	atoms   map[string]*katom
	st      *kstate
	nobj    int
	steps   int
	depth   int
	forks   int
	globals map[*ssa.Global]*kobj
	pdom    map[*ssa.Function]map[*ssa.BasicBlock]*ssa.BasicBlock
	sizes   types.Sizes
}

func newKX() *kx {
	return &kx{atoms: map[string]*katom{}, st: &kstate{mem: map[*kobj]map[int64]kval{}, assume: map[string][2]int64{}},
		globals: map[*ssa.Global]*kobj{}, pdom: map[*ssa.Function]map[*ssa.BasicBlock]*ssa.BasicBlock{}}
}

func (x *kx) newObj(name string) *kobj {
	x.nobj++
	o := &kobj{id: x.nobj, name: name}
	x.st.mem[o] = map[int64]kval{}
	return o
}

// ---- atoms ----

func (x *kx) atom(a *katom) *knf {
	if old, ok := x.atoms[a.key]; ok {
		a = old
	} else {
		x.atoms[a.key] = a
	}
	return &knf{t: map[string]int64{a.key: 1}}
}

func (x *kx) inAtom(name string, lo, hi int64) *knf {
	return x.atom(&katom{kind: "in", key: name, lo: lo, hi: hi})
}

// normalised subject of a form: the non-constant part divided by the gcd of its coefficients, first
// coefficient (in key order) positive. n = g*subj + c.
func (n *knf) subject() (subj *knf, g, c int64) {
	if len(n.t) == 0 {
		return kconst(0), 1, n.c
	}
	ks := make([]string, 0, len(n.t))
	for a := range n.t {
		ks = append(ks, a)
	}
	sort.Strings(ks)
	g = 0
	for _, a := range ks {
		v := n.t[a]
		if v < 0 {
			v = -v
		}
		g = gcd64(g, v)
	}
	if n.t[ks[0]] < 0 {
		g = -g
	}
	s := &knf{t: map[string]int64{}}
	for _, a := range ks {
		s.t[a] = n.t[a] / g
	}
	return s, g, n.c
}

func gcd64(a, b int64) int64 {
	for b != 0 {
		a, b = b, a%b
	}
	return a
}

// iv: interval of a (resolved) form under the current assumptions.
func (x *kx) iv(n *knf) (int64, int64) {
	if n.isConst() {
		return n.c, n.c
	}
	s, g, c := n.subject()
	lo, hi := x.ivRaw(s)
	if a, ok := x.st.assume[s.key()]; ok {
		if a[0] > lo {
			lo = a[0]
		}
		if a[1] < hi {
			hi = a[1]
		}
	}
	if g < 0 {
		lo, hi = satMul(hi, g), satMul(lo, g)
	} else {
		lo, hi = satMul(lo, g), satMul(hi, g)
	}
	return satAdd(lo, c), satAdd(hi, c)
}

func (x *kx) ivRaw(n *knf) (int64, int64) {
	lo, hi := n.c, n.c
	for a, k := range n.t {
		at := x.atoms[a]
		alo, ahi := at.lo, at.hi
		if as, ok := x.st.assume[(&knf{t: map[string]int64{a: 1}}).key()]; ok {
			if as[0] > alo {
				alo = as[0]
			}
			if as[1] < ahi {
				ahi = as[1]
			}
		}
		if k < 0 {
			lo, hi = satAdd(lo, satMul(ahi, k)), satAdd(hi, satMul(alo, k))
		} else {
			lo, hi = satAdd(lo, satMul(alo, k)), satAdd(hi, satMul(ahi, k))
		}
	}
	return lo, hi
}

// resolve replaces piecewise atoms whose subject is confined to one piece by that piece.
func (x *kx) resolve(n *knf) *knf {
	if len(x.st.assume) == 0 || n.isConst() {
		return n
	}
	changed := false
	r := kconst(n.c)
	for a, k := range n.t {
		at := x.atoms[a]
		rep := x.resolveAtom(at)
		if rep == nil {
			r = r.comb(&knf{t: map[string]int64{a: 1}}, k)
			continue
		}
		changed = true
		r = r.comb(rep, k)
	}
	if !changed {
		return n
	}
	return r
}

func (x *kx) resolveAtom(at *katom) *knf {
	switch at.kind {
	case "pw":
		lo, hi := x.iv(at.args[0])
		for _, rg := range at.regs {
			if lo >= rg.lo && hi <= rg.hi {
				return x.resolve(rg.v)
			}
		}
		return nil
	case "shr", "and", "wrap", "div":
		in := x.resolve(at.args[0])
		if in == at.args[0] {
			return nil
		}
		switch at.kind {
		case "shr":
			return x.shr(in, at.k)
		case "and":
			return x.and(in, at.k)
		case "wrap":
			return x.wrapBits(in, at.k, at.regs != nil)
		case "div":
			return x.div(in, at.k)
		}
	}
	return nil
}

// sign decides the sign of d (-1, 0, +1) or asks for a split.
func (x *kx) sign(d *knf) int {
	d = x.resolve(d)
	lo, hi := x.iv(d)
	switch {
	case hi < 0:
		return -1
	case lo > 0:
		return 1
	case lo == 0 && hi == 0:
		return 0
	}
	// a piecewise atom in d: split its subject at a piece boundary first
	for a := range d.t {
		at := x.atoms[a]
		if at.kind == "pw" {
			slo, shi := x.iv(at.args[0])
			var cuts []int64
			for _, rg := range at.regs[1:] {
				if rg.lo > slo && rg.lo <= shi {
					cuts = append(cuts, rg.lo)
				}
			}
			if len(cuts) > 0 {
				s, g, c := at.args[0].subject()
				// cuts are on args[0] = g*s + c; translate to s (g is +-1 for the subjects we build)
				if g == 1 {
					for i := range cuts {
						cuts[i] -= c
					}
					panic(ksplit{s, cuts})
				}
			}
		}
	}
	s, g, c := d.subject()
	// d = g*s + c ; root r = -c/g
	r := floorDiv(-c, g)
	if g*r+c == 0 {
		panic(ksplit{s, []int64{r, r + 1}})
	}
	panic(ksplit{s, []int64{r + 1}})
}

func (x *kx) shr(n *knf, k int64) *knf {
	if k == 0 {
		return n
	}
	n = x.resolve(n)
	if k >= 62 {
		switch x.sign(n) {
		case -1:
			return kconst(-1)
		default:
			return kconst(0)
		}
	}
	m := int64(1) << uint(k)
	out := kconst(0)
	rest := &knf{t: map[string]int64{}}
	for a, v := range n.t {
		q := floorDiv(v, m)
		r := v - q*m
		if q != 0 {
			out = out.comb(&knf{t: map[string]int64{a: 1}}, q)
		}
		if r != 0 {
			rest.t[a] = r
		}
	}
	q := floorDiv(n.c, m)
	out.c += q
	rest.c = n.c - q*m
	if rest.isConst() {
		return out // rest.c < m, shifts to 0
	}
	lo, hi := x.iv(rest)
	if lo >= 0 && hi < m {
		return out
	}
	alo, ahi := floorDiv(lo, m), floorDiv(hi, m)
	if lo <= -kInf {
		alo = -kInf
	}
	if hi >= kInf {
		ahi = kInf
	}
	if alo == ahi {
		out.c += alo
		return out
	}
	at := x.atom(&katom{kind: "shr", key: fmt.Sprintf("shr(%d;%s)", k, rest.key()), args: []*knf{rest}, k: k, lo: alo, hi: ahi})
	return out.comb(at, 1)
}

func (x *kx) div(n *knf, c int64) *knf {
	n = x.resolve(n)
	if n.isConst() {
		if c == 0 {
			kfail("division by zero")
		}
		return kconst(n.c / c)
	}
	lo, hi := x.iv(n)
	if c > 0 && c&(c-1) == 0 && lo >= 0 {
		k := int64(0)
		for (int64(1) << uint(k)) < c {
			k++
		}
		return x.shr(n, k)
	}
	a, b := lo/c, hi/c
	if c < 0 {
		a, b = b, a
	}
	if lo <= -kInf || hi >= kInf {
		a, b = -kInf, kInf
	}
	return x.atom(&katom{kind: "div", key: fmt.Sprintf("div(%d;%s)", c, n.key()), args: []*knf{n}, k: c, lo: a, hi: b})
}

// divv: truncated division of two sample-dependent non-negative values with a positive divisor.
// floor((k*n)/(k*d)) == floor(n/d) for k > 0, so the common constant factor of all coefficients of
// numerator and denominator is cancelled: (c*257*65535)/(a*257) and (c*65535)/a are one form.
func (x *kx) divv(n, d *knf) *knf {
	n, d = x.resolve(n), x.resolve(d)
	nlo, nhi := x.iv(n)
	dlo, dhi := x.iv(d)
	if nlo < 0 || dlo < 1 || nhi >= kInf || dhi >= kInf {
		kfail("division by a sample-dependent value that may be zero or negative (numerator [%s,%s], divisor [%s,%s])", infStr(nlo), infStr(nhi), infStr(dlo), infStr(dhi))
	}
	g := int64(0)
	for _, f := range []*knf{n, d} {
		g = gcd64(g, f.c)
		for _, c := range f.t {
			g = gcd64(g, c)
		}
	}
	if g < 0 {
		g = -g
	}
	if g > 1 {
		n, d = scaleDown(n, g), scaleDown(d, g)
	}
	return x.atom(&katom{kind: "divv", key: fmt.Sprintf("divv(%s;%s)", n.key(), d.key()), args: []*knf{n, d}, lo: nlo / dhi, hi: nhi / dlo})
}

func scaleDown(n *knf, g int64) *knf {
	r := &knf{c: n.c / g, t: map[string]int64{}}
	for a, c := range n.t {
		r.t[a] = c / g
	}
	return r
}

func (x *kx) and(n *knf, mask int64) *knf {
	n = x.resolve(n)
	lo, hi := x.iv(n)
	if lo == hi {
		return kconst(lo & mask)
	}
	if mask >= 0 && mask&(mask+1) == 0 && lo >= 0 && hi <= mask {
		return n
	}
	// n & (2^j - 1) is n mod 2^j
	if mask > 0 && mask&(mask+1) == 0 {
		j := int64(0)
		for (int64(1) << uint(j)) <= mask {
			j++
		}
		return x.wrapBits(n, j, false)
	}
	if mask < 0 {
		return x.atom(&katom{kind: "and", key: fmt.Sprintf("and(%d;%s)", mask, n.key()), args: []*knf{n}, k: mask, lo: -kInf, hi: kInf})
	}
	return x.atom(&katom{kind: "and", key: fmt.Sprintf("and(%d;%s)", mask, n.key()), args: []*knf{n}, k: mask, lo: 0, hi: mask})
}

// wrapBits: the value of n after conversion to an integer type of the given width.
func (x *kx) wrapBits(n *knf, bits int64, signed bool) *knf {
	n = x.resolve(n)
	if bits >= 64 {
		if signed {
			return n
		}
		lo, hi := x.iv(n)
		if lo >= 0 {
			return n
		}
		if hi < 0 {
			return x.atom(&katom{kind: "huge", key: "u64(" + n.key() + ")", args: []*knf{n}, lo: kInf, hi: kInf})
		}
		if x.sign(n) < 0 { // splits at 0 when undecided
			return x.atom(&katom{kind: "huge", key: "u64(" + n.key() + ")", args: []*knf{n}, lo: kInf, hi: kInf})
		}
		return n
	}
	mn, mx := int64(0), int64(1)<<uint(bits)-1
	if signed {
		mn, mx = -(int64(1) << uint(bits-1)), int64(1)<<uint(bits-1)-1
	}
	period := int64(1) << uint(bits)
	fits := func(m *knf) (*knf, bool) {
		lo, hi := x.iv(m)
		switch {
		case lo >= mn && hi <= mx:
			return m, true
		case lo >= mn-period && hi < mn:
			return m.comb(kconst(period), 1), true
		case lo > mx && hi <= mx+period:
			return m.comb(kconst(period), -1), true
		case lo == hi:
			v := lo & (period - 1)
			if v > mx {
				v -= period
			}
			return kconst(v), true
		}
		return nil, false
	}
	if r, ok := fits(n); ok {
		return r
	}
	// modular arithmetic: wrap(c*wrap(a) + b) = wrap(c*a + b); coefficients and the constant are
	// reduced to their representative in (-2^(bits-1), 2^(bits-1)]
	red := x.absorbWraps(n, bits)
	if r, ok := fits(red); ok {
		return r
	}
	sg := "u"
	var marker []kreg
	if signed {
		sg = "s"
		marker = []kreg{}
	}
	return x.atom(&katom{kind: "wrap", key: fmt.Sprintf("wrap%s%d(%s)", sg, bits, red.key()), args: []*knf{red}, k: bits, regs: marker, lo: mn, hi: mx})
}

func (x *kx) absorbWraps(n *knf, bits int64) *knf {
	period := int64(1) << uint(bits)
	half := period / 2
	redc := func(v int64) int64 {
		v = ((v % period) + period) % period
		if v > half {
			v -= period
		}
		return v
	}
	r := kconst(n.c)
	for a, k := range n.t {
		at := x.atoms[a]
		if at.kind == "wrap" && at.k == bits {
			r = r.comb(x.absorbWraps(at.args[0], bits), k)
		} else {
			r = r.comb(&knf{t: map[string]int64{a: 1}}, k)
		}
	}
	out := kconst(redc(r.c))
	for a, k := range r.t {
		if kk := redc(k); kk != 0 {
			out.t = ensure(out.t)
			out.t[a] = kk
		}
	}
	return out
}

func ensure(m map[string]int64) map[string]int64 {
	if m == nil {
		return map[string]int64{}
	}
	return m
}

func (x *kx) mul(a, b *knf) *knf {
	a, b = x.resolve(a), x.resolve(b)
	if a.isConst() {
		return b.scale(a.c)
	}
	if b.isConst() {
		return a.scale(b.c)
	}
	ka, kb := a.key(), b.key()
	if ka > kb {
		a, b, ka, kb = b, a, kb, ka
	}
	alo, ahi := x.iv(a)
	blo, bhi := x.iv(b)
	c := []int64{satMul(alo, blo), satMul(alo, bhi), satMul(ahi, blo), satMul(ahi, bhi)}
	lo, hi := c[0], c[0]
	for _, v := range c {
		if v < lo {
			lo = v
		}
		if v > hi {
			hi = v
		}
	}
	return x.atom(&katom{kind: "mul", key: "mul(" + ka + "," + kb + ")", args: []*knf{a, b}, lo: lo, hi: hi})
}

// mkPW builds the piecewise form of subj -> values.
func (x *kx) mkPW(subj *knf, regs []kreg) *knf {
	sort.Slice(regs, func(i, j int) bool { return regs[i].lo < regs[j].lo })
	// flatten pieces that are themselves piecewise in the same subject
	var flat []kreg
	for _, rg := range regs {
		flat = append(flat, x.restrict(subj, rg)...)
	}
	sort.Slice(flat, func(i, j int) bool { return flat[i].lo < flat[j].lo })
	var out []kreg
	for _, rg := range flat {
		if len(out) > 0 && out[len(out)-1].v.key() == rg.v.key() {
			out[len(out)-1].hi = rg.hi
			continue
		}
		out = append(out, rg)
	}
	if len(out) == 1 {
		return out[0].v
	}
	out[0].lo = -kInf
	out[len(out)-1].hi = kInf
	var sb strings.Builder
	sb.WriteString("pw(" + subj.key())
	lo, hi := kInf, -kInf
	for _, rg := range out {
		fmt.Fprintf(&sb, ";%s..%s=%s", infStr(rg.lo), infStr(rg.hi), rg.v.key())
		save := x.st.assume
		x.st.assume = map[string][2]int64{}
		for k, v := range save {
			x.st.assume[k] = v
		}
		x.st.assume[subj.key()] = [2]int64{rg.lo, rg.hi}
		l, h := x.iv(rg.v)
		x.st.assume = save
		if l < lo {
			lo = l
		}
		if h > hi {
			hi = h
		}
	}
	sb.WriteString(")")
	return x.atom(&katom{kind: "pw", key: sb.String(), args: []*knf{subj}, regs: out, lo: lo, hi: hi})
}

func infStr(v int64) string {
	if v >= kInf {
		return "+inf"
	}
	if v <= -kInf {
		return "-inf"
	}
	return fmt.Sprint(v)
}

// restrict: the piece rg of a form in subj, with nested pieces in the same subject cut to rg.
func (x *kx) restrict(subj *knf, rg kreg) []kreg {
	if len(rg.v.t) == 1 && rg.v.c == 0 {
		for a, k := range rg.v.t {
			at := x.atoms[a]
			if k == 1 && at.kind == "pw" && at.args[0].key() == subj.key() {
				var out []kreg
				for _, in := range at.regs {
					lo, hi := in.lo, in.hi
					if rg.lo > lo {
						lo = rg.lo
					}
					if rg.hi < hi {
						hi = rg.hi
					}
					if lo <= hi {
						out = append(out, x.restrict(subj, kreg{lo, hi, in.v})...)
					}
				}
				return out
			}
		}
	}
	return []kreg{rg}
}

// ---- post-dominators ----

func (x *kx) ipdom(fn *ssa.Function, b *ssa.BasicBlock) *ssa.BasicBlock {
	m, ok := x.pdom[fn]
	if !ok {
		m = computeIPdom(fn)
		x.pdom[fn] = m
	}
	return m[b]
}

// computeIPdom: immediate post-dominators (nil = the virtual exit).
func computeIPdom(fn *ssa.Function) map[*ssa.BasicBlock]*ssa.BasicBlock {
	n := len(fn.Blocks)
	exit := n
	// pd[i] = set of post-dominators as bitset over n+1 nodes
	pd := make([][]bool, n+1)
	for i := range pd {
		pd[i] = make([]bool, n+1)
		for j := range pd[i] {
			pd[i][j] = true
		}
	}
	for j := range pd[exit] {
		pd[exit][j] = j == exit
	}
	succs := func(i int) []int {
		b := fn.Blocks[i]
		if len(b.Succs) == 0 {
			return []int{exit}
		}
		var out []int
		for _, s := range b.Succs {
			out = append(out, s.Index)
		}
		return out
	}
	for changed := true; changed; {
		changed = false
		for i := n - 1; i >= 0; i-- {
			nw := make([]bool, n+1)
			first := true
			for _, s := range succs(i) {
				if first {
					copy(nw, pd[s])
					first = false
				} else {
					for j := range nw {
						nw[j] = nw[j] && pd[s][j]
					}
				}
			}
			nw[i] = true
			for j := range nw {
				if nw[j] != pd[i][j] {
					changed = true
				}
			}
			pd[i] = nw
		}
	}
	res := map[*ssa.BasicBlock]*ssa.BasicBlock{}
	for i := 0; i < n; i++ {
		// immediate: the strict post-dominator that is post-dominated by all other strict post-dominators
		var cand []int
		for j := 0; j <= n; j++ {
			if j != i && pd[i][j] {
				cand = append(cand, j)
			}
		}
		best := -1
		for _, c := range cand {
			ok := true
			for _, d := range cand {
				if d != c && !pd[c][d] {
					ok = false
				}
			}
			if ok {
				best = c
			}
		}
		if best >= 0 && best != exit {
			res[fn.Blocks[i]] = fn.Blocks[best]
		} else {
			res[fn.Blocks[i]] = nil
		}
	}
	return res
}

// ---- types ----

func flatSize(t types.Type) int64 {
	switch u := t.Underlying().(type) {
	case *types.Array:
		return u.Len() * flatSize(u.Elem())
	case *types.Struct:
		var s int64
		for i := 0; i < u.NumFields(); i++ {
			s += flatSize(u.Field(i).Type())
		}
		return s
	}
	return 1
}

func fieldOffset(st *types.Struct, idx int) int64 {
	var s int64
	for i := 0; i < idx; i++ {
		s += flatSize(st.Field(i).Type())
	}
	return s
}

func kIntBits(t types.Type) (bits int64, signed bool, ok bool) {
	b, isB := t.Underlying().(*types.Basic)
	if !isB {
		return 0, false, false
	}
	switch b.Kind() {
	case types.Int8:
		return 8, true, true
	case types.Int16:
		return 16, true, true
	case types.Int32:
		return 32, true, true
	case types.Int64, types.Int, types.UntypedInt:
		return 64, true, true
	case types.Uint8:
		return 8, false, true
	case types.Uint16:
		return 16, false, true
	case types.Uint32:
		return 32, false, true
	case types.Uint64, types.Uint, types.Uintptr:
		return 64, false, true
	}
	return 0, false, false
}

func (x *kx) zero(t types.Type) kval {
	switch u := t.Underlying().(type) {
	case *types.Basic:
		if u.Info()&types.IsBoolean != 0 {
			return kboolv(false)
		}
		if u.Info()&types.IsInteger != 0 {
			return kint(0)
		}
	case *types.Pointer, *types.Slice, *types.Signature, *types.Interface, *types.Map:
		return kval{kind: kvNil}
	}
	return kval{kind: kvNone}
}

// ---- memory access ----

func (x *kx) load(obj *kobj, off int64, t types.Type) kval {
	if n := flatSize(t); n > 1 || isAggregate(t) {
		v := kval{kind: kvAgg}
		x.loadFlat(obj, off, t, &v.el)
		return v
	}
	return x.loadCell(obj, off, t)
}

func isAggregate(t types.Type) bool {
	switch t.Underlying().(type) {
	case *types.Array, *types.Struct:
		return true
	}
	return false
}

func (x *kx) loadFlat(obj *kobj, off int64, t types.Type, out *[]kval) {
	switch u := t.Underlying().(type) {
	case *types.Array:
		es := flatSize(u.Elem())
		for i := int64(0); i < u.Len(); i++ {
			x.loadFlat(obj, off+i*es, u.Elem(), out)
		}
	case *types.Struct:
		for i := 0; i < u.NumFields(); i++ {
			x.loadFlat(obj, off+fieldOffset(u, i), u.Field(i).Type(), out)
		}
	default:
		*out = append(*out, x.loadCell(obj, off, t))
	}
}

func (x *kx) loadCell(obj *kobj, off int64, t types.Type) kval {
	m := x.st.mem[obj]
	if m == nil {
		m = map[int64]kval{}
		x.st.mem[obj] = m
	}
	if v, ok := m[off]; ok {
		return v
	}
	if obj.input != nil {
		if name, lo, hi, ok := obj.input(off); ok {
			return knum(x.inAtom(name, lo, hi))
		}
		kfail("read of %s[%d], which is outside the kernel's input window", obj.name, off)
	}
	z := x.zero(t)
	if z.kind == kvNone {
		kfail("read of uninitialised %s[%d] of type %s", obj.name, off, t)
	}
	return z
}

func (x *kx) store(obj *kobj, off int64, v kval) {
	m := x.st.mem[obj]
	if m == nil {
		m = map[int64]kval{}
		x.st.mem[obj] = m
	}
	if v.kind == kvAgg {
		for i, e := range v.el {
			m[off+int64(i)] = e
		}
		return
	}
	m[off] = v
}

// ---- evaluation ----

func (x *kx) val(f *kframe, v ssa.Value) kval {
	switch c := v.(type) {
	case *ssa.Const:
		if c.Value == nil {
			if z := x.zero(c.Type()); z.kind != kvNone {
				return z
			}
			return kval{kind: kvNil}
		}
		switch c.Value.Kind() {
		case constant.Int:
			if i, ok := constant.Int64Val(c.Value); ok {
				return kint(i)
			}
			if u, ok := constant.Uint64Val(c.Value); ok {
				_ = u
				return knum(x.atom(&katom{kind: "huge", key: "bigconst(" + c.Value.ExactString() + ")", lo: kInf, hi: kInf}))
			}
		case constant.Bool:
			return kboolv(constant.BoolVal(c.Value))
		}
		kfail("unsupported constant %s", c)
	case *ssa.Function:
		return kval{kind: kvFunc, fn: c}
	case *ssa.Global:
		o := x.globals[c]
		if o == nil {
			// a package variable of an empty struct type carries no state (binary.LittleEndian)
			if st, ok := c.Type().Underlying().(*types.Pointer).Elem().Underlying().(*types.Struct); ok && st.NumFields() == 0 {
				o = x.newObj(c.Name())
				x.globals[c] = o
				return kval{kind: kvPtr, obj: o}
			}
			if b, ok := c.Type().Underlying().(*types.Pointer).Elem().Underlying().(*types.Basic); ok && b.Info()&types.IsBoolean != 0 {
				kfail("dispatch on the package flag %s to code that has no Go body (assembly)", c.Name())
			}
			kfail("read of package variable %s (kernels may only use constants)", c.Name())
		}
		return kval{kind: kvPtr, obj: o}
	case *ssa.Builtin:
		kfail("builtin %s used as a value", c.Name())
	}
	r, ok := f.env[v]
	if !ok {
		kfail("value %s (%T) in %s has not been evaluated", v.Name(), v, f.fn.Name())
	}
	if r.kind == kvNum {
		r.n = x.resolve(r.n)
	}
	return r
}

type kexit struct {
	ret bool
	val kval
}

// call evaluates fn on the arguments and returns its result.
func (x *kx) call(fn *ssa.Function, args []kval, bind []kval) kval {
	if fn.Blocks == nil {
		kfail("call of %s, which has no Go body (assembly or external)", fn.String())
	}
	x.depth++
	if x.depth > 40 {
		kfail("call depth exceeded at %s", fn.String())
	}
	defer func() { x.depth-- }()
	f := &kframe{fn: fn, env: map[ssa.Value]kval{}}
	for i, p := range fn.Params {
		f.env[p] = args[i]
	}
	for i, fv := range fn.FreeVars {
		f.env[fv] = bind[i]
	}
	ex := x.runFrom(f, fn.Blocks[0], 0, nil, nil)
	if !ex.ret {
		kfail("internal: %s did not return", fn.Name())
	}
	return ex.val
}

// runFrom executes from instruction i of block b (entered from prev) until the function returns or
// control arrives at stop (whose phis are then already evaluated).
func (x *kx) runFrom(f *kframe, b *ssa.BasicBlock, i int, prev *ssa.BasicBlock, stop *ssa.BasicBlock) kexit {
	for {
		next, ex, sp, at := x.execBlock(f, b, i, prev)
		if sp != nil {
			x.forks++
			if x.forks > 20000 {
				kfail("too many case splits")
			}
			J := x.ipdom(f.fn, b)
			subjKey := sp.subj.key()
			slo, shi := x.iv(sp.subj)
			bounds := append([]int64{slo}, sp.cuts...)
			type branch struct {
				lo, hi int64
				st     *kstate
				fr     *kframe
				ex     kexit
			}
			var brs []branch
			saved := x.st
			for k := range bounds {
				lo := bounds[k]
				hi := shi
				if k+1 < len(bounds) {
					hi = bounds[k+1] - 1
				}
				if k > 0 && lo < slo {
					lo = slo
				}
				if hi > shi {
					hi = shi
				}
				if lo > hi {
					continue
				}
				x.st = saved.clone()
				x.st.assume[subjKey] = [2]int64{lo, hi}
				f2 := f.clone()
				e2 := x.runFrom(f2, b, at, prev, J)
				brs = append(brs, branch{lo, hi, x.st, f2, e2})
			}
			if len(brs) == 0 {
				kfail("internal: empty split")
			}
			if len(brs) == 1 && false {
				_ = brs
			}
			// merge
			merged := &kstate{mem: map[*kobj]map[int64]kval{}, assume: saved.assume}
			mergeVals := func(get func(k int) (kval, bool)) (kval, bool) {
				first, ok := get(0)
				if !ok {
					return kval{}, false
				}
				same := true
				for k := 1; k < len(brs); k++ {
					v, ok := get(k)
					if !ok {
						return kval{}, false
					}
					if !sameKval(first, v) {
						same = false
					}
				}
				if same {
					return first, true
				}
				if first.kind != kvNum {
					return kval{}, false
				}
				var regs []kreg
				for k := range brs {
					v, _ := get(k)
					if v.kind != kvNum {
						return kval{}, false
					}
					regs = append(regs, kreg{brs[k].lo, brs[k].hi, v.n})
				}
				x.st = merged
				return knum(x.mkPW(sp.subj, regs)), true
			}
			x.st = merged
			objs := map[*kobj]bool{}
			for _, br := range brs {
				for o := range br.st.mem {
					objs[o] = true
				}
			}
			for o := range objs {
				cells := map[int64]bool{}
				for _, br := range brs {
					for c := range br.st.mem[o] {
						cells[c] = true
					}
				}
				mm := map[int64]kval{}
				for c := range cells {
					cc := c
					v, ok := mergeVals(func(k int) (kval, bool) {
						if m := brs[k].st.mem[o]; m != nil {
							if v, ok := m[cc]; ok {
								return v, true
							}
						}
						if o.input != nil {
							if name, lo, hi, ok := o.input(cc); ok {
								return knum(x.inAtom(name, lo, hi)), true
							}
						}
						return kval{}, false
					})
					if ok {
						mm[c] = v
					} else {
						kfail("memory cell %s[%d] holds values that cannot be merged after a case split", o.name, c)
					}
				}
				merged.mem[o] = mm
			}
			x.st = merged
			allRet := true
			for _, br := range brs {
				if !br.ex.ret {
					allRet = false
				}
			}
			if allRet {
				v, ok := mergeVals(func(k int) (kval, bool) { return brs[k].ex.val, true })
				if !ok {
					kfail("return values cannot be merged after a case split in %s", f.fn.Name())
				}
				return kexit{ret: true, val: v}
			}
			for _, br := range brs {
				if br.ex.ret {
					kfail("internal: mixed exits after split in %s", f.fn.Name())
				}
			}
			keys := map[ssa.Value]bool{}
			for _, br := range brs {
				for k := range br.fr.env {
					keys[k] = true
				}
			}
			for k := range keys {
				kk := k
				v, ok := mergeVals(func(j int) (kval, bool) { v, ok := brs[j].fr.env[kk]; return v, ok })
				if ok {
					f.env[k] = v
				} else {
					delete(f.env, k)
				}
			}
			if J == stop {
				return kexit{}
			}
			// continue after the phis of J
			b, prev = J, nil
			i = 0
			for i < len(J.Instrs) {
				if _, isPhi := J.Instrs[i].(*ssa.Phi); !isPhi {
					break
				}
				i++
			}
			continue
		}
		if next == nil {
			return ex
		}
		if next == stop {
			x.evalPhis(f, next, b)
			return kexit{}
		}
		prev, b, i = b, next, 0
	}
}

func (x *kx) evalPhis(f *kframe, b, prev *ssa.BasicBlock) {
	pi := -1
	for k, p := range b.Preds {
		if p == prev {
			pi = k
		}
	}
	var vals []kval
	var phis []*ssa.Phi
	for _, in := range b.Instrs {
		ph, ok := in.(*ssa.Phi)
		if !ok {
			break
		}
		if pi < 0 {
			kfail("internal: phi without predecessor")
		}
		phis = append(phis, ph)
		vals = append(vals, x.val(f, ph.Edges[pi]))
	}
	for k, ph := range phis {
		f.env[ph] = vals[k]
	}
}

// execBlock runs the instructions of b from index i. It returns the successor (nil after a return,
// with the exit value), or the split request raised by instruction `at`.
func (x *kx) execBlock(f *kframe, b *ssa.BasicBlock, i int, prev *ssa.BasicBlock) (next *ssa.BasicBlock, ex kexit, sp *ksplit, at int) {
	cur := i
	defer func() {
		if r := recover(); r != nil {
			if s, ok := r.(ksplit); ok {
				sp = &s
				at = cur
				return
			}
			panic(r)
		}
	}()
	if i == 0 && prev != nil {
		x.evalPhis(f, b, prev)
	}
	for ; cur < len(b.Instrs); cur++ {
		in := b.Instrs[cur]
		x.steps++
		if x.steps > 2000000 {
			kfail("step budget exceeded in %s", f.fn.Name())
		}
		switch t := in.(type) {
		case *ssa.Phi, *ssa.DebugRef:
		case *ssa.Jump:
			return b.Succs[0], kexit{}, nil, 0
		case *ssa.If:
			c := x.val(f, t.Cond)
			if c.kind != kvBool {
				kfail("non-boolean condition")
			}
			if c.b {
				return b.Succs[0], kexit{}, nil, 0
			}
			return b.Succs[1], kexit{}, nil, 0
		case *ssa.Return:
			switch len(t.Results) {
			case 0:
				return nil, kexit{ret: true, val: kval{kind: kvNone}}, nil, 0
			case 1:
				return nil, kexit{ret: true, val: x.val(f, t.Results[0])}, nil, 0
			}
			tv := kval{kind: kvTuple}
			for _, r := range t.Results {
				tv.el = append(tv.el, x.val(f, r))
			}
			return nil, kexit{ret: true, val: tv}, nil, 0
		case *ssa.Panic:
			kfail("the kernel reaches a panic in %s", f.fn.Name())
		case *ssa.Store:
			p := x.val(f, t.Addr)
			if p.kind != kvPtr {
				kfail("store through a non-pointer")
			}
			x.store(p.obj, p.off, x.val(f, t.Val))
		case ssa.Value:
			f.env[t] = x.evalInstr(f, t)
		default:
			kfail("unsupported instruction %T in %s", in, f.fn.Name())
		}
	}
	kfail("internal: block without terminator")
	return
}

func (x *kx) evalInstr(f *kframe, v ssa.Value) kval {
	switch t := v.(type) {
	case *ssa.Alloc:
		o := x.newObj(t.Comment)
		return kval{kind: kvPtr, obj: o}
	case *ssa.MakeSlice:
		ln := x.val(f, t.Len).num()
		cp := x.val(f, t.Cap).num()
		if !ln.isConst() || !cp.isConst() {
			kfail("make with a non-constant size")
		}
		o := x.newObj("make")
		return kval{kind: kvSlice, obj: o, ln: ln.c, cp: cp.c}
	case *ssa.UnOp:
		a := x.val(f, t.X)
		switch t.Op {
		case token.MUL:
			if a.kind != kvPtr {
				kfail("load through a non-pointer")
			}
			return x.load(a.obj, a.off, t.Type())
		case token.SUB:
			return x.typed(a.num().scale(-1), t.Type())
		case token.XOR:
			return x.typed(a.num().scale(-1).comb(kconst(1), -1), t.Type())
		case token.NOT:
			return kboolv(!a.b)
		}
		kfail("unsupported unary operator %s", t.Op)
	case *ssa.BinOp:
		return x.binop(f, t)
	case *ssa.Convert:
		a := x.val(f, t.X)
		if a.kind != kvNum {
			kfail("conversion of a non-numeric value")
		}
		return x.typed(a.n, t.Type())
	case *ssa.ChangeType:
		return x.val(f, t.X)
	case *ssa.IndexAddr:
		base := x.val(f, t.X)
		idx := x.val(f, t.Index).num()
		if !idx.isConst() {
			kfail("index %s depends on sample values", idx.key())
		}
		switch base.kind {
		case kvSlice:
			if idx.c < 0 || idx.c >= base.ln {
				kfail("index %d out of range [0,%d)", idx.c, base.ln)
			}
			es := flatSize(t.X.Type().Underlying().(*types.Slice).Elem())
			return kval{kind: kvPtr, obj: base.obj, off: base.off + idx.c*es}
		case kvPtr:
			arr := t.X.Type().Underlying().(*types.Pointer).Elem().Underlying().(*types.Array)
			if idx.c < 0 || idx.c >= arr.Len() {
				kfail("index %d out of range [0,%d)", idx.c, arr.Len())
			}
			return kval{kind: kvPtr, obj: base.obj, off: base.off + idx.c*flatSize(arr.Elem())}
		}
		kfail("index of unsupported value")
	case *ssa.Index:
		base := x.val(f, t.X)
		idx := x.val(f, t.Index).num()
		if !idx.isConst() || base.kind != kvAgg {
			kfail("unsupported array value index")
		}
		arr := t.X.Type().Underlying().(*types.Array)
		es := flatSize(arr.Elem())
		if es == 1 && !isAggregate(arr.Elem()) {
			return base.el[idx.c]
		}
		return kval{kind: kvAgg, el: base.el[idx.c*es : (idx.c+1)*es]}
	case *ssa.FieldAddr:
		base := x.val(f, t.X)
		if base.kind != kvPtr {
			kfail("field of a non-pointer")
		}
		st := t.X.Type().Underlying().(*types.Pointer).Elem().Underlying().(*types.Struct)
		return kval{kind: kvPtr, obj: base.obj, off: base.off + fieldOffset(st, t.Field)}
	case *ssa.Field:
		base := x.val(f, t.X)
		st := t.X.Type().Underlying().(*types.Struct)
		o := fieldOffset(st, t.Field)
		ft := st.Field(t.Field).Type()
		if isAggregate(ft) {
			return kval{kind: kvAgg, el: base.el[o : o+flatSize(ft)]}
		}
		return base.el[o]
	case *ssa.Slice:
		base := x.val(f, t.X)
		var lo, hi int64 = 0, -1
		if t.Low != nil {
			l := x.val(f, t.Low).num()
			if !l.isConst() {
				kfail("slice bound depends on sample values")
			}
			lo = l.c
		}
		if t.High != nil {
			h := x.val(f, t.High).num()
			if !h.isConst() {
				kfail("slice bound depends on sample values")
			}
			hi = h.c
		}
		switch base.kind {
		case kvSlice:
			if hi < 0 {
				hi = base.ln
			}
			if lo < 0 || lo > hi || hi > base.cp {
				kfail("slice bounds out of range [%d:%d] of length %d", lo, hi, base.ln)
			}
			es := flatSize(t.X.Type().Underlying().(*types.Slice).Elem())
			return kval{kind: kvSlice, obj: base.obj, off: base.off + lo*es, ln: hi - lo, cp: base.cp - lo}
		case kvPtr:
			arr := t.X.Type().Underlying().(*types.Pointer).Elem().Underlying().(*types.Array)
			if hi < 0 {
				hi = arr.Len()
			}
			if lo < 0 || lo > hi || hi > arr.Len() {
				kfail("slice bounds out of range")
			}
			es := flatSize(arr.Elem())
			return kval{kind: kvSlice, obj: base.obj, off: base.off + lo*es, ln: hi - lo, cp: arr.Len() - lo}
		}
		kfail("slice of unsupported value")
	case *ssa.Extract:
		tv := x.val(f, t.Tuple)
		return tv.el[t.Index]
	case *ssa.MakeClosure:
		r := kval{kind: kvFunc, fn: t.Fn.(*ssa.Function)}
		for _, b := range t.Bindings {
			r.bind = append(r.bind, x.val(f, b))
		}
		return r
	case *ssa.Call:
		return x.evalCall(f, t)
	}
	kfail("unsupported instruction %T in %s", v, f.fn.Name())
	return kval{}
}

func (x *kx) typed(n *knf, t types.Type) kval {
	bits, signed, ok := kIntBits(t)
	if !ok {
		kfail("arithmetic on non-integer type %s", t)
	}
	return knum(x.wrapBits(n, bits, signed))
}

func (x *kx) binop(f *kframe, t *ssa.BinOp) kval {
	a, b := x.val(f, t.X), x.val(f, t.Y)
	if a.kind == kvBool && b.kind == kvBool {
		switch t.Op {
		case token.EQL:
			return kboolv(a.b == b.b)
		case token.NEQ:
			return kboolv(a.b != b.b)
		}
	}
	if a.kind == kvNil || b.kind == kvNil {
		isNil := func(v kval) bool { return v.kind == kvNil }
		switch t.Op {
		case token.EQL:
			return kboolv(isNil(a) && isNil(b))
		case token.NEQ:
			return kboolv(!(isNil(a) && isNil(b)))
		}
	}
	an, bn := a.num(), b.num()
	switch t.Op {
	case token.ADD:
		return x.typed(an.comb(bn, 1), t.Type())
	case token.SUB:
		return x.typed(an.comb(bn, -1), t.Type())
	case token.MUL:
		return x.typed(x.mul(an, bn), t.Type())
	case token.QUO:
		if !bn.isConst() {
			return x.typed(x.divv(an, bn), t.Type())
		}
		return x.typed(x.div(an, bn.c), t.Type())
	case token.SHR:
		if !bn.isConst() {
			kfail("shift by a sample-dependent amount")
		}
		return x.typed(x.shr(an, bn.c), t.Type())
	case token.SHL:
		if !bn.isConst() || bn.c > 40 {
			kfail("unsupported shift")
		}
		return x.typed(an.scale(int64(1)<<uint(bn.c)), t.Type())
	case token.AND:
		if bn.isConst() {
			return x.typed(x.and(an, bn.c), t.Type())
		}
		if an.isConst() {
			return x.typed(x.and(bn, an.c), t.Type())
		}
		{
			ka, kb := an.key(), bn.key()
			if kb < ka {
				ka, kb = kb, ka
			}
			lo, hi := int64(-kInf), int64(kInf)
			if bits, signed, ok := kIntBits(t.Type()); ok && !signed && bits < 63 {
				lo, hi = 0, int64(1)<<uint(bits)-1
			}
			return knum(x.atom(&katom{kind: "bitop", key: fmt.Sprintf("&(%s;%s)", ka, kb), args: []*knf{an, bn}, lo: lo, hi: hi}))
		}
	case token.AND_NOT:
		if bn.isConst() {
			return x.typed(x.and(an, ^bn.c), t.Type())
		}
		kfail("unsupported &^")
	case token.OR, token.XOR:
		if an.isConst() && bn.isConst() {
			if t.Op == token.OR {
				return kint(an.c | bn.c)
			}
			return kint(an.c ^ bn.c)
		}
		// bit fields that cannot overlap: one operand is below 2^k, the other a multiple of 2^k
		// (b0 | b1<<8 | b2<<16): or and xor are then the sum
		if x.disjointBits(an, bn) || x.disjointBits(bn, an) {
			return x.typed(an.comb(bn, 1), t.Type())
		}
		// not normalisable: an opaque but canonical atom (equal operands give equal atoms); its value
		// is only known to lie in the result type's range
		{
			ka, kb := an.key(), bn.key()
			if kb < ka {
				ka, kb = kb, ka
			}
			lo, hi := int64(-kInf), int64(kInf)
			if bits, signed, ok := kIntBits(t.Type()); ok && !signed && bits < 63 {
				lo, hi = 0, int64(1)<<uint(bits)-1
			}
			return knum(x.atom(&katom{kind: "bitop", key: fmt.Sprintf("%s(%s;%s)", t.Op.String(), ka, kb), args: []*knf{an, bn}, lo: lo, hi: hi}))
		}
	case token.REM:
		if an.isConst() && bn.isConst() && bn.c != 0 {
			return kint(an.c % bn.c)
		}
		kfail("remainder of sample-dependent values")
	case token.EQL, token.NEQ, token.LSS, token.LEQ, token.GTR, token.GEQ:
		s := x.sign(an.comb(bn, -1))
		switch t.Op {
		case token.EQL:
			return kboolv(s == 0)
		case token.NEQ:
			return kboolv(s != 0)
		case token.LSS:
			return kboolv(s < 0)
		case token.LEQ:
			return kboolv(s <= 0)
		case token.GTR:
			return kboolv(s > 0)
		default:
			return kboolv(s >= 0)
		}
	}
	kfail("unsupported binary operator %s", t.Op)
	return kval{}
}

func (x *kx) evalCall(f *kframe, t *ssa.Call) kval {
	if t.Call.IsInvoke() {
		kfail("interface call in a kernel")
	}
	var args []kval
	for _, a := range t.Call.Args {
		args = append(args, x.val(f, a))
	}
	if bi, ok := t.Call.Value.(*ssa.Builtin); ok {
		switch bi.Name() {
		case "len", "cap":
			a := args[0]
			switch a.kind {
			case kvSlice:
				if bi.Name() == "len" {
					return kint(a.ln)
				}
				return kint(a.cp)
			case kvNil:
				return kint(0)
			case kvPtr:
				if arr, ok := t.Call.Args[0].Type().Underlying().(*types.Pointer); ok {
					if at, ok := arr.Elem().Underlying().(*types.Array); ok {
						return kint(at.Len())
					}
				}
			case kvAgg:
				if at, ok := t.Call.Args[0].Type().Underlying().(*types.Array); ok {
					return kint(at.Len())
				}
			}
			kfail("len of unsupported value")
		case "min", "max":
			r := args[0]
			for _, o := range args[1:] {
				s := x.sign(r.num().comb(o.num(), -1))
				if (bi.Name() == "min" && s > 0) || (bi.Name() == "max" && s < 0) {
					r = o
				}
			}
			return r
		case "copy":
			d, s := args[0], args[1]
			if d.kind != kvSlice || s.kind != kvSlice {
				kfail("copy of unsupported values")
			}
			n := d.ln
			if s.ln < n {
				n = s.ln
			}
			et := t.Call.Args[0].Type().Underlying().(*types.Slice).Elem()
			tmp := make([]kval, n)
			for i := int64(0); i < n; i++ {
				tmp[i] = x.loadCell(s.obj, s.off+i, et)
			}
			for i := int64(0); i < n; i++ {
				x.store(d.obj, d.off+i, tmp[i])
			}
			return kint(n)
		}
		kfail("unsupported builtin %s", bi.Name())
	}
	fv := x.val(f, t.Call.Value)
	if fv.kind != kvFunc {
		kfail("call of a function value that is not known statically")
	}
	return x.call(fv.fn, args, fv.bind)
}

// disjointBits: a is in [0, 2^k) and every term of b is a multiple of 2^k with b >= 0.
func (x *kx) disjointBits(a, b *knf) bool {
	alo, ahi := x.iv(a)
	blo, _ := x.iv(b)
	if alo < 0 || blo < 0 || ahi >= kInf {
		return false
	}
	k := int64(0)
	for (int64(1) << uint(k)) <= ahi {
		k++
		if k > 40 {
			return false
		}
	}
	m := int64(1) << uint(k)
	if b.c%m != 0 {
		return false
	}
	for _, c := range b.t {
		if c%m != 0 {
			return false
		}
	}
	return true
}

// lazyVal evaluates a value on demand from its operands, ignoring control flow: for straight-line
// expressions (header field extraction) whose operands dominate the use. A phi is a failure.
func (x *kx) lazyVal(f *kframe, v ssa.Value, depth int) kval {
	if r, ok := f.env[v]; ok {
		return r
	}
	if depth > 60 {
		kfail("expression too deep")
	}
	switch v.(type) {
	case *ssa.Const, *ssa.Function, *ssa.Global, *ssa.Builtin:
		return x.val(f, v)
	case *ssa.Phi:
		kfail("the value depends on control flow (phi) in %s", f.fn.Name())
	case *ssa.Parameter, *ssa.FreeVar:
		kfail("parameter %s has no value", v.Name())
	}
	in, ok := v.(ssa.Instruction)
	if !ok {
		kfail("cannot evaluate %T", v)
	}
	for _, op := range in.Operands(nil) {
		if *op != nil {
			if _, isB := (*op).(*ssa.Builtin); isB {
				continue
			}
			f.env[*op] = x.lazyVal(f, *op, depth+1)
		}
	}
	r := x.evalInstr(f, v)
	f.env[v] = r
	return r
}
