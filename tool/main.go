// webpcheck: repository-specific static analyser for deepteams/webp.
// Decides structural clauses of the properties in /verif/properties.jsonl from
// the source of /repo (AST, types, go/ssa, call graph). Never runs webp code.
package main

import (
	"flag"
	"fmt"
	"os"
	"runtime/debug"
	"strconv"
	"strings"
)

type propRunner func(c *Ctx)

var runners = map[string]propRunner{}

func register(id string, r propRunner) { runners[id] = r }

var onlyKey string

func main() {
	prop := flag.String("prop", "", "property id (C01..C20)")
	tier := flag.String("tier", "quick", "quick|thorough")
	repo := flag.String("repo", "/repo", "repository working tree to analyse")
	verif := flag.String("verif", "/verif", "verification directory (tables, known findings, evidence)")
	only := flag.String("only", "", "report only the obligation with this 'rule construct' key (replay)")
	list := flag.Bool("list", false, "print every obligation")
	gen := flag.String("gen-ref", "", "write ref/ximage_tables.json from this golang.org/x/image source tree and exit")
	genK := flag.String("gen-kernel-ref", "", "write ref/ximage_kernels.json (S8 normal forms of the vp8 predictors and transforms) from this golang.org/x/image source tree and exit")
	flag.Parse()
	if *genK != "" {
		if err := genKernRef(*genK, *verif+"/ref/ximage_kernels.json"); err != nil {
			fmt.Fprintln(os.Stderr, err)
			os.Exit(2)
		}
		fmt.Println("wrote", *verif+"/ref/ximage_kernels.json")
		return
	}
	if *gen != "" {
		if err := genRef(*gen, *verif+"/ref/ximage_tables.json"); err != nil {
			fmt.Fprintln(os.Stderr, err)
			os.Exit(2)
		}
		fmt.Println("wrote", *verif+"/ref/ximage_tables.json")
		return
	}
	onlyKey = *only
	if t := os.Getenv("VERIF_TIER"); t != "" && !isFlagSet("tier") {
		*tier = t
	}
	r, ok := runners[*prop]
	if !ok {
		fmt.Fprintf(os.Stderr, "unknown property %q\n", *prop)
		os.Exit(2)
	}
	if *tier != "quick" && *tier != "thorough" {
		fmt.Fprintf(os.Stderr, "bad tier %q\n", *tier)
		os.Exit(2)
	}
	os.Unsetenv("GOWORK")
	c := newCtx(*prop, *tier, *repo, *verif)
	if s, err := strconv.Atoi(os.Getenv("VERIF_SEED")); err == nil {
		c.Seed = s
	}
	func() {
		defer func() {
			if e := recover(); e != nil {
				c.Fail("internal", "analyser-panic", "", fmt.Sprintf("analyser panicked: %v\n%s", e, debug.Stack()))
			}
		}()
		r(c)
	}()
	if onlyKey != "" {
		var keep []Obl
		for _, o := range c.obls {
			if o.Key() == onlyKey {
				keep = append(keep, o)
			}
		}
		c.obls = keep
	}
	if *list {
		for _, o := range c.obls {
			st := "ok  "
			if !o.OK {
				st = "FAIL"
			}
			fmt.Printf("%s %-12s %-60s %s  %s [%s]\n", st, o.Rule, o.Construct, o.Pos, o.Reason, o.Config)
		}
	}
	os.Exit(c.Finish())
}

func isFlagSet(name string) bool {
	set := false
	flag.Visit(func(f *flag.Flag) {
		if f.Name == name {
			set = true
		}
	})
	return set
}

// loadOrFail loads a configuration with SSA; on type errors it records failures.
func (c *Ctx) load(goos, goarch string) *Program {
	p, err := loadProgram(c.Repo, goos, goarch, true)
	if err != nil {
		c.Fail("load", goos+"/"+goarch, "", err.Error())
		return nil
	}
	c.SetConfig(p.Label)
	if len(p.Pkgs) < 11 {
		c.Fail("load", "package-count", "", fmt.Sprintf("only %d module packages loaded, expected >= 11", len(p.Pkgs)))
	}
	if len(p.Errors) > 0 {
		c.Fail("load", "type-errors:"+p.Label, "", "type errors: "+strings.Join(head(p.Errors, 5), "; "))
		return nil
	}
	return p
}

// configsFor returns the build configurations a rule set is analysed under.
func (c *Ctx) configsFor() [][2]string {
	if c.Tier == "thorough" {
		return [][2]string{{"linux", "amd64"}, {"linux", "arm64"}, {"linux", "riscv64"}}
	}
	return [][2]string{{"linux", "amd64"}}
}
