package main

// C20: option handling is total and matches its documentation.
//
// D1 documented defaults: the documentation comment of every EncoderOptions field is read from the
//    source ("(lo-hi, default D)", "is treated as K"). For every such field, over the classes
//    {negative, zero, positive} of the option's value, the effective value - obtained by class
//    evaluation (S6) of the resolve* helper applied to it, or of the guarded store that copies it
//    into the codec configuration (the configuration's own default is read from lossy.DefaultConfig)
//    - is D for every class outside the documented range and the option's own value inside it.
// V1 non-finite: class evaluation of validateConfig with a float option set to NaN, +Inf or -Inf
//    has no successful return.
// N1 no effect / lossy only: a field documented as having no effect is read nowhere outside
//    validateConfig; a field documented as "lossy encoding only" is not read by any function
//    reachable from the lossless encoding paths.
// P1 nil options: an exported function that dereferences its *EncoderOptions parameter does so
//    only after replacing nil by DefaultOptions().

import (
	"fmt"
	"go/ast"
	"go/token"
	"go/types"
	"regexp"
	"sort"
	"strconv"
	"strings"

	"golang.org/x/tools/go/ssa"
)

func init() { register("C20", runC20) }

type optDoc struct {
	name      string
	typ       types.Type
	hasRange  bool
	lo, hi, d int64
	treated   *int64
	noEffect  bool
	lossyOnly bool
	doc       string
}

var reRange = regexp.MustCompile(`\((\d+)\s*-\s*(\d+),\s*default\s+(\d+)\)`)
var reTreated = regexp.MustCompile(`(?:is|are)\s+treated\s+as\s+(\d+)`)

func readOptionDocs(p *Program) []optDoc {
	pk := p.Pkg("")
	if pk == nil {
		return nil
	}
	var out []optDoc
	for _, f := range pk.Syntax {
		ast.Inspect(f, func(n ast.Node) bool {
			ts, ok := n.(*ast.TypeSpec)
			if !ok || ts.Name.Name != "EncoderOptions" {
				return true
			}
			st, ok := ts.Type.(*ast.StructType)
			if !ok {
				return false
			}
			for _, fld := range st.Fields.List {
				doc := ""
				if fld.Doc != nil {
					doc = fld.Doc.Text()
				}
				flat := strings.Join(strings.Fields(doc), " ")
				for _, nm := range fld.Names {
					od := optDoc{name: nm.Name, doc: flat}
					if obj := pk.TypesInfo.Defs[nm]; obj != nil {
						od.typ = obj.Type()
					}
					if m := reRange.FindStringSubmatch(flat); m != nil {
						od.hasRange = true
						od.lo, _ = strconv.ParseInt(m[1], 10, 64)
						od.hi, _ = strconv.ParseInt(m[2], 10, 64)
						od.d, _ = strconv.ParseInt(m[3], 10, 64)
					}
					if m := reTreated.FindStringSubmatch(flat); m != nil {
						k, _ := strconv.ParseInt(m[1], 10, 64)
						od.treated = &k
					}
					if !od.hasRange && od.treated != nil {
						// "negative values are treated as K" without a written range: K is the default
						od.hasRange, od.lo, od.hi, od.d = true, 0, -1, *od.treated
					}
					od.noEffect = strings.Contains(flat, "has no effect")
					od.lossyOnly = strings.Contains(flat, "lossy encoding only")
					out = append(out, od)
				}
			}
			return false
		})
	}
	return out
}

func runC20(c *Ctx) {
	c.Rule("D1 documented defaults: for every EncoderOptions field whose documentation gives a range and a default, class evaluation (negative / zero / positive) of the code that turns the option into the codec's setting (resolve* helpers, guarded copies over lossy.DefaultConfig) yields the documented default for every class outside the documented range and the option's own value inside it; 'treated as K' equals the documented default")
	c.Rule("V1 non-finite: class evaluation of validateConfig with each float option in {NaN, +Inf, -Inf} reaches no successful return")
	c.Rule("V2 above range: for every integer option with a documented range (lo-hi), class evaluation of validateConfig with the option set to hi+1 reaches no successful return")
	c.Rule("N1: a field documented as having no effect is read only by validateConfig; a field documented 'lossy encoding only' is not read by any function reachable from the lossless paths")
	c.Rule("P1 nil options: exported functions dereference their *EncoderOptions parameter only through a value that is DefaultOptions() when the parameter is nil")
	c.NotCovered("byte-identical output of equivalent option sets beyond the equality of the settings handed to the codecs; panics inside the codecs for extreme images; upper-range validation values; presets")
	for _, cf := range c.configsFor() {
		p := c.load(cf[0], cf[1])
		if p == nil {
			continue
		}
		docs := readOptionDocs(p)
		if len(docs) < 10 {
			c.AnchorMissing("D1-doc-default", "EncoderOptions field documentation")
			continue
		}
		c20Defaults(c, p, docs)
		c20NonFinite(c, p, docs)
		c20Reads(c, p, docs)
		c20Nil(c, p)
	}
}

// loadsOfOption: every load of EncoderOptions.<name> in the module.
func loadsOfOption(p *Program, name string) []*ssa.UnOp {
	var out []*ssa.UnOp
	for _, fn := range p.SrcFuncs() {
		for _, b := range fn.Blocks {
			for _, in := range b.Instrs {
				ld, ok := in.(*ssa.UnOp)
				if !ok || ld.Op != token.MUL {
					continue
				}
				fa, ok := ld.X.(*ssa.FieldAddr)
				if !ok || namedOf(fa.X.Type()) != "EncoderOptions" || fieldName(fa.X.Type(), fa.Field) != name {
					continue
				}
				out = append(out, ld)
			}
		}
	}
	return out
}

// classEnv builds an S6 environment in which EncoderOptions.<name> is in the given sign class.
func classEnv(p *Program, name string, sign uint8) *ceEnv {
	e := newCE(p)
	a := avIntSign(sign)
	a.syms = []string{"opt"}
	e.fields["EncoderOptions."+name] = a
	return e
}

type effVal struct {
	kind string // "const" "opt" "default" "unknown"
	c    int64
}

func (v effVal) String() string {
	switch v.kind {
	case "const":
		return fmt.Sprint(v.c)
	case "opt":
		return "the option's own value"
	case "default":
		return "the codec configuration's default"
	}
	return "unknown"
}

func effOf(a av) effVal {
	if a.isInt && a.c != nil {
		return effVal{"const", *a.c}
	}
	if len(a.syms) == 1 && a.syms[0] == "opt" {
		return effVal{kind: "opt"}
	}
	return effVal{kind: "unknown"}
}

// defaultConfigConsts: constants stored by lossy.DefaultConfig into the fields of its result.
func defaultConfigConsts(p *Program) map[string]int64 {
	res := map[string]int64{}
	fn := p.Fn("internal/lossy", "DefaultConfig")
	if fn == nil {
		return res
	}
	for _, b := range fn.Blocks {
		for _, in := range b.Instrs {
			st, ok := in.(*ssa.Store)
			if !ok {
				continue
			}
			fa, ok := st.Addr.(*ssa.FieldAddr)
			if !ok {
				continue
			}
			if k, ok := st.Val.(*ssa.Const); ok && k.Value != nil {
				if v, ok := constantInt(k); ok {
					res[fieldName(fa.X.Type(), fa.Field)] = v
				}
			}
		}
	}
	return res
}

func constantInt(k *ssa.Const) (int64, bool) {
	if k.Value == nil {
		return 0, false
	}
	e := newCE(nil)
	a := e.eval(k)
	if a.isInt && a.c != nil {
		return *a.c, true
	}
	return 0, false
}

func c20Defaults(c *Ctx, p *Program, docs []optDoc) {
	defaults := defaultConfigConsts(p)
	n := 0
	classes := []struct {
		name string
		sign uint8
	}{{"negative", sgNeg}, {"zero", sgZero}, {"positive", sgPos}}
	for _, od := range docs {
		if !od.hasRange {
			continue
		}
		bt, ok := od.typ.Underlying().(*types.Basic)
		if !ok || bt.Info()&types.IsInteger == 0 {
			continue
		}
		if od.treated != nil {
			n++
			c.Check(*od.treated == od.d, "D1-doc-default", od.name+":doc", "", fmt.Sprintf("documentation is consistent (default %d)", od.d), fmt.Sprintf("the documentation of %s gives default %d but says negative values are treated as %d", od.name, od.d, *od.treated))
		}
		// use sites outside validation / construction of option sets
		for _, ld := range loadsOfOption(p, od.name) {
			fn := ld.Parent()
			switch fn.Name() {
			case "validateConfig", "DefaultOptions", "OptionsForPreset":
				continue
			}
			if fn.Pkg == nil || fn.Pkg != p.SSAPkg("") {
				continue
			}
			// a function that returns nothing but an error validates; it does not turn options into settings
			if rs := fn.Signature.Results(); rs.Len() == 1 && isErrorType(rs.At(0).Type()) && fn.Object() != nil && !fn.Object().Exported() {
				continue
			}
			c.Func(FnName(fn))
			for _, u := range *ld.Referrers() {
				site := ""
				var effs [3]effVal
				switch x := u.(type) {
				case *ssa.Call:
					cal := x.Call.StaticCallee()
					if cal == nil || cal.Blocks == nil {
						continue
					}
					site = fn.Name() + "->" + cal.Name()
					for i, cl := range classes {
						e := classEnv(p, od.name, cl.sign)
						a := e.eval(x)
						effs[i] = effOf(a)
					}
				case *ssa.Store:
					fa, ok := x.Addr.(*ssa.FieldAddr)
					if !ok {
						continue
					}
					cfgField := fieldName(fa.X.Type(), fa.Field)
					site = fn.Name() + ":store(" + namedOf(fa.X.Type()) + "." + cfgField + ")"
					// the setting is assigned nowhere else in this function, except from the same option or
					// with the documented default: any other assignment decides what the sentinel means
					for _, ob := range fn.Blocks {
						for _, oin := range ob.Instrs {
							ost, ok := oin.(*ssa.Store)
							if !ok || ost == x {
								continue
							}
							ofa, ok := ost.Addr.(*ssa.FieldAddr)
							if !ok || ofa.Field != fa.Field || !types.Identical(ofa.X.Type(), fa.X.Type()) {
								continue
							}
							if ost.Val == ssa.Value(ld) {
								continue
							}
							if ou, ok := ost.Val.(*ssa.UnOp); ok {
								if ofa2, ok := ou.X.(*ssa.FieldAddr); ok && fieldName(ofa2.X.Type(), ofa2.Field) == od.name {
									continue
								}
							}
							okOther := false
							if k, ok := ost.Val.(*ssa.Const); ok {
								if kv, ok := constantInt(k); ok && kv == int64(od.d) {
									okOther = true
								}
							}
							n++
							c.Check(okOther, "D1-doc-default", fmt.Sprintf("%s:%s:other-store", od.name, site), p.Pos(ost.Pos()),
								"the other assignment of the setting stores the documented default",
								fmt.Sprintf("%s.%s, which %s fills from the option %s, is also assigned %s here: with the option left at its sentinel the setting is not the documented default %d on this path", namedOf(fa.X.Type()), cfgField, fn.Name(), od.name, p.ExprText(ost.Val.Pos()), od.d))
						}
					}
					// the guard: the store's block is entered through an If on this option
					for i, cl := range classes {
						e := classEnv(p, od.name, cl.sign)
						taken := triTrue
						blk := x.Block()
						if len(blk.Preds) == 1 {
							if iff, ok := blk.Preds[0].Instrs[len(blk.Preds[0].Instrs)-1].(*ssa.If); ok {
								cv := e.eval(iff.Cond)
								t := cv.b
								if blk.Preds[0].Succs[1] == blk && t != triUnknown {
									t = 1 - t
								}
								if condMentions(iff.Cond, ld) || condMentionsOption(iff.Cond, od.name) {
									taken = t
								}
							}
						}
						switch taken {
						case triTrue:
							effs[i] = effVal{kind: "opt"}
						case triFalse:
							if dv, ok := defaults[cfgField]; ok {
								effs[i] = effVal{"const", dv}
							} else {
								effs[i] = effVal{kind: "default"}
							}
						default:
							effs[i] = effVal{kind: "unknown"}
						}
					}
				case *ssa.BinOp:
					// a sign guard (comparison with 0) is how the sentinel is recognised; any other direct
					// comparison or arithmetic uses the raw value although negative means "default"
					if rejected(p, od.name, sgNeg) {
						continue
					}
					isZero := func(v ssa.Value) bool {
						k, ok := v.(*ssa.Const)
						if !ok || k.Value == nil {
							return false
						}
						kv, ok := constantInt(k)
						return ok && kv == 0
					}
					guard := false
					switch x.Op {
					case token.GEQ, token.GTR, token.LSS, token.LEQ:
						guard = isZero(x.X) || isZero(x.Y)
					}
					n++
					key := fmt.Sprintf("%s:%s:raw-use", od.name, fn.Name())
					c.Check(guard, "D1-doc-default", key, p.Pos(x.Pos()), "the option is only tested for its sign here",
						fmt.Sprintf("%s is documented as (%d-%d, default %d; negative means default) but %s uses the raw value in '%s' without resolving the sentinel: a negative value takes whatever branch the raw number selects instead of behaving like %d", od.name, od.lo, od.hi, od.d, fn.Name(), x.Op.String(), od.d))
					continue
				default:
					continue
				}
				for i, cl := range classes {
					outside := cl.sign == sgNeg || (cl.sign == sgZero && od.lo >= 1)
					n++
					key := fmt.Sprintf("%s:%s:%s", od.name, site, cl.name)
					pos := p.Pos(ld.Pos())
					if rejected(p, od.name, cl.sign) {
						c.Pass("D1-doc-default", key, pos, fmt.Sprintf("a %s %s is rejected by validateConfig", cl.name, od.name))
						continue
					}
					switch {
					case outside:
						okv := effs[i].kind == "const" && effs[i].c == od.d
						c.Check(okv, "D1-doc-default", key, pos, fmt.Sprintf("a %s %s gives the documented default %d", cl.name, od.name, od.d),
							fmt.Sprintf("%s is documented with default %d (negative values mean the default) but a %s value becomes %s at %s: the sentinel does not mean the documented default", od.name, od.d, cl.name, effs[i], site))
					default:
						okv := effs[i].kind == "opt" || (effs[i].kind == "const" && cl.sign == sgZero && effs[i].c == 0)
						c.Check(okv, "D1-doc-default", key, pos, fmt.Sprintf("a %s %s inside the documented range is used as given", cl.name, od.name),
							fmt.Sprintf("%s is documented as (%d-%d, default %d) but a %s value inside the range becomes %s at %s", od.name, od.lo, od.hi, od.d, cl.name, effs[i], site))
					}
				}
			}
		}
	}
	c.Floor("D1-doc-default", n, 30)
}

func condMentions(cond ssa.Value, ld ssa.Value) bool {
	bin, ok := cond.(*ssa.BinOp)
	return ok && (bin.X == ld || bin.Y == ld)
}

func condMentionsOption(cond ssa.Value, name string) bool {
	bin, ok := cond.(*ssa.BinOp)
	if !ok {
		return false
	}
	for _, v := range []ssa.Value{bin.X, bin.Y} {
		if ld, ok := v.(*ssa.UnOp); ok && ld.Op == token.MUL {
			if fa, ok := ld.X.(*ssa.FieldAddr); ok && namedOf(fa.X.Type()) == "EncoderOptions" && fieldName(fa.X.Type(), fa.Field) == name {
				return true
			}
		}
	}
	return false
}

// ---- V1 ----

func c20NonFinite(c *Ctx, p *Program, docs []optDoc) {
	vc := p.Fn("", "validateConfig")
	if vc == nil {
		c.AnchorMissing("V1-non-finite", "webp.validateConfig")
		return
	}
	c.Func(FnName(vc))
	n := 0
	for _, od := range docs {
		bt, ok := od.typ.Underlying().(*types.Basic)
		if !ok || bt.Info()&types.IsFloat == 0 {
			continue
		}
		for _, cls := range []string{"NaN", "+Inf", "-Inf"} {
			n++
			e := newCE(p)
			name := od.name
			cl := cls
			isField := func(v ssa.Value) bool {
				if x, ok := v.(*ssa.UnOp); ok && x.Op == token.MUL {
					if fa, ok := x.X.(*ssa.FieldAddr); ok && namedOf(fa.X.Type()) == "EncoderOptions" && fieldName(fa.X.Type(), fa.Field) == name {
						return true
					}
				}
				return false
			}
			var isSpecial func(e *ceEnv, v ssa.Value) bool
			isSpecial = func(e *ceEnv, v ssa.Value) bool {
				if isField(v) {
					return true
				}
				switch x := v.(type) {
				case *ssa.Convert:
					return isSpecial(e, x.X)
				case *ssa.Parameter:
					a, ok := e.params[x]
					return ok && len(a.syms) == 1 && a.syms[0] == "fspecial"
				}
				return false
			}
			e.hook = func(e *ceEnv, v ssa.Value) (av, bool) {
				if isField(v) {
					return avSym("fspecial"), true
				}
				switch x := v.(type) {
				case *ssa.BinOp:
					sx, sy := isSpecial(e, x.X), isSpecial(e, x.Y)
					if !sx && !sy {
						return av{}, false
					}
					switch x.Op {
					case token.EQL, token.NEQ, token.LSS, token.LEQ, token.GTR, token.GEQ:
					default:
						return av{}, false
					}
					if sx && sy {
						return av{}, false
					}
					// IEEE comparisons against a finite constant
					var res bool
					switch cl {
					case "NaN":
						res = x.Op == token.NEQ
					case "+Inf":
						if sx {
							res = x.Op == token.GTR || x.Op == token.GEQ || x.Op == token.NEQ
						} else {
							res = x.Op == token.LSS || x.Op == token.LEQ || x.Op == token.NEQ
						}
					case "-Inf":
						if sx {
							res = x.Op == token.LSS || x.Op == token.LEQ || x.Op == token.NEQ
						} else {
							res = x.Op == token.GTR || x.Op == token.GEQ || x.Op == token.NEQ
						}
					}
					if res {
						return avBool(triTrue), true
					}
					return avBool(triFalse), true
				case *ssa.Call:
					cal := x.Call.StaticCallee()
					if cal == nil || cal.Pkg == nil || cal.Pkg.Pkg.Path() != "math" || len(x.Call.Args) == 0 || !isSpecial(e, x.Call.Args[0]) {
						return av{}, false
					}
					switch cal.Name() {
					case "IsNaN":
						if cl == "NaN" {
							return avBool(triTrue), true
						}
						return avBool(triFalse), true
					case "IsInf":
						if cl == "NaN" {
							return avBool(triFalse), true
						}
						// sign argument: 0 any, >0 +Inf, <0 -Inf
						sa := e.eval(x.Call.Args[1])
						if sa.isInt && sa.c != nil {
							switch {
							case *sa.c == 0, *sa.c > 0 && cl == "+Inf", *sa.c < 0 && cl == "-Inf":
								return avBool(triTrue), true
							}
							return avBool(triFalse), true
						}
					}
				}
				return av{}, false
			}
			// marks the options record as carrying class information, so that validation helpers that
			// are handed the whole record are entered
			e.fields["EncoderOptions."+od.name+"#special"] = avUnknown()
			rets, complete := e.run(vc)
			key := od.name + "=" + cls
			switch {
			case !complete:
				c.Fail("V1-non-finite", key, p.Pos(vc.Pos()), "validateConfig could not be evaluated completely")
			case len(rets) > 0:
				c.Fail("V1-non-finite", key, p.Pos(vc.Pos()), fmt.Sprintf("validateConfig can return without error when %s is %s (every ordered comparison with NaN is false): the value reaches the encoder", od.name, cls))
			default:
				c.Pass("V1-non-finite", key, p.Pos(vc.Pos()), "every path of validateConfig ends in an error for this value")
			}
		}
	}
	c.Floor("V1-non-finite", n, 6)
	// V2: the first value above the documented range of an integer option is rejected
	m := 0
	for _, od := range docs {
		if !od.hasRange {
			continue
		}
		bt, ok := od.typ.Underlying().(*types.Basic)
		if !ok || bt.Info()&types.IsInteger == 0 {
			continue
		}
		if od.hi < 0 {
			continue // no upper limit written in the documentation
		}
		m++
		e := newCE(p)
		a := avIntConst(od.hi + 1)
		e.fields["EncoderOptions."+od.name] = a
		rets, complete := e.run(vc)
		key := fmt.Sprintf("%s=%d", od.name, od.hi+1)
		switch {
		case !complete:
			c.Fail("V2-above-range", key, p.Pos(vc.Pos()), "validateConfig could not be evaluated completely")
		case len(rets) > 0:
			c.Fail("V2-above-range", key, p.Pos(vc.Pos()), fmt.Sprintf("%s is documented as (%d-%d) but validateConfig can return without error for %d: the out-of-range value reaches the encoder", od.name, od.lo, od.hi, od.hi+1))
		default:
			c.Pass("V2-above-range", key, p.Pos(vc.Pos()), "rejected by validateConfig")
		}
	}
	c.Floor("V2-above-range", m, 8)
}

// ---- N1 ----

func c20Reads(c *Ctx, p *Program, docs []optDoc) {
	n := 0
	var losslessRoots []*ssa.Function
	for _, fn := range p.SrcFuncs() {
		if fn.Pkg != p.SSAPkg("") || fn.Parent() != nil {
			continue
		}
		for _, b := range fn.Blocks {
			for _, in := range b.Instrs {
				if call, ok := in.(*ssa.Call); ok {
					if cal := call.Call.StaticCallee(); cal != nil && cal.Pkg != nil && strings.HasSuffix(cal.Pkg.Pkg.Path(), "/internal/lossless") && strings.HasPrefix(cal.Name(), "Encode") {
						losslessRoots = append(losslessRoots, fn)
					}
				}
			}
		}
	}
	if len(losslessRoots) == 0 {
		c.AnchorMissing("N1-reads", "functions calling lossless.Encode*")
		return
	}
	reach := p.Reachable(losslessRoots...)
	var names []string
	for _, r := range losslessRoots {
		names = append(names, r.Name())
	}
	sort.Strings(names)
	for _, od := range docs {
		if !od.noEffect && !od.lossyOnly {
			continue
		}
		var bad []string
		for _, ld := range loadsOfOption(p, od.name) {
			fn := ld.Parent()
			if fn.Name() == "validateConfig" {
				continue
			}
			if od.noEffect {
				bad = append(bad, fmt.Sprintf("%s (%s)", fn.Name(), p.Pos(ld.Pos())))
			} else if reach[fn] {
				bad = append(bad, fmt.Sprintf("%s (%s), reachable from the lossless path", fn.Name(), p.Pos(ld.Pos())))
			}
		}
		n++
		sort.Strings(bad)
		what := "documented as having no effect"
		if !od.noEffect {
			what = "documented as lossy-only"
		}
		c.Check(len(bad) == 0, "N1-reads", od.name, "", od.name+" ("+what+") is not read where it must not matter",
			fmt.Sprintf("%s is %s but is read by %s: it can change the output", od.name, what, strings.Join(bad, ", ")))
	}
	c.Note("N1: lossless paths are " + strings.Join(names, ", "))
	c.Floor("N1-reads", n, 3)
}

// ---- P1 ----

func c20Nil(c *Ctx, p *Program) {
	n := 0
	for _, fn := range p.SrcFuncs() {
		if fn.Pkg != p.SSAPkg("") || fn.Object() == nil || !fn.Object().Exported() || fn.Signature.Recv() != nil {
			continue
		}
		for _, prm := range fn.Params {
			if namedOf(prm.Type()) != "EncoderOptions" {
				continue
			}
			if _, isPtr := prm.Type().(*types.Pointer); !isPtr {
				continue
			}
			n++
			bad := ""
			for _, u := range *prm.Referrers() {
				switch x := u.(type) {
				case *ssa.BinOp: // nil comparison
				case *ssa.Phi:
					// must be merged with DefaultOptions() on the nil edge
					okPhi := false
					for _, e := range x.Edges {
						if call, ok := e.(*ssa.Call); ok {
							if cal := call.Call.StaticCallee(); cal != nil && cal.Name() == "DefaultOptions" {
								okPhi = true
							}
						}
					}
					if !okPhi {
						bad = "the nil case is not replaced by DefaultOptions()"
					}
				case *ssa.DebugRef:
				default:
					// any other direct use must be dominated by a non-nil test
					if !dominatedByNonNil(u, prm) {
						bad = fmt.Sprintf("the parameter is used at %s without a preceding nil test", p.Pos(u.Pos()))
					}
				}
			}
			c.Func(FnName(fn))
			c.Check(bad == "", "P1-nil-options", fn.Name(), p.Pos(fn.Pos()), "nil options are replaced by DefaultOptions() before use", fn.Name()+": "+bad+": nil options panic or do not behave as DefaultOptions()")
		}
	}
	c.Floor("P1-nil-options", n, 1)
}

func dominatedByNonNil(u ssa.Instruction, prm *ssa.Parameter) bool {
	fn := u.Parent()
	for _, b := range fn.Blocks {
		iff, ok := b.Instrs[len(b.Instrs)-1].(*ssa.If)
		if !ok {
			continue
		}
		bin, ok := iff.Cond.(*ssa.BinOp)
		if !ok || !(bin.X == ssa.Value(prm) || bin.Y == ssa.Value(prm)) {
			continue
		}
		var nonNil *ssa.BasicBlock
		switch bin.Op {
		case token.NEQ:
			nonNil = b.Succs[0]
		case token.EQL:
			nonNil = b.Succs[1]
		}
		if nonNil != nil && len(nonNil.Preds) == 1 && nonNil.Dominates(u.Block()) {
			return true
		}
	}
	return false
}

var rejectedMemo = map[string]bool{}

// rejected: validateConfig has no successful return when the option is in the given sign class.
func rejected(p *Program, name string, sign uint8) bool {
	k := fmt.Sprintf("%p|%s|%d", p, name, sign)
	if v, ok := rejectedMemo[k]; ok {
		return v
	}
	vc := p.Fn("", "validateConfig")
	res := false
	if vc != nil {
		e := classEnv(p, name, sign)
		rets, complete := e.run(vc)
		res = complete && len(rets) == 0
	}
	rejectedMemo[k] = res
	return res
}
