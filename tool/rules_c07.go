package main

// C07: lossy encoding preserves the alpha channel exactly by default.
//
// A1 ALPH header vs payload (S7): encodeAlphaInternal is executed symbolically for every class of
//    (method, filter, levels-reduced, compressed-larger-than-raw). In every class the header byte is a
//    constant whose method bits say how the payload that follows is coded (1 iff it is the output of
//    the lossless encoder) and whose filter bits name the prediction filter that produced the bytes
//    (0 iff the payload is the unfiltered plane).
// A2 filter pairing: for every filter code, the encoder's filter function and the decoder's
//    unfilter function selected for that code are the pair of the same prediction
//    (alphaFilterX / alphaUnfilterX).
// A3 quantisation gate: the alpha plane passes through level quantisation only under a test of
//    the alpha quality against 100, and the default alpha quality (negative sentinel) resolves to 100.
// I1 (as C19) for the functions that scan and extract the alpha plane of the input image.

import (
	"fmt"
	"go/constant"
	"go/token"
	"path/filepath"
	"strings"

	"golang.org/x/tools/go/ssa"
)

func init() { register("C07", runC07) }

func runC07(c *Ctx) {
	c.Rule("A1 ALPH header vs payload (S7 symbolic execution of lossy.encodeAlphaInternal over all classes of method/filter/fallback): the header byte is constant in each class; its method bits are 1 exactly when the payload is the lossless encoder's output, its filter bits are 0 exactly when the payload is the unfiltered plane and otherwise equal the filter code under which the filtered buffer was produced")
	c.Rule("A2 filter pairing: for each filter code 1..3 exactly one forward filter (func([]byte,int,int,[]byte)) and one inverse filter (func([]byte,int,int)) of package lossy is called under an equality test with that code; K4 decides that the two are inverse to each other")
	c.Rule("A3 quantisation gate: every call of the level quantiser on the alpha plane is control-dependent on a comparison of the alpha quality with 100; resolveAlphaQuality maps the negative sentinel to 100")
	c.Rule("I1 index form (as C19) for imageHasAlpha and extractAlphaWith")
	c.Rule("K4 alpha filters (S8 kernel evaluator, 5x4 plane, all sample values): the inverse filter dispatched on filter value k has, cell for cell, the normal form of the independent implementation's inverse filter k (golang.org/x/image/webp, ref/ximage_kernels.json), and the forward filter dispatched on k followed by that inverse is the identity; functions are found by signature and by the constant they are dispatched on, not by name")
	c.Rule("K6 unfilter reached: the function that dispatches on the filter code, and level by level its callers inside the package, return successfully only through that dispatch (accepted bypass: a branch on the filter code itself)")
	c.NotCovered("the filters on planes of other sizes than 5x4 (the loops are uniform in the cell classes first cell / first row / first column / interior, but that uniformity is not proven); exactness of the lossless coder used for the plane (C01); the number of levels kept by quantisation")
	for i, cf := range c.configsFor() {
		p := c.load(cf[0], cf[1])
		if p == nil {
			continue
		}
		if i == 0 {
			alphHeaderRule(c, p, "A1-alph-header")
		}
		c07Pairing(c, p)
		if kref, err := loadKernRef(filepath.Join(c.Verif, "ref", "ximage_kernels.json")); err != nil {
			c.Fail("internal", "ref/ximage_kernels.json", "", "cannot read the reference kernels: "+err.Error())
		} else {
			c.Table("ref/ximage_kernels.json")
			kernelAlphaFilters(c, p, kref)
			kernelUnfilterReached(c, p)
		}
		c07Gate(c, p)
		c19Analyse(c, p)
	}
}

// alphHeaderRule is shared with C02.
func alphHeaderRule(c *Ctx, p *Program, rule string) {
	fn := p.Fn("internal/lossy", "encodeAlphaInternal")
	if fn == nil {
		c.AnchorMissing(rule, "lossy.encodeAlphaInternal")
		return
	}
	c.Func(FnName(fn))
	// the filters and the lossless encoder are the codec proper: not followed (a buffer handed to them
	// counts as filled by them); small helpers of the same package are followed
	var opq []string
	for _, b := range fn.Blocks {
		for _, in := range b.Instrs {
			if call, ok := in.(*ssa.Call); ok {
				if cal := call.Call.StaticCallee(); cal != nil && p.IsModFunc(cal) {
					if cal.Pkg != fn.Pkg || strings.HasPrefix(cal.Name(), "alphaFilter") {
						opq = append(opq, cal.Name())
					}
				}
			}
		}
	}
	// the forward filters stay opaque when they are reached through a dispatch helper
	for _, f2 := range p.SrcFuncs() {
		if f2.Pkg == fn.Pkg && f2.Parent() == nil && strings.HasPrefix(f2.Name(), "alphaFilter") {
			opq = append(opq, f2.Name())
		}
	}
	out := sxExplore(p, fn, writerArgs(fn), 20000, nil, opq...)
	pos := p.Pos(fn.Pos())
	var firstUnd string
	if len(out.undecided) > 0 {
		firstUnd = out.undecided[0]
	}
	c.Check(len(out.undecided) == 0, rule, "encodeAlphaInternal:decided", pos, fmt.Sprintf("all %d input classes executed symbolically", len(out.runs)), fmt.Sprintf("%d input classes could not be executed symbolically; first: %s", len(out.undecided), firstUnd))
	n, outside := 0, 0
	bad := ""
	for i := range out.runs {
		r := &out.runs[i]
		if r.err || len(r.results) == 0 {
			continue
		}
		res := r.results[0]
		if res.K != kBytes || res.Buf == nil || len(res.Buf.events) < 1 {
			if bad == "" {
				bad = "the result is not a buffer built from a header byte and a payload"
			}
			continue
		}
		n++
		cls := " [input class: " + describeAssume(r.assume, r.order) + "]"
		ev := res.Buf.events
		h := ev[0]
		if !boundTo(r.assume, "method", 0, 1) || !boundTo(r.assume, "filter", 0, 3) {
			// method / filter outside their enumerations: the callers pass the enumerated constants
			n--
			outside++
			continue
		}
		if !(h.kind == "byte" && h.off.isConst() && h.off.C == 0 && h.val.K == kInt && h.val.L.isConst()) {
			if bad == "" {
				bad = "the header byte is not a constant in this class (" + h.val.L.String() + ")" + cls
			}
			continue
		}
		hb := h.val.L.C & 0xff
		method, filter := hb&3, (hb>>2)&3
		if len(ev) < 2 {
			continue // empty payload
		}
		pl := ev[1].val
		kind := "?"
		filledBy := ""
		switch {
		case pl.K == kBytes && pl.Buf != nil && len(pl.Buf.events) == 1 && strings.HasPrefix(pl.Buf.events[0].val.Path, "filled-by:"):
			kind = "filtered"
			filledBy = strings.TrimPrefix(pl.Buf.events[0].val.Path, "filled-by:")
		case pl.K == kBytes && pl.Whole && pl.Path == "data":
			kind = "plane"
		case pl.K == kBytes && strings.HasPrefix(pl.Path, "call:"):
			kind = "coded:" + pl.Path
		}
		why := ""
		switch {
		case kind == "?":
			why = "cannot tell what the payload is (" + contentID(pl) + ")"
		case strings.HasPrefix(kind, "coded:") && method != 1:
			why = fmt.Sprintf("the payload is the lossless encoder's output but the header says method %d", method)
		case !strings.HasPrefix(kind, "coded:") && method != 0:
			why = fmt.Sprintf("the payload is the raw (uncompressed) plane but the header says method %d", method)
		}
		// the filter code in force in this class (the value the filter parameter is bound to)
		if why == "" {
			// which filter produced the bytes that were coded / stored?
			src := kind
			if strings.HasPrefix(kind, "coded:") {
				src = "" // the coded stream was produced from alphaSrc: checked through the class below
			}
			if src == "plane" && filter != 0 {
				why = fmt.Sprintf("the payload is the unfiltered plane but the header names filter %d", filter)
			}
			if src == "filtered" {
				want := filterCodeOf(p, filledBy)
				if want < 0 {
					why = "cannot find the filter code of " + filledBy
				} else if filter != want {
					why = fmt.Sprintf("the payload was produced by %s (filter code %d) but the header names filter %d: the decoder applies the wrong inverse filter", filledBy, want, filter)
				}
			}
		}
		if why != "" && bad == "" {
			bad = why + cls
		}
	}
	c.Check(bad == "" && n > 0, rule, "encodeAlphaInternal:header~payload", pos, fmt.Sprintf("in all %d successful input classes the ALPH header's method and filter bits describe the payload that follows", n), bad)
	if outside > 0 {
		c.Note(fmt.Sprintf("%s: %d input classes with method or filter outside their enumerations were not checked (the callers pass the enumerated constants)", rule, outside))
	}
	c.Floor(rule, n, 6)
}

// filterCodeOf: the constant of the encoder's switch case that calls the given filter function.
func filterCodeOf(p *Program, callee string) int64 {
	fn := p.Fn("internal/lossy", "encodeAlphaInternal")
	if fn == nil {
		return -1
	}
	for code, name := range switchCallees(fn, "alphaFilter") {
		if name == callee {
			return code
		}
	}
	// the dispatch may have been moved into a helper of the package
	for _, f2 := range p.SrcFuncs() {
		if f2.Pkg != fn.Pkg || f2 == fn || f2.Blocks == nil {
			continue
		}
		for code, name := range switchCallees(f2, "alphaFilter") {
			if name == callee {
				return code
			}
		}
	}
	return -1
}

// switchCallees: for calls to functions with the given name prefix, the constant the controlling
// equality test compares with (switch case value).
func switchCallees(fn *ssa.Function, prefix string) map[int64]string {
	res := map[int64]string{}
	for _, b := range fn.Blocks {
		for _, in := range b.Instrs {
			call, ok := in.(*ssa.Call)
			if !ok {
				continue
			}
			cal := call.Call.StaticCallee()
			if cal == nil || !strings.HasPrefix(cal.Name(), prefix) {
				continue
			}
			// the block is entered through `x == K`
			if len(b.Preds) != 1 {
				continue
			}
			iff, ok := b.Preds[0].Instrs[len(b.Preds[0].Instrs)-1].(*ssa.If)
			if !ok || b.Preds[0].Succs[0] != b {
				continue
			}
			bin, ok := iff.Cond.(*ssa.BinOp)
			if !ok || bin.Op != token.EQL {
				continue
			}
			for _, v := range []ssa.Value{bin.X, bin.Y} {
				if k, ok := v.(*ssa.Const); ok && k.Value != nil && k.Value.Kind() == constant.Int {
					kv, _ := constant.Int64Val(k.Value)
					res[kv] = cal.Name()
				}
			}
		}
	}
	return res
}

func c07Pairing(c *Ctx, p *Program) {
	pk := p.SSAPkg("internal/lossy")
	if pk == nil {
		c.AnchorMissing("A2-filter-pairing", "package internal/lossy")
		return
	}
	// found by signature and by the constant they are dispatched on (anywhere in the package), so that
	// moving the switch into a helper or renaming the functions changes nothing
	unf := dispatchTable(p, pk, func(f *ssa.Function) bool { return f.Pkg == pk && sigIs(f, "[]byte", "int", "int") })
	fwd := dispatchTable(p, pk, func(f *ssa.Function) bool { return f.Pkg == pk && sigIs(f, "[]byte", "int", "int", "[]byte") })
	n := 0
	for k := int64(1); k <= 3; k++ {
		u, f := unf[k], fwd[k]
		n++
		c.Check(u != nil && f != nil, "A2-filter-pairing", fmt.Sprintf("filter-code-%d", k), "", fmt.Sprintf("code %d: encoder %v / decoder %v (their composition is checked by K4)", k, f, u),
			fmt.Sprintf("for filter code %d the package does not dispatch to exactly one forward filter (%v) and one inverse filter (%v)", k, f, u))
	}
	c.Floor("A2-filter-pairing", n, 3)
}

func c07Gate(c *Ctx, p *Program) {
	n := 0
	for _, fn := range p.SrcFuncs() {
		if fn.Pkg == nil || fn.Pkg != p.SSAPkg("internal/lossy") {
			continue
		}
		for _, b := range fn.Blocks {
			for _, in := range b.Instrs {
				call, ok := in.(*ssa.Call)
				if !ok {
					continue
				}
				cal := call.Call.StaticCallee()
				if cal == nil || !strings.HasPrefix(strings.ToLower(cal.Name()), "quantizelevels") {
					continue
				}
				n++
				// some dominating If compares a value with the constant 100
				gated := false
				for _, d := range fn.Blocks {
					iff, ok := d.Instrs[len(d.Instrs)-1].(*ssa.If)
					if !ok || !(d.Dominates(b) && d != b) {
						continue
					}
					if bin, ok := iff.Cond.(*ssa.BinOp); ok {
						for _, v := range []ssa.Value{bin.X, bin.Y} {
							if k, ok := v.(*ssa.Const); ok && k.Value != nil && k.Value.Kind() == constant.Int {
								if kv, _ := constant.Int64Val(k.Value); kv == 100 && (bin.Op == token.LSS || bin.Op == token.GEQ) {
									gated = true
								}
							}
						}
					}
				}
				c.Func(FnName(fn))
				c.Check(gated, "A3-quant-gate", fmt.Sprintf("%s->%s#%d", fn.Name(), cal.Name(), n), p.Pos(call.Pos()), "level quantisation only below alpha quality 100",
					fmt.Sprintf("%s quantises the alpha levels without a test of the alpha quality against 100: with the default quality the decoded alpha is no longer exact", fn.Name()))
			}
		}
	}
	c.Floor("A3-quant-gate", n, 1)
	if rq := p.Fn("", "resolveAlphaQuality"); rq != nil {
		e := newCE(p)
		a := avIntSign(sgNeg)
		e.params[rq.Params[0]] = a
		rets, complete := e.run(rq)
		ok := complete && len(rets) > 0
		for _, r := range rets {
			if !(r[0].isInt && r[0].c != nil && *r[0].c == 100) {
				ok = false
			}
		}
		c.Check(ok, "A3-quant-gate", "resolveAlphaQuality(negative)", p.Pos(rq.Pos()), "the default alpha quality is 100", "resolveAlphaQuality does not map the negative sentinel to 100: the default is no longer exact alpha")
	} else {
		c.AnchorMissing("A3-quant-gate", "webp.resolveAlphaQuality")
	}
}

// boundTo: the class fixes the parameter to one of the constants lo..hi.
func boundTo(assume map[string]bool, name string, lo, hi int64) bool {
	for k := lo; k <= hi; k++ {
		key := fmt.Sprintf("(-%s+%d)==0", name, k)
		if k == 0 {
			key = fmt.Sprintf("(-%s)==0", name)
		}
		if assume[key] {
			return true
		}
		// the other sign normalisation
		key2 := fmt.Sprintf("(%s-%d)==0", name, k)
		if k == 0 {
			key2 = fmt.Sprintf("(%s)==0", name)
		}
		if assume[key2] {
			return true
		}
	}
	return false
}
