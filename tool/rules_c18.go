package main

// C18: animations keep their transparency in lossy and mixed-codec modes.
//
// L1 alpha-result-used: a function whose result carries the coded alpha plane (derived from
//    lossy.EncodeAlpha) must not have that result discarded at any call site reachable from the
//    public API or from the functions wired into the animation package.
// L2 alpha-argument: every call into the chain of parameters that ends in lossy.DecodeAlpha passes
//    the frame's own alpha payload (a value derived from an AlphaData field, or the caller's own
//    alpha parameter) - never a constant, an unset field or another payload.
// L4 blend-identity (lossy predicate): as C08, for isLossyBlendingPossible: a pixel class the
//    encoder may blend must keep its alpha class through the decoder's blend.

import (
	"fmt"
	"go/token"
	"go/types"
	"sort"
	"strings"

	"golang.org/x/tools/go/ssa"
)

func init() { register("C18", runC18) }

func runC18(c *Ctx) {
	c.Rule("L1 alpha-result-used: results derived from lossy.EncodeAlpha are used (returned, passed on or written) at every reachable call site of the functions that return them")
	c.Rule("L2 alpha-argument: along the parameter chain that ends in lossy.DecodeAlpha, every call site passes a value derived from an AlphaData field (followed through struct copies and parameters) or the caller's own alpha parameter")
	c.Rule("L4 blend-identity for the lossy predicate: over (target alpha, previous alpha) in {0,mid,255}^2 x {equal,different}, a class isLossyBlendingPossible may accept keeps its alpha class through keepCanvasWhereNotOpaque + alphaBlendNRGBA")
	c.Rule("L5 alpha-exact options: every EncoderOptions literal built by a function wired into the animation package as an encoder sets AlphaQuality to 100 or to the negative default sentinel (Go's zero value means two alpha levels)")
	c.NotCovered("the alpha scan that decides whether a frame has transparency (value-level loop over pixels); exactness of the alpha codec; codec choice by size in mixed mode")
	for _, cf := range c.configsFor() {
		p := c.load(cf[0], cf[1])
		if p == nil {
			continue
		}
		c18ResultUsed(c, p)
		c18AlphaArgs(c, p)
		c18Blend(c, p)
		c18ExactOptions(c, p)
		runMonotoneFlags(c, p, "mux", "internal/container", "animation", "")
	}
}

func apiRoots(p *Program) []*ssa.Function {
	var roots []*ssa.Function
	for _, fn := range p.SrcFuncs() {
		if fn.Pkg == nil || strings.Contains(fn.Pkg.Pkg.Path(), "/internal/") || strings.Contains(fn.Pkg.Pkg.Path(), "/cmd/") {
			continue
		}
		if fn.Object() != nil && fn.Object().Exported() {
			roots = append(roots, fn)
		}
		if fn.Name() == "init" {
			roots = append(roots, fn)
		}
	}
	return roots
}

// functions stored into package-level func variables (wired hooks)
func wiredFuncs(p *Program) []*ssa.Function {
	var out []*ssa.Function
	for _, fn := range p.SrcFuncs() {
		for _, b := range fn.Blocks {
			for _, in := range b.Instrs {
				if st, ok := in.(*ssa.Store); ok {
					if _, isG := st.Addr.(*ssa.Global); isG {
						if f := funcValueOf(st.Val); f != nil {
							out = append(out, f)
						}
					}
				}
			}
		}
	}
	return out
}

func c18ResultUsed(c *Ctx, p *Program) {
	enc := p.Fn("internal/lossy", "EncodeAlpha")
	if enc == nil {
		c.AnchorMissing("L1-alpha-result", "lossy.EncodeAlpha")
		return
	}
	// carriers: function -> result indices derived from EncodeAlpha's result 0
	carriers := map[*ssa.Function]map[int]bool{enc: {0: true}}
	funcs := p.SrcFuncs()
	derivedIn := func(fn *ssa.Function) map[ssa.Value]bool {
		der := map[ssa.Value]bool{}
		for changed := true; changed; {
			changed = false
			for _, b := range fn.Blocks {
				for _, in := range b.Instrs {
					v, ok := in.(ssa.Value)
					if !ok || der[v] {
						continue
					}
					hit := false
					switch x := in.(type) {
					case *ssa.Extract:
						if call, ok := x.Tuple.(*ssa.Call); ok {
							if cal := call.Call.StaticCallee(); cal != nil && carriers[cal][x.Index] {
								hit = true
							}
						}
					case *ssa.Call:
						if cal := x.Call.StaticCallee(); cal != nil && carriers[cal][0] && x.Type() != nil {
							if _, isTup := x.Type().(*types.Tuple); !isTup {
								hit = true
							}
						}
					case *ssa.Phi:
						for _, e := range x.Edges {
							if der[e] {
								hit = true
							}
						}
					case *ssa.Slice:
						hit = der[x.X]
					case *ssa.ChangeType:
						hit = der[x.X]
					case *ssa.UnOp:
						if x.Op == token.MUL {
							if al, ok := x.X.(*ssa.Alloc); ok {
								for _, u := range *al.Referrers() {
									if st, ok := u.(*ssa.Store); ok && st.Addr == ssa.Value(al) && der[st.Val] {
										hit = true
									}
								}
							}
						}
					}
					if hit {
						der[v] = true
						changed = true
					}
				}
			}
		}
		return der
	}
	for changed := true; changed; {
		changed = false
		for _, fn := range funcs {
			if fn.Blocks == nil {
				continue
			}
			der := derivedIn(fn)
			if len(der) == 0 {
				continue
			}
			for _, b := range fn.Blocks {
				ret, ok := b.Instrs[len(b.Instrs)-1].(*ssa.Return)
				if !ok {
					continue
				}
				for i, r := range ret.Results {
					if der[r] && !carriers[fn][i] {
						if carriers[fn] == nil {
							carriers[fn] = map[int]bool{}
						}
						carriers[fn][i] = true
						changed = true
					}
				}
			}
		}
	}
	roots := append(apiRoots(p), wiredFuncs(p)...)
	reach := p.Reachable(roots...)
	n := 0
	var names []string
	for fn := range carriers {
		names = append(names, FnName(fn))
	}
	sort.Strings(names)
	c.Note("functions whose results carry the coded alpha plane: " + strings.Join(names, ", "))
	for _, fn := range funcs {
		if !reach[fn] || fn.Blocks == nil {
			continue
		}
		idx := 0
		for _, b := range fn.Blocks {
			for _, in := range b.Instrs {
				call, ok := in.(*ssa.Call)
				if !ok {
					continue
				}
				cal := call.Call.StaticCallee()
				if cal == nil || len(carriers[cal]) == 0 {
					continue
				}
				idx++
				for ri := range carriers[cal] {
					n++
					key := fmt.Sprintf("%s->%s#%d:result%d", fn.Name(), cal.Name(), idx, ri)
					used := false
					if _, isTup := call.Type().(*types.Tuple); isTup {
						for _, u := range *call.Referrers() {
							if ex, ok := u.(*ssa.Extract); ok && ex.Index == ri && len(*ex.Referrers()) > 0 {
								used = true
							}
						}
					} else {
						used = len(*call.Referrers()) > 0
					}
					c.Func(FnName(fn))
					c.Check(used, "L1-alpha-result", key, p.Pos(call.Pos()), "the coded alpha plane returned by "+cal.Name()+" is used",
						fmt.Sprintf("%s calls %s and discards the coded alpha plane it returns (result %d): the frame is stored without its alpha data and plays back opaque", fn.Name(), cal.Name(), ri))
				}
			}
		}
	}
	c.Floor("L1-alpha-result", n, 2)
}

// ---- L2 ----

func c18AlphaArgs(c *Ctx, p *Program) {
	sink := p.Fn("internal/lossy", "DecodeAlpha")
	if sink == nil {
		c.AnchorMissing("L2-alpha-arg", "lossy.DecodeAlpha")
		return
	}
	cg := p.CallGraph()
	funcs := p.SrcFuncs()
	alphaParam := map[*ssa.Parameter]bool{sink.Params[0]: true}
	calleesAt := func(fn *ssa.Function, site ssa.CallInstruction) []*ssa.Function {
		if sc := site.Common().StaticCallee(); sc != nil {
			return []*ssa.Function{sc}
		}
		var out []*ssa.Function
		if n := cg.Nodes[fn]; n != nil {
			for _, e := range n.Out {
				if e.Site == site {
					out = append(out, e.Callee.Func)
				}
			}
		}
		return out
	}
	// backward closure over parameters
	for changed := true; changed; {
		changed = false
		for _, fn := range funcs {
			for _, b := range fn.Blocks {
				for _, in := range b.Instrs {
					site, ok := in.(ssa.CallInstruction)
					if !ok {
						continue
					}
					for _, cal := range calleesAt(fn, site) {
						for i, a := range site.Common().Args {
							if i >= len(cal.Params) || !alphaParam[cal.Params[i]] {
								continue
							}
							if pr, ok := a.(*ssa.Parameter); ok && !alphaParam[pr] {
								alphaParam[pr] = true
								changed = true
							}
						}
					}
				}
			}
		}
	}
	// field-flow: fields that (somewhere) receive a value derived from an AlphaData field
	alphaField := map[string]bool{}
	fieldKey := func(base types.Type, idx int) (string, string) {
		st := structOf(base)
		if st == nil {
			if s, ok := base.Underlying().(*types.Struct); ok {
				st = s
			}
		}
		if st == nil || idx >= st.NumFields() {
			return "", ""
		}
		return namedOf(base) + "." + st.Field(idx).Name(), st.Field(idx).Name()
	}
	var derived func(v ssa.Value, seen map[ssa.Value]bool) bool
	derived = func(v ssa.Value, seen map[ssa.Value]bool) bool {
		if seen[v] {
			return false
		}
		seen[v] = true
		switch x := v.(type) {
		case *ssa.Parameter:
			return alphaParam[x]
		case *ssa.UnOp:
			if x.Op == token.MUL {
				switch a := x.X.(type) {
				case *ssa.FieldAddr:
					k, name := fieldKey(a.X.Type(), a.Field)
					return name == "AlphaData" || alphaField[k]
				case *ssa.Alloc:
					for _, u := range *a.Referrers() {
						if st, ok := u.(*ssa.Store); ok && st.Addr == ssa.Value(a) && derived(st.Val, seen) {
							return true
						}
					}
				}
			}
		case *ssa.Field:
			k, name := fieldKey(x.X.Type(), x.Field)
			return name == "AlphaData" || alphaField[k]
		case *ssa.Phi:
			for _, e := range x.Edges {
				if !derived(e, seen) {
					return false
				}
			}
			return len(x.Edges) > 0
		case *ssa.Slice:
			return derived(x.X, seen)
		case *ssa.ChangeType:
			return derived(x.X, seen)
		}
		return false
	}
	for changed := true; changed; {
		changed = false
		for _, fn := range funcs {
			for _, b := range fn.Blocks {
				for _, in := range b.Instrs {
					st, ok := in.(*ssa.Store)
					if !ok {
						continue
					}
					fa, ok := st.Addr.(*ssa.FieldAddr)
					if !ok {
						continue
					}
					k, name := fieldKey(fa.X.Type(), fa.Field)
					if k == "" || name == "AlphaData" || alphaField[k] {
						continue
					}
					if derived(st.Val, map[ssa.Value]bool{}) {
						alphaField[k] = true
						changed = true
					}
				}
			}
		}
	}
	n := 0
	for _, fn := range funcs {
		idx := 0
		for _, b := range fn.Blocks {
			for _, in := range b.Instrs {
				site, ok := in.(ssa.CallInstruction)
				if !ok {
					continue
				}
				for _, cal := range calleesAt(fn, site) {
					for i, a := range site.Common().Args {
						if i >= len(cal.Params) || !alphaParam[cal.Params[i]] {
							continue
						}
						idx++
						n++
						key := fmt.Sprintf("%s->%s#%d", fn.Name(), cal.Name(), idx)
						c.Func(FnName(fn))
						ok := derived(a, map[ssa.Value]bool{})
						c.Check(ok, "L2-alpha-arg", key, p.Pos(site.Pos()), "passes the frame's alpha payload on to "+cal.Name(),
							fmt.Sprintf("%s calls %s with an alpha argument (%s) that is not the frame's AlphaData (nor derived from it): the frame is decoded without its alpha plane and plays back opaque", fn.Name(), cal.Name(), a.Name()))
					}
				}
			}
		}
	}
	c.Floor("L2-alpha-arg", n, 4)
}

// ---- L4 ----

func c18Blend(c *Ctx, p *Program) {
	blend := p.Fn("animation", "alphaBlendNRGBA")
	pred := p.Fn("animation", "isLossyBlendingPossible")
	if blend == nil || pred == nil {
		c.AnchorMissing("L4-blend-alpha", "animation.alphaBlendNRGBA / isLossyBlendingPossible")
		return
	}
	c.Func(FnName(blend))
	c.Func(FnName(pred))
	transfer := findFrameTransfer(p)
	classes := []alphaClass{aZero, aMid, aFull}
	n := 0
	for _, ta := range classes {
		for _, pa := range classes {
			for _, eq := range []bool{true, false} {
				if eq && ta != pa {
					continue
				}
				n++
				key := fmt.Sprintf("isLossyBlendingPossible:target(%s),prev(%s),%s", ta, pa, map[bool]string{true: "equal", false: "different"}[eq])
				acc, ok := predicateMayAccept(pred, ta, pa, eq)
				if !ok {
					c.Fail("L4-blend-alpha", key, p.Pos(pred.Pos()), "cannot find the two pixel fetches of the predicate")
					continue
				}
				if !acc {
					c.Pass("L4-blend-alpha", key, p.Pos(pred.Pos()), "the predicate rejects this class")
					continue
				}
				fa, feq := ta, eq
				if transfer != nil && frameMadeTransparent(transfer, ta) {
					fa = aZero
					feq = eq && ta == aZero
				}
				o := blendClass(blend, fa, pa, feq)
				okClass := !o.other && (!o.retDst || ta == pa) && (!o.retSrc || fa == ta)
				why := fmt.Sprintf("frame pixel %s; blend outcomes: frame=%v canvas=%v arithmetic=%v", fa, o.retSrc, o.retDst, o.other)
				c.Check(okClass, "L4-blend-alpha", key, p.Pos(pred.Pos()), "accepted class keeps its alpha class ("+why+")",
					"the lossy encoder may choose alpha blending for a pixel of this class but the blended result does not have the target's alpha ("+why+"): e.g. a pixel erased to transparent stays opaque on playback")
			}
		}
	}
	c.Floor("L4-blend-alpha", n, 10)
}

// L5 alpha-exact options: the functions wired into the animation package as frame encoders build
// their own EncoderOptions. Alpha must be coded exactly there (the property allows no alpha loss in
// any mode): every EncoderOptions literal built in a function stored into animation.FrameEncoderFunc
// or animation.SimpleEncodeFunc (or in what they call in the root package) sets AlphaQuality to a
// negative sentinel (default 100) or to 100, and AlphaCompression/AlphaFiltering to valid values or
// sentinels; a field left at Go's zero value means "quantise alpha to 2 levels".
func c18ExactOptions(c *Ctx, p *Program) {
	root := p.SSAPkg("")
	if root == nil {
		c.AnchorMissing("L5-alpha-exact-options", "root package")
		return
	}
	var wired []*ssa.Function
	for _, f := range wiredFuncs(p) {
		if f.Pkg == root && f.Signature.Params().Len() > 0 && strings.Contains(strings.ToLower(f.Name()), "encode") {
			wired = append(wired, f)
		}
	}
	if len(wired) == 0 {
		c.AnchorMissing("L5-alpha-exact-options", "encoder functions stored into animation hooks")
		return
	}
	n := 0
	for _, fn := range wired {
		for _, b := range fn.Blocks {
			for _, in := range b.Instrs {
				al, ok := in.(*ssa.Alloc)
				if !ok || namedOf(al.Type()) != "EncoderOptions" {
					continue
				}
				n++
				// constant stores to the fields of this literal
				vals := map[string]int64{}
				set := map[string]bool{}
				for _, u := range *al.Referrers() {
					fa, ok := u.(*ssa.FieldAddr)
					if !ok {
						continue
					}
					name := fieldName(fa.X.Type(), fa.Field)
					for _, u2 := range *fa.Referrers() {
						if st, ok := u2.(*ssa.Store); ok && st.Addr == ssa.Value(fa) {
							set[name] = true
							if k, ok := st.Val.(*ssa.Const); ok {
								if kv, ok := constantInt(k); ok {
									vals[name] = kv
								}
							}
						}
					}
				}
				var problems []string
				q, has := vals["AlphaQuality"]
				switch {
				case !set["AlphaQuality"]:
					problems = append(problems, "AlphaQuality is left at 0 (alpha quantised to 2 levels)")
				case has && q >= 0 && q != 100:
					problems = append(problems, fmt.Sprintf("AlphaQuality is %d (alpha is quantised below 100)", q))
				}
				c.Func(FnName(fn))
				c.Check(len(problems) == 0, "L5-alpha-exact-options", fn.Name()+":EncoderOptions", p.Pos(al.Pos()), "the frame encoder asks for exact alpha (AlphaQuality 100 or the default sentinel)",
					fn.Name()+" builds the options for animation frames with "+strings.Join(problems, "; ")+": the alpha channel of such frames is not the source alpha")
			}
		}
	}
	c.Floor("L5-alpha-exact-options", n, 2)
}
