package main

// C08 encoder-state rules.
//
// E1 commit-state: every place where an AnimEncoder method hands a frame to the muxer
//    ((*mux.Muxer).AddFrame) must, on every successful exit, have written the same set of
//    frame-to-frame state fields as the sibling commit sites (the set is the union over the
//    sites; reviewed exceptions in tables/animstate.txt, one line per site+field).
// E2 canvas-provenance: the current canvas that the optimiser compares, encodes and remembers is
//    built only from this call's image and from memory allocated in this call - never from memory
//    kept in the encoder between calls (whose old contents would become part of the picture).
// E3 prev-canvas-fresh: the remembered previous canvas is a private copy (never the caller's image
//    or a buffer that is modified later).

import (
	"fmt"
	"go/token"
	"go/types"
	"path/filepath"
	"sort"
	"strings"

	"golang.org/x/tools/go/ssa"
)

func recvNamedIs(fn *ssa.Function, name string) bool {
	if fn.Signature.Recv() == nil || len(fn.Params) == 0 {
		return false
	}
	t := fn.Signature.Recv().Type()
	if pt, ok := t.(*types.Pointer); ok {
		t = pt.Elem()
	}
	n, ok := t.(*types.Named)
	return ok && n.Obj().Name() == name
}

// recvFieldOf: addr is &recv.f (directly) -> field name.
func recvFieldOf(fn *ssa.Function, addr ssa.Value) (string, bool) {
	fa, ok := addr.(*ssa.FieldAddr)
	if !ok || fa.X != ssa.Value(fn.Params[0]) {
		return "", false
	}
	st := fa.X.Type().Underlying().(*types.Pointer).Elem().Underlying().(*types.Struct)
	return st.Field(fa.Field).Name(), true
}

func isMuxAddFrame(callee *ssa.Function) bool {
	return callee != nil && callee.Name() == "AddFrame" && recvNamedIs(callee, "Muxer")
}

// mustWrittenAt computes, per block, the receiver fields written on every path from the entry to
// the end of the block.
func mustWrittenAt(fn *ssa.Function) map[*ssa.BasicBlock]map[string]bool {
	gen := map[*ssa.BasicBlock]map[string]bool{}
	for _, b := range fn.Blocks {
		g := map[string]bool{}
		for _, in := range b.Instrs {
			if st, ok := in.(*ssa.Store); ok {
				if f, ok := recvFieldOf(fn, st.Addr); ok {
					g[f] = true
				}
			}
			// a helper method of the same receiver that writes fields on all of its exits
			if call, ok := in.(*ssa.Call); ok {
				if cal := call.Call.StaticCallee(); cal != nil && cal != fn && cal.Blocks != nil && len(call.Call.Args) > 0 && call.Call.Args[0] == ssa.Value(fn.Params[0]) && !mwBusy[cal] {
					for f := range mustWrittenAllExits(cal) {
						g[f] = true
					}
				}
			}
		}
		gen[b] = g
	}
	out := map[*ssa.BasicBlock]map[string]bool{} // nil = top
	changed := true
	for changed {
		changed = false
		for _, b := range fn.Blocks {
			var in map[string]bool
			first := true
			if b == fn.Blocks[0] {
				in = map[string]bool{}
				first = false
			}
			for _, p := range b.Preds {
				po, ok := out[p]
				if !ok {
					continue // top
				}
				if first {
					in = map[string]bool{}
					for k := range po {
						in[k] = true
					}
					first = false
				} else {
					for k := range in {
						if !po[k] {
							delete(in, k)
						}
					}
				}
			}
			if first {
				continue
			}
			for k := range gen[b] {
				in[k] = true
			}
			old, had := out[b]
			if !had || len(old) != len(in) {
				out[b] = in
				changed = true
			}
		}
	}
	return out
}

var mwBusy = map[*ssa.Function]bool{}

// mustWrittenAllExits: receiver fields written on every path to every return of fn.
func mustWrittenAllExits(fn *ssa.Function) map[string]bool {
	mwBusy[fn] = true
	defer delete(mwBusy, fn)
	mw := mustWrittenAt(fn)
	var res map[string]bool
	for _, b := range fn.Blocks {
		if _, ok := b.Instrs[len(b.Instrs)-1].(*ssa.Return); !ok {
			continue
		}
		w := mw[b]
		if res == nil {
			res = map[string]bool{}
			for k := range w {
				res[k] = true
			}
			continue
		}
		for k := range res {
			if !w[k] {
				delete(res, k)
			}
		}
	}
	return res
}

type commitSite struct {
	fn      *ssa.Function
	call    *ssa.Call
	key     string
	written map[string]bool // must-written at every success exit
	exits   int
	bad     string
}

func c08CommitState(c *Ctx, p *Program, rows []*reviewRow) {
	var sites []*commitSite
	for _, fn := range p.SrcFuncs() {
		if !recvNamedIs(fn, "AnimEncoder") || fn.Blocks == nil {
			continue
		}
		n := 0
		for _, b := range fn.Blocks {
			for _, in := range b.Instrs {
				call, ok := in.(*ssa.Call)
				if !ok || !isMuxAddFrame(call.Call.StaticCallee()) {
					continue
				}
				// pass-through: an exported method forwarding a bitstream supplied by the caller
				// (no picture is known; the optimiser state is not involved)
				if fn.Object() != nil && fn.Object().Exported() && len(call.Call.Args) > 1 {
					r := valueProv(p, fn, call.Call.Args[1], map[*ssa.Function]bool{}, map[ssa.Value]bool{})
					if r.bad == "" && !r.params[0] && len(r.params) > 0 {
						c.Note("pass-through commit site (caller-supplied bitstream, not modelled): " + fn.Name() + " at " + p.Pos(call.Pos()))
						continue
					}
				}
				n++
				s := &commitSite{fn: fn, call: call, key: fmt.Sprintf("%s#%d", fn.Name(), n)}
				analyseCommit(p, s)
				sites = append(sites, s)
			}
		}
	}
	if len(sites) == 0 {
		c.AnchorMissing("commit-state", "AnimEncoder methods calling (*mux.Muxer).AddFrame")
		return
	}
	union := map[string]bool{}
	for _, s := range sites {
		c.Func(FnName(s.fn))
		for f := range s.written {
			union[f] = true
		}
	}
	var fields []string
	for f := range union {
		fields = append(fields, f)
	}
	sort.Strings(fields)
	c.Note("commit-state fields (union over commit sites): " + strings.Join(fields, ", "))
	n := 0
	for _, s := range sites {
		if s.bad != "" {
			c.Fail("commit-state", s.key, p.Pos(s.call.Pos()), s.bad)
			continue
		}
		for _, f := range fields {
			n++
			key := s.key + ":" + f
			pos := p.Pos(s.call.Pos())
			if s.written[f] {
				c.Pass("commit-state", key, pos, "written on every successful exit after the frame is committed")
				continue
			}
			if r := findRow(rows, "commit:"+s.fn.Name(), f); r != nil {
				r.used = true
				c.Pass("commit-state", key, pos, "reviewed: "+r.reason)
				continue
			}
			// the commit site was extracted into a helper: a line reviewed for the method it was
			// extracted from still applies when that method is the helper's only caller (up to two levels)
			if r := reviewedThroughCallers(p, rows, s.fn, f, 0); r != nil {
				r.used = true
				c.Pass("commit-state", key, pos, "reviewed for the only caller: "+r.reason)
				continue
			}
			c.Fail("commit-state", key, pos, fmt.Sprintf("%s commits a frame to the muxer but a successful exit leaves AnimEncoder.%s unwritten, while sibling commit sites update it: the next frame is optimised against stale state (wrong previous rectangle / canvas / muxer index)", s.fn.Name(), f))
		}
	}
	c.Floor("commit-state", n, 15)
}

func analyseCommit(p *Program, s *commitSite) {
	fn := s.fn
	mw := mustWrittenAt(fn)
	// blocks reachable from the call
	start := s.call.Block()
	reach := map[*ssa.BasicBlock]bool{}
	var walk func(b *ssa.BasicBlock)
	walk = func(b *ssa.BasicBlock) {
		if reach[b] {
			return
		}
		reach[b] = true
		for _, su := range b.Succs {
			walk(su)
		}
	}
	for _, su := range start.Succs {
		walk(su)
	}
	reach[start] = true
	// failure edges: blocks dominated by the true edge of `callResult != nil`
	failBlocks := map[*ssa.BasicBlock]bool{}
	for _, b := range fn.Blocks {
		iff, ok := b.Instrs[len(b.Instrs)-1].(*ssa.If)
		if !ok {
			continue
		}
		bin, ok := iff.Cond.(*ssa.BinOp)
		if !ok || (bin.Op != token.NEQ && bin.Op != token.EQL) {
			continue
		}
		var other ssa.Value
		if bin.X == ssa.Value(s.call) {
			other = bin.Y
		} else if bin.Y == ssa.Value(s.call) {
			other = bin.X
		} else {
			continue
		}
		if k, ok := other.(*ssa.Const); !ok || !k.IsNil() {
			continue
		}
		fb := b.Succs[0]
		if bin.Op == token.EQL {
			fb = b.Succs[1]
		}
		for _, d := range fn.Blocks {
			if fb.Dominates(d) && len(fb.Preds) == 1 {
				failBlocks[d] = true
			}
		}
	}
	first := true
	for _, b := range fn.Blocks {
		if !reach[b] || failBlocks[b] {
			continue
		}
		ret, ok := b.Instrs[len(b.Instrs)-1].(*ssa.Return)
		if !ok {
			continue
		}
		if b == start {
			// the return must come after the call
			after := false
			for _, in := range b.Instrs {
				if in == ssa.Instruction(s.call) {
					after = true
				}
			}
			if !after {
				continue
			}
		}
		// classify
		var errRes ssa.Value
		if len(ret.Results) > 0 {
			errRes = ret.Results[len(ret.Results)-1]
		}
		switch v := errRes.(type) {
		case nil:
		case *ssa.Const:
			if !v.IsNil() {
				continue
			}
		case *ssa.Call:
			if v != s.call {
				// delegation to another committing method or an error constructor: not this site's exit
				continue
			}
		default:
			s.bad = "cannot classify the exit at " + p.Pos(ret.Pos()) + " as success or failure"
			return
		}
		s.exits++
		w := mw[b]
		if first {
			s.written = map[string]bool{}
			for k := range w {
				s.written[k] = true
			}
			first = false
		} else {
			for k := range s.written {
				if !w[k] {
					delete(s.written, k)
				}
			}
		}
	}
	if s.exits == 0 {
		s.bad = "no successful exit found after the muxer call"
	}
}

// ---- provenance ----

type provRes struct {
	params map[int]bool
	bad    string // non-empty: derives from retained memory
}

var provMemo = map[*ssa.Function]*provRes{}

// resultProv: where the first pointer-like result of fn may come from.
func resultProv(p *Program, fn *ssa.Function, inprog map[*ssa.Function]bool) *provRes {
	if r, ok := provMemo[fn]; ok {
		return r
	}
	res := &provRes{params: map[int]bool{}}
	if fn.Blocks == nil {
		if fn.Pkg != nil && fn.Pkg.Pkg.Path() == "image" && strings.HasPrefix(fn.Name(), "New") {
			return res
		}
		res.bad = "result of " + FnName(fn) + " (no source)"
		return res
	}
	if inprog[fn] {
		return res
	}
	inprog[fn] = true
	defer delete(inprog, fn)
	for _, b := range fn.Blocks {
		ret, ok := b.Instrs[len(b.Instrs)-1].(*ssa.Return)
		if !ok {
			continue
		}
		for _, rv := range ret.Results {
			if !pointerLike(rv.Type()) || types.Identical(rv.Type(), types.Universe.Lookup("error").Type()) {
				continue
			}
			r := valueProv(p, fn, rv, inprog, map[ssa.Value]bool{})
			for k := range r.params {
				res.params[k] = true
			}
			if r.bad != "" && res.bad == "" {
				res.bad = r.bad
			}
		}
	}
	provMemo[fn] = res
	return res
}

func valueProv(p *Program, fn *ssa.Function, v ssa.Value, inprog map[*ssa.Function]bool, seen map[ssa.Value]bool) *provRes {
	res := &provRes{params: map[int]bool{}}
	var rec func(v ssa.Value)
	merge := func(r *provRes) {
		for k := range r.params {
			res.params[k] = true
		}
		if r.bad != "" && res.bad == "" {
			res.bad = r.bad
		}
	}
	rec = func(v ssa.Value) {
		if seen[v] || res.bad != "" {
			return
		}
		seen[v] = true
		switch x := v.(type) {
		case *ssa.Const, *ssa.MakeSlice, *ssa.MakeMap:
		case *ssa.Parameter:
			for i, pr := range fn.Params {
				if pr == x {
					res.params[i] = true
				}
			}
		case *ssa.Alloc:
			for _, u := range *x.Referrers() {
				if st, ok := u.(*ssa.Store); ok && st.Addr == ssa.Value(x) && pointerLike(st.Val.Type()) {
					rec(st.Val)
				}
			}
		case *ssa.Phi:
			for _, e := range x.Edges {
				rec(e)
			}
		case *ssa.TypeAssert:
			rec(x.X)
		case *ssa.ChangeType:
			rec(x.X)
		case *ssa.ChangeInterface:
			rec(x.X)
		case *ssa.MakeInterface:
			rec(x.X)
		case *ssa.Slice:
			rec(x.X)
		case *ssa.Extract:
			rec(x.Tuple)
		case *ssa.UnOp:
			if x.Op != token.MUL {
				res.bad = "unrecognised operation " + x.String()
				return
			}
			switch a := x.X.(type) {
			case *ssa.Alloc:
				rec(a)
			case *ssa.FieldAddr:
				// memory reachable from the base object: same provenance as the base
				rec(a.X)
			case *ssa.IndexAddr:
				rec(a.X)
			case *ssa.Global:
				res.bad = "loaded from package variable " + a.Name()
			default:
				res.bad = "loaded from memory " + describeAddr(x.X) + " at " + p.Pos(x.Pos())
			}
		case *ssa.Call:
			callee := x.Call.StaticCallee()
			if callee == nil {
				res.bad = "result of a dynamic call at " + p.Pos(x.Pos())
				return
			}
			r := resultProv(p, callee, inprog)
			if r.bad != "" {
				res.bad = r.bad
				return
			}
			for i := range r.params {
				if i < len(x.Call.Args) {
					rec(x.Call.Args[i])
				}
			}
		default:
			res.bad = fmt.Sprintf("unrecognised value %s (%T)", v.Name(), v)
		}
	}
	rec(v)
	merge(&provRes{params: map[int]bool{}})
	return res
}

func isNRGBAPtr(t types.Type) bool {
	pt, ok := t.(*types.Pointer)
	if !ok {
		return false
	}
	n, ok := pt.Elem().(*types.Named)
	return ok && n.Obj().Name() == "NRGBA" && n.Obj().Pkg() != nil && n.Obj().Pkg().Path() == "image"
}

func c08CanvasProvenance(c *Ctx, p *Program) {
	n, m := 0, 0
	for _, fn := range p.SrcFuncs() {
		if !recvNamedIs(fn, "AnimEncoder") || fn.Blocks == nil {
			continue
		}
		// only the entry that receives the caller's image
		hasImg := false
		for _, pr := range fn.Params[1:] {
			if types.IsInterface(pr.Type()) {
				hasImg = true
			}
		}
		for _, b := range fn.Blocks {
			for _, in := range b.Instrs {
				switch x := in.(type) {
				case *ssa.Call:
					callee := x.Call.StaticCallee()
					if !hasImg || callee == nil || !recvNamedIs(callee, "AnimEncoder") {
						continue
					}
					for i, a := range x.Call.Args {
						if i == 0 || !isNRGBAPtr(a.Type()) {
							continue
						}
						n++
						key := fmt.Sprintf("%s->%s:arg%d", fn.Name(), callee.Name(), i)
						r := valueProv(p, fn, a, map[*ssa.Function]bool{}, map[ssa.Value]bool{})
						if r.params[0] && r.bad == "" {
							r.bad = "reachable from the encoder's own fields"
						}
						c.Check(r.bad == "", "canvas-provenance", key, p.Pos(x.Pos()),
							"the canvas handed to "+callee.Name()+" is built from this call's image and memory allocated in this call",
							"the canvas handed to "+callee.Name()+" may be memory kept in the encoder between calls ("+r.bad+"): pixels of an earlier frame that this frame does not cover stay in the picture that is encoded")
					}
				case *ssa.Store:
					f, ok := recvFieldOf(fn, x.Addr)
					if !ok || !isNRGBAPtr(x.Val.Type()) {
						continue
					}
					if k, ok := x.Val.(*ssa.Const); ok && k.IsNil() {
						continue
					}
					m++
					key := fmt.Sprintf("%s:store(%s)", fn.Name(), f)
					okFresh := false
					if call, ok := x.Val.(*ssa.Call); ok {
						if cal := call.Call.StaticCallee(); cal != nil && freshResults(cal, map[*ssa.Function]bool{}) {
							okFresh = true
						}
					}
					c.Check(okFresh, "prev-canvas-fresh", key, p.Pos(x.Pos()),
						"the remembered canvas is a private copy made in this call",
						"AnimEncoder."+f+" is set to an image that is not a fresh private copy: it may be the caller's image (which the caller may change before the next AddFrame) or a buffer that is drawn into later, so the next frame is diffed against the wrong picture")
				}
			}
		}
	}
	c.Floor("canvas-provenance", n, 2)
	c.Floor("prev-canvas-fresh", m, 2)
}

func c08EncoderState(c *Ctx, p *Program) {
	rows, err := loadReview(filepath.Join(c.Verif, "tables", "animstate.txt"))
	if err != nil {
		c.Fail("table", "animstate.txt", "", err.Error())
		return
	}
	c.Table("tables/animstate.txt")
	c08CommitState(c, p, rows)
	c08CommitRect(c, p)
	c08CanvasProvenance(c, p)
	c08CandidateConsistency(c, p)
	c08FrameNormalise(c, p)
	for _, r := range rows {
		if !r.used {
			c.Stale("animstate:" + r.typ + ":" + r.loc)
		}
	}
}

// E4 candidate consistency: a sub-frame candidate is described by the rectangle of pixels that
// differ between some reference canvas and the current picture (findChangedRect(ref, curr)). The
// predicate that allows alpha blending for that candidate must be asked about the same reference
// canvas - asking it about another canvas lets blending through for pixels the player will not
// find on its canvas.
func c08CandidateConsistency(c *Ctx, p *Program) {
	pk := p.SSAPkg("animation")
	if pk == nil {
		c.AnchorMissing("candidate-consistency", "package animation")
		return
	}
	isPred := func(f *ssa.Function) bool {
		return f != nil && (f.Name() == "isLosslessBlendingPossible" || f.Name() == "isLossyBlendingPossible")
	}
	canvasKey := func(fn *ssa.Function, v ssa.Value) string {
		switch x := v.(type) {
		case *ssa.UnOp:
			if x.Op == token.MUL {
				if f, ok := recvFieldOf(fn, x.X); ok {
					return "encoder." + f
				}
				if fa, ok := x.X.(*ssa.FieldAddr); ok {
					return "field." + fieldName(fa.X.Type(), fa.Field)
				}
			}
		case *ssa.Call:
			if cal := x.Call.StaticCallee(); cal != nil {
				return fmt.Sprintf("%s@%s", cal.Name(), p.Pos(x.Pos()))
			}
		case *ssa.Parameter:
			return "param." + fn.Name() + "." + x.Name()
		}
		return v.Name()
	}
	// refsOfRect: the reference canvases of the findChangedRect calls a rectangle derives from
	var refsOfRect func(fn *ssa.Function, v ssa.Value, seen map[ssa.Value]bool, depth int, out map[string]bool)
	refsOfRect = func(fn *ssa.Function, v ssa.Value, seen map[ssa.Value]bool, depth int, out map[string]bool) {
		if seen[v] || depth > 30 {
			return
		}
		seen[v] = true
		switch x := v.(type) {
		case *ssa.Call:
			cal := x.Call.StaticCallee()
			if cal != nil && cal.Name() == "findChangedRect" && len(x.Call.Args) == 2 {
				out[canvasKey(fn, x.Call.Args[0])] = true
				return
			}
			for _, a := range x.Call.Args {
				if _, isStruct := a.Type().Underlying().(*types.Struct); isStruct {
					refsOfRect(fn, a, seen, depth+1, out)
				}
			}
			// a helper of the package that computes the rectangle: follow its results and translate
			// its parameters to this call's arguments
			if cal != nil && cal.Blocks != nil && cal.Pkg == pk && x.Call.Signature().Results().Len() == 1 {
				inner := map[string]bool{}
				for _, cb := range cal.Blocks {
					if ret, ok := cb.Instrs[len(cb.Instrs)-1].(*ssa.Return); ok && len(ret.Results) == 1 {
						refsOfRect(cal, ret.Results[0], seen, depth+1, inner)
					}
				}
				for k := range inner {
					translated := false
					for i, prm := range cal.Params {
						if k == "param."+cal.Name()+"."+prm.Name() && i < len(x.Call.Args) {
							out[canvasKey(fn, x.Call.Args[i])] = true
							translated = true
						}
					}
					if !translated {
						out[k] = true
					}
				}
			}
		case *ssa.Phi:
			for _, e := range x.Edges {
				refsOfRect(fn, e, seen, depth+1, out)
			}
		case *ssa.UnOp:
			if al, ok := x.X.(*ssa.Alloc); ok && x.Op == token.MUL {
				for _, u := range *al.Referrers() {
					if st, ok := u.(*ssa.Store); ok && st.Addr == ssa.Value(al) {
						refsOfRect(fn, st.Val, seen, depth+1, out)
					}
				}
			}
			// a field of a local record (cand.rect): the values stored into that field
			if fa, ok := x.X.(*ssa.FieldAddr); ok && x.Op == token.MUL {
				if al, ok := fa.X.(*ssa.Alloc); ok && al.Referrers() != nil {
					for _, u := range *al.Referrers() {
						fa2, ok := u.(*ssa.FieldAddr)
						if !ok || fa2.Field != fa.Field || fa2.Referrers() == nil {
							continue
						}
						for _, u2 := range *fa2.Referrers() {
							if st, ok := u2.(*ssa.Store); ok && st.Addr == ssa.Value(fa2) {
								refsOfRect(fn, st.Val, seen, depth+1, out)
							}
						}
					}
				}
			}
		case *ssa.Parameter:
			idx := -1
			for i, prm := range fn.Params {
				if prm == x {
					idx = i
				}
			}
			if n := p.CallGraph().Nodes[fn]; n != nil && idx >= 0 {
				for _, e := range n.In {
					if e.Site != nil && idx < len(e.Site.Common().Args) {
						refsOfRect(e.Caller.Func, e.Site.Common().Args[idx], seen, depth+1, out)
					}
				}
			}
		}
	}
	n := 0
	for _, fn := range p.SrcFuncs() {
		if fn.Pkg != pk {
			continue
		}
		idx := 0
		for _, b := range fn.Blocks {
			for _, in := range b.Instrs {
				call, ok := in.(*ssa.Call)
				if !ok || !isPred(call.Call.StaticCallee()) || len(call.Call.Args) < 3 {
					continue
				}
				idx++
				n++
				key := fmt.Sprintf("%s->%s#%d", fn.Name(), call.Call.StaticCallee().Name(), idx)
				refs := map[string]bool{}
				refsOfRect(fn, call.Call.Args[2], map[ssa.Value]bool{}, 0, refs)
				asked := canvasKey(fn, call.Call.Args[0])
				// a parameter of a helper: compare with what the callers pass
				askedSet := map[string]bool{asked: true}
				// the same parameter on both sides is consistent whatever the callers pass
				sameParam := len(refs) == 1 && refs[asked] && strings.HasPrefix(asked, "param.")
				if prm, ok := call.Call.Args[0].(*ssa.Parameter); ok && !sameParam {
					askedSet = map[string]bool{}
					pi := -1
					for i, q := range fn.Params {
						if q == prm {
							pi = i
						}
					}
					if nd := p.CallGraph().Nodes[fn]; nd != nil && pi >= 0 {
						for _, e := range nd.In {
							if e.Site != nil && pi < len(e.Site.Common().Args) {
								askedSet[canvasKey(e.Caller.Func, e.Site.Common().Args[pi])] = true
							}
						}
					}
				}
				var rs, as []string
				for r := range refs {
					rs = append(rs, r)
				}
				for a := range askedSet {
					as = append(as, a)
				}
				sort.Strings(rs)
				sort.Strings(as)
				c.Func(FnName(fn))
				okc := len(rs) > 0 && strings.Join(rs, ",") == strings.Join(as, ",")
				// a helper shared by several candidates: every (rect source, asked canvas) pairing must agree,
				// which the set comparison above only establishes when each set is a singleton
				if okc && len(rs) > 1 {
					okc = false
				}
				c.Check(okc, "candidate-consistency", key, p.Pos(call.Pos()),
					"the blending predicate is asked about the canvas the candidate's rectangle was computed against ("+strings.Join(rs, ",")+")",
					fmt.Sprintf("the rectangle of this candidate comes from findChangedRect(%s, ...) but the blending predicate is asked about %s: blending can be chosen for pixels that differ on the canvas the player will actually have", strings.Join(rs, " / "), strings.Join(as, " / ")))
			}
		}
	}
	c.Floor("candidate-consistency", n, 2)
}

// E5 frame normalisation: the encoder clones, compares and scans canvases through their Pix
// slices as tightly packed buffers. The one place where a caller's image can be adopted without a
// copy (a conversion function returning its type-asserted argument) must be guarded by tests of the
// image's Stride and of its origin.
func c08FrameNormalise(c *Ctx, p *Program) {
	pk := p.SSAPkg("animation")
	if pk == nil {
		return
	}
	n := 0
	for _, fn := range p.SrcFuncs() {
		if fn.Pkg != pk || fn.Blocks == nil || len(fn.Params) != 1 || !types.IsInterface(fn.Params[0].Type()) || fn.Signature.Results().Len() != 1 || !isNRGBAPtr(fn.Signature.Results().At(0).Type()) {
			continue
		}
		for _, b := range fn.Blocks {
			ret, ok := b.Instrs[len(b.Instrs)-1].(*ssa.Return)
			if !ok {
				continue
			}
			// identity return: the result is the type-asserted parameter
			v := ret.Results[0]
			if ex, ok := v.(*ssa.Extract); ok {
				v = ex.Tuple
			}
			ta, ok := v.(*ssa.TypeAssert)
			if !ok || ta.X != ssa.Value(fn.Params[0]) {
				continue
			}
			n++
			// conditions dominating the return
			fields := map[string]bool{}
			for _, d := range fn.Blocks {
				iff, ok := d.Instrs[len(d.Instrs)-1].(*ssa.If)
				if !ok || !d.Dominates(b) || d == b {
					continue
				}
				for f := range indexFields(p, fn, iff.Cond, 0, map[ssa.Value]bool{}) {
					fields[f] = true
				}
			}
			okg := fields["Stride"] && (fields["Rect"] || fields["Min"])
			c.Func(FnName(fn))
			c.Check(okg, "frame-normalise", fn.Name()+":identity-return", p.Pos(ret.Pos()), "the caller's image is adopted only when its stride and origin were tested",
				fn.Name()+" returns the caller's *image.NRGBA unchanged without testing its Stride and origin: a sub-image view (row padding or non-zero origin) is then cloned and compared as if it were tightly packed, and the animation plays back other pixels than the ones added")
		}
	}
	c.Floor("frame-normalise", n, 1)
}

// E4 commit-rect: the rectangle an AnimEncoder method remembers in a receiver field after handing
// a frame to the muxer is the rectangle the frame was placed at: when the FrameOptions literal of
// the AddFrame call takes OffsetX / OffsetY from a rectangle value R, every rectangle-typed
// receiver field stored after the call in that function is stored from the same R. (The next
// frame's dispose-to-background candidate is simulated on the remembered rectangle, while the
// decoder clears the rectangle that was written.)
func c08CommitRect(c *Ctx, p *Program) {
	c.Rule("commit-rect: at every AddFrame call of an AnimEncoder method whose FrameOptions take the frame offset from a rectangle R, the rectangle remembered afterwards in a receiver field (the previous frame's rectangle) is R itself")
	isRect := func(t types.Type) bool {
		n, ok := t.(*types.Named)
		return ok && n.Obj().Pkg() != nil && n.Obj().Pkg().Path() == "image" && n.Obj().Name() == "Rectangle"
	}
	// base of  R.Min.X  (value or address form)
	var rectBase func(v ssa.Value, depth int) ssa.Value
	rectBase = func(v ssa.Value, depth int) ssa.Value {
		if depth > 6 {
			return nil
		}
		switch t := v.(type) {
		case *ssa.UnOp:
			if t.Op == token.MUL {
				if isRect(t.Type()) {
					return t.X // load of a rectangle variable: the variable
				}
				return rectBase(t.X, depth+1)
			}
		case *ssa.FieldAddr:
			if pt, ok := t.X.Type().Underlying().(*types.Pointer); ok && isRect(pt.Elem()) {
				return t.X
			}
			return rectBase(t.X, depth+1)
		case *ssa.Field:
			if isRect(t.X.Type()) {
				return t.X
			}
			return rectBase(t.X, depth+1)
		}
		return nil
	}
	n := 0
	for _, fn := range p.SrcFuncs() {
		if !recvNamedIs(fn, "AnimEncoder") || fn.Blocks == nil {
			continue
		}
		for _, b := range fn.Blocks {
			for _, in := range b.Instrs {
				call, ok := in.(*ssa.Call)
				if !ok || !isMuxAddFrame(call.Call.StaticCallee()) || len(call.Call.Args) < 3 {
					continue
				}
				opt, ok := call.Call.Args[2].(*ssa.Alloc)
				if !ok || opt.Referrers() == nil {
					continue
				}
				var off ssa.Value
				for _, r := range *opt.Referrers() {
					fa, ok := r.(*ssa.FieldAddr)
					if !ok || specFieldID(fieldNameOf(fa.X.Type(), fa.Field)) != "x" || fa.Referrers() == nil {
						continue
					}
					for _, rr := range *fa.Referrers() {
						if st, ok := rr.(*ssa.Store); ok && st.Addr == ssa.Value(fa) {
							off = st.Val
						}
					}
				}
				if off == nil {
					continue
				}
				base := rectBase(off, 0)
				if base == nil {
					continue
				}
				// rectangle stores to receiver fields in blocks reachable from the call
				reach := map[*ssa.BasicBlock]bool{}
				var walk func(x *ssa.BasicBlock)
				walk = func(x *ssa.BasicBlock) {
					for _, s := range x.Succs {
						if !reach[s] {
							reach[s] = true
							walk(s)
						}
					}
				}
				reach[b] = true
				walk(b)
				for _, b2 := range fn.Blocks {
					if !reach[b2] {
						continue
					}
					for _, in2 := range b2.Instrs {
						// a helper method called after the commit that stores one of its rectangle
						// parameters into a receiver field: the argument must be R
						if call2, ok := in2.(*ssa.Call); ok && in2 != in {
							cal := call2.Common().StaticCallee()
							if cal != nil && cal.Blocks != nil && recvNamedIs(cal, "AnimEncoder") {
								for pi, prm := range cal.Params {
									if pi == 0 || !isRect(prm.Type()) || pi >= len(call2.Common().Args) {
										continue
									}
									stored := ""
									for _, cb := range cal.Blocks {
										for _, cin := range cb.Instrs {
											if st, ok := cin.(*ssa.Store); ok && st.Val == ssa.Value(prm) {
												if f, ok := recvFieldOf(cal, st.Addr); ok {
													stored = f
												}
											}
										}
									}
									if stored == "" {
										continue
									}
									arg := call2.Common().Args[pi]
									var ab ssa.Value = arg
									if u, ok := arg.(*ssa.UnOp); ok && u.Op == token.MUL {
										ab = u.X
									}
									n++
									c.Func(FnName(fn))
									c.Check(ab == base || accessPath(ab) == accessPath(base), "commit-rect", fmt.Sprintf("%s:%s(via %s)", fn.Name(), stored, cal.Name()), p.Pos(call2.Pos()),
										"the rectangle handed to "+cal.Name()+" to be remembered is the one whose origin was given to the muxer",
										fmt.Sprintf("%s places the frame at the origin of one rectangle (%s) but hands another to %s, which remembers it in AnimEncoder.%s: the next frame's dispose-to-background candidate is simulated on a rectangle the decoder does not clear", fn.Name(), p.ExprText(off.Pos()), cal.Name(), stored))
								}
							}
						}
						st, ok := in2.(*ssa.Store)
						if !ok || !isRect(st.Val.Type()) {
							continue
						}
						f, ok := recvFieldOf(fn, st.Addr)
						if !ok {
							continue
						}
						if b2 == b {
							// same block: only stores after the call
							after := false
							for _, x := range b.Instrs {
								if x == in {
									after = true
								}
								if x == in2 {
									break
								}
							}
							if !after {
								continue
							}
						}
						var sb ssa.Value = st.Val
						if u, ok := st.Val.(*ssa.UnOp); ok && u.Op == token.MUL {
							sb = u.X
						}
						n++
						c.Func(FnName(fn))
						c.Check(sb == base || accessPath(sb) == accessPath(base), "commit-rect", fmt.Sprintf("%s:%s", fn.Name(), f), p.Pos(st.Pos()),
							"the remembered rectangle is the one whose origin was given to the muxer ("+p.ExprText(st.Val.Pos())+")",
							fmt.Sprintf("%s places the frame at the origin of one rectangle (%s) but remembers another (%s) in AnimEncoder.%s: the next frame's dispose-to-background candidate is simulated on a rectangle the decoder does not clear", fn.Name(), p.ExprText(off.Pos()), p.ExprText(st.Val.Pos()), f))
					}
				}
			}
		}
	}
	c.Floor("commit-rect", n, 1)
}

// accessPath: a canonical name for a value reached by field selections from a parameter, a local
// variable or another value (two loads of cand.rect are different SSA values with the same path).
func accessPath(v ssa.Value) string {
	switch t := v.(type) {
	case *ssa.UnOp:
		if t.Op == token.MUL {
			return accessPath(t.X)
		}
	case *ssa.FieldAddr:
		return accessPath(t.X) + "." + fieldNameOf(t.X.Type(), t.Field)
	case *ssa.Field:
		return accessPath(t.X) + "." + fieldNameOf(t.X.Type(), t.Field)
	case *ssa.Parameter:
		return "param:" + t.Name()
	case *ssa.Alloc:
		return "local:" + t.Comment + "@" + t.Name()
	}
	return "value:" + v.Name()
}

func reviewedThroughCallers(p *Program, rows []*reviewRow, fn *ssa.Function, field string, depth int) *reviewRow {
	if depth > 2 {
		return nil
	}
	n := p.CallGraph().Nodes[fn]
	if n == nil || len(n.In) == 0 {
		return nil
	}
	var found *reviewRow
	callers := map[*ssa.Function]bool{}
	for _, e := range n.In {
		callers[e.Caller.Func] = true
	}
	for cf := range callers {
		if !recvNamedIs(cf, "AnimEncoder") {
			return nil
		}
		r := findRow(rows, "commit:"+cf.Name(), field)
		if r == nil {
			r = reviewedThroughCallers(p, rows, cf, field, depth+1)
		}
		if r == nil {
			return nil
		}
		found = r
	}
	return found
}
