package main

// B1 bit-window budget (VP8L decoder, part of C03).
//
// The VP8L bit reader keeps a 64-bit window; FillBitWindow guarantees at least 32 valid bits
// beyond the read position, and the decoder then consumes bits by SetBitPos(BitPos()+k) without
// further checks. The rule: along every path, the bits consumed since the last FillBitWindow
// (or ReadBits, which refills itself) never exceed 32 when a SetBitPos is executed, and a
// ReadBits(n) is only reached with consumed+n <= 32. Upper bounds of each k come from constants,
// from the linear prover (dominating comparisons), from the shape (x-c)>>s, and otherwise from
// reviewed lines in tables/bitbudget.txt (facts about Huffman tables that are value-level).
// Callees are summarised (bits needed before their first fill, bits consumed at their exits).

import (
	"fmt"
	"go/constant"
	"go/token"
	"go/types"
	"os"
	"path/filepath"
	"sort"
	"strconv"

	"golang.org/x/tools/go/ssa"
)

const bitWindow = 32

type bitState struct {
	noFill    int // max bits consumed on paths without a fill since function entry (-1: no such path)
	sinceFill int // max bits consumed since the last fill on paths that had one (-1: no such path)
}

func (a bitState) join(b bitState) bitState {
	if b.noFill > a.noFill {
		a.noFill = b.noFill
	}
	if b.sinceFill > a.sinceFill {
		a.sinceFill = b.sinceFill
	}
	return a
}

type bitSummary struct {
	entryNeed int // bits consumed before the first fill (max over paths)
	exit      bitState
	touches   bool
}

type bitAn struct {
	c        *Ctx
	p        *Program
	rows     []*reviewRow
	db       *proverDB
	sums     map[*ssa.Function]*bitSummary
	busy     map[*ssa.Function]bool
	nObl     int
	nSite    map[*ssa.Function]int
	liftBusy map[*ssa.Parameter]bool
}

func isReaderMethod(cal *ssa.Function, name string) bool {
	return cal != nil && cal.Name() == name && recvNamedIs(cal, "LosslessReader")
}

func (b *bitAn) ub(fn *ssa.Function, at ssa.Instruction, v ssa.Value, siteKey string) (int, string) {
	if k, ok := v.(*ssa.Const); ok && k.Value != nil && k.Value.Kind() == constant.Int {
		n, _ := constant.Int64Val(k.Value)
		return int(n), "constant"
	}
	switch x := v.(type) {
	case *ssa.Convert:
		return b.ub(fn, at, x.X, siteKey)
	case *ssa.Extract:
		if call, ok := x.Tuple.(*ssa.Call); ok {
			if cal := call.Call.StaticCallee(); cal != nil {
				key := fmt.Sprintf("%s#%d", cal.Name(), x.Index)
				if r := findRow(b.rows, "bits", key); r != nil {
					r.used = true
					n, _ := strconv.Atoi(r.class)
					return n, "reviewed: " + key
				}
			}
		}
	case *ssa.BinOp:
		if x.Op == token.SHR {
			if ks, ok := x.Y.(*ssa.Const); ok && ks.Value != nil {
				s, _ := constant.Int64Val(ks.Value)
				inner, why := b.ubValue(fn, at, x.X, siteKey)
				if inner >= 0 {
					return inner >> uint(s), "shift of " + why
				}
			}
		}
		if x.Op == token.SUB {
			if kc, ok := x.Y.(*ssa.Const); ok && kc.Value != nil {
				cv, _ := constant.Int64Val(kc.Value)
				inner, why := b.ub(fn, at, x.X, siteKey)
				if inner >= 0 {
					return inner - int(cv), why
				}
			}
		}
	}
	if n, why := b.ubValue(fn, at, v, siteKey); n >= 0 {
		return n, why
	}
	return -1, ""
}

// ubValue: an upper bound of an integer value by the prover, or a reviewed line for the site.
func (b *bitAn) ubValue(fn *ssa.Function, at ssa.Instruction, v ssa.Value, siteKey string) (int, string) {
	if sub, ok := v.(*ssa.BinOp); ok && sub.Op == token.SUB {
		if kc, ok := sub.Y.(*ssa.Const); ok && kc.Value != nil {
			cv, _ := constant.Int64Val(kc.Value)
			inner, why := b.ubValue(fn, at, sub.X, siteKey)
			if inner >= 0 {
				return inner - int(cv), why
			}
		}
	}
	if cv, ok := v.(*ssa.Convert); ok {
		if n, why := b.ubValue(fn, at, cv.X, siteKey); n >= 0 {
			return n, why
		}
	}
	if ex, ok := v.(*ssa.Extract); ok {
		if call, ok := ex.Tuple.(*ssa.Call); ok {
			if cal := call.Call.StaticCallee(); cal != nil {
				// the value result of a symbol read, keyed by the constant tree index of its table argument
				tree := ""
				if len(call.Call.Args) > 0 {
					if ld, ok := call.Call.Args[0].(*ssa.UnOp); ok {
						if ia, ok := ld.X.(*ssa.IndexAddr); ok {
							if k, ok := ia.Index.(*ssa.Const); ok && k.Value != nil {
								tree = "[tree=" + k.Value.ExactString() + "]"
							}
						}
					}
				}
				key := fmt.Sprintf("%s#%d%s", cal.Name(), ex.Index, tree)
				if r := findRow(b.rows, "bits", key); r != nil {
					r.used = true
					n, _ := strconv.Atoi(r.class)
					return n, "reviewed: " + key
				}
			}
		}
	}
	// a parameter of a helper: the largest bound over all call sites (each bounded in its caller)
	if prm, ok := v.(*ssa.Parameter); ok && !b.liftBusy[prm] {
		idx := -1
		for i, q := range fn.Params {
			if q == prm {
				idx = i
			}
		}
		if n := b.p.CallGraph().Nodes[fn]; n != nil && len(n.In) > 0 && idx >= 0 {
			if b.liftBusy == nil {
				b.liftBusy = map[*ssa.Parameter]bool{}
			}
			b.liftBusy[prm] = true
			best, okAll := -1, true
			for _, e := range n.In {
				if e.Site == nil || idx >= len(e.Site.Common().Args) {
					okAll = false
					break
				}
				u, _ := b.ub(e.Caller.Func, e.Site, e.Site.Common().Args[idx], siteKey)
				if u < 0 {
					okAll = false
					break
				}
				if u > best {
					best = u
				}
			}
			delete(b.liftBusy, prm)
			if okAll && best >= 0 {
				return best, "bounded at every call site"
			}
		}
	}
	pv := b.db.proverFor(fn)
	for _, K := range []int64{0, 1, 3, 4, 6, 7, 8, 10, 15, 18, 23, 24, 31, 32, 39} {
		kk := K
		if pv.proveAt(at, func(facts *[]cons) []lin {
			return []lin{ge(konst(kk), pv.toLin(v, facts)).e}
		}) {
			return int(K), "proved from dominating comparisons"
		}
	}
	if r := findRow(b.rows, "bits", siteKey); r != nil {
		r.used = true
		n, _ := strconv.Atoi(r.class)
		return n, "reviewed: " + siteKey
	}
	return -1, ""
}

func (b *bitAn) summary(fn *ssa.Function) *bitSummary {
	if s, ok := b.sums[fn]; ok {
		return s
	}
	if b.busy[fn] {
		return &bitSummary{entryNeed: 0, exit: bitState{noFill: -1, sinceFill: 0}, touches: false}
	}
	b.busy[fn] = true
	defer delete(b.busy, fn)
	s := b.analyse(fn, false)
	b.sums[fn] = s
	return s
}

// analyse runs the forward dataflow; with report=true obligations are recorded.
func (b *bitAn) analyse(fn *ssa.Function, report bool) *bitSummary {
	sum := &bitSummary{exit: bitState{-1, -1}}
	if fn.Blocks == nil {
		return sum
	}
	in := map[*ssa.BasicBlock]bitState{}
	seen := map[*ssa.BasicBlock]bool{}
	in[fn.Blocks[0]] = bitState{noFill: 0, sinceFill: -1}
	seen[fn.Blocks[0]] = true
	site := 0
	var apply func(blk *ssa.BasicBlock, st bitState, rep bool) bitState
	apply = func(blk *ssa.BasicBlock, st bitState, rep bool) bitState {
		for _, ins := range blk.Instrs {
			call, ok := ins.(*ssa.Call)
			if !ok {
				if _, isDefer := ins.(*ssa.Defer); isDefer {
					continue
				}
				continue
			}
			cal := call.Call.StaticCallee()
			consume := func(k int, what string, pos token.Pos, why string) {
				if st.noFill >= 0 {
					st.noFill += k
					if st.noFill > sum.entryNeed {
						sum.entryNeed = st.noFill
					}
				}
				if st.sinceFill >= 0 {
					st.sinceFill += k
				}
				if rep {
					site++
					key := fmt.Sprintf("%s:%s#%d", FnName(fn), what, site)
					b.nObl++
					okb := st.sinceFill <= bitWindow
					b.c.Check(okb, "B1-bit-budget", key, b.p.Pos(pos), fmt.Sprintf("at most %d bits are consumed since the last FillBitWindow (this step at most %d: %s)", maxInt(st.sinceFill, 0), k, why),
						fmt.Sprintf("up to %d bits can have been consumed since the last FillBitWindow when %s advances the read position by up to %d more (%s): only %d bits are guaranteed valid, the decoder reads stale bits and decodes wrong pixels without any error", st.sinceFill-k, FnName(fn), k, why, bitWindow))
				}
			}
			switch {
			case isReaderMethod(cal, "FillBitWindow"):
				sum.touches = true
				st = bitState{noFill: -1, sinceFill: 0}
			case isReaderMethod(cal, "ReadBits"):
				sum.touches = true
				siteKey := fmt.Sprintf("%s:readbits", fn.Name())
				k, why := b.ub(fn, ins, call.Call.Args[1], siteKey)
				if k < 0 || k > 24 {
					k, why = 24, "ReadBits reads at most 24 bits"
				}
				consume(k, "ReadBits", call.Pos(), why)
				st = bitState{noFill: -1, sinceFill: 0} // ReadBits refills the window itself
			case isReaderMethod(cal, "SetBitPos"):
				sum.touches = true
				k := -1
				why := ""
				if add, ok := call.Call.Args[1].(*ssa.BinOp); ok && (add.Op == token.ADD || add.Op == token.SUB) {
					// BitPos() + k   /   BitPos() + k - c
					var terms []ssa.Value
					var consts int
					var flat func(v ssa.Value, sign int) bool
					flat = func(v ssa.Value, sign int) bool {
						if bo, ok := v.(*ssa.BinOp); ok && (bo.Op == token.ADD || bo.Op == token.SUB) {
							s2 := sign
							if bo.Op == token.SUB {
								s2 = -sign
							}
							return flat(bo.X, sign) && flat(bo.Y, s2)
						}
						if kc, ok := v.(*ssa.Const); ok && kc.Value != nil {
							n, _ := constant.Int64Val(kc.Value)
							consts += sign * int(n)
							return true
						}
						if cc, ok := v.(*ssa.Call); ok && isReaderMethod(cc.Call.StaticCallee(), "BitPos") {
							return sign == 1
						}
						if sign != 1 {
							return false
						}
						terms = append(terms, v)
						return true
					}
					if flat(add, 1) {
						k = consts
						for i, t := range terms {
							siteKey := fmt.Sprintf("%s:set#%d", fn.Name(), b.siteNo(fn, call)+i*0)
							u, w := b.ub(fn, ins, t, siteKey)
							if u < 0 {
								k = -1
								why = "no upper bound for " + t.Name()
								break
							}
							k += u
							why = w
						}
					}
				}
				if k < 0 {
					if rep {
						site++
						b.nObl++
						b.c.Fail("B1-bit-budget", fmt.Sprintf("%s:SetBitPos#%d", FnName(fn), site), b.p.Pos(call.Pos()), "cannot bound the number of bits by which the read position is advanced ("+why+")")
					}
					st = bitState{noFill: -1, sinceFill: 1 << 20}
					continue
				}
				consume(k, "SetBitPos", call.Pos(), why)
			default:
				if cal == nil || cal.Blocks == nil || cal.Pkg != fn.Pkg {
					continue
				}
				cs := b.summary(cal)
				if !cs.touches {
					continue
				}
				sum.touches = true
				// bits the callee consumes before its first fill
				if cs.entryNeed > 0 {
					consume(cs.entryNeed, "call("+cal.Name()+")", call.Pos(), "bits "+cal.Name()+" consumes before its first fill")
					// undo: the callee's own exit state accounts for them
					if st.noFill >= 0 {
						st.noFill -= cs.entryNeed
					}
					if st.sinceFill >= 0 {
						st.sinceFill -= cs.entryNeed
					}
				}
				ns := bitState{-1, -1}
				if cs.exit.noFill >= 0 {
					if st.noFill >= 0 {
						ns.noFill = st.noFill + cs.exit.noFill
					}
					if st.sinceFill >= 0 {
						ns.sinceFill = st.sinceFill + cs.exit.noFill
					}
				}
				if cs.exit.sinceFill >= 0 && cs.exit.sinceFill > ns.sinceFill {
					ns.sinceFill = cs.exit.sinceFill
				}
				st = ns
			}
		}
		return st
	}
	// fixpoint (states only grow; bounded by a cap)
	work := []*ssa.BasicBlock{fn.Blocks[0]}
	iter := 0
	for len(work) > 0 && iter < 5000 {
		iter++
		blk := work[0]
		work = work[1:]
		out := apply(blk, in[blk], false)
		if out.noFill > 4096 {
			out.noFill = 4096
		}
		if out.sinceFill > 4096 {
			out.sinceFill = 4096
		}
		for _, s := range blk.Succs {
			old, had := in[s]
			nw := out
			if had {
				nw = old.join(out)
			}
			if !had || nw != old {
				in[s] = nw
				seen[s] = true
				work = append(work, s)
			}
		}
	}
	for _, blk := range fn.Blocks {
		if !seen[blk] {
			continue
		}
		if report && os.Getenv("VERIF_DEBUG") == fn.Name() {
			fmt.Fprintf(os.Stderr, "BLK %s b%d in=%+v iter=%d\n", fn.Name(), blk.Index, in[blk], iter)
		}
		out := apply(blk, in[blk], report)
		if _, isRet := blk.Instrs[len(blk.Instrs)-1].(*ssa.Return); isRet {
			sum.exit = sum.exit.join(out)
		}
	}
	return sum
}

func (b *bitAn) siteNo(fn *ssa.Function, target *ssa.Call) int {
	n := 0
	for _, blk := range fn.Blocks {
		for _, ins := range blk.Instrs {
			if call, ok := ins.(*ssa.Call); ok && isReaderMethod(call.Call.StaticCallee(), "SetBitPos") {
				n++
				if call == target {
					return n
				}
			}
		}
	}
	return n
}

func maxInt(a, b int) int {
	if a > b {
		return a
	}
	return b
}

func bitBudget(c *Ctx, p *Program) {
	rows, err := loadReview(filepath.Join(c.Verif, "tables", "bitbudget.txt"))
	if err != nil {
		c.Fail("internal", "tables/bitbudget.txt", "", err.Error())
		return
	}
	c.Table("tables/bitbudget.txt")
	b := &bitAn{c: c, p: p, rows: rows, db: newProverDB(p), sums: map[*ssa.Function]*bitSummary{}, busy: map[*ssa.Function]bool{}}
	pk := p.SSAPkg("internal/lossless")
	if pk == nil {
		c.AnchorMissing("B1-bit-budget", "package internal/lossless")
		return
	}
	var fns []*ssa.Function
	for _, fn := range p.SrcFuncs() {
		if fn.Pkg == pk && fn.Blocks != nil {
			fns = append(fns, fn)
		}
	}
	sort.Slice(fns, func(i, j int) bool { return FnName(fns[i]) < FnName(fns[j]) })
	for _, fn := range fns {
		// only functions that manipulate the reader directly or through callees
		direct := false
		for _, blk := range fn.Blocks {
			for _, ins := range blk.Instrs {
				if call, ok := ins.(*ssa.Call); ok {
					cal := call.Call.StaticCallee()
					if isReaderMethod(cal, "SetBitPos") || isReaderMethod(cal, "FillBitWindow") || isReaderMethod(cal, "ReadBits") {
						direct = true
					}
				}
			}
		}
		s := b.summary(fn)
		if !s.touches {
			continue
		}
		if direct {
			c.Func(FnName(fn))
		}
		b.analyse(fn, true)
		// entry requirement: callers are checked at their call sites; functions entered from outside the
		// package start from a freshly created or refilled reader
		callers := 0
		if n := p.CallGraph().Nodes[fn]; n != nil {
			for _, e := range n.In {
				if e.Caller.Func.Pkg == pk {
					callers++
				}
			}
		}
		if callers == 0 && s.entryNeed > bitWindow {
			b.nObl++
			c.Fail("B1-bit-budget", FnName(fn)+":entry", p.Pos(fn.Pos()), fmt.Sprintf("%s consumes up to %d bits before its first FillBitWindow", FnName(fn), s.entryNeed))
		}
	}
	if os.Getenv("VERIF_DEBUG") != "" {
		for _, fn := range fns {
			if s := b.sums[fn]; s != nil && s.touches {
				fmt.Fprintf(os.Stderr, "SUM %-50s need=%d exit={noFill:%d sinceFill:%d}\n", FnName(fn), s.entryNeed, s.exit.noFill, s.exit.sinceFill)
			}
		}
	}
	for _, r := range rows {
		if !r.used {
			c.Stale("bitbudget:" + r.typ + ":" + r.loc)
		}
	}
	c.Floor("B1-bit-budget", b.nObl, 15)
	_ = types.Typ
}
