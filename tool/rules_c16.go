package main

// C16: header queries agree with the full decode.
//
// K1 presence-predicate: every branch condition on the alpha payload of a parsed frame
//    (container.FrameInfo.AlphaData and everything it flows into: parameters, copies into other
//    structs) tests presence the same way (nil-test or length-test). A zero-length ALPH chunk is a
//    non-nil empty slice: mixed predicates make two views of the same file disagree.
// K2 colour-model agreement: over the partition IsLossless in {true,false} x AlphaData in
//    {nil, empty, non-empty}, the set of colour models DecodeConfig may report equals the set of
//    ColorModel()s of the dynamic types the frame decoder may return on success, and both are
//    singletons (S6 class evaluator; the type->model map is read from the image package's
//    ColorModel methods).
// K5 registration: the package's init registers the format with image.RegisterFormat, with a
//    magic that every RIFF/WEBP header matches and with this package's Decode and DecodeConfig.
// K4 defaults: the loop count reported for a file without ANIM chunk is the same constant in the
//    container parser and in the demuxer.

import (
	"fmt"
	"go/constant"
	"go/token"
	"go/types"
	"os"
	"sort"
	"strings"

	"golang.org/x/tools/go/ssa"
)

func init() { register("C16", runC16) }

type presenceTest struct {
	class string // "nil" | "len"
	pos   string
	fn    string
}

// presenceTests follows the values loaded from the given struct field (type name + field name)
// through parameters, struct copies and calls, and classifies the branch conditions on them.
func presenceTests(p *Program, rootType, rootField string) (tests []presenceTest, flows []string) {
	trackedFields := map[string]bool{rootType + "." + rootField: true}
	trackedVals := map[ssa.Value]bool{}
	cg := p.CallGraph()
	fieldKey := func(base types.Type, idx int) string {
		st := structOf(base)
		if st == nil {
			if s, ok := base.Underlying().(*types.Struct); ok {
				st = s
			}
		}
		if st == nil || idx >= st.NumFields() {
			return ""
		}
		return namedOf(base) + "." + st.Field(idx).Name()
	}
	funcs := p.SrcFuncs()
	for changed := true; changed; {
		changed = false
		mark := func(v ssa.Value) {
			if !trackedVals[v] {
				trackedVals[v] = true
				changed = true
			}
		}
		for _, fn := range funcs {
			for _, b := range fn.Blocks {
				for _, in := range b.Instrs {
					switch x := in.(type) {
					case *ssa.UnOp:
						if x.Op == token.MUL {
							if fa, ok := x.X.(*ssa.FieldAddr); ok && trackedFields[fieldKey(fa.X.Type(), fa.Field)] {
								mark(x)
							}
							if al, ok := x.X.(*ssa.Alloc); ok {
								if s := singleStore(al); s != nil && trackedVals[s] {
									mark(x)
								}
							}
						}
					case *ssa.Field:
						if trackedFields[fieldKey(x.X.Type(), x.Field)] {
							mark(x)
						}
					case *ssa.Phi:
						for _, e := range x.Edges {
							if trackedVals[e] {
								mark(x)
							}
						}
					case *ssa.Store:
						if trackedVals[x.Val] {
							if fa, ok := x.Addr.(*ssa.FieldAddr); ok {
								k := fieldKey(fa.X.Type(), fa.Field)
								if k != "" && !trackedFields[k] {
									trackedFields[k] = true
									flows = append(flows, k)
									changed = true
								}
							}
						}
					case ssa.CallInstruction:
						com := x.Common()
						var callees []*ssa.Function
						if sc := com.StaticCallee(); sc != nil {
							callees = []*ssa.Function{sc}
						} else if n := cg.Nodes[fn]; n != nil {
							for _, e := range n.Out {
								if e.Site == x {
									callees = append(callees, e.Callee.Func)
								}
							}
						}
						for i, a := range com.Args {
							if !trackedVals[a] {
								continue
							}
							for _, cal := range callees {
								if cal.Blocks != nil && i < len(cal.Params) && p.IsModFunc(cal) {
									mark(cal.Params[i])
								}
							}
						}
					}
				}
			}
		}
	}
	// classify conditions
	for _, fn := range funcs {
		for _, b := range fn.Blocks {
			for _, in := range b.Instrs {
				bin, ok := in.(*ssa.BinOp)
				if !ok {
					continue
				}
				used := false
				if bin.Referrers() != nil {
					for _, u := range *bin.Referrers() {
						switch u.(type) {
						case *ssa.If, *ssa.Phi, *ssa.UnOp, *ssa.Store, *ssa.Return:
							used = true
						}
					}
				}
				if !used {
					continue
				}
				isNil := func(v ssa.Value) bool { k, ok := v.(*ssa.Const); return ok && k.IsNil() }
				lenOf := func(v ssa.Value) bool {
					c, ok := v.(*ssa.Call)
					if !ok {
						return false
					}
					bi, ok := c.Call.Value.(*ssa.Builtin)
					return ok && bi.Name() == "len" && trackedVals[c.Call.Args[0]]
				}
				zeroOrOne := func(v ssa.Value) bool {
					k, ok := v.(*ssa.Const)
					if !ok || k.Value == nil || k.Value.Kind() != constant.Int {
						return false
					}
					n, _ := constant.Int64Val(k.Value)
					return n == 0 || n == 1
				}
				switch {
				case (trackedVals[bin.X] && isNil(bin.Y)) || (trackedVals[bin.Y] && isNil(bin.X)):
					tests = append(tests, presenceTest{"nil", p.Pos(bin.Pos()), FnName(fn)})
				case (lenOf(bin.X) && zeroOrOne(bin.Y)) || (lenOf(bin.Y) && zeroOrOne(bin.X)):
					tests = append(tests, presenceTest{"len", p.Pos(bin.Pos()), FnName(fn)})
				}
			}
		}
	}
	sort.Slice(tests, func(i, j int) bool { return tests[i].pos < tests[j].pos })
	sort.Strings(flows)
	return
}

func checkPresence(c *Ctx, p *Program, rule, rootType, rootField string, floor int) {
	tests, flows := presenceTests(p, rootType, rootField)
	if len(flows) > 0 {
		c.Note(rule + ": " + rootType + "." + rootField + " flows into " + strings.Join(flows, ", "))
	}
	if len(tests) == 0 {
		c.AnchorMissing(rule, "branch conditions on "+rootType+"."+rootField)
		return
	}
	count := map[string]int{}
	for _, t := range tests {
		count[t.class]++
		c.Func(t.fn)
	}
	major := "len"
	if count["nil"] > count["len"] {
		major = "nil"
	}
	// a length test is the one that treats a zero-length payload like an absent one everywhere;
	// when the classes are mixed, each minority site is reported with a majority site as witness
	var witness string
	for _, t := range tests {
		if t.class == major {
			witness = t.pos
			break
		}
	}
	idx := map[string]int{}
	for _, t := range tests {
		idx[t.fn]++
		key := fmt.Sprintf("%s:%s#%d", rootType+"."+rootField, shortFn(t.fn), idx[t.fn])
		if t.class == major {
			c.Pass(rule, key, t.pos, "tests presence by "+describePresence(t.class))
		} else {
			c.Fail(rule, key, t.pos, fmt.Sprintf("%s decides whether alpha data is present by %s, while %s (and %d other sites) decide by %s: for a zero-length payload (a non-nil empty slice) the two disagree, so two views of the same file differ", shortFn(t.fn), describePresence(t.class), witness, count[major]-1, describePresence(major)))
		}
	}
	c.Floor(rule, len(tests), floor)
}

func describePresence(class string) string {
	if class == "nil" {
		return "comparing the slice with nil"
	}
	return "its length"
}

func shortFn(s string) string {
	if i := strings.LastIndex(s, "/"); i >= 0 {
		return s[i+1:]
	}
	return s
}

func runC16(c *Ctx) {
	c.Rule("K1 presence-predicate: all branch conditions on values that flow from container.FrameInfo.AlphaData (through parameters, struct copies, static and dynamic calls) test presence the same way (nil-test vs length-test)")
	c.Rule("K2 colour-model agreement: S6 class evaluation of DecodeConfig and of the frame decoder over IsLossless x AlphaData{nil,empty,non-empty}: the models DecodeConfig may report are exactly the ColorModel()s of the types the decoder may return, one per class")
	c.Rule("K4 defaults: the loop count both container parsers report when no ANIM chunk was read is the same constant")
	c.Rule("K6 limit-is-error: in the methods of container.Parser and mux.Demuxer, a comparison of the number of parsed records (len of a receiver field) with a constant limit leads, when the limit is reached, directly to an error return - never to a break/continue that silently truncates this view of the file")
	c.Rule("K7 canvas size: symbolic execution (S7) of the container parser's VP8X chunk walk: in every input class in which an ANMF chunk is walked, the overall Width/Height that GetFeatures and DecodeConfig report (the canvas, for an animation) are not assigned")
	c.Rule("K5 registration: init calls image.RegisterFormat with a magic every RIFF....WEBP header matches and with this package's Decode and DecodeConfig")
	c.Rule("K8 header dimensions: the functions that extract width and height from a VP8 / VP8L bitstream header (container parser, demuxer/muxer helpers; for VP8 also the values the lossy decoder stores into its picture header) are reduced by the S8 evaluator to normal forms over the header bytes; all readers of one format have the same forms (same bytes, same 14-bit reduction, same +1)")
	c.NotCovered("the VP8L decoder's own header read (it goes through the bit reader); the VP8L alpha bit and VP8X alpha flag reflecting the decoded pixels; frame-count agreement of the parsers on long animations (limits)")
	for _, cf := range c.configsFor() {
		p := c.load(cf[0], cf[1])
		if p == nil {
			continue
		}
		kernelHeaderDims(c, p)
		checkPresence(c, p, "K1-presence", "FrameInfo", "AlphaData", 2)
		c16Models(c, p)
		c16Register(c, p)
		c16LoopDefault(c, p)
		c16Limits(c, p)
		c16EffectiveLimits(c, p)
		c16AlphaHint(c, p)
		// K7: S7 execution of the container parser's chunk walk
		fns := loopFuncs(p, "internal/container")
		for _, fn := range fns {
			if fn.Name() != "parseVP8XChunks" {
				continue
			}
			opq := append([]string{}, headerObservers...)
			for _, o := range fns {
				if o != fn {
					opq = append(opq, o.Name())
				}
			}
			before := c.Count("K7-canvas-size")
			checkReader(c, p, readerSpec{rel: "internal/container", opaque: opq, fn: fn, onlyK7: true}, 300000)
			c.Floor("K7-canvas-size", c.Count("K7-canvas-size")-before, 1)
		}
	}
}

// ---- K2 ----

func c16Models(c *Ctx, p *Program) {
	cfgFn := p.Fn("", "DecodeConfig")
	if cfgFn == nil {
		c.AnchorMissing("K2-model", "webp.DecodeConfig")
		return
	}
	// the frame decoder: the function of the root package reachable from Decode that takes a container.FrameInfo
	dec := p.Fn("", "Decode")
	if dec == nil {
		c.AnchorMissing("K2-model", "webp.Decode")
		return
	}
	var frameDec *ssa.Function
	for fn := range p.Reachable(dec) {
		if fn.Pkg == nil || fn.Pkg != dec.Pkg || fn.Blocks == nil {
			continue
		}
		for _, pr := range fn.Params {
			if namedOf(pr.Type()) == "FrameInfo" && fn.Signature.Results().Len() == 2 {
				if frameDec == nil || fn.Name() < frameDec.Name() {
					frameDec = fn
				}
			}
		}
	}
	if frameDec == nil {
		c.AnchorMissing("K2-model", "frame decoder taking container.FrameInfo reachable from webp.Decode")
		return
	}
	c.Func(FnName(cfgFn))
	c.Func(FnName(frameDec))
	type cls struct {
		name     string
		lossless tri
		alpha    av
	}
	var classes []cls
	for _, l := range []tri{triTrue, triFalse} {
		for _, a := range []struct {
			n string
			v av
		}{{"nil", avSlice(triTrue, triFalse)}, {"empty", avSlice(triFalse, triFalse)}, {"non-empty", avSlice(triFalse, triTrue)}} {
			if l == triTrue && a.n != "nil" {
				continue // a VP8L frame never carries separate alpha data (the parser rejects ALPH+VP8L)
			}
			classes = append(classes, cls{fmt.Sprintf("lossless=%v,alpha=%s", l == triTrue, a.n), l, a.v})
		}
	}
	n := 0
	for _, cl := range classes {
		n++
		key := "DecodeConfig~" + frameDec.Name() + ":" + cl.name
		mk := func() *ceEnv {
			e := newCE(p)
			e.fields["FrameInfo.IsLossless"] = avBool(cl.lossless)
			e.fields["FrameInfo.AlphaData"] = cl.alpha
			e.fields["Parser.frames"] = avSlice(triFalse, triTrue) // Decode accepted the file: there is a frame
			return e
		}
		// decoder result types
		e1 := mk()
		rets, complete := e1.run(frameDec)
		if !complete || len(rets) == 0 {
			c.Fail("K2-model", key, p.Pos(frameDec.Pos()), "cannot enumerate the success paths of "+frameDec.Name())
			continue
		}
		typeSet := map[string]bool{}
		if os.Getenv("VERIF_DEBUG") != "" {
			for _, r := range rets {
				fmt.Fprintln(os.Stderr, "DEBUG", cl.name, r)
			}
		}
		for _, r := range rets {
			for _, s := range r[0].syms {
				typeSet[s] = true
			}
			if len(r[0].syms) == 0 {
				typeSet["?"] = true
			}
		}
		// models of those types
		modelOfType := map[string]string{}
		bad := ""
		for t := range typeSet {
			if !strings.HasPrefix(t, "type:") {
				bad = "the decoder's result is not a known concrete type (" + t + ")"
				break
			}
			m := colorModelOf(p, strings.TrimPrefix(t, "type:"))
			if m == "" {
				bad = "cannot read the ColorModel method of " + t
				break
			}
			modelOfType[t] = m
		}
		if bad != "" {
			c.Fail("K2-model", key, p.Pos(frameDec.Pos()), bad)
			continue
		}
		e2 := mk()
		rets2, complete2 := e2.run(cfgFn)
		if !complete2 || len(rets2) == 0 {
			c.Fail("K2-model", key, p.Pos(cfgFn.Pos()), "cannot enumerate the success paths of DecodeConfig")
			continue
		}
		cfgModels := map[string]bool{}
		for _, r := range rets2 {
			found := false
			for _, s := range r[0].syms {
				if strings.HasPrefix(s, "ColorModel=") {
					for _, m := range strings.Split(strings.TrimPrefix(s, "ColorModel="), "|") {
						cfgModels[m] = true
					}
					found = true
				}
			}
			if !found {
				cfgModels["?"] = true
			}
		}
		decModels := map[string]bool{}
		for _, m := range modelOfType {
			decModels[m] = true
		}
		ks := func(m map[string]bool) string {
			var s []string
			for k := range m {
				s = append(s, strings.TrimPrefix(strings.TrimPrefix(k, "global:"), "type:"))
			}
			sort.Strings(s)
			return "{" + strings.Join(s, ", ") + "}"
		}
		ok := len(cfgModels) == 1 && len(decModels) == 1 && ks(cfgModels) == ks(decModels)
		c.Check(ok, "K2-model", key, p.Pos(cfgFn.Pos()),
			fmt.Sprintf("DecodeConfig reports %s; the decoder returns %s whose model is %s", ks(cfgModels), ks(typeSet), ks(decModels)),
			fmt.Sprintf("for a frame with %s DecodeConfig may report colour model %s but %s may return %s (colour model %s): the header query does not predict the decoded image", cl.name, ks(cfgModels), frameDec.Name(), ks(typeSet), ks(decModels)))
	}
	c.Floor("K2-model", n, 4)
}

// colorModelOf reads the package variable returned by (T).ColorModel.
func colorModelOf(p *Program, typ string) string {
	for _, pk := range p.SSA.AllPackages() {
		if pk.Pkg.Path() != "image" {
			continue
		}
		for _, m := range pk.Members {
			t, ok := m.(*ssa.Type)
			if !ok {
				continue
			}
			pt := types.NewPointer(t.Type())
			if pt.String() != typ {
				continue
			}
			sel := p.SSA.MethodSets.MethodSet(pt).Lookup(pk.Pkg, "ColorModel")
			if sel == nil {
				return ""
			}
			fn := p.SSA.MethodValue(sel)
			if fn == nil || fn.Blocks == nil {
				return ""
			}
			e := newCE(p)
			rets, complete := e.run(fn)
			if !complete || len(rets) != 1 || len(rets[0][0].syms) != 1 {
				return ""
			}
			return rets[0][0].syms[0]
		}
	}
	return ""
}

// ---- K5 ----

func c16Register(c *Ctx, p *Program) {
	pkg := p.SSAPkg("")
	if pkg == nil {
		c.AnchorMissing("K5-register", "root package")
		return
	}
	found := 0
	var visit func(fn *ssa.Function)
	seen := map[*ssa.Function]bool{}
	visit = func(fn *ssa.Function) {
		if fn == nil || seen[fn] || fn.Blocks == nil {
			return
		}
		seen[fn] = true
		for _, b := range fn.Blocks {
			for _, in := range b.Instrs {
				call, ok := in.(*ssa.Call)
				if !ok {
					continue
				}
				cal := call.Call.StaticCallee()
				if cal == nil {
					continue
				}
				if cal.Pkg == pkg && strings.HasPrefix(cal.Name(), "init") {
					visit(cal)
				}
				if cal.Pkg == nil || cal.Pkg.Pkg.Path() != "image" || cal.Name() != "RegisterFormat" {
					continue
				}
				found++
				key := fmt.Sprintf("RegisterFormat#%d", found)
				pos := p.Pos(call.Pos())
				args := call.Call.Args
				var problems []string
				if k, ok := args[1].(*ssa.Const); ok && k.Value != nil && k.Value.Kind() == constant.String {
					magic := constant.StringVal(k.Value)
					const hdr = "RIFF\x00\x00\x00\x00WEBP"
					if len(magic) == 0 || len(magic) > len(hdr) {
						problems = append(problems, fmt.Sprintf("magic %q is empty or longer than the 12-byte RIFF/WEBP header", magic))
					} else {
						for i := 0; i < len(magic); i++ {
							if magic[i] != '?' && (hdr[i] == 0 || magic[i] != hdr[i]) {
								problems = append(problems, fmt.Sprintf("magic %q does not match every RIFF....WEBP header (byte %d)", magic, i))
								break
							}
						}
					}
				} else {
					problems = append(problems, "magic is not a constant string")
				}
				for i, want := range []string{"Decode", "DecodeConfig"} {
					f := funcValueOf(args[2+i])
					if f == nil || f.Pkg != pkg || f.Name() != want {
						got := "?"
						if f != nil {
							got = FnName(f)
						}
						problems = append(problems, fmt.Sprintf("argument %d is %s, not this package's %s", 2+i, got, want))
					}
				}
				c.Check(len(problems) == 0, "K5-register", key, pos, "image.RegisterFormat with a magic matching every WebP header and this package's Decode/DecodeConfig", strings.Join(problems, "; ")+": image.Decode / image.DecodeConfig do not dispatch WebP files to this package")
			}
		}
	}
	visit(pkg.Func("init"))
	if found == 0 {
		c.Fail("K5-register", "RegisterFormat", "", "the root package's init does not call image.RegisterFormat: image.Decode cannot dispatch WebP files to this package")
	}
}

func funcValueOf(v ssa.Value) *ssa.Function {
	switch x := v.(type) {
	case *ssa.Function:
		return x
	case *ssa.ChangeType:
		return funcValueOf(x.X)
	case *ssa.MakeClosure:
		if f, ok := x.Fn.(*ssa.Function); ok {
			return f
		}
	}
	return nil
}

// ---- K4 ----

// constant stores to a loop-count field outside the code that reads the ANIM chunk
func c16LoopDefault(c *Ctx, p *Program) {
	type site struct {
		pkg, fn, pos string
		val          int64
		fromInput    bool
	}
	collect := func(rel, typeName, field string) (consts []site, hasInput bool) {
		pk := p.SSAPkg(rel)
		if pk == nil {
			return
		}
		for _, fn := range p.SrcFuncs() {
			if fn.Pkg != pk {
				continue
			}
			for _, b := range fn.Blocks {
				for _, in := range b.Instrs {
					st, ok := in.(*ssa.Store)
					if !ok {
						continue
					}
					name := ""
					var base types.Type
					switch a := st.Addr.(type) {
					case *ssa.FieldAddr:
						if s := structOf(a.X.Type()); s != nil {
							name = s.Field(a.Field).Name()
							base = a.X.Type()
						}
					}
					if name != field || namedOf(base) != typeName {
						continue
					}
					if k, ok := st.Val.(*ssa.Const); ok && k.Value != nil {
						v, _ := constant.Int64Val(k.Value)
						consts = append(consts, site{rel, fn.Name(), p.Pos(st.Pos()), v, false})
					} else {
						hasInput = true
					}
				}
			}
		}
		return
	}
	pc, pin := collect("internal/container", "Features", "LoopCount")
	dc, din := collect("mux", "Demuxer", "loopCount")
	if !pin || !din {
		c.AnchorMissing("K4-loop-default", "stores of the ANIM loop count in container.Parser / mux.Demuxer")
		return
	}
	val := func(s []site) (int64, string) {
		if len(s) == 0 {
			return 0, "zero value"
		}
		return s[len(s)-1].val, s[len(s)-1].pos
	}
	pv, ppos := val(pc)
	dv, dpos := val(dc)
	multi := len(pc) > 1 || len(dc) > 1
	c.Check(pv == dv && !multi, "K4-loop-default", "Parser.features.LoopCount~Demuxer.loopCount", ppos,
		fmt.Sprintf("both parsers report loop count %d when no ANIM chunk was read", pv),
		fmt.Sprintf("without an ANIM chunk (every still file) the container parser reports loop count %d (%s) but the demuxer reports %d (%s): GetFeatures and the demuxer/animation reader disagree on the same file", pv, ppos, dv, dpos))
}

// ---- K6: a limit on the number of parsed records is an error, never a silent stop ----

func c16Limits(c *Ctx, p *Program) {
	n := 0
	for _, fn := range p.SrcFuncs() {
		if !(recvNamedIs(fn, "Demuxer") || recvNamedIs(fn, "Parser")) || fn.Blocks == nil {
			continue
		}
		idx := 0
		for _, b := range fn.Blocks {
			iff, ok := b.Instrs[len(b.Instrs)-1].(*ssa.If)
			if !ok {
				continue
			}
			bin, ok := iff.Cond.(*ssa.BinOp)
			if !ok {
				continue
			}
			lenOfField := func(v ssa.Value) string {
				call, ok := v.(*ssa.Call)
				if !ok {
					return ""
				}
				bi, ok := call.Call.Value.(*ssa.Builtin)
				if !ok || bi.Name() != "len" {
					return ""
				}
				ld, ok := call.Call.Args[0].(*ssa.UnOp)
				if !ok || ld.Op != token.MUL {
					return ""
				}
				f, ok := recvFieldOf(fn, ld.X)
				if !ok {
					return ""
				}
				// record lists only (slices of structs the parser appends to), not the input bytes
				sl, ok := ld.Type().Underlying().(*types.Slice)
				if !ok {
					return ""
				}
				if _, isStruct := sl.Elem().Underlying().(*types.Struct); !isStruct {
					return ""
				}
				return f
			}
			isConst := func(v ssa.Value) bool {
				k, ok := v.(*ssa.Const)
				return ok && k.Value != nil && k.Value.Kind() == constant.Int
			}
			var field string
			var reached *ssa.BasicBlock // successor taken when the count has reached the limit
			switch {
			case lenOfField(bin.X) != "" && isConst(bin.Y):
				field = lenOfField(bin.X)
				switch bin.Op {
				case token.GEQ, token.GTR:
					reached = b.Succs[0]
				case token.LSS, token.LEQ:
					reached = b.Succs[1]
				}
			case lenOfField(bin.Y) != "" && isConst(bin.X):
				field = lenOfField(bin.Y)
				switch bin.Op {
				case token.LEQ, token.LSS:
					reached = b.Succs[0]
				case token.GTR, token.GEQ:
					reached = b.Succs[1]
				}
			}
			if reached == nil {
				continue
			}
			// only limits (constants > 1): len(x) == 0 / > 0 style emptiness tests are not limits
			var kv int64
			if kc, ok := bin.Y.(*ssa.Const); ok && kc.Value != nil {
				kv, _ = constant.Int64Val(kc.Value)
			} else if kc, ok := bin.X.(*ssa.Const); ok && kc.Value != nil {
				kv, _ = constant.Int64Val(kc.Value)
			}
			if kv <= 1 {
				continue
			}
			idx++
			n++
			key := fmt.Sprintf("%s:limit(%s)#%d", FnName(fn), field, idx)
			ret, isRet := reached.Instrs[len(reached.Instrs)-1].(*ssa.Return)
			okErr := false
			if isRet && len(ret.Results) > 0 {
				last := ret.Results[len(ret.Results)-1]
				if isErrorType(last.Type()) {
					if k, isK := last.(*ssa.Const); !isK || !k.IsNil() {
						okErr = true
					}
				}
			}
			c.Func(FnName(fn))
			c.Check(okErr, "K6-limit-error", key, p.Pos(bin.Pos()), "reaching the limit on "+field+" returns an error",
				fmt.Sprintf("%s stops silently (no error return) when the number of %s reaches %d: this parser reports a truncated view while the other container views report the whole file", fn.Name(), field, kv))
		}
	}
	c.Floor("K6-limit-error", n, 2)
}

// ---- K9: the effective limit on the number of frames is the same in both container parsers ----
//
// A parser that limits a record list L to K entries and appends to L on every loop iteration that
// also (directly or through a call) appends a frame accepts at most K frames, whatever the limit on
// the frame list itself says. The effective frame limit of container.Parser and of mux.Demuxer is
// the minimum over such lists; the two must agree, otherwise a file one view accepts (GetFeatures,
// DecodeConfig, Decode) is rejected by the other (demuxer, animation reader).

type recLimit struct {
	fn    *ssa.Function
	field string
	k     int64
	pos   token.Pos
}

func c16EffectiveLimits(c *Ctx, p *Program) {
	c.Rule("K9 effective frame limit: for container.Parser and mux.Demuxer, the smallest constant limit on any record list that grows whenever the frame list grows (its append dominates the frame append or the call that performs it, in the same function) is the parser's effective frame limit; both parsers have the same effective limit")
	type side struct {
		name      string
		frames    string // field holding the frame records
		limits    []recLimit
		effective int64
		why       string
		pos       string
	}
	isFrameRec := func(t types.Type) bool {
		sl, ok := t.Underlying().(*types.Slice)
		if !ok {
			return false
		}
		st, ok := sl.Elem().Underlying().(*types.Struct)
		if !ok {
			return false
		}
		hasOff, hasDur := false, false
		for i := 0; i < st.NumFields(); i++ {
			switch specFieldID(st.Field(i).Name()) {
			case "x":
				hasOff = true
			case "duration":
				hasDur = true
			}
		}
		return hasOff && hasDur
	}
	var sides []*side
	for _, tn := range []string{"Parser", "Demuxer"} {
		sd := &side{name: tn, effective: -1}
		var methods []*ssa.Function
		for _, fn := range p.SrcFuncs() {
			if recvNamedIs(fn, tn) && fn.Blocks != nil && (strings.HasSuffix(fn.Pkg.Pkg.Path(), "/mux") || strings.HasSuffix(fn.Pkg.Pkg.Path(), "/container")) {
				methods = append(methods, fn)
			}
		}
		if len(methods) == 0 {
			c.AnchorMissing("K9-effective-limit", "methods of "+tn)
			continue
		}
		// appends to receiver fields: fn -> field -> blocks
		type app struct {
			blk *ssa.BasicBlock
			idx int
		}
		appends := map[*ssa.Function]map[string][]app{}
		for _, fn := range methods {
			for _, b := range fn.Blocks {
				for i, in := range b.Instrs {
					st, ok := in.(*ssa.Store)
					if !ok {
						continue
					}
					f, ok := recvFieldOf(fn, st.Addr)
					if !ok {
						continue
					}
					call, ok := st.Val.(*ssa.Call)
					if !ok {
						continue
					}
					if bi, ok := call.Call.Value.(*ssa.Builtin); !ok || bi.Name() != "append" {
						continue
					}
					if appends[fn] == nil {
						appends[fn] = map[string][]app{}
					}
					appends[fn][f] = append(appends[fn][f], app{b, i})
					if isFrameRec(st.Val.Type()) {
						sd.frames = f
					}
				}
			}
		}
		if sd.frames == "" {
			c.AnchorMissing("K9-effective-limit", "frame list of "+tn)
			continue
		}
		// functions that (transitively, through methods of the same receiver) append a frame
		appendsFrame := map[*ssa.Function]bool{}
		for fn, m := range appends {
			if len(m[sd.frames]) > 0 {
				appendsFrame[fn] = true
			}
		}
		for changed := true; changed; {
			changed = false
			for _, fn := range methods {
				if appendsFrame[fn] {
					continue
				}
				for _, b := range fn.Blocks {
					for _, in := range b.Instrs {
						if call, ok := in.(*ssa.Call); ok {
							if cal := call.Common().StaticCallee(); cal != nil && appendsFrame[cal] {
								appendsFrame[fn] = true
								changed = true
							}
						}
					}
				}
			}
		}
		// limits
		for _, fn := range methods {
			for _, b := range fn.Blocks {
				iff, ok := b.Instrs[len(b.Instrs)-1].(*ssa.If)
				if !ok {
					continue
				}
				bin, ok := iff.Cond.(*ssa.BinOp)
				if !ok {
					continue
				}
				for _, pr := range [][2]ssa.Value{{bin.X, bin.Y}, {bin.Y, bin.X}} {
					call, ok := pr[0].(*ssa.Call)
					if !ok {
						continue
					}
					if bi, ok := call.Call.Value.(*ssa.Builtin); !ok || bi.Name() != "len" {
						continue
					}
					ld, ok := call.Call.Args[0].(*ssa.UnOp)
					if !ok || ld.Op != token.MUL {
						continue
					}
					f, ok := recvFieldOf(fn, ld.X)
					if !ok {
						continue
					}
					k, ok := pr[1].(*ssa.Const)
					if !ok || k.Value == nil || k.Value.Kind() != constant.Int {
						continue
					}
					kv, _ := constant.Int64Val(k.Value)
					if kv <= 1 {
						continue
					}
					sd.limits = append(sd.limits, recLimit{fn, f, kv, bin.Pos()})
				}
			}
		}
		for _, l := range sd.limits {
			applies := l.field == sd.frames
			if !applies {
				// does an append to l.field dominate a frame append (or a call that appends a frame)?
				for fn, m := range appends {
					for _, a := range m[l.field] {
						for _, b := range fn.Blocks {
							for i, in := range b.Instrs {
								isFrameSite := false
								if st, ok := in.(*ssa.Store); ok {
									if f, ok := recvFieldOf(fn, st.Addr); ok && f == sd.frames {
										isFrameSite = true
									}
								}
								if call, ok := in.(*ssa.Call); ok {
									if cal := call.Common().StaticCallee(); cal != nil && appendsFrame[cal] {
										isFrameSite = true
									}
								}
								if !isFrameSite {
									continue
								}
								if (a.blk == b && a.idx < i) || (a.blk != b && a.blk.Dominates(b)) {
									applies = true
								}
							}
						}
					}
				}
			}
			if applies && (sd.effective < 0 || l.k < sd.effective) {
				sd.effective = l.k
				sd.why = fmt.Sprintf("limit %d on %s in %s", l.k, l.field, l.fn.Name())
				sd.pos = p.Pos(l.pos)
			}
		}
		sides = append(sides, sd)
	}
	if len(sides) != 2 {
		return
	}
	a, b := sides[0], sides[1]
	c.Check(a.effective == b.effective && a.effective > 0, "K9-effective-limit", a.name+"~"+b.name, b.pos,
		fmt.Sprintf("both parsers accept at most %d frames (%s; %s)", a.effective, a.why, b.why),
		fmt.Sprintf("container.%s accepts up to %d frames (%s) but mux.%s up to %d (%s): a file with more frames than the smaller limit is reported in full by one container view and rejected by the other", a.name, a.effective, a.why, b.name, b.effective, b.why))
}

// ---- K10: the VP8L header's alpha_is_used bit ----
//
// GetFeatures, the demuxer's per-frame HasAlpha, the VP8X alpha flag written by this package and the
// animation decoder's key-frame test all read the alpha_is_used bit of the VP8L header. The bit is
// the fourth field of the header: after the signature byte (0x2f) and the two 14-bit size fields comes
// a 1-bit write. On this tree it is the constant 1 ("may have alpha"), which is always safe. Any
// computed value must be true whenever some source pixel is not opaque; four seeded changes (by four
// authors) computed it from the transformed pixel buffer or from a scan that stops early. The rule
// accepts the constant only: a correct computation (libwebp writes the real value) would be reported
// too - the price of a rule that cannot prove "scans all source pixels before any transform".
func c16AlphaHint(c *Ctx, p *Program) {
	c.Rule("K10 alpha hint: the 1-bit field that follows the signature byte 0x2f and the two 14-bit size fields in the VP8L header writer is the constant 1; a computed value cannot be shown by this analysis to be set whenever a source pixel is not opaque (it would have to see every source pixel before the transforms rewrite the buffer) and is reported")
	pk := p.SSAPkg("internal/lossless")
	if pk == nil {
		c.AnchorMissing("K10-alpha-hint", "package internal/lossless")
		return
	}
	n := 0
	for _, fn := range p.SrcFuncs() {
		if fn.Pkg != pk || fn.Blocks == nil {
			continue
		}
		// WriteBits calls in block order
		type wb struct {
			call *ssa.Call
			val  ssa.Value
			bits int64
		}
		var seq []wb
		for _, b := range fn.DomPreorder() {
			for _, in := range b.Instrs {
				call, ok := in.(*ssa.Call)
				if !ok {
					continue
				}
				cal := call.Call.StaticCallee()
				if cal == nil || cal.Name() != "WriteBits" || len(call.Call.Args) != 3 {
					continue
				}
				k, ok := call.Call.Args[2].(*ssa.Const)
				if !ok || k.Value == nil {
					seq = append(seq, wb{call, call.Call.Args[1], -1})
					continue
				}
				bits, _ := constant.Int64Val(constant.ToInt(k.Value))
				seq = append(seq, wb{call, call.Call.Args[1], bits})
			}
		}
		for i := 0; i+3 < len(seq); i++ {
			k, ok := seq[i].val.(*ssa.Const)
			if !ok || k.Value == nil || seq[i].bits != 8 {
				continue
			}
			if kv, _ := constant.Int64Val(constant.ToInt(k.Value)); kv != 0x2f {
				continue
			}
			if seq[i+1].bits != 14 || seq[i+2].bits != 14 || seq[i+3].bits != 1 {
				continue
			}
			n++
			c.Func(FnName(fn))
			// every WriteBits call that can be the next one after the second size field (the bit may be
			// written by one of two constant calls under a branch)
			nexts := nextWriteBits(seq[i+2].call)
			badNext := ""
			for _, nx := range nexts {
				if nx == seq[i+3].call {
					continue
				}
				kc, ok := nx.Call.Args[1].(*ssa.Const)
				one := false
				if ok && kc.Value != nil {
					kv, _ := constant.Int64Val(constant.ToInt(kc.Value))
					one = kv == 1
				}
				if !one {
					badNext = p.Pos(nx.Pos())
				}
			}
			if badNext != "" {
				c.Fail("K10-alpha-hint", FnName(fn)+":alpha_is_used", badNext, "alpha_is_used is chosen by a branch (one path writes 1, another writes something else) instead of being the constant 1: GetFeatures, the demuxer, the VP8X alpha flag and the animation decoder's key-frame test trust this bit, and nothing shows that the condition sees every source pixel before the transforms rewrite the buffer - a picture whose bit is 0 while pixels are not opaque is reported as opaque by every header query")
				continue
			}
			v := seq[i+3].val
			for {
				if cv, ok := v.(*ssa.Convert); ok {
					v = cv.X
					continue
				}
				break
			}
			key := FnName(fn) + ":alpha_is_used"
			pos := p.Pos(seq[i+3].call.Pos())
			if kc, ok := v.(*ssa.Const); ok && kc.Value != nil {
				kv, _ := constant.Int64Val(constant.ToInt(kc.Value))
				c.Check(kv == 1, "K10-alpha-hint", key, pos, "alpha_is_used is written as the constant 1 (may have alpha): never contradicts the pixels",
					"alpha_is_used is written as the constant 0: every file announces 'no alpha', so header queries report opaque pictures whose decoded pixels are not")
				continue
			}
			c.Fail("K10-alpha-hint", key, pos, fmt.Sprintf("alpha_is_used is computed (%s) instead of being the constant 1: GetFeatures, the demuxer, the VP8X alpha flag and the animation decoder's key-frame test trust this bit, and nothing shows that the computation sees every source pixel before the transforms rewrite the buffer - a picture whose bit is 0 while pixels are not opaque is reported as opaque by every header query", p.ExprText(seq[i+3].val.Pos())))
		}
	}
	if n == 0 {
		c.AnchorMissing("K10-alpha-hint", "VP8L header writer (WriteBits(0x2f, 8), two 14-bit fields, one 1-bit field)")
	}
}

// nextWriteBits: the WriteBits calls that are the first such call on some path after the given one.
func nextWriteBits(from *ssa.Call) []*ssa.Call {
	var out []*ssa.Call
	isWB := func(in ssa.Instruction) *ssa.Call {
		call, ok := in.(*ssa.Call)
		if !ok {
			return nil
		}
		if cal := call.Call.StaticCallee(); cal != nil && cal.Name() == "WriteBits" && len(call.Call.Args) == 3 {
			return call
		}
		return nil
	}
	seen := map[*ssa.BasicBlock]bool{}
	var scan func(b *ssa.BasicBlock, start int)
	scan = func(b *ssa.BasicBlock, start int) {
		for i := start; i < len(b.Instrs); i++ {
			if c := isWB(b.Instrs[i]); c != nil {
				out = append(out, c)
				return
			}
		}
		for _, s := range b.Succs {
			if !seen[s] {
				seen[s] = true
				scan(s, 0)
			}
		}
	}
	blk := from.Block()
	for i, in := range blk.Instrs {
		if in == ssa.Instruction(from) {
			scan(blk, i+1)
		}
	}
	return out
}
