package main

// S7: symbolic byte-layout execution of container writers.
//
// A writer function is executed symbolically (never concretely): integers are linear forms over
// atoms (lengths of input blobs, fields, values read from inputs), byte slices carry a symbolic
// length and, when they are buffers built by the writer, the list of things stored into them.
// Every branch condition is decided by an assumption about the inputs; a condition not yet covered
// by the assumptions aborts the run and restarts it twice (true/false), so each complete run is
// one class of inputs and the set of runs covers all inputs. Parity tests (x%2, x&1) are decided
// by assumptions as well, so a padded size is plain arithmetic in every run. Loops over a slice
// are summarised: one symbolic iteration gives the per-iteration byte layout and the additive
// deltas, and the loop contributes sum-atoms that are linear in those deltas.
//
// The result of a run is the stream of bytes handed to the output (io.Writer.Write), as a
// sequence of segments with symbolic lengths and contents, plus the error result.

import (
	"fmt"
	"go/constant"
	"go/token"
	"go/types"
	"sort"
	"strings"
	"sync"

	"golang.org/x/tools/go/ssa"
)

// ---- linear forms ----

type Lin struct {
	C int64
	T map[string]int64
}

func linC(c int64) Lin      { return Lin{C: c} }
func linA(a string) Lin     { return Lin{T: map[string]int64{a: 1}} }
func (l Lin) isConst() bool { return len(l.T) == 0 }
func (l Lin) add(o Lin) Lin { return l.comb(o, 1) }
func (l Lin) sub(o Lin) Lin { return l.comb(o, -1) }
func (l Lin) eq(o Lin) bool { d := l.sub(o); return d.isConst() && d.C == 0 }
func (l Lin) comb(o Lin, k int64) Lin {
	r := Lin{C: l.C + k*o.C, T: map[string]int64{}}
	for a, c := range l.T {
		r.T[a] = c
	}
	for a, c := range o.T {
		r.T[a] += k * c
		if r.T[a] == 0 {
			delete(r.T, a)
		}
	}
	return r
}
func (l Lin) scale(k int64) Lin {
	r := Lin{C: l.C * k, T: map[string]int64{}}
	if k == 0 {
		return r
	}
	for a, c := range l.T {
		r.T[a] = c * k
	}
	return r
}
func (l Lin) String() string {
	var as []string
	for a := range l.T {
		as = append(as, a)
	}
	sort.Strings(as)
	var sb strings.Builder
	for _, a := range as {
		c := l.T[a]
		switch {
		case c == 1:
			sb.WriteString("+" + a)
		case c == -1:
			sb.WriteString("-" + a)
		default:
			sb.WriteString(fmt.Sprintf("%+d*%s", c, a))
		}
	}
	if l.C != 0 || sb.Len() == 0 {
		sb.WriteString(fmt.Sprintf("%+d", l.C))
	}
	return strings.TrimPrefix(sb.String(), "+")
}

// ---- symbolic values ----

type svKind int

const (
	kOpaque svKind = iota
	kInt
	kBool
	kBytes
	kPtr    // pointer to a heap object / struct, by path
	kStruct // struct value, by path (with local field overrides)
	kCell   // pointer to a local or captured variable
	kField  // pointer to a field of a local struct variable
	kElem   // pointer to an element of a tracked buffer
	kFunc
	kErr
	kTuple
	kStr
)

type symBuf struct {
	id     int
	length Lin
	fixed  bool // length fixed at creation (make with len, arrays); false: grown by append
	events []bufEvent
	desc   string
}

type bufEvent struct {
	off  Lin
	n    Lin
	kind string // "u32" "u16" "byte" "bytes" "loop"
	val  SV
	body []bufEvent // kind == "loop": the events of one symbolic iteration (offsets relative to its start)
	key  string
}

type cell struct {
	v   SV
	set bool
	typ types.Type
}

type SV struct {
	K      svKind
	L      Lin
	B      bool
	Path   string // canonical access path (inputs) or content id
	Len    *Lin   // kBytes: symbolic length when known other than len(Path)
	Buf    *symBuf
	Off    Lin  // kBytes/kElem: offset inside Buf (or inside the input blob named by Path)
	Whole  bool // kBytes: the whole input blob named by Path
	Nil    bool // kBytes / kErr / kPtr: known nil
	Fn     *ssa.Function
	Binds  []SV
	Cell   *cell
	Field  string
	Fields map[string]SV // kStruct overrides
	Tup    []SV
	Str    string
	Typ    types.Type
	Op     token.Token // kBool with Str=="cmp": the undecided comparison  L Op 0
}

func svInt(l Lin) SV       { return SV{K: kInt, L: l} }
func svBool(b bool) SV     { return SV{K: kBool, B: b} }
func svOpaque(p string) SV { return SV{K: kOpaque, Path: p} }

// ---- segments of the output stream ----

type segment struct {
	n    Lin
	kind string // "u32" "u16" "byte" "bytes" "zeros" "loop"
	val  SV
	body []segment // kind == "loop": one symbolic iteration
	key  string    // loop range key
	pos  string    // source position of the write
}

type needSplit struct{ key string }
type undecided struct{ why string }

type sx struct {
	p         *Program
	assume    map[string]bool
	order     []string // assumption keys in the order they were consulted
	stream    []segment
	heap      map[string]SV
	bufN      int
	steps     int
	notes     map[string]bool
	depth     int
	sinkObj   map[string]bool // paths of writer objects whose Write goes to the stream
	inLoop    int
	opaqueFns map[string]bool
	rlog      []readEvent
	facts     []loopFact
	bind      map[string]int64
	retInLoop bool                  // the last Return executed was inside the loop being summarised
	loopTouch []map[*symBuf]bufMark // per summarised loop: buffers appended to during the body pass
}

type bufMark struct {
	events int
	length Lin
}

func (s *sx) touch(b *symBuf) {
	if len(s.loopTouch) == 0 || b == nil {
		return
	}
	m := s.loopTouch[len(s.loopTouch)-1]
	if _, ok := m[b]; !ok {
		m[b] = bufMark{events: len(b.events), length: b.length}
	}
}

type readEvent struct {
	kind string // "u32" | "slice"
	path string
	off  Lin
	ln   Lin
	pos  string
}

type loopFact struct {
	earlySuccess bool // the first iteration can leave the function with a nil error
	fn           string
	pos          string
	deltas       map[string]Lin // iteration atom -> advance per iteration
	reads        []readEvent
}

func (s *sx) note(n string) { s.notes[n] = true }

// decide: truth value of a condition under the current assumptions (restart when missing).
func (s *sx) decide(key string) bool {
	if v, ok := s.assume[key]; ok {
		return v
	}
	panic(needSplit{key})
}

func atomIsLen(a string) bool { return strings.HasPrefix(a, "len(") }

// parity of a linear form (decided by assumptions on its atoms)
func (s *sx) parity(l Lin) int64 {
	p := l.C % 2
	if p < 0 {
		p = -p
	}
	var as []string
	for a := range l.T {
		as = append(as, a)
	}
	sort.Strings(as)
	for _, a := range as {
		c := l.T[a]
		if c%2 == 0 {
			continue
		}
		if strings.HasPrefix(a, "Σ") || strings.HasPrefix(a, "N{") {
			panic(undecided{"parity of a loop sum " + a})
		}
		if s.decide("odd(" + a + ")") {
			p ^= 1
		}
	}
	return p
}

// cmp decides `l op 0`.
func (s *sx) cmp(l Lin, op token.Token) bool {
	if l.isConst() {
		return cmpInt(op, l.C, 0)
	}
	// lengths are non-negative: decide what follows from that
	allLenPos := true
	for a, c := range l.T {
		if !(atomIsLen(a) || strings.HasPrefix(a, "u32(") || strings.HasPrefix(a, "N{") || strings.HasPrefix(a, "Σ")) || c < 0 {
			allLenPos = false
		}
	}
	if allLenPos {
		switch {
		case l.C > 0 && (op == token.GTR || op == token.GEQ || op == token.NEQ):
			return true
		case l.C > 0 && (op == token.LSS || op == token.LEQ || op == token.EQL):
			return false
		case l.C == 0 && op == token.GEQ:
			return true
		case l.C == 0 && op == token.LSS:
			return false
		}
	}
	// normalise to the three base predicates  F>0, F==0 over a sign-normalised F
	switch op {
	case token.GTR:
		return s.basePos(l)
	case token.GEQ: // F >= 0  <=>  F+1 > 0
		return s.basePos(l.add(linC(1)))
	case token.LSS: // F < 0  <=>  -F > 0
		return s.basePos(l.scale(-1))
	case token.LEQ: // F <= 0 <=> -F+1 > 0
		return s.basePos(l.scale(-1).add(linC(1)))
	case token.EQL:
		return s.baseZero(l)
	case token.NEQ:
		return !s.baseZero(l)
	}
	panic(undecided{"comparison " + op.String()})
}

func (s *sx) basePos(l Lin) bool {
	// single non-negative atom with coefficient 1: F = a + c > 0
	if len(l.T) == 1 {
		for a, c := range l.T {
			if c == 1 && (atomIsLen(a) || strings.HasPrefix(a, "u32(")) {
				// a > -c ; relate to the ">= k" ladder: a >= k
				k := 1 - l.C
				if k <= 0 {
					return true
				}
				return s.atLeast(a, k)
			}
			if c == -1 && (atomIsLen(a) || strings.HasPrefix(a, "u32(")) {
				// c0 - a > 0  <=>  a < c0  <=> !(a >= c0)
				k := l.C
				if k <= 0 {
					return false
				}
				return !s.atLeast(a, k)
			}
		}
	}
	key := "(" + l.String() + ")>0"
	keyLins.Store(key, l)
	return s.decide(key)
}

// keyLins remembers the linear form behind every "(F)>0" assumption key.
var keyLins sync.Map

// atLeast: a >= k, kept consistent across different k through a ladder of assumptions
func (s *sx) atLeast(a string, k int64) bool {
	// consult existing facts
	for key, v := range s.assume {
		var ka int64
		var aa string
		if n, _ := fmt.Sscanf(key, "ge:%d:", &ka); n == 1 {
			aa = key[strings.Index(key[3:], ":")+4:]
			if aa != a {
				continue
			}
			if v && ka >= k {
				return true
			}
			if !v && ka <= k {
				return false
			}
		}
	}
	if s.isNil(a) {
		return false
	}
	return s.decide(fmt.Sprintf("ge:%d:%s", k, a))
}

func (s *sx) isNil(lenAtom string) bool {
	if !atomIsLen(lenAtom) {
		return false
	}
	p := strings.TrimSuffix(strings.TrimPrefix(lenAtom, "len("), ")")
	v, ok := s.assume["nil("+p+")"]
	return ok && v
}

func (s *sx) baseZero(l Lin) bool {
	if len(l.T) == 1 {
		for a, c := range l.T {
			if (c == 1 || c == -1) && (atomIsLen(a) || strings.HasPrefix(a, "u32(")) {
				k := -l.C * c // a == k
				if k < 0 {
					return false
				}
				return s.atLeast(a, k) && !s.atLeast(a, k+1)
			}
		}
	}
	// normalise sign
	neg := l.scale(-1)
	if neg.String() < l.String() {
		l = neg
	}
	res := s.decide("(" + l.String() + ")==0")
	// x == k for a single symbol: from here on the symbol is that constant
	if res && len(l.T) == 1 {
		for a, c := range l.T {
			if c == 1 || c == -1 {
				if s.bind == nil {
					s.bind = map[string]int64{}
				}
				s.bind[a] = -l.C * c
			}
		}
	}
	return res
}

// subst replaces symbols that an equality decision has fixed to a constant.
func (s *sx) subst(l Lin) Lin {
	if len(s.bind) == 0 || len(l.T) == 0 {
		return l
	}
	hit := false
	for a := range l.T {
		if _, ok := s.bind[a]; ok {
			hit = true
		}
	}
	if !hit {
		return l
	}
	r := Lin{C: l.C, T: map[string]int64{}}
	for a, c := range l.T {
		if k, ok := s.bind[a]; ok {
			r.C += c * k
		} else {
			r.T[a] = c
		}
	}
	return r
}

// ---- execution ----

type frame struct {
	fn   *ssa.Function
	vals map[ssa.Value]SV
	free []SV
}

func (s *sx) newBuf(length Lin, fixed bool, desc string) *symBuf {
	s.bufN++
	return &symBuf{id: s.bufN, length: length, fixed: fixed, desc: desc}
}

func (s *sx) lenOf(v SV) Lin {
	switch v.K {
	case kBytes:
		if v.Nil {
			return linC(0)
		}
		if v.Len != nil {
			return *v.Len
		}
		if v.Buf != nil {
			return v.Buf.length.sub(v.Off)
		}
		if v.Path != "" {
			if s.assume["nil("+v.Path+")"] {
				return linC(0)
			}
			return linA("len(" + v.Path + ")")
		}
	case kStr:
		return linC(int64(len(v.Str)))
	case kOpaque, kStruct, kPtr:
		if v.Path != "" {
			return linA("len(" + v.Path + ")")
		}
	}
	panic(undecided{"length of an unknown value"})
}

func contentID(v SV) string {
	switch {
	case v.K == kBytes && v.Whole:
		return v.Path
	case v.K == kBytes && v.Path != "":
		if v.Len != nil {
			return fmt.Sprintf("%s[%s:+%s]", v.Path, v.Off.String(), v.Len.String())
		}
		return fmt.Sprintf("%s[%s:]", v.Path, v.Off.String())
	case v.K == kBytes && v.Buf != nil:
		return fmt.Sprintf("buf%d", v.Buf.id)
	}
	return "?"
}

func (s *sx) pathOf(v SV) string {
	switch v.K {
	case kPtr, kStruct, kOpaque:
		return v.Path
	case kBytes:
		if v.Whole {
			return v.Path
		}
	}
	return ""
}

// valueAtPath: symbolic value of an input location of the given type.
func (s *sx) valueAtPath(path string, t types.Type) SV {
	if v, ok := s.heap[path]; ok {
		return v
	}
	if strings.HasPrefix(path, "global:") {
		if strings.HasSuffix(path, "init$guard") {
			return svBool(false)
		}
		if v, ok := s.p.globalInit()[path]; ok {
			return v
		}
	}
	if isErrorType(t) && strings.HasPrefix(path, "global:") {
		return SV{K: kErr} // sentinel error variables are non-nil
	}
	switch u := t.Underlying().(type) {
	case *types.Basic:
		switch {
		case u.Info()&types.IsBoolean != 0:
			return SV{K: kBool, Path: path, Str: "input"}
		case u.Info()&types.IsInteger != 0:
			if _, named := t.(*types.Named); named {
				atomTypes.Store(path, t)
			}
			return svInt(linA(path))
		case u.Info()&types.IsString != 0:
			return svOpaque(path)
		}
	case *types.Slice:
		if b, ok := u.Elem().Underlying().(*types.Basic); ok && b.Kind() == types.Uint8 {
			return SV{K: kBytes, Path: path, Whole: true}
		}
		return SV{K: kOpaque, Path: path, Typ: t}
	case *types.Struct:
		return SV{K: kStruct, Path: path, Typ: t}
	case *types.Pointer:
		return SV{K: kPtr, Path: path, Typ: t}
	}
	return SV{K: kOpaque, Path: path, Typ: t}
}

func (s *sx) boolOf(v SV) bool {
	switch v.K {
	case kBool:
		if v.Str == "input" {
			return s.decide("bool(" + v.Path + ")")
		}
		if v.Str == "cmp" {
			return s.cmp(v.L, v.Op)
		}
		return v.B
	}
	panic(undecided{"boolean value of " + v.Path})
}

func fieldName(t types.Type, idx int) string {
	st := structOf(t)
	if st == nil {
		if s2, ok := t.Underlying().(*types.Struct); ok {
			st = s2
		}
	}
	if st == nil || idx >= st.NumFields() {
		return fmt.Sprintf("f%d", idx)
	}
	return st.Field(idx).Name()
}

func fieldType(t types.Type, idx int) types.Type {
	st := structOf(t)
	if st == nil {
		if s2, ok := t.Underlying().(*types.Struct); ok {
			st = s2
		}
	}
	if st == nil || idx >= st.NumFields() {
		return nil
	}
	return st.Field(idx).Type()
}

func (s *sx) eval(f *frame, v ssa.Value) SV {
	if sv, ok := f.vals[v]; ok {
		if sv.K == kInt && len(s.bind) > 0 {
			sv.L = s.subst(sv.L)
		}
		return sv
	}
	switch x := v.(type) {
	case *ssa.Const:
		if x.IsNil() {
			if isErrorType(x.Type()) {
				return SV{K: kErr, Nil: true}
			}
			if _, ok := x.Type().Underlying().(*types.Slice); ok {
				return SV{K: kBytes, Nil: true}
			}
			return SV{K: kPtr, Nil: true}
		}
		if x.Value != nil {
			switch x.Value.Kind() {
			case constant.Bool:
				return svBool(constant.BoolVal(x.Value))
			case constant.Int:
				if k, ok := constant.Int64Val(x.Value); ok {
					return svInt(linC(k))
				}
				if k, ok := constant.Uint64Val(x.Value); ok {
					return svInt(linC(int64(k)))
				}
			case constant.String:
				return SV{K: kStr, Str: constant.StringVal(x.Value)}
			}
		}
		// zero value of a struct etc.
		return SV{K: kStruct, Path: "", Fields: map[string]SV{}, Typ: x.Type(), Str: "zero"}
	case *ssa.Function:
		return SV{K: kFunc, Fn: x}
	case *ssa.Global:
		return SV{K: kPtr, Path: "global:" + x.Pkg.Pkg.Path() + "." + x.Name(), Typ: x.Type()}
	case *ssa.FreeVar:
		for i, fv := range f.fn.FreeVars {
			if fv == x && i < len(f.free) {
				return f.free[i]
			}
		}
	case *ssa.Builtin:
		return SV{K: kFunc, Str: x.Name()}
	}
	panic(undecided{fmt.Sprintf("value %s (%T) used before it was computed in %s", v.Name(), v, f.fn.Name())})
}

type retVal struct {
	vals []SV
}

const sxMaxSteps = 200000

// call executes fn symbolically.
func (s *sx) call(fn *ssa.Function, args []SV, free []SV) []SV {
	if fn.Blocks == nil {
		panic(undecided{"no body for " + FnName(fn)})
	}
	s.depth++
	defer func() { s.depth-- }()
	if s.depth > 12 {
		panic(undecided{"call depth"})
	}
	f := &frame{fn: fn, vals: map[ssa.Value]SV{}, free: free}
	for i, p := range fn.Params {
		if i < len(args) {
			f.vals[p] = args[i]
		}
	}
	rs, _ := s.runFrom(f, fn.Blocks[0], nil, nil)
	return rs
}

type loopInfo struct {
	header *ssa.BasicBlock
	body   map[*ssa.BasicBlock]bool
}

func loopOf(h *ssa.BasicBlock) *loopInfo {
	li := &loopInfo{header: h, body: map[*ssa.BasicBlock]bool{h: true}}
	var stack []*ssa.BasicBlock
	for _, p := range h.Preds {
		if h.Dominates(p) {
			stack = append(stack, p)
		}
	}
	if len(stack) == 0 {
		return nil
	}
	for len(stack) > 0 {
		b := stack[len(stack)-1]
		stack = stack[:len(stack)-1]
		if li.body[b] {
			continue
		}
		li.body[b] = true
		for _, p := range b.Preds {
			stack = append(stack, p)
		}
	}
	return li
}

// runFrom executes from block b (entered from prev) until a return; stopAt, if non-nil, ends the
// run when control is about to enter that block (loop body pass) and returns nil.
func (s *sx) runFrom(f *frame, b, prev *ssa.BasicBlock, stopAt *loopInfo) ([]SV, bool) {
	for {
		s.steps++
		if s.steps > sxMaxSteps {
			panic(undecided{"step budget"})
		}
		// entering a loop header from outside: summarise the loop
		if li := loopOf(b); li != nil && (stopAt == nil || stopAt.header != b) && (prev == nil || !li.body[prev]) {
			nb, np, rs, returned := s.summarise(f, li, prev)
			if returned {
				return rs, true
			}
			b, prev = nb, np
			continue
		}
		if stopAt != nil && b == stopAt.header && prev != nil && stopAt.body[prev] {
			// back edge of the loop being summarised: record the phi operands
			for _, in := range b.Instrs {
				phi, ok := in.(*ssa.Phi)
				if !ok {
					break
				}
				for i, p := range b.Preds {
					if p == prev {
						f.vals[backKey{phi}] = s.eval(f, phi.Edges[i])
					}
				}
			}
			return nil, false
		}
		// phis
		for _, in := range b.Instrs {
			phi, ok := in.(*ssa.Phi)
			if !ok {
				break
			}
			if _, pre := f.vals[preset{phi}]; pre {
				f.vals[phi] = f.vals[preset{phi}]
				delete(f.vals, preset{phi})
				continue
			}
			for i, p := range b.Preds {
				if p == prev {
					f.vals[phi] = s.eval(f, phi.Edges[i])
				}
			}
		}
		for _, in := range b.Instrs {
			switch x := in.(type) {
			case *ssa.Phi:
			case *ssa.If:
				var c bool
				if in0, in1 := false, false; stopAt != nil && b == stopAt.header {
					// loop exit test of the loop being summarised: stay inside
					in0, in1 = stopAt.body[b.Succs[0]], stopAt.body[b.Succs[1]]
					if in0 == in1 {
						panic(undecided{"loop exit shape in " + f.fn.Name()})
					}
					c = in0
				} else {
					cv := s.eval(f, x.Cond)
					if j := s.tryMergeDiamond(f, b, cv); j != nil {
						prev = diamondPrev
						b = j
						goto nextBlock
					}
					c = s.boolOf(cv)
				}
				prev = b
				if c {
					b = b.Succs[0]
				} else {
					b = b.Succs[1]
				}
			case *ssa.Jump:
				prev = b
				b = b.Succs[0]
			case *ssa.Return:
				var rs []SV
				for _, r := range x.Results {
					rs = append(rs, s.eval(f, r))
				}
				// (a return inside a summarised loop body ends the function in the first iteration:
				// exact under the uniform-class reading of per-element assumptions)
				s.retInLoop = stopAt != nil && returnsFromInside(stopAt, b)
				return rs, true
			case *ssa.Panic:
				panic(errorRun{})
			default:
				s.exec(f, in)
			}
		}
	nextBlock:
	}
}

// diamondPrev marks "entered from a merged diamond": the phis were preset by tryMergeDiamond.
var diamondPrev = &ssa.BasicBlock{}

// tryMergeDiamond: an undecided condition whose two arms only compute values (no stores, calls or
// writes) and meet again at once is not worth a case split: both arms are evaluated and the phis at
// the join become if-then-else atoms. Returns the join block, or nil when the shape does not apply
// or the condition is already decided.
func (s *sx) tryMergeDiamond(f *frame, b *ssa.BasicBlock, cv SV) *ssa.BasicBlock {
	if cv.K != kBool || cv.Str != "cmp" {
		return nil // boolean inputs are real classes
	}
	key := ""
	if cv.Str == "cmp" {
		if cv.L.isConst() {
			return nil
		}
		key = "(" + cv.L.String() + ")" + cv.Op.String() + "0"
		// presence / length conditions shape the layout: always a real case split
		onlyLen := true
		for a := range cv.L.T {
			if !atomIsLen(a) {
				onlyLen = false
			}
		}
		if onlyLen {
			return nil
		}
	} else {
		key = "bool(" + cv.Path + ")"
		if _, ok := s.assume[key]; ok {
			return nil
		}
	}
	pure := func(blk *ssa.BasicBlock) bool {
		for _, in := range blk.Instrs {
			switch in.(type) {
			case *ssa.BinOp, *ssa.Convert, *ssa.ChangeType, *ssa.Jump, *ssa.DebugRef:
			case *ssa.UnOp:
				if in.(*ssa.UnOp).Op == token.MUL {
					return false
				}
			default:
				return false
			}
		}
		return true
	}
	arm := func(blk *ssa.BasicBlock) (join, last *ssa.BasicBlock, ok bool) {
		// either the join itself, or one pure block jumping to the join
		if len(blk.Preds) == 1 && len(blk.Succs) == 1 && pure(blk) {
			return blk.Succs[0], blk, true
		}
		return blk, b, true
	}
	j0, l0, ok0 := arm(b.Succs[0])
	j1, l1, ok1 := arm(b.Succs[1])
	if !ok0 || !ok1 || j0 != j1 || (l0 == b && l1 == b) {
		return nil
	}
	join := j0
	if len(join.Preds) != 2 || loopOf(join) != nil {
		return nil
	}
	// the comparison must be cheap to leave undecided: only for conditions on values that never reach
	// lengths (we cannot know; so restrict to joins whose phis are all integers or booleans)
	for _, in := range join.Instrs {
		phi, ok := in.(*ssa.Phi)
		if !ok {
			break
		}
		bt, ok := phi.Type().Underlying().(*types.Basic)
		if !ok || bt.Info()&(types.IsInteger|types.IsBoolean) == 0 {
			return nil
		}
	}
	for _, l := range []*ssa.BasicBlock{l0, l1} {
		if l == b {
			continue
		}
		for _, in := range l.Instrs {
			if _, isJ := in.(*ssa.Jump); isJ {
				continue
			}
			s.exec(f, in)
		}
	}
	for _, in := range join.Instrs {
		phi, ok := in.(*ssa.Phi)
		if !ok {
			break
		}
		var v0, v1 SV
		for i, p := range join.Preds {
			if p == l0 {
				v0 = s.eval(f, phi.Edges[i])
			}
			if p == l1 {
				v1 = s.eval(f, phi.Edges[i])
			}
		}
		switch {
		case v0.K == kInt && v1.K == kInt && v0.L.eq(v1.L):
			f.vals[preset{phi}] = v0
		case v0.K == kInt && v1.K == kInt:
			f.vals[preset{phi}] = svInt(defAtom("ite("+key+","+v0.L.String()+","+v1.L.String()+")", "ite", cv.Op, cv.L, v0.L, v1.L))
		default:
			// booleans and the rest: fall back to a real split
			for _, in2 := range join.Instrs {
				if p2, ok := in2.(*ssa.Phi); ok {
					delete(f.vals, preset{p2})
				}
			}
			return nil
		}
	}
	return join
}

type backKey struct{ phi *ssa.Phi }
type preset struct{ phi *ssa.Phi }

func (backKey) Name() string                  { return "back" }
func (backKey) String() string                { return "back" }
func (backKey) Type() types.Type              { return nil }
func (backKey) Parent() *ssa.Function         { return nil }
func (backKey) Referrers() *[]ssa.Instruction { return nil }
func (backKey) Pos() token.Pos                { return token.NoPos }
func (preset) Name() string                   { return "preset" }
func (preset) String() string                 { return "preset" }
func (preset) Type() types.Type               { return nil }
func (preset) Parent() *ssa.Function          { return nil }
func (preset) Referrers() *[]ssa.Instruction  { return nil }
func (preset) Pos() token.Pos                 { return token.NoPos }

type errorRun struct{}

// summarise executes one symbolic iteration of the loop and binds the header phis to their
// values after the loop; returns the block to continue at (the loop exit) and its predecessor.
func (s *sx) summarise(f *frame, li *loopInfo, prev *ssa.BasicBlock) (*ssa.BasicBlock, *ssa.BasicBlock, []SV, bool) {
	h := li.header
	iff, ok := h.Instrs[len(h.Instrs)-1].(*ssa.If)
	if !ok {
		panic(undecided{"loop without exit test in its header in " + f.fn.Name()})
	}
	var exit *ssa.BasicBlock
	switch {
	case li.body[h.Succs[0]] && !li.body[h.Succs[1]]:
		exit = h.Succs[1]
	case li.body[h.Succs[1]] && !li.body[h.Succs[0]]:
		exit = h.Succs[0]
	default:
		panic(undecided{"loop exit shape in " + f.fn.Name()})
	}
	// entry values of the header phis
	type acc struct {
		phi   *ssa.Phi
		entry SV
		atom  string
	}
	var accs []acc
	for _, in := range h.Instrs {
		phi, ok := in.(*ssa.Phi)
		if !ok {
			break
		}
		var entry SV
		for i, p := range h.Preds {
			if p == prev {
				entry = s.eval(f, phi.Edges[i])
			}
		}
		accs = append(accs, acc{phi: phi, entry: entry, atom: fmt.Sprintf("it:%s.%s", f.fn.Name(), phi.Name())})
	}
	// range key: the bound of the exit test  (i < bound)
	key := fmt.Sprintf("%s.b%d", f.fn.Name(), h.Index)
	var ind *ssa.Phi
	var bound Lin
	haveBound := false
	indOff := int64(0)
	if bin, ok := iff.Cond.(*ssa.BinOp); ok && bin.Op == token.LSS {
		if phi, ok := bin.X.(*ssa.Phi); ok && phi.Block() == h {
			ind = phi
		} else if add, ok := bin.X.(*ssa.BinOp); ok && add.Op == token.ADD {
			// range loops: the index is incremented before the test
			if phi, ok := add.X.(*ssa.Phi); ok && phi.Block() == h {
				if k, ok := add.Y.(*ssa.Const); ok && k.Value != nil {
					if kv, ok := constant.Int64Val(k.Value); ok {
						ind = phi
						indOff = kv
					}
				}
			}
		}
	}
	// symbolic iteration
	for _, a := range accs {
		switch {
		case a.entry.K == kInt:
			f.vals[preset{a.phi}] = svInt(linA(a.atom))
		case a.entry.K == kBytes && a.entry.Buf == nil && a.entry.Path != "" && !a.entry.Nil && isByteSlice(a.phi.Type()):
			// a cursor kept as a re-sliced input: its offset is the iteration variable
			off := linA(a.atom)
			n := linA("len(" + a.entry.Path + ")").sub(off)
			f.vals[preset{a.phi}] = SV{K: kBytes, Path: a.entry.Path, Off: off, Len: &n}
		default:
			f.vals[preset{a.phi}] = SV{K: kOpaque, Path: a.atom}
		}
	}
	if ind != nil {
		// the induction variable is "some index": elements are named elem(S)
		f.vals[preset{ind}] = SV{K: kInt, L: linA("idx"), Str: "index"}
	}
	saved := s.stream
	s.stream = nil
	s.inLoop++
	var bodyRet []SV
	bodyReturned := false
	logStart := len(s.rlog)
	s.loopTouch = append(s.loopTouch, map[*symBuf]bufMark{})
	func() {
		defer func() { s.inLoop-- }()
		bodyRet, bodyReturned = s.runFrom(f, h, nil, li)
	}()
	touched := s.loopTouch[len(s.loopTouch)-1]
	s.loopTouch = s.loopTouch[:len(s.loopTouch)-1]
	body := s.stream
	s.stream = saved
	lpos := s.p.Pos(iff.Pos())
	if lpos == "-" || lpos == "" {
		for _, bb := range f.fn.Blocks {
			if !li.body[bb] {
				continue
			}
			for _, in := range bb.Instrs {
				if pp := s.p.Pos(in.Pos()); pp != "-" && pp != "" && (lpos == "-" || lpos == "") {
					lpos = pp
				}
			}
		}
	}
	fact := loopFact{fn: FnName(f.fn), pos: lpos, deltas: map[string]Lin{}, reads: append([]readEvent{}, s.rlog[logStart:]...)}
	for _, a := range accs {
		back, ok := f.vals[backKey{a.phi}]
		if !ok {
			continue
		}
		switch {
		case a.entry.K == kInt && back.K == kInt:
			fact.deltas[a.atom] = back.L.sub(linA(a.atom))
		case a.entry.K == kBytes && back.K == kBytes && back.Path == a.entry.Path && back.Buf == nil && a.entry.Buf == nil && a.entry.Path != "":
			fact.deltas[a.atom] = back.Off.sub(linA(a.atom))
		}
	}
	if len(fact.reads) > 0 {
		s.facts = append(s.facts, fact)
	}
	if ind != nil {
		if bin, ok := iff.Cond.(*ssa.BinOp); ok {
			bv := s.eval(f, bin.Y)
			if bv.K == kInt {
				bound = bv.L
				haveBound = true
				key = bound.String()
			}
		}
	}
	// trip count
	var N Lin
	if haveBound && ind != nil {
		var start Lin
		for _, a := range accs {
			if a.phi == ind && a.entry.K == kInt {
				start = a.entry.L
			}
		}
		N = bound.sub(start.add(linC(indOff)))
		// the loop runs bound-start times when that is non-negative
		if N.isConst() && N.C < 0 {
			N = linC(0)
		}
	} else {
		N = linA("N{" + key + "}")
	}
	// does the loop run at all?
	runs := s.cmp(N, token.GTR)
	if !runs {
		for _, a := range accs {
			f.vals[preset{a.phi}] = a.entry
		}
		for _, in := range h.Instrs {
			if phi, ok := in.(*ssa.Phi); ok {
				f.vals[phi] = f.vals[preset{phi}]
				delete(f.vals, preset{phi})
				continue
			}
			if _, ok := in.(*ssa.If); ok {
				continue
			}
			s.exec(f, in)
		}
		return exit, h, nil, false
	}
	if bodyReturned {
		// the first iteration leaves the function
		if n := len(bodyRet); s.retInLoop && n > 0 && bodyRet[n-1].K == kErr && bodyRet[n-1].Nil && len(s.facts) > 0 && s.facts[len(s.facts)-1].pos == lpos {
			s.facts[len(s.facts)-1].earlySuccess = true
		}
		s.stream = append(s.stream, body...)
		return nil, nil, bodyRet, true
	}
	sum := func(delta Lin) Lin {
		r := N.scale(delta.C)
		if !N.isConst() && delta.C != 0 && len(N.T) > 0 {
			// c * N is linear: fine
		}
		var as []string
		for a := range delta.T {
			as = append(as, a)
		}
		sort.Strings(as)
		for _, a := range as {
			r = r.add(linA("Σ{" + key + "}(" + a + ")").scale(delta.T[a]))
		}
		return r
	}
	for _, a := range accs {
		back, ok := f.vals[backKey{a.phi}]
		delete(f.vals, backKey{a.phi})
		if a.phi == ind {
			if haveBound {
				f.vals[preset{a.phi}] = svInt(bound.sub(linC(indOff)))
			} else {
				f.vals[preset{a.phi}] = svOpaque("after:" + a.atom)
			}
			continue
		}
		if ok && a.entry.K == kInt && back.K == kInt {
			delta := back.L.sub(linA(a.atom))
			if _, self := delta.T[a.atom]; !self {
				f.vals[preset{a.phi}] = svInt(a.entry.L.add(sum(delta)))
				continue
			}
		}
		if ok && a.entry.K == kBytes && back.K == kBytes && a.entry.Buf != nil && back.Buf == a.entry.Buf {
			// a buffer grown by append inside the loop: its length was advanced by the events
			f.vals[preset{a.phi}] = back
			continue
		}
		f.vals[preset{a.phi}] = svOpaque("after:" + a.atom)
	}
	if len(body) > 0 {
		var n Lin
		for _, sg := range body {
			n = n.add(sg.n)
		}
		s.stream = append(s.stream, segment{n: sum(n), kind: "loop", body: body, key: key})
	}
	// buffers built outside the loop and appended to inside it: one iteration's stores become a
	// repeated group
	for buf, mark := range touched {
		if buf.fixed {
			continue // stores at computed offsets into a pre-sized buffer are kept as they are
		}
		iter := append([]bufEvent{}, buf.events[mark.events:]...)
		var n Lin
		for i := range iter {
			iter[i].off = iter[i].off.sub(mark.length)
			n = n.add(iter[i].n)
		}
		buf.events = append(buf.events[:mark.events:mark.events], bufEvent{off: mark.length, n: sum(n), kind: "loop", body: iter, key: key})
		buf.length = mark.length.add(sum(n))
		if len(s.loopTouch) > 0 {
			s.touch(buf)
		}
	}
	// continue at the exit: phis of the exit block take the header's values
	// run the header once more "after the loop" so that values defined in it are current
	for _, in := range h.Instrs {
		if phi, ok := in.(*ssa.Phi); ok {
			if pv, ok := f.vals[preset{phi}]; ok {
				f.vals[phi] = pv
				delete(f.vals, preset{phi})
			}
			continue
		}
		if _, ok := in.(*ssa.If); ok {
			continue
		}
		s.exec(f, in)
	}
	return exit, h, nil, false
}

func (s *sx) emit(n Lin, kind string, val SV, pos string) {
	s.stream = append(s.stream, segment{n: n, kind: kind, val: val, pos: pos})
}

// flatten a written byte slice into segments (expanding the stores into a writer-built buffer)
func (s *sx) emitBytes(b SV, pos string) {
	if b.K != kBytes {
		panic(undecided{"Write of a non-slice value"})
	}
	if b.Nil {
		return
	}
	if b.Buf == nil {
		s.emit(s.lenOf(b), "bytes", b, pos)
		return
	}
	total := s.lenOf(b)
	cur := b.Off
	end := b.Off.add(total)
	for _, ev := range b.Buf.events {
		gap := ev.off.sub(cur)
		if !gap.isConst() {
			panic(undecided{fmt.Sprintf("a variable-size region [%s, %s) of a buffer is handed to the output without having been filled", cur.String(), ev.off.String())})
		}
		if gap.C < 0 {
			// event before the written window or overlapping
			if ev.off.add(ev.n).sub(b.Off).isConst() && ev.off.add(ev.n).sub(b.Off).C <= 0 {
				continue
			}
			panic(undecided{fmt.Sprintf("overlapping stores into an output buffer at offset %s", ev.off.String())})
		}
		if gap.C > 0 {
			s.emit(gap, "zeros", SV{}, pos)
		}
		switch {
		case ev.kind == "bytes" && ev.val.K == kBytes && ev.val.Buf != nil && ev.val.Buf != b.Buf:
			// a writer-built buffer stored inside another one: expand it in place
			s.emitBytes(ev.val, pos)
		case ev.kind == "loop":
			var n1 Lin
			for _, be := range ev.body {
				n1 = n1.add(be.n)
			}
			tmp := &symBuf{id: -1, length: n1, fixed: true, events: ev.body}
			saved := s.stream
			s.stream = nil
			s.emitBytes(SV{K: kBytes, Buf: tmp}, pos)
			bodySegs := s.stream
			s.stream = saved
			s.stream = append(s.stream, segment{n: ev.n, kind: "loop", body: bodySegs, key: ev.key, pos: pos})
		default:
			s.emit(ev.n, ev.kind, ev.val, pos)
		}
		cur = ev.off.add(ev.n)
	}
	tail := end.sub(cur)
	if !tail.isConst() {
		panic(undecided{fmt.Sprintf("the output buffer of length %s is filled only up to %s", end.String(), cur.String())})
	}
	if tail.C < 0 {
		panic(undecided{fmt.Sprintf("stores past the end of the output buffer (length %s, filled to %s)", end.String(), cur.String())})
	}
	if tail.C > 0 {
		s.emit(tail, "zeros", SV{}, pos)
	}
}

func (s *sx) bufStore(dst SV, n Lin, kind string, val SV) {
	if dst.Buf == nil {
		return // store into memory that is not an output buffer we track
	}
	s.touch(dst.Buf)
	dst.Buf.events = append(dst.Buf.events, bufEvent{off: dst.Off, n: n, kind: kind, val: val})
}

// globalInit: values the package initialisers store into package-level variables, computed once by
// executing every module package's init symbolically (only straight-line constant initialisation
// is kept; anything that needs an assumption is left unknown).
var globalInitMemo = map[*Program]map[string]SV{}

func (p *Program) globalInit() map[string]SV {
	if m, ok := globalInitMemo[p]; ok {
		return m
	}
	m := map[string]SV{}
	globalInitMemo[p] = m
	for _, pk := range p.Pkgs {
		sp := p.SSA.Package(pk.Types)
		if sp == nil {
			continue
		}
		ini := sp.Func("init")
		if ini == nil || ini.Blocks == nil {
			continue
		}
		s := &sx{p: p, assume: map[string]bool{}, heap: map[string]SV{}, notes: map[string]bool{}}
		func() {
			defer func() { recover() }()
			s.call(ini, nil, nil)
		}()
		prefix := "global:" + pk.Types.Path() + "."
		for k, v := range s.heap {
			if strings.HasPrefix(k, prefix) && (v.K == kInt && v.L.isConst() || v.K == kBool && v.Str != "input" || v.K == kStr || (v.K == kBytes && v.Buf != nil && v.Buf.fixed)) {
				m[k] = v
			}
		}
	}
	return m
}

// returnsFromInside: block r (ending in a return) is reached from the loop body without passing
// through the loop's normal exit (the out-of-loop successor of the header's test, which is also
// where break statements go).
func returnsFromInside(li *loopInfo, r *ssa.BasicBlock) bool {
	if li.body[r] {
		return true
	}
	h := li.header
	var exit *ssa.BasicBlock
	for _, s := range h.Succs {
		if !li.body[s] {
			exit = s
		}
	}
	seen := map[*ssa.BasicBlock]bool{}
	var stack []*ssa.BasicBlock
	for b := range li.body {
		for _, s := range b.Succs {
			if !li.body[s] && s != exit {
				stack = append(stack, s)
			}
		}
	}
	for len(stack) > 0 {
		b := stack[len(stack)-1]
		stack = stack[:len(stack)-1]
		if seen[b] || b == exit {
			continue
		}
		seen[b] = true
		if b == r {
			return true
		}
		stack = append(stack, b.Succs...)
	}
	return false
}
