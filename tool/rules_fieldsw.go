package main

// W4 header values (writer side of the V rules): the values the container writers put into the
// VP8X canvas fields, the ANIM chunk and the ANMF frame header, read off the S7 byte layout.
//
// Every opaque atom the executor creates (byte(x), (x>>8), (x/2), ite(c,a,b), ...) is registered
// with its operator and operands, so a written byte can be taken apart again: "byte k of V".
// Three consecutive bytes 0,1,2 of the same V are a 24-bit little-endian field holding V.

import (
	"fmt"
	"go/constant"
	"go/token"
	"go/types"
	"sort"
	"strings"
	"sync"
)

type atomDef struct {
	op   string
	cop  token.Token
	args []Lin
}

var atomDefs sync.Map  // atom name -> atomDef
var atomTypes sync.Map // input path -> named integer type

func defAtom(name, op string, cop token.Token, args ...Lin) Lin {
	if _, ok := atomDefs.Load(name); !ok {
		atomDefs.Store(name, atomDef{op: op, cop: cop, args: args})
	}
	return linA(name)
}

func soleAtom(l Lin) (string, bool) {
	if l.C != 0 || len(l.T) != 1 {
		return "", false
	}
	for a, c := range l.T {
		if c == 1 {
			return a, true
		}
	}
	return "", false
}

func defOf(l Lin) (atomDef, bool) {
	a, ok := soleAtom(l)
	if !ok {
		return atomDef{}, false
	}
	d, ok := atomDefs.Load(a)
	if !ok {
		return atomDef{}, false
	}
	return d.(atomDef), true
}

// evalLin evaluates a linear form with registered atoms under an environment for the input atoms.
func evalLin(l Lin, env func(string) (int64, bool)) (int64, bool) {
	r := l.C
	for a, c := range l.T {
		v, ok := evalAtom(a, env)
		if !ok {
			return 0, false
		}
		r += c * v
	}
	return r, true
}

func evalAtom(a string, env func(string) (int64, bool)) (int64, bool) {
	if v, ok := env(a); ok {
		return v, true
	}
	dv, ok := atomDefs.Load(a)
	if !ok {
		return 0, false
	}
	d := dv.(atomDef)
	var xs []int64
	for _, ar := range d.args {
		v, ok := evalLin(ar, env)
		if !ok {
			return 0, false
		}
		xs = append(xs, v)
	}
	switch d.op {
	case "byte":
		return xs[0] & 0xff, true
	case "u16":
		return xs[0] & 0xffff, true
	case "^":
		return ^xs[0], true
	case "ite":
		if cmpInt(d.cop, xs[0], 0) {
			return xs[1], true
		}
		return xs[2], true
	case "|":
		return xs[0] | xs[1], true
	case "&":
		return xs[0] & xs[1], true
	case "&^":
		return xs[0] &^ xs[1], true
	case "<<":
		if xs[1] < 0 || xs[1] > 62 {
			return 0, false
		}
		return xs[0] << uint(xs[1]), true
	case ">>":
		if xs[1] < 0 || xs[1] > 62 {
			return 0, false
		}
		return xs[0] >> uint(xs[1]), true
	case "/":
		if xs[1] == 0 {
			return 0, false
		}
		return xs[0] / xs[1], true
	case "%":
		if xs[1] == 0 {
			return 0, false
		}
		return xs[0] % xs[1], true
	case "*":
		return xs[0] * xs[1], true
	}
	return 0, false
}

// inputAtoms: the unregistered atoms a form depends on.
func inputAtoms(l Lin, out map[string]bool) {
	for a := range l.T {
		if dv, ok := atomDefs.Load(a); ok {
			for _, ar := range dv.(atomDef).args {
				inputAtoms(ar, out)
			}
			continue
		}
		out[a] = true
	}
}

type hbyte struct {
	v     Lin // the value this byte is part of
	k     int // byte number inside v
	known bool
	desc  string
}

// byteOf: l is the written value of one byte; returns (V, k) with l == byte k of V.
func byteOf(l Lin) (Lin, int) {
	if d, ok := defOf(l); ok && d.op == "byte" {
		l = d.args[0]
	}
	if d, ok := defOf(l); ok && d.op == ">>" && d.args[1].isConst() && d.args[1].C%8 == 0 {
		return d.args[0], int(d.args[1].C / 8)
	}
	return l, 0
}

// flatten the first n bytes of a payload into per-byte descriptions
func headerBytes(segs []segment, n int) ([]hbyte, bool) {
	var out []hbyte
	for _, sg := range segs {
		if len(out) >= n {
			break
		}
		if !sg.n.isConst() {
			return out, false
		}
		switch sg.kind {
		case "zeros":
			for i := int64(0); i < sg.n.C; i++ {
				out = append(out, hbyte{v: linC(0), known: true, desc: "0"})
			}
		case "byte":
			if sg.val.K != kInt {
				return out, false
			}
			v, k := byteOf(sg.val.L)
			out = append(out, hbyte{v: v, k: k, known: true, desc: sg.val.L.String()})
		case "u16", "u32":
			if sg.val.K != kInt {
				return out, false
			}
			v := sg.val.L
			if d, ok := defOf(v); ok && (d.op == "u16" || d.op == "u32") {
				v = d.args[0]
			}
			for i := 0; i < int(sg.n.C); i++ {
				out = append(out, hbyte{v: v, k: i, known: true, desc: sg.val.L.String()})
			}
		default:
			return out, false
		}
	}
	return out, len(out) >= n
}

// fieldAt: bytes [o, o+n) are bytes 0..n-1 of one value.
func fieldAt(hb []hbyte, o, n int) (Lin, bool) {
	if o+n > len(hb) {
		return Lin{}, false
	}
	allConst := true
	for i := 0; i < n; i++ {
		if !hb[o+i].v.isConst() {
			allConst = false
		}
	}
	if allConst {
		var c int64
		for i := 0; i < n; i++ {
			b := (hb[o+i].v.C >> uint(8*hb[o+i].k)) & 0xff
			c |= b << uint(8*i)
		}
		return linC(c), true
	}
	for i := 0; i < n; i++ {
		if hb[o+i].k != i || !hb[o+i].v.eq(hb[o].v) {
			return Lin{}, false
		}
	}
	return hb[o].v, true
}

func pathField(atom string) string {
	if i := strings.LastIndex(atom, "."); i >= 0 {
		return atom[i+1:]
	}
	return atom
}

func describeBytes(hb []hbyte, o, n int) string {
	var s []string
	for i := o; i < o+n && i < len(hb); i++ {
		s = append(s, hb[i].desc)
	}
	return strings.Join(s, " ")
}

// minusOne: l == A - 1 for a single atom A.
func minusOne(l Lin) bool {
	if l.C != -1 || len(l.T) != 1 {
		return false
	}
	for _, c := range l.T {
		return c == 1
	}
	return false
}

func enumConsts(t types.Type) map[string]int64 {
	out := map[string]int64{}
	nt, ok := t.(*types.Named)
	if !ok || nt.Obj().Pkg() == nil {
		return out
	}
	sc := nt.Obj().Pkg().Scope()
	for _, n := range sc.Names() {
		if k, ok := sc.Lookup(n).(*types.Const); ok && types.Identical(k.Type(), t) {
			if v, ok := constant.Int64Val(constant.ToInt(k.Val())); ok {
				out[n] = v
			}
		}
	}
	return out
}

// checkHeaderValues returns the first problem with the header field values of one run ("" if none)
// and the number of fields it looked at.
func checkHeaderValues(rf runFacts) (string, int) {
	n := 0
	for _, ch := range rf.chunks {
		switch ch.fourcc {
		case "VP8X":
			hb, ok := headerBytes(ch.payload, 10)
			if !ok {
				return "the VP8X payload is not written as ten fixed bytes", n
			}
			for i := 1; i <= 3; i++ {
				if !hb[i].v.isConst() || (hb[i].v.C>>uint(8*hb[i].k))&0xff != 0 {
					return fmt.Sprintf("reserved byte %d of the VP8X payload is written as %s, the format requires 0", i, hb[i].desc), n
				}
			}
			for _, f := range []struct {
				name string
				off  int
			}{{"canvas width", 4}, {"canvas height", 7}} {
				v, ok := fieldAt(hb, f.off, 3)
				n++
				if !ok {
					return fmt.Sprintf("the VP8X %s is not one 24-bit little-endian value (bytes: %s)", f.name, describeBytes(hb, f.off, 3)), n
				}
				if !minusOne(v) && !v.isConst() {
					return fmt.Sprintf("the VP8X %s field holds %s; the format stores the size minus one", f.name, v.String()), n
				}
			}
		case "ANIM":
			hb, ok := headerBytes(ch.payload, 6)
			if !ok {
				return "the ANIM payload is not written as six fixed bytes", n
			}
			if _, ok := fieldAt(hb, 0, 4); !ok {
				return "the ANIM background colour is not one 32-bit little-endian value (" + describeBytes(hb, 0, 4) + ")", n
			}
			lc, ok := fieldAt(hb, 4, 2)
			n++
			if !ok {
				return "the ANIM loop count is not one 16-bit little-endian value (" + describeBytes(hb, 4, 2) + ")", n
			}
			if a, ok := soleAtom(lc); !lc.isConst() && (!ok || !strings.Contains(strings.ToLower(pathField(a)), "loop")) {
				return fmt.Sprintf("the ANIM loop count field holds %s, not the loop count that was set", lc.String()), n
			}
		case "ANMF*", "ANMF":
			hb, ok := headerBytes(ch.payload, 16)
			if !ok {
				return "the ANMF frame header is not written as sixteen fixed bytes", n
			}
			for _, sf := range anmfFields {
				v, ok := fieldAt(hb, int(sf.off), 3)
				n++
				if !ok {
					return fmt.Sprintf("ANMF field %s is not one 24-bit little-endian value (bytes: %s)", sf.id, describeBytes(hb, int(sf.off), 3)), n
				}
				switch sf.id {
				case "x", "y":
					d, isDef := defOf(v)
					okv := v.isConst() && v.C == 0
					if isDef && d.op == "/" && d.args[1].isConst() && d.args[1].C == 2 {
						if a, ok := soleAtom(d.args[0]); ok && specFieldID(pathField(a)) == sf.id {
							okv = true
						}
					}
					if isDef && d.op == ">>" && d.args[1].isConst() && d.args[1].C == 1 {
						if a, ok := soleAtom(d.args[0]); ok && specFieldID(pathField(a)) == sf.id {
							okv = true
						}
					}
					if !okv {
						return fmt.Sprintf("the ANMF frame %s field holds %s; the format stores the frame's %s offset divided by two", sf.id, v.String(), sf.id), n
					}
				case "w", "h":
					if !(minusOne(v) || (v.isConst() && v.C == 0)) {
						return fmt.Sprintf("the ANMF frame %s field holds %s; the format stores the frame size minus one", sf.id, v.String()), n
					}
				case "duration":
					a, ok := soleAtom(v)
					if !(ok && specFieldID(pathField(a)) == "duration") && !v.isConst() {
						return fmt.Sprintf("the ANMF duration field holds %s, not the frame's duration", v.String()), n
					}
				}
			}
			// flags byte
			fb := hb[15]
			n++
			if fb.k != 0 {
				return "the ANMF flags byte is a higher byte of " + fb.v.String(), n
			}
			ins := map[string]bool{}
			inputAtoms(fb.v, ins)
			type ev struct {
				atom string
				id   string
				vals map[string]int64
			}
			var evs []ev
			var other []string
			for a := range ins {
				id := specFieldID(pathField(a))
				tv, hasT := atomTypes.Load(a)
				if (id == "dispose" || id == "blend") && hasT {
					evs = append(evs, ev{a, id, enumConsts(tv.(types.Type))})
					continue
				}
				other = append(other, a)
			}
			sort.Strings(other)
			if len(other) > 0 {
				return fmt.Sprintf("the ANMF flags byte (%s) depends on %s: the format defines it by the frame's dispose and blend methods alone, so the methods that were asked for are not the ones a reader finds", fb.v.String(), strings.Join(other, ", ")), n
			}
			sort.Slice(evs, func(i, j int) bool { return evs[i].id < evs[j].id })
			// enumerate the declared constants
			var rec func(i int, env map[string]int64, names map[string]string) string
			rec = func(i int, env map[string]int64, names map[string]string) string {
				if i == len(evs) {
					got, ok := evalLin(fb.v, func(a string) (int64, bool) { v, ok := env[a]; return v, ok })
					if !ok {
						return "the ANMF flags byte " + fb.v.String() + " cannot be evaluated"
					}
					want := int64(0)
					for _, sfl := range anmfFlags {
						if nm, ok := names[sfl.id]; ok && sfl.setName.MatchString(nm) {
							want |= sfl.mask
						}
					}
					if got&0xff != want {
						return fmt.Sprintf("for %v the ANMF flags byte is written as %#x; the format defines %#x (bit 0 dispose to background, bit 1 do not blend, other bits 0)", names, got&0xff, want)
					}
					return ""
				}
				ks := make([]string, 0, len(evs[i].vals))
				for k := range evs[i].vals {
					ks = append(ks, k)
				}
				sort.Strings(ks)
				for _, k := range ks {
					env[evs[i].atom] = evs[i].vals[k]
					names[evs[i].id] = k
					if why := rec(i+1, env, names); why != "" {
						return why
					}
				}
				return ""
			}
			if len(evs) > 0 {
				if why := rec(0, map[string]int64{}, map[string]string{}); why != "" {
					return why, n
				}
			} else if !(fb.v.isConst()) {
				return "the ANMF flags byte " + fb.v.String() + " does not depend on the frame's dispose / blend methods", n
			}
			if len(evs) == 1 {
				return fmt.Sprintf("the ANMF flags byte (%s) depends on only one of the frame's dispose and blend methods", fb.v.String()), n
			}
		}
	}
	return "", n
}
