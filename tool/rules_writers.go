package main

// A5: container writers (C14, C15) decided on the symbolic byte layout produced by S7.

import (
	"fmt"
	"go/constant"
	"go/types"
	"os"
	"strings"

	"golang.org/x/tools/go/ssa"
)

func init() {
	register("C14", runC14)
}

func segString(sg segment) string {
	switch sg.kind {
	case "u32", "u16", "byte":
		if sg.val.K == kInt {
			if sg.val.L.isConst() && sg.kind == "u32" {
				c := uint32(sg.val.L.C)
				b := []byte{byte(c), byte(c >> 8), byte(c >> 16), byte(c >> 24)}
				pr := true
				for _, x := range b {
					if x < 0x20 || x > 0x7e {
						pr = false
					}
				}
				if pr {
					return fmt.Sprintf("%s('%s')", sg.kind, string(b))
				}
			}
			return fmt.Sprintf("%s(%s)", sg.kind, sg.val.L.String())
		}
		return sg.kind + "(?)"
	case "bytes":
		return fmt.Sprintf("bytes[%s](%s)", sg.n.String(), contentID(sg.val))
	case "zeros":
		return fmt.Sprintf("zeros[%s]", sg.n.String())
	case "loop":
		var b []string
		for _, x := range sg.body {
			b = append(b, segString(x))
		}
		return fmt.Sprintf("loop{%s}[%s](%s)", sg.key, sg.n.String(), strings.Join(b, " "))
	}
	return sg.kind
}

func streamString(st []segment) string {
	var b []string
	for _, x := range st {
		b = append(b, segString(x))
	}
	return strings.Join(b, " ")
}

func writerArgs(fn *ssa.Function) func(s *sx) []SV {
	return func(s *sx) []SV {
		var args []SV
		for _, p := range fn.Params {
			args = append(args, s.valueAtPath(p.Name(), p.Type()))
		}
		return args
	}
}

// ---- symbolic RIFF grammar over a run's stream ----

type chunkRec struct {
	fourcc  string // 4 characters, or "?" when symbolic
	size    Lin
	payload []segment
	nested  []chunkRec
}

type riffParse struct {
	s      *sxRun
	assume map[string]bool
}

func fourccOf(sg segment) (string, bool) {
	if sg.kind != "u32" || sg.val.K != kInt {
		return "", false
	}
	if !sg.val.L.isConst() {
		return "?", true
	}
	c := uint32(sg.val.L.C)
	return string([]byte{byte(c), byte(c >> 8), byte(c >> 16), byte(c >> 24)}), true
}

// parityUnder: parity of a linear form under the assumptions of a finished run (no splitting).
func parityUnder(assume map[string]bool, l Lin) (int64, bool) {
	p := l.C % 2
	if p < 0 {
		p = -p
	}
	for a, c := range l.T {
		if c%2 == 0 {
			continue
		}
		v, ok := assume["odd("+a+")"]
		if !ok {
			return 0, false
		}
		if v {
			p ^= 1
		}
	}
	return p, true
}

// parseChunks parses segs as a sequence of complete chunks.
func parseChunks(assume map[string]bool, segs []segment) ([]chunkRec, string) {
	var out []chunkRec
	i := 0
	for i < len(segs) {
		if segs[i].kind == "loop" {
			body, why := parseChunks(assume, segs[i].body)
			if why != "" {
				return nil, "inside the per-frame loop: " + why
			}
			for _, b := range body {
				b.fourcc = b.fourcc + "*" // repeated
				out = append(out, b)
			}
			i++
			continue
		}
		fc, ok := fourccOf(segs[i])
		if !ok {
			return nil, fmt.Sprintf("expected a chunk FourCC, found %s", segString(segs[i]))
		}
		if i+1 >= len(segs) || segs[i+1].kind != "u32" || segs[i+1].val.K != kInt {
			return nil, fmt.Sprintf("chunk %q has no 32-bit size field", fc)
		}
		size := segs[i+1].val.L
		i += 2
		var acc Lin
		var payload []segment
		for !acc.eq(size) {
			if i >= len(segs) {
				return nil, fmt.Sprintf("chunk %q declares %s payload bytes but %s are written before the file ends", fc, size.String(), acc.String())
			}
			if segs[i].kind == "loop" {
				return nil, fmt.Sprintf("chunk %q: payload of declared size %s is followed by repeated data after %s bytes", fc, size.String(), acc.String())
			}
			// overshoot of a constant part
			d := size.sub(acc.add(segs[i].n))
			if d.isConst() && d.C < 0 {
				return nil, fmt.Sprintf("chunk %q declares %s payload bytes but the next piece (%s) ends past it (written so far %s)", fc, size.String(), segString(segs[i]), acc.String())
			}
			acc = acc.add(segs[i].n)
			payload = append(payload, segs[i])
			i++
			if len(payload) > 64 {
				return nil, fmt.Sprintf("chunk %q: declared size %s never matches the written payload (%s ...)", fc, size.String(), acc.String())
			}
		}
		par, ok := parityUnder(assume, size)
		if !ok {
			return nil, fmt.Sprintf("chunk %q: the writer never looked at the parity of the size %s, so it cannot have padded it", fc, size.String())
		}
		if par == 1 {
			if i >= len(segs) || !(segs[i].n.isConst() && segs[i].n.C == 1 && (segs[i].kind == "zeros" || (segs[i].kind == "byte" && segs[i].val.K == kInt && segs[i].val.L.isConst() && segs[i].val.L.C == 0))) {
				return nil, fmt.Sprintf("chunk %q has odd size %s but no zero pad byte follows it", fc, size.String())
			}
			i++
		}
		rec := chunkRec{fourcc: fc, size: size, payload: payload}
		if fc == "ANMF" {
			// 16 header bytes, then sub-chunks
			var h Lin
			k := 0
			for k < len(payload) && !h.eq(linC(16)) {
				h = h.add(payload[k].n)
				k++
			}
			if !h.eq(linC(16)) {
				return nil, "ANMF payload does not start with a 16-byte frame header"
			}
			nested, why := parseChunks(assume, payload[k:])
			if why != "" {
				return nil, "inside ANMF: " + why
			}
			rec.nested = nested
		}
		out = append(out, rec)
	}
	return out, ""
}

// checkRun validates one symbolic output stream; returns "" or the first problem.
type runFacts struct {
	chunks []chunkRec
	flags  int64
	hasX   bool
	assume map[string]bool
}

func checkRIFF(r *sxRun) (runFacts, string) {
	var rf runFacts
	rf.assume = r.assume
	st := r.stream
	if len(st) < 3 {
		return rf, "fewer than 12 header bytes are written"
	}
	if fc, ok := fourccOf(st[0]); !ok || fc != "RIFF" {
		return rf, "the output does not start with 'RIFF' (" + segString(st[0]) + ")"
	}
	if st[1].kind != "u32" || st[1].val.K != kInt {
		return rf, "no 32-bit RIFF size at offset 4"
	}
	if fc, ok := fourccOf(st[2]); !ok || fc != "WEBP" {
		return rf, "no 'WEBP' signature at offset 8"
	}
	var total Lin
	for _, sg := range st {
		total = total.add(sg.n)
	}
	if !st[1].val.L.add(linC(8)).eq(total) {
		return rf, fmt.Sprintf("the RIFF size field is %s but %s bytes follow it (total output %s)", st[1].val.L.String(), total.sub(linC(8)).String(), total.String())
	}
	chunks, why := parseChunks(r.assume, st[3:])
	if why != "" {
		return rf, why
	}
	rf.chunks = chunks
	if len(chunks) == 0 {
		return rf, "no chunk follows the RIFF header"
	}
	if chunks[0].fourcc == "VP8X" {
		rf.hasX = true
		if !chunks[0].size.eq(linC(10)) {
			return rf, "VP8X payload is not 10 bytes"
		}
		f0 := chunks[0].payload[0]
		if f0.val.K != kInt || !f0.val.L.isConst() {
			return rf, "the VP8X flags are not a constant under the class assumptions: " + segString(f0)
		}
		rf.flags = f0.val.L.C & 0xff
	}
	return rf, ""
}

var flagOf = map[string]int64{"ICCP": 0x20, "EXIF": 0x08, "XMP ": 0x04, "ANIM": 0x02, "ALPH": 0x10}

// checkSemantics: chunk order, flag agreement, metadata payloads.
func checkSemantics(rf runFacts) string {
	var names []string
	for _, ch := range rf.chunks {
		names = append(names, ch.fourcc)
	}
	seq := strings.Join(names, ",")
	if !rf.hasX {
		if len(rf.chunks) != 1 || !(rf.chunks[0].fourcc == "VP8 " || rf.chunks[0].fourcc == "VP8L" || rf.chunks[0].fourcc == "?") {
			return "a file without VP8X header must consist of exactly one VP8/VP8L chunk, found " + seq
		}
		return ""
	}
	// order:  VP8X [ICCP] ( ANIM ANMF* | [ALPH] image ) [EXIF] [XMP ]
	pos := 1
	opt := func(fc string) bool {
		if pos < len(names) && names[pos] == fc {
			pos++
			return true
		}
		return false
	}
	present := map[string]bool{}
	if len(names) > 1 {
		anim := false
		for _, n := range names {
			if n == "ANIM" {
				anim = true
			}
		}
		if !anim {
			// a still file: the frame loop ran for the single frame
			for i := range names {
				names[i] = strings.TrimSuffix(names[i], "*")
			}
			seq = strings.Join(names, ",")
		}
	}
	present["ICCP"] = opt("ICCP")
	if opt("ANIM") {
		present["ANIM"] = true
		for pos < len(names) && names[pos] == "ANMF*" {
			pos++
			present["ANMF"] = true
		}
	} else {
		present["ALPH"] = opt("ALPH")
		if pos < len(names) && (names[pos] == "VP8 " || names[pos] == "VP8L" || names[pos] == "?") {
			pos++
		} else {
			return "no image chunk where one is required: " + seq
		}
	}
	present["EXIF"] = opt("EXIF")
	present["XMP "] = opt("XMP ")
	if pos != len(names) {
		return "chunks are not in the order the format requires (VP8X, ICCP, ANIM+ANMF or ALPH+image, EXIF, XMP): " + seq
	}
	for fc, bit := range flagOf {
		has := present[fc]
		set := rf.flags&bit != 0
		switch fc {
		case "ALPH":
			if has && !set {
				return fmt.Sprintf("an ALPH chunk is written but the VP8X alpha flag is clear (flags %#x): %s", rf.flags, seq)
			}
		default:
			if has != set {
				return fmt.Sprintf("VP8X flag %#x for %q is %v but the chunk is %s (flags %#x): %s", bit, fc, set, map[bool]string{true: "written", false: "not written"}[has], rf.flags, seq)
			}
		}
	}
	// frames inside ANMF: [ALPH] image
	for _, ch := range rf.chunks {
		if ch.fourcc != "ANMF*" {
			continue
		}
		var sub []string
		for _, n := range ch.nested {
			sub = append(sub, n.fourcc)
		}
		ss := strings.Join(sub, ",")
		okSub := false
		switch len(sub) {
		case 1:
			okSub = sub[0] == "VP8 " || sub[0] == "VP8L" || sub[0] == "?"
		case 2:
			okSub = sub[0] == "ALPH" && (sub[1] == "VP8 " || sub[1] == "VP8L" || sub[1] == "?")
			if okSub && rf.flags&0x10 == 0 {
				return "a frame carries an ALPH sub-chunk but the VP8X alpha flag is clear"
			}
		}
		if !okSub {
			return "an ANMF frame must contain [ALPH] followed by one VP8/VP8L chunk, found " + ss
		}
	}
	// an image chunk holds a bitstream, not a frame's ALPH prefix
	var imgs []chunkRec
	for _, ch := range rf.chunks {
		if ch.fourcc == "ANMF*" {
			imgs = append(imgs, ch.nested...)
		} else {
			imgs = append(imgs, ch)
		}
	}
	for _, ch := range imgs {
		fc := strings.TrimSuffix(ch.fourcc, "*")
		if fc != "VP8 " && fc != "VP8L" && fc != "?" {
			continue
		}
		if len(ch.payload) > 0 && ch.payload[0].kind == "bytes" && ch.payload[0].val.Path != "" && ch.payload[0].val.Off.isConst() && ch.payload[0].val.Off.C == 0 && startsWithALPH(rf.assume, ch.payload[0].val.Path) {
			return fmt.Sprintf("the %q chunk's payload is the frame data from its first byte although that data begins with an ALPH chunk header: the alpha prefix is not split off and no decoder accepts the chunk", fc)
		}
	}
	// metadata payloads are the caller's blobs, whole
	for _, ch := range rf.chunks {
		switch ch.fourcc {
		case "ICCP", "EXIF", "XMP ":
			if len(ch.payload) == 0 && ch.size.isConst() && ch.size.C == 0 {
				continue
			}
			if len(ch.payload) != 1 || ch.payload[0].kind != "bytes" || !ch.payload[0].val.Whole {
				var ps []string
				for _, x := range ch.payload {
					ps = append(ps, segString(x))
				}
				return fmt.Sprintf("the %q payload is not exactly one caller-supplied blob: %s", ch.fourcc, strings.Join(ps, " "))
			}
		}
	}
	return ""
}

type writerSpec struct {
	rel, name string
	opaque    []string
	pre       map[string]bool // assumed about the inputs (documented per use)
	domain    func(assume map[string]bool) bool
	domainDoc string
	args      func(s *sx) []SV // custom symbolic arguments
}

func checkWriter(c *Ctx, p *Program, spec writerSpec, maxRuns int) {
	fn := p.Fn(spec.rel, spec.name)
	if fn == nil {
		c.AnchorMissing("W-layout", spec.name)
		return
	}
	c.Func(FnName(fn))
	mk := writerArgs(fn)
	if spec.args != nil {
		mk = spec.args
	}
	out := sxExplore(p, fn, mk, maxRuns, spec.pre, spec.opaque...)
	pos := p.Pos(fn.Pos())
	key := FnName(fn)
	succ, outside := 0, 0
	notes := map[string]bool{}
	var firstUnd string
	if len(out.undecided) > 0 {
		firstUnd = out.undecided[0]
	}
	c.Check(len(out.undecided) == 0, "W-decided", key, pos, fmt.Sprintf("every input class of %s was executed symbolically to the end (%d classes)", spec.name, len(out.runs)),
		fmt.Sprintf("%d input classes of %s could not be executed symbolically; first: %s", len(out.undecided), spec.name, firstUnd))
	var badSize, badGrammar, badSem, badVal string
	nFields := 0
	for i := range out.runs {
		r := &out.runs[i]
		for n := range r.notes {
			notes[n] = true
		}
		if r.err {
			continue
		}
		if spec.domain != nil && !spec.domain(r.assume) {
			outside++
			continue
		}
		succ++
		rf, why := checkRIFF(r)
		cls := " [input class: " + describeAssume(r.assume, r.order) + "] layout: " + truncate(streamString(r.stream), 600)
		if why != "" {
			if strings.HasPrefix(why, "the RIFF size field") {
				if badSize == "" {
					badSize = why + cls
				}
			} else if badGrammar == "" {
				badGrammar = why + cls
			}
			continue
		}
		if sem := checkSemantics(rf); sem != "" && badSem == "" {
			badSem = sem + cls
		}
		hv, nf := checkHeaderValues(rf)
		nFields += nf
		if hv != "" && badVal == "" {
			badVal = hv + cls
		}
	}
	for n := range notes {
		c.Note(spec.name + ": " + n)
	}
	if outside > 0 {
		c.Note(fmt.Sprintf("%s: %d input classes are outside the property's inputs and were not checked: %s", spec.name, outside, spec.domainDoc))
	}
	if os.Getenv("VERIF_DEBUG") != "" {
		fmt.Fprintf(os.Stderr, "== %s: %d classes, %d successful, %d undecided\n", spec.name, len(out.runs), succ, len(out.undecided))
		for i, u := range out.undecided {
			if i < 5 {
				fmt.Fprintln(os.Stderr, "  UNDECIDED", u)
			}
		}
		n := 0
		for _, r := range out.runs {
			if !r.err && (n < 6 || (os.Getenv("VERIF_DEBUG_GREP") != "" && strings.Contains(streamString(r.stream), os.Getenv("VERIF_DEBUG_GREP")) && n < 12)) {
				n++
				fmt.Fprintf(os.Stderr, "  RUN [%s]\n      %s\n", describeAssume(r.assume, r.order), streamString(r.stream))
			}
		}
	}
	c.Check(succ > 0, "W-decided", key+":success", pos, fmt.Sprintf("%d input classes end in a written file", succ), "no input class reaches a successful return: nothing was checked")
	c.Check(badSize == "", "W1-riff-size", key, pos, fmt.Sprintf("in all %d successful input classes the RIFF size field equals the number of bytes written after it", succ), badSize)
	c.Check(badGrammar == "", "W2-chunk-grammar", key, pos, fmt.Sprintf("in all %d successful input classes the output is a sequence of complete chunks: every declared chunk size equals the payload written, odd payloads are followed by one zero pad byte, ANMF payloads are a 16-byte header plus complete sub-chunks", succ), badGrammar)
	if nFields > 0 || badVal != "" {
		c.Check(badVal == "", "W4-header-values", key, pos, fmt.Sprintf("in all %d successful input classes the VP8X canvas fields hold size-1 in 24 bits with the reserved bytes zero, the ANIM chunk holds the background colour and the loop count that was set, and every ANMF header holds offset/2, size-1, the frame's duration and a flags byte that is exactly bit 0 = dispose to background, bit 1 = do not blend for every combination of the declared dispose/blend constants (%d field instances)", succ, nFields), badVal)
	}
	c.Check(badSem == "", "W3-flags-order", key, pos, fmt.Sprintf("in all %d successful input classes the chunk order is legal, the VP8X flags announce exactly the ICCP/EXIF/XMP/ANIM chunks written (and ALPH implies the alpha flag), and metadata payloads are the caller's blobs unchanged", succ), badSem)
}

func truncate(s string, n int) string {
	if len(s) > n {
		return s[:n] + " ..."
	}
	return s
}

// muxFrameDomain: frames handed to the muxer are VP8/VP8L bitstreams, optionally prefixed by an ALPH
// chunk. Data that begins with 'ALPH' but is shorter than 12 bytes holds no bitstream at all.
func muxFrameDomain(assume map[string]bool) bool {
	const alph = 1213221953 // 'ALPH' little-endian
	isAlph, short := false, false
	for k, v := range assume {
		if strings.HasPrefix(k, fmt.Sprintf("ge:%d:u32(elem(m.frames).data[0:+4])", alph)) && v {
			if nv, ok := assume[fmt.Sprintf("ge:%d:u32(elem(m.frames).data[0:+4])", alph+1)]; ok && !nv {
				isAlph = true
			}
		}
		if k == "ge:12:len(elem(m.frames).data)" && !v {
			short = true
		}
	}
	if isAlph && short {
		return false
	}
	// ... or whose ALPH header declares more bytes than the data holds
	// (any assumption equivalent to  8 + S > len(data), whichever way the code wrote the test)
	if isAlph {
		T := linA("len(elem(m.frames).data)").sub(linA("u32(elem(m.frames).data[4:+4])")).sub(linC(7)) // T > 0 <=> the payload fits
		for k, v := range assume {
			lv, ok := keyLins.Load(k)
			if !ok {
				continue
			}
			l := lv.(Lin)
			if !v && l.eq(T) { // !(T > 0)
				return false
			}
			if v && l.eq(T.scale(-1).add(linC(1))) { // -T+1 > 0  <=>  T <= 0
				return false
			}
		}
	}
	return true
}

// startsWithALPH: the run assumes that the blob named by path begins with the bytes 'ALPH'.
func startsWithALPH(assume map[string]bool, path string) bool {
	const alph = 1213221953
	a := fmt.Sprintf("u32(%s[0:+4])", path)
	ge, ok1 := assume[fmt.Sprintf("ge:%d:%s", alph, a)]
	gt, ok2 := assume[fmt.Sprintf("ge:%d:%s", alph+1, a)]
	return ok1 && ok2 && ge && !gt
}

const muxFrameDomainDoc = "frame data that starts with 'ALPH' but is shorter than 12 bytes, or whose ALPH header declares more bytes than the data holds, contains no bitstream (frames are VP8/VP8L bitstreams with an optional well-formed ALPH prefix)"

func runC14(c *Ctx) {
	c.Rule("X1 any-scan shape: a boolean muxer function that returns true from inside a loop over the frames and false after it returns nothing but true inside the loop")
	c.Rule("X2 cache coherence: a scalar field of mux.Muxer whose store reads a slice field of the receiver (a cached summary of the frame list) is stored by every method that modifies that slice field or memory reached through it")
	c.Rule("W5 no append to input: no append in the container writers (mux writer side, encode.go) extends a byte slice that comes from a parameter or from a field (the caller's frame data and metadata are stored in fields): only buffers the function created itself are extended")
	c.Rule("R3 walk-to-end: a chunk walk of the demuxer never returns successfully from inside the loop")
	c.Rule("R1/R2 (S7 loop facts): every chunk-walking loop of mux.Demuxer and container.Parser (a loop that reads a FourCC at its cursor and a 32-bit size S four bytes further) advances its cursor by 8 + S + (S odd ? 1 : 0) in every input class, except where the walker itself found that the pad byte lies beyond the data; every slice taken at cursor+8 with a variable length has length exactly S")
	c.Rule("W-layout (S7): each container writer is executed symbolically for every class of inputs (presence and parity of every blob, frame payload shapes, still/animated) - the output is obtained as a sequence of pieces with symbolic lengths; W1: the RIFF size field equals the bytes that follow; W2: the pieces parse as complete chunks (declared size = payload written, pad byte iff odd, ANMF = 16-byte header + complete sub-chunks); W3: chunk order, VP8X flags vs chunks written, metadata payloads are whole caller blobs")
	c.NotCovered("what the demuxer/parser read back (see R rules), values of offsets/durations/dimensions inside headers, rejection of invalid muxer states (validate is not followed), per-frame conditions are explored with all frames in the same class")
	max := 300000
	// the container writers and parsers are portable Go without build tags: one configuration suffices
	for _, cf := range c.configsFor()[:1] {
		p := c.load(cf[0], cf[1])
		if p == nil {
			continue
		}
		if c.Tier == "thorough" {
			checkWriter(c, p, writerSpec{rel: "mux", name: "Muxer.Assemble", opaque: []string{"frameDimensions", "canvasSize"}, domain: muxFrameDomain, domainDoc: muxFrameDomainDoc}, max)
		} else {
			c.Note("quick tier: Muxer.validate is not followed; its guarantee 'at least one frame' is assumed (the thorough tier follows it)")
			checkWriter(c, p, writerSpec{rel: "mux", name: "Muxer.Assemble", opaque: []string{"validate", "frameDimensions", "canvasSize"}, pre: map[string]bool{"ge:1:len(m.frames)": true}, domain: muxFrameDomain, domainDoc: muxFrameDomainDoc}, max)
		}
		checkWriter(c, p, writerSpec{rel: "", name: "writeRIFF"}, max)
		readerFile := func(fn *ssa.Function) bool {
			f := p.Pos(fn.Pos())
			return strings.HasPrefix(f, "mux/demux.go") || strings.HasPrefix(f, "mux/chunk.go") || strings.HasPrefix(f, "internal/container/")
		}
		anyScanShape(c, p)
		c14NoAppendToInput(c, p)
		c14CacheCoherence(c, p)
		runReaderFields(c, p)
		c16EffectiveLimits(c, p)
		runMonotoneFlags(c, p, "mux", "internal/container", "animation", "")
		before := c.Count("R1-advance")
		checkReaders(c, p, "mux", readerFile, max)
		checkReaders(c, p, "internal/container", readerFile, max)
		c.Floor("R1-advance", c.Count("R1-advance")-before, 3)
	}
}

// bitstream header parsers: their results are numbers that do not affect how the container is walked
var headerObservers = []string{"parseVP8Header", "parseVP8LHeader", "parseVP8Dimensions", "parseVP8LDimensions", "frameDataHasAlpha", "copyBytes"}

// X1 any-scan shape: a boolean function of the muxer that scans the frames, returns the constant
// true from inside the loop and the constant false after it is an "exists a frame with ..." scan.
// Every return inside such a loop must be the constant true: returning anything else there ends
// the scan at the first frame that reaches that statement, so a later frame is never looked at
// (the VP8X flags then describe only a prefix of the frames).
func anyScanShape(c *Ctx, p *Program) {
	pk := p.SSAPkg("mux")
	if pk == nil {
		c.AnchorMissing("X1-any-scan", "package mux")
		return
	}
	n := 0
	for _, fn := range p.SrcFuncs() {
		if fn.Pkg != pk || fn.Blocks == nil || fn.Signature.Results().Len() != 1 {
			continue
		}
		if bt, ok := fn.Signature.Results().At(0).Type().Underlying().(*types.Basic); !ok || bt.Kind() != types.Bool {
			continue
		}
		var loops []*loopInfo
		for _, b := range fn.Blocks {
			if li := loopOf(b); li != nil {
				loops = append(loops, li)
			}
		}
		if len(loops) == 0 {
			continue
		}
		inLoopTrue, afterFalse := false, false
		type retSite struct {
			ret    *ssa.Return
			inLoop bool
		}
		var sites []retSite
		for _, b := range fn.Blocks {
			ret, ok := b.Instrs[len(b.Instrs)-1].(*ssa.Return)
			if !ok {
				continue
			}
			in := false
			for _, li := range loops {
				if returnsFromInside(li, b) {
					in = true
				}
			}
			sites = append(sites, retSite{ret, in})
			if k, ok := ret.Results[0].(*ssa.Const); ok && k.Value != nil {
				if constant.BoolVal(k.Value) && in {
					inLoopTrue = true
				}
				if !constant.BoolVal(k.Value) && !in {
					afterFalse = true
				}
			}
		}
		if !inLoopTrue || !afterFalse {
			continue
		}
		n++
		bad := ""
		for _, s := range sites {
			if !s.inLoop {
				continue
			}
			if k, ok := s.ret.Results[0].(*ssa.Const); !ok || k.Value == nil || !constant.BoolVal(k.Value) {
				bad = p.Pos(s.ret.Pos())
			}
		}
		c.Func(FnName(fn))
		c.Check(bad == "", "X1-any-scan", FnName(fn), p.Pos(fn.Pos()), "every return inside the scan is 'true'",
			fmt.Sprintf("%s scans the frames for one with a property (it returns true from inside the loop and false after it), but the return at %s inside the loop can return something else: the scan stops at the first frame that reaches it and later frames are never examined", fn.Name(), bad))
	}
	c.Floor("X1-any-scan", n, 2)
}
