package main

// Reader side of C14/C15: chunk walks of the two container parsers, on the S7 loop facts.
//
// R1 advance: in every chunk-walking loop (a loop that reads a FourCC at the cursor and a 32-bit
//    size S at cursor+4) the cursor advances by 8 + S + (S odd ? 1 : 0) in every input class - the
//    only exception being a class in which the walker has itself established that the pad byte
//    lies beyond the end of the data.
// R2 payload: every slice taken at cursor+8 with a non-constant length has length exactly S
//    (never S plus the pad byte, never the padded size).

import (
	"fmt"
	"os"
	"sort"
	"strings"

	"golang.org/x/tools/go/ssa"
)

type readerSpec struct {
	rel, name string
	opaque    []string
	fn        *ssa.Function
	onlyK7    bool // emit only the canvas-size obligation (C16)
}

// loopFuncs: functions of the package (in the given files) that contain a loop.
func loopFuncs(p *Program, rel string) []*ssa.Function {
	sp := p.SSAPkg(rel)
	var out []*ssa.Function
	for _, fn := range p.SrcFuncs() {
		if fn.Pkg != sp || fn.Blocks == nil || fn.Parent() != nil {
			continue
		}
		has := false
		for _, b := range fn.Blocks {
			if loopOf(b) != nil {
				has = true
			}
		}
		if has {
			out = append(out, fn)
		}
	}
	return out
}

// checkReaders analyses every loop-containing function of the package on its own; calls to the
// other loop-containing functions are not followed (each is analysed separately), so the input
// classes add up instead of multiplying.
func checkReaders(c *Ctx, p *Program, rel string, only func(*ssa.Function) bool, maxRuns int) {
	fns := loopFuncs(p, rel)
	n := 0
	for _, fn := range fns {
		if only != nil && !only(fn) {
			continue
		}
		opq := append([]string{}, headerObservers...)
		for _, o := range fns {
			if o != fn {
				opq = append(opq, o.Name())
			}
		}
		n++
		checkReader(c, p, readerSpec{rel: rel, opaque: opq, fn: fn}, maxRuns)
	}
	if n == 0 {
		c.AnchorMissing("R-walk", "loop-containing functions of "+rel)
	}
}

func checkReader(c *Ctx, p *Program, spec readerSpec, maxRuns int) {
	fn := spec.fn
	if fn == nil {
		fn = p.Fn(spec.rel, spec.name)
	}
	if fn == nil {
		c.AnchorMissing("R-walk", spec.name)
		return
	}
	if spec.name == "" {
		spec.name = fn.Name()
	}
	c.Func(FnName(fn))
	out := sxExplore(p, fn, writerArgs(fn), maxRuns, nil, spec.opaque...)
	var firstUnd string
	if len(out.undecided) > 0 {
		firstUnd = out.undecided[0]
	}
	key := FnName(fn)
	pos := p.Pos(fn.Pos())
	c.Check(len(out.undecided) == 0, "R-decided", key, pos, fmt.Sprintf("every input class of %s was executed symbolically (%d classes)", spec.name, len(out.runs)),
		fmt.Sprintf("%d input classes of %s could not be executed symbolically; first: %s", len(out.undecided), spec.name, firstUnd))
	type verdict struct {
		bad string
		n   int
	}
	adv := map[string]*verdict{}
	pay := map[string]*verdict{}
	get := func(m map[string]*verdict, k string) *verdict {
		if m[k] == nil {
			m[k] = &verdict{}
		}
		return m[k]
	}
	// K7 (C16): in a class where an ANMF chunk is walked, the parser's overall Width/Height (which
	// GetFeatures and DecodeConfig report, and which are the canvas for an animation) are not assigned
	canvasBad := ""
	const anmf = 1179471425 // 'ANMF' little-endian
	for i := range out.runs {
		r := &out.runs[i]
		isANMF := false
		for k, v := range r.assume {
			if v && strings.HasPrefix(k, fmt.Sprintf("ge:%d:u32(", anmf)) {
				if nv, ok := r.assume[strings.Replace(k, fmt.Sprintf("ge:%d:", anmf), fmt.Sprintf("ge:%d:", anmf+1), 1)]; ok && !nv {
					isANMF = true
				}
			}
		}
		if !isANMF || r.err {
			continue
		}
		for _, w := range r.written {
			if (strings.HasSuffix(w, ".features.Width") || strings.HasSuffix(w, ".features.Height")) && canvasBad == "" {
				canvasBad = w + " [input class: " + describeAssume(r.assume, r.order) + "]"
			}
		}
	}
	if spec.rel == "internal/container" && len(out.runs) > 0 {
		sawANMF := false
		for i := range out.runs {
			for k := range out.runs[i].assume {
				if strings.HasPrefix(k, fmt.Sprintf("ge:%d:u32(", anmf)) {
					sawANMF = true
				}
			}
		}
		if sawANMF && spec.onlyK7 {
			c.Check(canvasBad == "", "K7-canvas-size", key, pos, "walking an ANMF chunk does not assign the file's overall width/height",
				"while walking an ANMF frame "+spec.name+" assigns "+canvasBad+": for an animation GetFeatures/DecodeConfig then report a frame's size where the demuxer and the animation reader report the canvas")
		}
	}
	if spec.onlyK7 {
		return
	}
	early := map[string]string{}
	for i := range out.runs {
		r := &out.runs[i]
		for _, f := range r.facts {
			if f.earlySuccess && spec.rel == "mux" {
				lk := f.fn + "@" + f.pos
				if early[lk] == "" {
					early[lk] = "[input class: " + describeAssume(r.assume, r.order) + "]"
				}
			}
			// the chunk header: per cursor, the 32-bit read at the smallest offset is the FourCC and the
			// read 4 bytes further is the size
			minOff := map[string]Lin{}
			cursorOf := func(off Lin) string {
				cur := ""
				for at, co := range off.T {
					if strings.HasPrefix(at, "it:") && co == 1 {
						if cur != "" {
							return ""
						}
						cur = at
					}
				}
				return cur
			}
			for _, a := range f.reads {
				if a.kind != "u32" {
					continue
				}
				k := a.path + "|" + cursorOf(a.off)
				if cursorOf(a.off) == "" {
					continue
				}
				if m, ok := minOff[k]; !ok || (a.off.sub(m).isConst() && a.off.sub(m).C < 0) {
					minOff[k] = a.off
				}
			}
			for _, a := range f.reads {
				if a.kind != "u32" || cursorOf(a.off) == "" || !a.off.eq(minOff[a.path+"|"+cursorOf(a.off)]) {
					continue
				}
				for _, b := range f.reads {
					if b.kind != "u32" || b.path != a.path || !b.off.sub(a.off).eq(linC(4)) {
						continue
					}
					S := linA(fmt.Sprintf("u32(%s[%s:+4])", b.path, b.off.String()))
					// the cursor: the iteration atom in X
					var cur string
					for at, co := range a.off.T {
						if strings.HasPrefix(at, "it:") && co == 1 {
							if cur != "" {
								cur = "?"
							} else {
								cur = at
							}
						}
					}
					if cur == "" || cur == "?" {
						continue
					}
					delta, ok := f.deltas[cur]
					lk := f.fn + "@" + f.pos
					if ok {
						v := get(adv, lk)
						v.n++
						par, known := parityUnder(r.assume, S)
						want := linC(8).add(S)
						cls := " [input class: " + describeAssume(r.assume, r.order) + "]"
						switch {
						case known && par == 1 && delta.eq(want.add(linC(1))):
						case known && par == 0 && delta.eq(want):
						case known && par == 1 && delta.eq(want) && padBeyondEnd(r.assume, a.path, a.off, S):
						case !known && delta.eq(want):
							if v.bad == "" {
								v.bad = fmt.Sprintf("the walk advances by 8+size (%s) without ever looking at the parity of the size: after an odd-sized chunk the next header is read one byte early, at the pad byte", delta.String()) + cls
							}
						default:
							if v.bad == "" {
								v.bad = fmt.Sprintf("the walk advances by %s per chunk; a chunk occupies 8 + size + pad = %s (+1 when the size is odd)", delta.String(), want.String()) + cls
							}
						}
					}
					// payload slices at X+8
					for _, sl := range f.reads {
						if sl.kind != "slice" || sl.path != a.path || !sl.off.sub(a.off).eq(linC(8)) || sl.ln.isConst() {
							continue
						}
						v := get(pay, lk+":"+sl.pos)
						v.n++
						if !sl.ln.eq(S) && v.bad == "" {
							v.bad = fmt.Sprintf("the payload slice taken at %s has length %s but the chunk declares %s bytes: the slice handed on is not the chunk's payload (it includes the pad byte or padding arithmetic)", sl.pos, sl.ln.String(), S.String()) + " [input class: " + describeAssume(r.assume, r.order) + "]"
						}
					}
				}
			}
		}
	}
	var ks []string
	for k := range adv {
		ks = append(ks, k)
	}
	sort.Strings(ks)
	if spec.rel == "mux" {
		for _, k := range ks {
			c.Check(early[k] == "", "R3-walk-to-end", k, strings.SplitN(k, "@", 2)[1], "the demuxer's chunk walk only ends at the end of the data or with an error",
				"the demuxer's chunk walk can return successfully from inside the loop, before the end of the data: chunks that follow (trailing EXIF/XMP metadata) are never seen although the header flags announce them "+early[k])
		}
	}
	for _, k := range ks {
		v := adv[k]
		c.Check(v.bad == "", "R1-advance", k, strings.SplitN(k, "@", 2)[1], fmt.Sprintf("in all %d input classes the chunk walk advances by 8 + size + pad", v.n), v.bad)
	}
	ks = nil
	for k := range pay {
		ks = append(ks, k)
	}
	sort.Strings(ks)
	for _, k := range ks {
		v := pay[k]
		c.Check(v.bad == "", "R2-payload", k, k[strings.Index(k, "@")+1:], fmt.Sprintf("in all %d input classes the payload slice has exactly the declared size", v.n), v.bad)
	}
	if os.Getenv("VERIF_DEBUG") != "" {
		fmt.Fprintf(os.Stderr, "== reader %s: %d classes, %d undecided, %d walks, %d payload slices\n", spec.name, len(out.runs), len(out.undecided), len(adv), len(pay))
		for i, u := range out.undecided {
			if i < 6 {
				fmt.Fprintln(os.Stderr, "  UNDECIDED", truncate(u, 700))
			}
		}
	}
}

// padBeyondEnd: the run contains the fact  X + 8 + S >= len(data)  (nothing follows the odd-sized
// payload), as an assumption the walker's own test produced.
func padBeyondEnd(assume map[string]bool, path string, X, S Lin) bool {
	T := linA("len(" + path + ")").sub(X).sub(linC(8)).sub(S) // bytes after the payload
	for k, v := range assume {
		lv, ok := keyLins.Load(k)
		if !ok {
			continue
		}
		l := lv.(Lin)
		if !v && l.eq(T) { // !(T > 0)
			return true
		}
		if v && l.eq(T.scale(-1).add(linC(1))) { // -T+1 > 0
			return true
		}
		if v && l.eq(T.scale(-1)) { // -T > 0
			return true
		}
	}
	return false
}
