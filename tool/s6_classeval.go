package main

// S6: class evaluator. Evaluates SSA functions over a finite partition of their inputs
// (booleans, slice presence {nil, empty, non-empty}, integer sign classes / constants) by
// enumerating feasible paths; conditions that do not depend on the partition are unknown and both
// arms are followed. Results are described symbolically (dynamic type of an interface value,
// identity of a package variable, constants), as a set over all feasible success paths.
// Nothing is executed.

import (
	"fmt"
	"go/constant"
	"go/token"
	"go/types"
	"sort"
	"strings"

	"golang.org/x/tools/go/ssa"
)

const (
	sgNeg  = 1
	sgZero = 2
	sgPos  = 4
	sgAny  = 7
)

type av struct {
	isBool   bool
	b        tri
	isSlice  bool
	isNil    tri
	nonEmpty tri
	isInt    bool
	c        *int64
	sign     uint8
	syms     []string // symbolic identities (set); nil = none known
	unknown  bool     // nothing is known
}

func avUnknown() av {
	return av{unknown: true, b: triUnknown, isNil: triUnknown, nonEmpty: triUnknown, sign: sgAny}
}
func avBool(t tri) av {
	return av{isBool: true, b: t, isNil: triUnknown, nonEmpty: triUnknown, sign: sgAny}
}
func avSym(s string) av { a := avUnknown(); a.unknown = false; a.syms = []string{s}; return a }
func avSlice(n, ne tri) av {
	return av{isSlice: true, isNil: n, nonEmpty: ne, b: triUnknown, sign: sgAny}
}
func avIntConst(k int64) av {
	a := av{isInt: true, c: &k, b: triUnknown, isNil: triUnknown, nonEmpty: triUnknown}
	a.sign = signOf(k)
	return a
}
func avIntSign(s uint8) av {
	return av{isInt: true, sign: s, b: triUnknown, isNil: triUnknown, nonEmpty: triUnknown}
}
func signOf(k int64) uint8 {
	switch {
	case k < 0:
		return sgNeg
	case k == 0:
		return sgZero
	}
	return sgPos
}

func (a av) String() string {
	switch {
	case len(a.syms) > 0:
		return strings.Join(a.syms, "|")
	case a.isBool:
		return [...]string{"false", "true", "bool?"}[a.b]
	case a.isInt && a.c != nil:
		return fmt.Sprint(*a.c)
	case a.isInt:
		var s []string
		if a.sign&sgNeg != 0 {
			s = append(s, "<0")
		}
		if a.sign&sgZero != 0 {
			s = append(s, "0")
		}
		if a.sign&sgPos != 0 {
			s = append(s, ">0")
		}
		return "int{" + strings.Join(s, ",") + "}"
	case a.isSlice:
		return fmt.Sprintf("slice(nil=%v,nonempty=%v)", a.isNil, a.nonEmpty)
	}
	return "?"
}

func triJoin(a, b tri) tri {
	if a == b {
		return a
	}
	return triUnknown
}

func avJoin(a, b av) av {
	r := av{}
	r.unknown = a.unknown || b.unknown
	r.isBool = a.isBool && b.isBool
	r.b = triJoin(a.b, b.b)
	r.isSlice = a.isSlice && b.isSlice
	r.isNil = triJoin(a.isNil, b.isNil)
	r.nonEmpty = triJoin(a.nonEmpty, b.nonEmpty)
	r.isInt = a.isInt && b.isInt
	if a.c != nil && b.c != nil && *a.c == *b.c {
		r.c = a.c
	}
	r.sign = a.sign | b.sign
	set := map[string]bool{}
	for _, s := range a.syms {
		set[s] = true
	}
	for _, s := range b.syms {
		set[s] = true
	}
	if (len(a.syms) == 0) != (len(b.syms) == 0) {
		set["?"] = true
	}
	for s := range set {
		r.syms = append(r.syms, s)
	}
	sort.Strings(r.syms)
	return r
}

type ceEnv struct {
	p      *Program
	fields map[string]av // "TypeName.Field" -> class value of every load of that field
	params map[*ssa.Parameter]av
	chosen map[*ssa.Phi]ssa.Value
	cells  map[*ssa.Alloc]ssa.Value // path-sensitive contents of local cells
	loads  map[*ssa.UnOp]ssa.Value  // value a load of a local cell saw on this path
	bounds map[ssa.Value][2]*int64  // path refinement: [lo, hi] learnt from branches taken on unknown integers
	depth  int
	budget *int
	memo   map[*ssa.Call][]av
	// hook: optional evaluation of values the generic evaluator does not know
	hook func(e *ceEnv, v ssa.Value) (av, bool)
	// values known to be non-nil on the current path (a branch `v != nil` was taken)
	refinedNonNil map[ssa.Value]bool
}

func newCE(p *Program) *ceEnv {
	b := 20000
	return &ceEnv{p: p, fields: map[string]av{}, params: map[*ssa.Parameter]av{}, chosen: map[*ssa.Phi]ssa.Value{}, cells: map[*ssa.Alloc]ssa.Value{}, loads: map[*ssa.UnOp]ssa.Value{}, budget: &b, memo: map[*ssa.Call][]av{}}
}

func namedOf(t types.Type) string {
	if pt, ok := t.Underlying().(*types.Pointer); ok {
		t = pt.Elem()
	}
	if pt, ok := t.(*types.Pointer); ok {
		t = pt.Elem()
	}
	if n, ok := t.(*types.Named); ok {
		return n.Obj().Name()
	}
	return ""
}

func (e *ceEnv) fieldClass(base types.Type, idx int) (av, bool) {
	st := structOf(base)
	if st == nil {
		if s, ok := base.Underlying().(*types.Struct); ok {
			st = s
		}
	}
	if st == nil || idx >= st.NumFields() {
		return av{}, false
	}
	a, ok := e.fields[namedOf(base)+"."+st.Field(idx).Name()]
	return a, ok
}

func isErrorType(t types.Type) bool {
	return types.Identical(t, types.Universe.Lookup("error").Type())
}

func (e *ceEnv) eval(v ssa.Value) av {
	if e.hook != nil {
		if a, ok := e.hook(e, v); ok {
			return a
		}
	}
	switch x := v.(type) {
	case *ssa.Const:
		if x.IsNil() {
			a := avSlice(triTrue, triFalse)
			a.isBool = false
			a.syms = []string{"nil"}
			return a
		}
		if x.Value != nil {
			switch x.Value.Kind() {
			case constant.Bool:
				if constant.BoolVal(x.Value) {
					return avBool(triTrue)
				}
				return avBool(triFalse)
			case constant.Int:
				if k, ok := constant.Int64Val(x.Value); ok {
					return avIntConst(k)
				}
			case constant.String:
				return avSym("str:" + constant.StringVal(x.Value))
			}
		}
	case *ssa.Parameter:
		if a, ok := e.params[x]; ok {
			return a
		}
	case *ssa.Phi:
		if ch, ok := e.chosen[x]; ok && ch != nil {
			return e.eval(ch)
		}
		return avUnknown()
	case *ssa.UnOp:
		switch x.Op {
		case token.NOT:
			a := e.eval(x.X)
			switch a.b {
			case triTrue:
				return avBool(triFalse)
			case triFalse:
				return avBool(triTrue)
			}
			return avBool(triUnknown)
		case token.SUB:
			a := e.eval(x.X)
			if a.isInt && a.c != nil {
				return avIntConst(-*a.c)
			}
		case token.MUL:
			switch ad := x.X.(type) {
			case *ssa.FieldAddr:
				if a, ok := e.fieldClass(ad.X.Type(), ad.Field); ok {
					return a
				}
				// field of a local struct: last store wins only if unique
				if al, ok := ad.X.(*ssa.Alloc); ok {
					if s := e.singleFieldStore(al, ad.Field); s != nil {
						return e.eval(s)
					}
				}
			case *ssa.Global:
				return avSym("global:" + ad.Pkg.Pkg.Path() + "." + ad.Name())
			case *ssa.Alloc:
				if s, ok := e.loads[x]; ok && s != nil {
					return e.eval(s)
				}
				if s := singleStore(ad); s != nil {
					return e.eval(s)
				}
			}
		}
	case *ssa.Field:
		if a, ok := e.fieldClass(x.X.Type(), x.Field); ok {
			return a
		}
	case *ssa.MakeInterface:
		// the dynamic type of the interface value is the static type of the operand
		return avSym("type:" + x.X.Type().String())
	case *ssa.ChangeInterface:
		return e.eval(x.X)
	case *ssa.ChangeType:
		return e.eval(x.X)
	case *ssa.Convert:
		a := e.eval(x.X)
		if len(a.syms) == 1 && a.syms[0] == "fspecial" {
			return a // a non-finite float stays non-finite through float conversions
		}
		if a.isInt {
			// widening/narrowing of a known small constant or sign class of a non-negative value
			if a.c != nil {
				return a
			}
			if bt, ok := x.Type().Underlying().(*types.Basic); ok && bt.Info()&types.IsInteger != 0 && bt.Info()&types.IsUnsigned == 0 {
				if st, ok := x.X.Type().Underlying().(*types.Basic); ok && st.Info()&types.IsUnsigned == 0 {
					return avIntSign(a.sign)
				}
			}
		}
		if bt, ok := x.Type().Underlying().(*types.Basic); ok && bt.Info()&types.IsInteger != 0 {
			return avIntSign(sgAny)
		}
	case *ssa.MakeSlice:
		return avSlice(triFalse, triUnknown)
	case *ssa.Slice:
		a := e.eval(x.X)
		if a.isSlice {
			return avSlice(a.isNil, triUnknown)
		}
		return avSlice(triUnknown, triUnknown)
	case *ssa.Alloc:
		return avSym("alloc:" + x.Type().String())
	case *ssa.Extract:
		if call, ok := x.Tuple.(*ssa.Call); ok {
			rs := e.evalCall(call)
			if x.Index < len(rs) {
				return rs[x.Index]
			}
		}
	case *ssa.Call:
		rs := e.evalCall(x)
		if len(rs) == 1 {
			return rs[0]
		}
	case *ssa.BinOp:
		return e.evalBin(x)
	}
	a := avUnknown()
	switch t := v.Type().Underlying().(type) {
	case *types.Basic:
		if t.Info()&types.IsBoolean != 0 {
			return avBool(triUnknown)
		}
		if t.Info()&types.IsInteger != 0 {
			if t.Info()&types.IsUnsigned != 0 {
				return avIntSign(sgZero | sgPos)
			}
			return avIntSign(sgAny)
		}
	case *types.Slice:
		return avSlice(triUnknown, triUnknown)
	}
	return a
}

func (e *ceEnv) singleFieldStore(al *ssa.Alloc, field int) ssa.Value {
	var val ssa.Value
	n := 0
	for _, u := range *al.Referrers() {
		fa, ok := u.(*ssa.FieldAddr)
		if !ok || fa.Field != field {
			continue
		}
		for _, u2 := range *fa.Referrers() {
			if st, ok := u2.(*ssa.Store); ok && st.Addr == ssa.Value(fa) {
				val = st.Val
				n++
			}
		}
	}
	if n == 1 {
		return val
	}
	return nil
}

func cmpInt(op token.Token, a, b int64) bool {
	switch op {
	case token.EQL:
		return a == b
	case token.NEQ:
		return a != b
	case token.LSS:
		return a < b
	case token.LEQ:
		return a <= b
	case token.GTR:
		return a > b
	case token.GEQ:
		return a >= b
	}
	return false
}

func (e *ceEnv) evalBin(x *ssa.BinOp) av {
	switch x.Op {
	case token.EQL, token.NEQ, token.LSS, token.LEQ, token.GTR, token.GEQ:
	default:
		a, b := e.eval(x.X), e.eval(x.Y)
		if a.isInt && b.isInt && a.c != nil && b.c != nil {
			switch x.Op {
			case token.ADD:
				return avIntConst(*a.c + *b.c)
			case token.SUB:
				return avIntConst(*a.c - *b.c)
			case token.MUL:
				return avIntConst(*a.c * *b.c)
			}
		}
		if bt, ok := x.Type().Underlying().(*types.Basic); ok && bt.Info()&types.IsInteger != 0 {
			return avIntSign(sgAny)
		}
		return avUnknown()
	}
	a, b := e.eval(x.X), e.eval(x.Y)
	// path refinement: an unknown integer with learnt bounds against a constant
	if len(e.bounds) > 0 {
		decide := func(v ssa.Value, k int64, left bool) (tri, bool) {
			bd, ok := e.bounds[v]
			if !ok {
				return triUnknown, false
			}
			lo, hi := int64(-1)<<50, int64(1)<<50
			if bd[0] != nil {
				lo = *bd[0]
			}
			if bd[1] != nil {
				hi = *bd[1]
			}
			var v0, v1 bool
			if left {
				v0, v1 = cmpInt(x.Op, lo, k), cmpInt(x.Op, hi, k)
			} else {
				v0, v1 = cmpInt(x.Op, k, lo), cmpInt(x.Op, k, hi)
			}
			switch x.Op {
			case token.EQL, token.NEQ:
				if k < lo || k > hi {
					if x.Op == token.EQL {
						return triFalse, true
					}
					return triTrue, true
				}
				return triUnknown, false
			}
			if v0 == v1 {
				if v0 {
					return triTrue, true
				}
				return triFalse, true
			}
			return triUnknown, false
		}
		if b.isInt && b.c != nil && !(a.isInt && a.c != nil) {
			if t, ok := decide(x.X, *b.c, true); ok {
				return avBool(t)
			}
		}
		if a.isInt && a.c != nil && !(b.isInt && b.c != nil) {
			if t, ok := decide(x.Y, *a.c, false); ok {
				return avBool(t)
			}
		}
	}
	// nil comparisons
	isNilConst := func(v ssa.Value) bool { k, ok := v.(*ssa.Const); return ok && k.IsNil() }
	if (x.Op == token.EQL || x.Op == token.NEQ) && (isNilConst(x.X) || isNilConst(x.Y)) {
		o := a
		if isNilConst(x.X) {
			o = b
		}
		t := o.isNil
		if !o.isSlice && len(o.syms) > 0 && !o.unknown {
			// interface holding a concrete type, a package variable (assumed set), an allocation
			allNonNil, allNil := true, true
			for _, s := range o.syms {
				if s == "nil" {
					allNonNil = false
				} else if s == "?" {
					allNonNil, allNil = false, false
				} else {
					allNil = false
				}
			}
			if allNonNil {
				t = triFalse
			} else if allNil {
				t = triTrue
			}
		}
		if t == triUnknown {
			return avBool(triUnknown)
		}
		if (t == triTrue) == (x.Op == token.EQL) {
			return avBool(triTrue)
		}
		return avBool(triFalse)
	}
	if a.isBool && b.isBool && a.b != triUnknown && b.b != triUnknown && (x.Op == token.EQL || x.Op == token.NEQ) {
		if (a.b == b.b) == (x.Op == token.EQL) {
			return avBool(triTrue)
		}
		return avBool(triFalse)
	}
	if a.isInt && b.isInt {
		if a.c != nil && b.c != nil {
			if cmpInt(x.Op, *a.c, *b.c) {
				return avBool(triTrue)
			}
			return avBool(triFalse)
		}
		// sign class against a constant: each class is an interval; the comparison is decided when it
		// has one truth value over the whole interval
		dec := func(s uint8, k int64, left bool) tri {
			res := tri(-1)
			try := func(lo, hi int64) {
				var t tri
				switch x.Op {
				case token.EQL, token.NEQ:
					switch {
					case lo == hi && lo == k:
						t = triTrue
					case k < lo || k > hi:
						t = triFalse
					default:
						t = triUnknown
					}
					if x.Op == token.NEQ && t != triUnknown {
						t = 1 - t
					}
				default:
					var v0, v1 bool
					if left {
						v0, v1 = cmpInt(x.Op, lo, k), cmpInt(x.Op, hi, k)
					} else {
						v0, v1 = cmpInt(x.Op, k, lo), cmpInt(x.Op, k, hi)
					}
					switch {
					case v0 != v1:
						t = triUnknown
					case v0:
						t = triTrue
					default:
						t = triFalse
					}
				}
				if res == tri(-1) {
					res = t
				} else {
					res = triJoin(res, t)
				}
			}
			const big = int64(1) << 40
			if s&sgNeg != 0 {
				try(-big, -1)
			}
			if s&sgZero != 0 {
				try(0, 0)
			}
			if s&sgPos != 0 {
				try(1, big)
			}
			if res == tri(-1) {
				return triUnknown
			}
			return res
		}
		if b.c != nil && *b.c > -(1<<39) && *b.c < 1<<39 {
			return avBool(dec(a.sign, *b.c, true))
		}
		if a.c != nil && *a.c > -(1<<39) && *a.c < 1<<39 {
			return avBool(dec(b.sign, *a.c, false))
		}
	}
	if len(a.syms) == 1 && len(b.syms) == 1 && strings.HasPrefix(a.syms[0], "str:") && strings.HasPrefix(b.syms[0], "str:") && (x.Op == token.EQL || x.Op == token.NEQ) {
		if (a.syms[0] == b.syms[0]) == (x.Op == token.EQL) {
			return avBool(triTrue)
		}
		return avBool(triFalse)
	}
	return avBool(triUnknown)
}

// evalCall: abstract results of a call (joined over feasible success paths of the callee).
func (e *ceEnv) evalCall(call *ssa.Call) []av {
	if r, ok := e.memo[call]; ok {
		return r
	}
	nres := 1
	if tup, ok := call.Type().(*types.Tuple); ok {
		nres = tup.Len()
	}
	unk := make([]av, nres)
	for i := range unk {
		unk[i] = avUnknown()
		var rt types.Type = call.Type()
		if tup, ok := call.Type().(*types.Tuple); ok {
			rt = tup.At(i).Type()
		}
		if _, isSl := rt.Underlying().(*types.Slice); isSl {
			unk[i] = avSlice(triUnknown, triUnknown)
		} else if bt, ok := rt.Underlying().(*types.Basic); ok && bt.Info()&types.IsBoolean != 0 {
			unk[i] = avBool(triUnknown)
		} else if ok && bt.Info()&types.IsInteger != 0 {
			unk[i] = avIntSign(sgAny)
		} else if _, isPtr := rt.Underlying().(*types.Pointer); isPtr {
			// a concrete pointer result: its dynamic type is its static type
			unk[i].syms = nil
		}
	}
	if b, ok := call.Call.Value.(*ssa.Builtin); ok {
		if b.Name() == "len" && len(call.Call.Args) == 1 {
			a := e.eval(call.Call.Args[0])
			switch {
			case a.isSlice && a.nonEmpty == triTrue:
				return []av{avIntSign(sgPos)}
			case a.isSlice && (a.nonEmpty == triFalse || a.isNil == triTrue):
				return []av{avIntConst(0)}
			}
			return []av{avIntSign(sgZero | sgPos)}
		}
		return unk
	}
	callee := call.Call.StaticCallee()
	if callee == nil || callee.Blocks == nil || e.depth >= 5 {
		return unk
	}
	if callee.Pkg != nil && !e.p.IsModFunc(callee) {
		// outside the module: only tiny accessor-like functions are evaluated
		n := 0
		for _, b := range callee.Blocks {
			n += len(b.Instrs)
		}
		if n > 12 {
			return unk
		}
	}
	// descend only where the partition can matter: an argument carries class information, or the
	// callee is small (accessors); each descent has its own budget
	informative := false
	for _, a := range call.Call.Args {
		v := e.eval(a)
		if (v.isBool && v.b != triUnknown) || (v.isSlice && (v.isNil != triUnknown || v.nonEmpty != triUnknown)) || (v.isInt && (v.c != nil || v.sign != sgAny && v.sign != sgZero|sgPos)) || len(v.syms) > 0 {
			informative = true
		}
	}
	// a pointer to a record some of whose fields carry class information (the options struct handed
	// on to a validation helper)
	if !informative {
		for _, a := range call.Call.Args {
			if nm := namedOf(a.Type()); nm != "" && structOf(a.Type()) != nil {
				for k := range e.fields {
					if strings.HasPrefix(k, nm+".") {
						informative = true
					}
				}
			}
		}
	}
	if !informative {
		n := 0
		for _, b := range callee.Blocks {
			n += len(b.Instrs)
		}
		if n > 40 {
			e.memo[call] = unk
			return unk
		}
	}
	subBudget := 4000
	if *e.budget < subBudget {
		subBudget = *e.budget
	}
	*e.budget -= subBudget / 8
	sub := &ceEnv{p: e.p, fields: e.fields, params: map[*ssa.Parameter]av{}, chosen: map[*ssa.Phi]ssa.Value{}, cells: map[*ssa.Alloc]ssa.Value{}, loads: map[*ssa.UnOp]ssa.Value{}, depth: e.depth + 1, budget: &subBudget, memo: map[*ssa.Call][]av{}, hook: e.hook}
	for i, a := range call.Call.Args {
		if i < len(callee.Params) {
			sub.params[callee.Params[i]] = e.eval(a)
		}
	}
	rets, complete := sub.run(callee)
	if complete && len(rets) == 0 {
		// every path of the callee under this class ends in a failure return (they are dropped by
		// run): the error result is certainly non-nil
		var lt types.Type = call.Type()
		if tup, ok := call.Type().(*types.Tuple); ok && tup.Len() > 0 {
			lt = tup.At(tup.Len() - 1).Type()
		}
		if isErrorType(lt) {
			res := append([]av{}, unk...)
			res[nres-1] = av{isNil: triFalse, b: triUnknown, nonEmpty: triUnknown, sign: sgAny}
			e.memo[call] = res
			return res
		}
	}
	if !complete || len(rets) == 0 {
		e.memo[call] = unk
		return unk
	}
	res := make([]av, nres)
	for i := 0; i < nres; i++ {
		first := true
		for _, r := range rets {
			if i >= len(r) {
				continue
			}
			if first {
				res[i] = r[i]
				first = false
			} else {
				res[i] = avJoin(res[i], r[i])
			}
		}
		if first {
			res[i] = unk[i]
		}
	}
	e.memo[call] = res
	return res
}

// isFailureReturn: the function's last result is an error that is certainly non-nil here.
func (e *ceEnv) isFailureReturn(ret *ssa.Return) bool {
	if len(ret.Results) == 0 {
		return false
	}
	last := ret.Results[len(ret.Results)-1]
	if !isErrorType(last.Type()) {
		return false
	}
	for {
		ld, ok := last.(*ssa.UnOp)
		if !ok || ld.Op != token.MUL {
			break
		}
		if s, ok := e.loads[ld]; ok && s != nil {
			last = s
			continue
		}
		break
	}
	a := e.eval(last)
	if len(a.syms) == 0 && a.isNil == triFalse && !a.isSlice {
		return true // the error a helper returned on all of its paths under this class
	}
	// on a path that passed `err != nil` the returned err is non-nil
	if len(a.syms) == 0 && e.refinedNonNil[last] {
		return true
	}
	if len(a.syms) == 0 {
		// a call constructing an error (errors.New, fmt.Errorf, ...)
		if c, ok := last.(*ssa.Call); ok {
			if cal := c.Call.StaticCallee(); cal != nil && cal.Pkg != nil {
				switch cal.Pkg.Pkg.Path() + "." + cal.Name() {
				case "errors.New", "fmt.Errorf":
					return true
				}
			}
		}
		return false
	}
	for _, s := range a.syms {
		if s == "nil" || s == "?" {
			return false
		}
	}
	return true
}

// run enumerates the feasible paths of fn and returns the abstract results of every success
// return; complete is false when the budget ran out.
func (e *ceEnv) run(fn *ssa.Function) (rets [][]av, complete bool) {
	complete = true
	back := map[*ssa.BasicBlock]bool{}
	for _, b := range fn.Blocks {
		for _, p := range b.Preds {
			if b.Dominates(p) {
				back[b] = true
			}
		}
	}
	onPath := map[*ssa.BasicBlock]bool{}
	var walk func(b, prev *ssa.BasicBlock)
	walk = func(b, prev *ssa.BasicBlock) {
		if *e.budget <= 0 {
			complete = false
			return
		}
		*e.budget--
		if onPath[b] {
			return // around a loop: the exit edges were followed from the first visit
		}
		onPath[b] = true
		defer delete(onPath, b)
		saved := map[*ssa.Phi]ssa.Value{}
		for _, in := range b.Instrs {
			phi, ok := in.(*ssa.Phi)
			if !ok {
				break
			}
			saved[phi] = e.chosen[phi]
			e.chosen[phi] = nil
			if !back[b] && prev != nil {
				for i, p := range b.Preds {
					if p == prev {
						e.chosen[phi] = phi.Edges[i]
					}
				}
			}
		}
		defer func() {
			for k, v := range saved {
				e.chosen[k] = v
			}
		}()
		type cellSave struct {
			a *ssa.Alloc
			v ssa.Value
			h bool
		}
		var cs []cellSave
		var ls []*ssa.UnOp
		for _, in := range b.Instrs {
			switch x := in.(type) {
			case *ssa.Store:
				if al, ok := x.Addr.(*ssa.Alloc); ok {
					old, had := e.cells[al]
					cs = append(cs, cellSave{al, old, had})
					e.cells[al] = x.Val
				}
			case *ssa.UnOp:
				if al, ok := x.X.(*ssa.Alloc); ok && x.Op == token.MUL {
					if v, ok := e.cells[al]; ok {
						e.loads[x] = v
						ls = append(ls, x)
					}
				}
			}
		}
		defer func() {
			for i := len(cs) - 1; i >= 0; i-- {
				if cs[i].h {
					e.cells[cs[i].a] = cs[i].v
				} else {
					delete(e.cells, cs[i].a)
				}
			}
			for _, l := range ls {
				delete(e.loads, l)
			}
		}()
		switch t := b.Instrs[len(b.Instrs)-1].(type) {
		case *ssa.Return:
			if e.isFailureReturn(t) {
				return
			}
			var r []av
			for _, v := range t.Results {
				r = append(r, e.evalResult(v))
			}
			rets = append(rets, r)
		case *ssa.If:
			c := e.eval(t.Cond)
			if c.b != triFalse {
				undo := e.refine(t.Cond, true)
				walk(b.Succs[0], b)
				undo()
			}
			if c.b != triTrue {
				undo := e.refine(t.Cond, false)
				walk(b.Succs[1], b)
				undo()
			}
		case *ssa.Panic:
		default:
			for _, s := range b.Succs {
				walk(s, b)
			}
		}
	}
	walk(fn.Blocks[0], nil)
	return
}

// evalResult: like eval, but a returned struct value keeps its field values as "field=value" symbols.
func (e *ceEnv) evalResult(v ssa.Value) av {
	if ld, ok := v.(*ssa.UnOp); ok && ld.Op == token.MUL {
		if al, ok := ld.X.(*ssa.Alloc); ok {
			if st, ok := al.Type().Underlying().(*types.Pointer).Elem().Underlying().(*types.Struct); ok && singleStore(al) == nil {
				a := avUnknown()
				a.unknown = false
				for i := 0; i < st.NumFields(); i++ {
					if s := e.singleFieldStore(al, i); s != nil {
						fv := e.eval(s)
						a.syms = append(a.syms, st.Field(i).Name()+"="+fv.String())
					}
				}
				sort.Strings(a.syms)
				if len(a.syms) > 0 {
					return a
				}
			}
		}
	}
	return e.eval(v)
}

// refine records, for the branch taken, what a comparison of an unknown integer with a constant
// says about that integer (interval bounds keyed by the SSA value); returns the undo function.
func (e *ceEnv) refine(cond ssa.Value, truth bool) func() {
	bin, ok := cond.(*ssa.BinOp)
	if !ok {
		return func() {}
	}
	// v != nil taken (or v == nil not taken): v is non-nil on this path
	if bin.Op == token.NEQ || bin.Op == token.EQL {
		isNilC := func(x ssa.Value) bool { k, ok := x.(*ssa.Const); return ok && k.IsNil() }
		var nv ssa.Value
		if isNilC(bin.Y) {
			nv = bin.X
		} else if isNilC(bin.X) {
			nv = bin.Y
		}
		if nv != nil && ((bin.Op == token.NEQ) == truth) {
			if e.refinedNonNil == nil {
				e.refinedNonNil = map[ssa.Value]bool{}
			}
			if !e.refinedNonNil[nv] {
				e.refinedNonNil[nv] = true
				return func() { delete(e.refinedNonNil, nv) }
			}
			return func() {}
		}
	}
	var v ssa.Value
	var k int64
	op := bin.Op
	a, b := e.eval(bin.X), e.eval(bin.Y)
	switch {
	case b.isInt && b.c != nil && !(a.isInt && a.c != nil):
		v, k = bin.X, *b.c
	case a.isInt && a.c != nil && !(b.isInt && b.c != nil):
		v, k = bin.Y, *a.c
		// mirror the operator:  k op v  <=>  v op' k
		switch op {
		case token.LSS:
			op = token.GTR
		case token.LEQ:
			op = token.GEQ
		case token.GTR:
			op = token.LSS
		case token.GEQ:
			op = token.LEQ
		}
	default:
		return func() {}
	}
	if !truth {
		switch op {
		case token.LSS:
			op = token.GEQ
		case token.LEQ:
			op = token.GTR
		case token.GTR:
			op = token.LEQ
		case token.GEQ:
			op = token.LSS
		case token.EQL:
			op = token.NEQ
		case token.NEQ:
			op = token.EQL
		}
	}
	if e.bounds == nil {
		e.bounds = map[ssa.Value][2]*int64{}
	}
	old, had := e.bounds[v]
	nb := old
	set := func(i int, x int64) {
		if nb[i] == nil || (i == 0 && x > *nb[i]) || (i == 1 && x < *nb[i]) {
			xx := x
			nb[i] = &xx
		}
	}
	switch op {
	case token.LSS:
		set(1, k-1)
	case token.LEQ:
		set(1, k)
	case token.GTR:
		set(0, k+1)
	case token.GEQ:
		set(0, k)
	case token.EQL:
		set(0, k)
		set(1, k)
	default:
		return func() {}
	}
	e.bounds[v] = nb
	return func() {
		if had {
			e.bounds[v] = old
		} else {
			delete(e.bounds, v)
		}
	}
}
